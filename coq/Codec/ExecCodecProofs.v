(* Proofs about Codec/ExecCodec.v (model of pkg/core/state/notification_event.go and contract_invocation.go):
   for NotificationEvent, ContractInvocation and AppExecResult: decode_encode, decode_wf, decode_canonical,
   consumption, and the bound on the number of stack items of an execution result.
   [T_wf] describes exactly what the decoder returns.  Serialisability is a separate matter: the item decoder checks
   counts and per-field maxima, Serialize additionally checks the total size (MaxSize), so a decoded value need not
   re-encode; [item_fits] / [notification_fits] / [aer_fits] say that it does, and follow from the input itself being
   within MaxSize. *)
From NG Require Import Common.Tactics Codec.Bigint Codec.BigintProofs Codec.Wire Codec.WireProofs
  Codec.ItemCodec Codec.ItemCodecProofs Codec.ExecCodec.
Open Scope Z_scope.

Opaque max_items.

(* one monadic step whose result is known *)
Ltac step_ok tac := erewrite bind_ok; [|solve [tac]].

Lemma read_n_length {A} (d : dec A) n bs l rest : read_n d n bs = Some (l, rest) -> length l = n.
Proof.
  revert bs l rest. induction n as [|n IH]; intros bs l rest H; cbn [read_n] in H.
  - inv H. reflexivity.
  - apply bind_some in H as (x & r & Hx & H). apply bind_some in H as (t & r' & Ht & H). inv H.
    apply IH in Ht. cbn [length]. lia.
Qed.

(* the canonical size of the elements read is bounded by the input consumed *)
Lemma read_n_minimal {A} (wf : A -> Prop) (d : dec A) (sz : A -> nat) :
  dec_wf wf d ->
  (forall bs v rest, bytes_ok bs -> d bs = Some (v, rest) -> (sz v + length rest <= length bs)%nat) ->
  forall n bs l rest, bytes_ok bs -> read_n d n bs = Some (l, rest) ->
    (list_sum (map sz l) + length rest <= length bs)%nat.
Proof.
  intros Hw Hm n. induction n as [|n IH]; intros bs l rest Hb H; cbn [read_n] in H.
  - inv H. cbn. apply Nat.le_refl.
  - apply bind_some in H as (x & r & Hx & H). apply bind_some in H as (t & r' & Ht & H). inv H.
    destruct (Hw _ _ _ Hb Hx) as [_ Hr]. pose proof (Hm _ _ _ Hb Hx) as H1. pose proof (IH _ _ _ Hr Ht) as H2.
    change (list_sum (map sz (x :: t))) with (sz x + list_sum (map sz t))%nat. clear - H1 H2. lia.
Qed.
Lemma list_sum_Forall_le {A} (sz : A -> nat) l m : (list_sum (map sz l) <= m)%nat -> Forall (fun x => (sz x <= m)%nat) l.
Proof.
  induction l as [|x t IH]; intros H; [constructor|].
  change (list_sum (map sz (x :: t))) with (sz x + list_sum (map sz t))%nat in H. constructor; [clear - H; lia|apply IH; clear - H; lia].
Qed.

(* ================= NotificationEvent ================= *)
(* exactly what DecodeBinary returns: 20-byte hash, a name within MaxArraySize, normal-mode items within the
   item-count limit (the array itself counts) *)
Definition notification_wf (n : notification) : Prop :=
  length (nhash n) = 20%nat /\ bytes_ok (nhash n) /\
  bytes_ok (nname n) /\ Z.of_nat (length (nname n)) <= max_array /\
  Forall item_wf (nitems n) /\ (count_item (IArray (nitems n)) <= max_items)%nat.
(* the state array is within MaxSize (the encoder's Serialize call succeeds) *)
Definition item_fits (i : item) : Prop := Z.of_nat (length (enc_item i)) <= max_size.
Definition notification_fits (n : notification) : Prop := item_fits (IArray (nitems n)).
Definition notification_size (n : notification) : nat :=
  (20 + length (write_varbytes (nname n)) + length (enc_item (IArray (nitems n))))%nat.

Lemma write_notification_some n bs :
  write_notification n = Some bs <->
  bs = nhash n ++ write_varbytes (nname n) ++ enc_item (IArray (nitems n)) /\
  plain (IArray (nitems n)) = true /\ (count_item (IArray (nitems n)) <= max_items)%nat /\ notification_fits n.
Proof.
  unfold write_notification, notification_fits, item_fits. split.
  - destruct (serialize (IArray (nitems n))) as [b|] eqn:E; [|discriminate]. intros H; inv H.
    pose proof (serialize_plain _ _ E). apply serialize_some in E as (-> & Hc & Hs). auto.
  - intros (-> & Hp & Hc & Hs). rewrite serialize_ok by assumption. reflexivity.
Qed.
Lemma notification_wf_writes n : notification_wf n -> notification_fits n ->
  write_notification n = Some (nhash n ++ write_varbytes (nname n) ++ enc_item (IArray (nitems n))).
Proof.
  intros (_ & _ & _ & _ & Hi & Hc) Hf. apply write_notification_some. split; [reflexivity|].
  split; [|split; assumption]. apply item_wf_plain. constructor. exact Hi.
Qed.

Lemma read_notification_some bs v rest :
  read_notification bs = Some (v, rest) ->
  exists r1 r2 i, read_bytes 20 bs = Some (nhash v, r1) /\ read_varbytes max_array r1 = Some (nname v, r2) /\
                  read_item_dec false r2 = Some (i, rest) /\ (i = IArray (nitems v) \/ i = IStruct (nitems v)).
Proof.
  unfold read_notification. intros H.
  apply bind_some in H as (h & r1 & Hh & H). apply bind_some in H as (nm & r2 & Hn & H).
  apply bind_some in H as (i & r3 & Hi & H). exists r1, r2, i.
  destruct i; try discriminate; inv H; cbn [nhash nname nitems]; auto.
Qed.

Theorem notification_decode_encode v bs rest :
  write_notification v = Some bs -> notification_wf v -> read_notification (bs ++ rest) = Some (v, rest).
Proof.
  intros Hw (Hl & _ & _ & Hn & Hi & _). apply write_notification_some in Hw as (-> & _ & Hc & _).
  destruct v as [h nm l]. cbn [nhash nname nitems] in *. unfold read_notification. rewrite <- !app_assoc.
  step_ok ltac:(apply read_bytes_app; exact Hl).
  step_ok ltac:(apply varbytes_roundtrip; unfold max_array in *; lia).
  step_ok ltac:(apply read_item_dec_enc; [constructor; exact Hi|exact Hc]).
  reflexivity.
Qed.

Theorem notification_decode_wf : dec_wf notification_wf read_notification.
Proof.
  intros bs v rest Hb H. apply read_notification_some in H as (r1 & r2 & i & Hh & Hn & Hi & Hv).
  destruct (read_bytes_wf _ _ _ _ Hb Hh) as [[Hl Hhb] Hr1].
  pose proof (read_varbytes_some _ _ _ _ Hr1 Hn) as (Hnl & _ & Hnb & Hr2 & _).
  pose proof (read_item_dec_wf _ _ _ _ Hr2 Hi) as (Hw & Hc & Hr).
  split; [|exact Hr]. unfold notification_wf. repeat split; try assumption.
  - destruct Hv as [-> | ->]; inv Hw; assumption.
  - destruct Hv as [-> | ->]; [exact Hc|]. rewrite count_item_array. rewrite count_item_struct in Hc. exact Hc.
Qed.

Theorem notification_consumes : dec_consumes read_notification.
Proof.
  intros bs v rest H. apply read_notification_some in H as (r1 & r2 & i & Hh & Hn & Hi & _).
  apply read_bytes_shrinks in Hh. apply read_varbytes_consumes in Hn. apply read_item_dec_consumes in Hi. lia.
Qed.

(* the canonical encoding of what was read is not longer than the bytes consumed (a Struct re-encodes as an Array
   of the same length; non-minimal var-uints and integers shrink) *)
Theorem notification_minimal bs v rest :
  bytes_ok bs -> read_notification bs = Some (v, rest) -> (notification_size v + length rest <= length bs)%nat.
Proof.
  intros Hb H. apply read_notification_some in H as (r1 & r2 & i & Hh & Hn & Hi & Hv).
  destruct (read_bytes_wf _ _ _ _ Hb Hh) as [[Hl Hhb] Hr1]. apply read_bytes_some in Hh as [-> _].
  pose proof (read_varbytes_some _ _ _ _ Hr1 Hn) as (_ & _ & _ & Hr2 & _).
  pose proof (read_varbytes_minimal _ _ _ _ Hr1 Hn). pose proof (read_item_dec_minimal _ _ _ _ Hr2 Hi) as Hm.
  unfold notification_size. rewrite app_length, Hl.
  destruct Hv as [-> | ->]; [lia|]. rewrite enc_item_struct in Hm. rewrite enc_item_array. cbn [length] in *. lia.
Qed.
Corollary notification_fits_of_size bs v rest :
  bytes_ok bs -> Z.of_nat (length bs) <= max_size -> read_notification bs = Some (v, rest) -> notification_fits v.
Proof.
  intros Hb Hs H. pose proof (notification_minimal _ _ _ Hb H) as Hm. unfold notification_size in Hm.
  unfold notification_fits, item_fits. lia.
Qed.

(* decode_canonical: whatever form was read, the canonical encoding exists when the state array is within MaxSize
   (in particular when the input was), is not longer, and decodes to the same value *)
Theorem notification_decode_canonical bs v rest rest' :
  bytes_ok bs -> read_notification bs = Some (v, rest) -> notification_fits v ->
  exists bs', write_notification v = Some bs' /\ read_notification (bs' ++ rest') = Some (v, rest') /\
              (length bs' + length rest <= length bs)%nat.
Proof.
  intros Hb H Hf. pose proof (notification_decode_wf _ _ _ Hb H) as [Hw _].
  pose proof (notification_minimal _ _ _ Hb H) as Hm.
  eexists. split; [apply notification_wf_writes; assumption|].
  split; [apply notification_decode_encode; [apply notification_wf_writes|]; assumption|].
  destruct Hw as (Hl & _). unfold notification_size in Hm. rewrite !app_length, Hl. lia.
Qed.
Corollary notification_decode_canonical_size bs v rest rest' :
  bytes_ok bs -> Z.of_nat (length bs) <= max_size -> read_notification bs = Some (v, rest) ->
  exists bs', write_notification v = Some bs' /\ read_notification (bs' ++ rest') = Some (v, rest') /\
              (length bs' + length rest <= length bs)%nat.
Proof. intros Hb Hs H. eapply notification_decode_canonical; eauto. eapply notification_fits_of_size; eauto. Qed.

(* ================= ContractInvocation ================= *)
(* exactly what DecodeBinary returns; a truncated invocation carries no argument bytes *)
Definition invocation_wf (c : invocation) : Prop :=
  length (chash c) = 20%nat /\ bytes_ok (chash c) /\
  bytes_ok (cmethod c) /\ Z.of_nat (length (cmethod c)) <= max_array /\
  0 <= cargc c < 2 ^ 32 /\
  bytes_ok (cargs c) /\ Z.of_nat (length (cargs c)) <= max_array /\
  (ctruncated c = true -> cargs c = []).

Lemma read_invocation_some bs c rest :
  read_invocation bs = Some (c, rest) ->
  exists r1 r2 r3 r4, read_bytes 20 bs = Some (chash c, r1) /\ read_varbytes max_array r1 = Some (cmethod c, r2) /\
    read_u 4 r2 = Some (cargc c, r3) /\ read_bool_lax r3 = Some (ctruncated c, r4) /\
    ((ctruncated c = true /\ cargs c = [] /\ rest = r4) \/
     (ctruncated c = false /\ read_varbytes max_array r4 = Some (cargs c, rest))).
Proof.
  unfold read_invocation. intros H.
  apply bind_some in H as (h & r1 & Hh & H). apply bind_some in H as (m & r2 & Hm & H).
  apply bind_some in H as (n & r3 & Hn & H). apply bind_some in H as (t & r4 & Ht & H).
  exists r1, r2, r3, r4. destruct t.
  - inv H. cbn [chash cmethod cargc ctruncated cargs]. auto 10.
  - apply bind_some in H as (a & r5 & Ha & H). inv H. cbn [chash cmethod cargc ctruncated cargs]. auto 10.
Qed.

Theorem invocation_decode_encode : codec_ok invocation_wf write_invocation read_invocation.
Proof.
  intros [h m n t a] rest (Hl & _ & _ & Hm & Hn & _ & Ha & Ht). cbn [chash cmethod cargc ctruncated cargs] in *.
  unfold write_invocation, read_invocation. cbn [chash cmethod cargc ctruncated cargs]. rewrite <- !app_assoc.
  step_ok ltac:(apply read_bytes_app; exact Hl).
  step_ok ltac:(apply varbytes_roundtrip; unfold max_array in *; lia).
  step_ok ltac:(apply (read_u_write 4); exact Hn).
  step_ok ltac:(apply read_bool_lax_write).
  destruct t.
  - rewrite (Ht eq_refl). reflexivity.
  - step_ok ltac:(apply varbytes_roundtrip; unfold max_array in *; lia). reflexivity.
Qed.

Theorem invocation_decode_wf : dec_wf invocation_wf read_invocation.
Proof.
  intros bs c rest Hb H. apply read_invocation_some in H as (r1 & r2 & r3 & r4 & Hh & Hm & Hn & Ht & Ha).
  destruct (read_bytes_wf _ _ _ _ Hb Hh) as [[Hl Hhb] Hr1].
  pose proof (read_varbytes_some _ _ _ _ Hr1 Hm) as (Hml & _ & Hmb & Hr2 & _).
  pose proof (read_u_some _ _ _ _ Hr2 Hn) as (Hnr & -> & Hr3). change (8 * Z.of_nat 4) with 32 in Hnr.
  apply read_bool_lax_some in Ht as [x ->]. inv Hr3. rename H2 into Hr4.
  unfold invocation_wf. destruct Ha as [(Et & Ea & ->) | (Et & Ha)].
  - rewrite Ea, Et. repeat split; try assumption; try constructor; try lia. cbn [length]. unfold max_array. lia.
  - pose proof (read_varbytes_some _ _ _ _ Hr4 Ha) as (Hal & _ & Hab & Hr & _).
    rewrite Et. repeat split; try assumption; try lia.
Qed.

Theorem invocation_consumes : dec_consumes read_invocation.
Proof.
  intros bs c rest H. apply read_invocation_some in H as (r1 & r2 & r3 & r4 & Hh & Hm & Hn & Ht & Ha).
  apply read_bytes_shrinks in Hh. apply read_varbytes_consumes in Hm. apply (read_u_consumes 4) in Hn; [|lia].
  apply read_bool_lax_some in Ht as [x ->]. cbn [length] in *.
  destruct Ha as [(_ & _ & ->) | (_ & Ha)]; [lia|]. apply read_varbytes_consumes in Ha. lia.
Qed.

(* decode_canonical: non-minimal var-uints and a Truncated byte other than 0/1 are normalised *)
Theorem invocation_decode_canonical bs c rest rest' :
  bytes_ok bs -> read_invocation bs = Some (c, rest) -> read_invocation (write_invocation c ++ rest') = Some (c, rest').
Proof. apply (canonical_of invocation_wf); [exact invocation_decode_encode|exact invocation_decode_wf]. Qed.

Theorem invocation_minimal bs c rest :
  bytes_ok bs -> read_invocation bs = Some (c, rest) -> (length (write_invocation c) + length rest <= length bs)%nat.
Proof.
  intros Hb H. apply read_invocation_some in H as (r1 & r2 & r3 & r4 & Hh & Hm & Hn & Ht & Ha).
  destruct (read_bytes_wf _ _ _ _ Hb Hh) as [[Hl Hhb] Hr1]. apply read_bytes_some in Hh as [-> _].
  pose proof (read_varbytes_some _ _ _ _ Hr1 Hm) as (_ & _ & _ & Hr2 & _).
  pose proof (read_varbytes_minimal _ _ _ _ Hr1 Hm) as Hmm.
  pose proof (read_u_some _ _ _ _ Hr2 Hn) as (_ & -> & Hr3).
  apply read_bool_lax_some in Ht as [x ->]. inv Hr3. rename H2 into Hr4.
  unfold write_invocation. rewrite !app_length, Hl, le_bytes_length in *. cbn [length write_bool] in *.
  destruct Ha as [(Et & Ea & ->) | (Et & Ha)]; rewrite Et; cbn [length]; [lia|].
  pose proof (read_varbytes_minimal _ _ _ _ Hr4 Ha). lia.
Qed.

(* ================= AppExecResult ================= *)
(* a stack item as DecodeBinaryProtected returns it *)
Definition stack_item_wf (i : item) : Prop := item_wf_p i /\ (count_item i <= max_items)%nat.
(* exactly what DecodeBinary returns: the state byte without the save-invocations bit (the decoder clears it),
   at most MaxDeserialized stack items, arrays within MaxArraySize *)
Definition aer_wf (a : aer) : Prop :=
  length (acontainer a) = 32%nat /\ bytes_ok (acontainer a) /\
  0 <= atrigger a < 256 /\ 0 <= avmstate a < 128 /\ 0 <= agas a < 2 ^ 64 /\
  (length (astack a) <= max_items)%nat /\ Forall stack_item_wf (astack a) /\
  Z.of_nat (length (aevents a)) <= max_array /\ Forall notification_wf (aevents a) /\
  bytes_ok (afault a) /\ Z.of_nat (length (afault a)) <= max_array /\
  Z.of_nat (length (ainvocs a)) <= max_array /\ Forall invocation_wf (ainvocs a).
(* every stack item is serialisable in protected mode: otherwise the writer emits the Invalid marker in its place
   and the value does not come back (see [aer_unfit_stack_item]); every event's state array is within MaxSize
   (otherwise the writer fails) *)
Definition aer_fits (a : aer) : Prop := Forall item_fits (astack a) /\ Forall notification_fits (aevents a).

(* ---- the state byte ---- *)
Lemma forall_below (f : Z -> bool) n :
  forallb f (map Z.of_nat (seq 0 n)) = true -> forall z, 0 <= z < Z.of_nat n -> f z = true.
Proof.
  intros H z Hz. rewrite forallb_forall in H. apply H. apply in_map_iff. exists (Z.to_nat z).
  split; [lia|]. apply in_seq. lia.
Qed.
Lemma state_bit_set st : 0 <= st < 128 ->
  Z.land st 128 = 0 /\ Z.land (Z.lor st 128) 128 <> 0 /\ Z.land (Z.lor st 128) 127 = st /\ 0 <= Z.lor st 128 < 256.
Proof.
  intros H.
  pose proof (forall_below (fun st => (Z.land st 128 =? 0) && negb (Z.land (Z.lor st 128) 128 =? 0)
                                      && (Z.land (Z.lor st 128) 127 =? st) && (Z.lor st 128 <? 256)) 128
                ltac:(vm_compute; reflexivity) st H) as Hb.
  cbv beta in Hb. pose proof (Z.lor_nonneg st 128). lia.
Qed.
Lemma state_byte st : 0 <= st < 256 ->
  (Z.land st 128 = 0 -> 0 <= st < 128) /\ 0 <= Z.land st 127 < 128.
Proof.
  intros H.
  pose proof (forall_below (fun st => (negb (Z.land st 128 =? 0) || (st <? 128)) && (Z.land st 127 <? 128)) 256
                ltac:(vm_compute; reflexivity) st H) as Hb.
  cbv beta in Hb. pose proof (Z.land_nonneg st 127). lia.
Qed.

(* ---- events ---- *)
Lemma write_notifications_some l ev :
  write_notifications l = Some ev ->
  Forall notification_fits l /\
  ev = flat_map (fun n => nhash n ++ write_varbytes (nname n) ++ enc_item (IArray (nitems n))) l /\
  Forall (fun n => exists b, write_notification n = Some b) l.
Proof.
  revert ev. induction l as [|n t IH]; intros ev H; cbn [write_notifications] in H.
  - inv H. repeat split; constructor.
  - destruct (write_notification n) as [a|] eqn:Ea; [|discriminate].
    destruct (write_notifications t) as [b|] eqn:Eb; [|discriminate]. inv H.
    destruct (IH _ eq_refl) as (Hf & -> & Hw). pose proof Ea as Ea'. apply write_notification_some in Ea as (-> & _ & _ & Hfn).
    split; [constructor; assumption|]. split; [cbn [flat_map]; rewrite <- !app_assoc; reflexivity|].
    constructor; [eauto|assumption].
Qed.
Lemma write_notifications_ok l : Forall notification_wf l -> Forall notification_fits l ->
  exists ev, write_notifications l = Some ev.
Proof.
  induction 1 as [|n t Hn Ht IH]; intros Hf; cbn [write_notifications]; [eauto|]. inv Hf.
  rewrite (notification_wf_writes n Hn H1). destruct (IH H2) as [b ->]. eauto.
Qed.
Lemma read_notifications_write l : Forall notification_wf l -> forall ev rest,
  write_notifications l = Some ev -> read_n read_notification (length l) (ev ++ rest) = Some (l, rest).
Proof.
  induction 1 as [|n t Hn Ht IH]; intros ev rest H; cbn [write_notifications length read_n] in *.
  - inv H. reflexivity.
  - destruct (write_notification n) as [a|] eqn:Ea; [|discriminate].
    destruct (write_notifications t) as [b|] eqn:Eb; [|discriminate]. inv H. rewrite <- app_assoc.
    step_ok ltac:(apply notification_decode_encode; [exact Ea|exact Hn]).
    step_ok ltac:(apply IH; reflexivity). reflexivity.
Qed.

Lemma read_array_notifications l ev rest :
  Forall notification_wf l -> Z.of_nat (length l) <= max_array -> write_notifications l = Some ev ->
  read_array read_notification max_array (write_varuint (Z.of_nat (length l)) ++ ev ++ rest) = Some (l, rest).
Proof.
  intros Hw Hl He. unfold read_array.
  step_ok ltac:(apply varuint_roundtrip; unfold u64_ok, max_array in *; lia).
  replace (max_array <? Z.of_nat (length l)) with false by lia. rewrite Nat2Z.id.
  apply read_notifications_write; assumption.
Qed.

(* ---- stack ---- *)
Lemma stack_codec : codec_ok (fun i => stack_item_wf i /\ item_fits i) serialize_prot (read_item_dec true).
Proof.
  intros i rest [[Hw Hc] Hf]. rewrite serialize_prot_ok by assumption. apply read_item_dec_enc; assumption.
Qed.
Lemma stack_dec_wf : dec_wf stack_item_wf (read_item_dec true).
Proof. intros bs i rest Hb H. apply read_item_dec_wf in H as (Hw & Hc & Hr); [|assumption]. split; [split|]; assumption. Qed.
(* the writer never fails on a stack item: an item beyond the limits is written as the Invalid marker, which reads
   back as the nil item, not as the item *)
Theorem aer_unfit_stack_item i rest :
  ~ ((count_item i <= max_items)%nat /\ item_fits i) ->
  serialize_prot i = [255] /\ read_item_dec true (serialize_prot i ++ rest) = Some (IInvalid, rest).
Proof.
  intros Hn. assert (serialize_prot i = [255]) as E.
  { rewrite serialize_prot_total. case_if; [|reflexivity]. exfalso. apply Hn. unfold item_fits. lia. }
  split; [exact E|]. rewrite E. apply (read_item_dec_enc true IInvalid rest); [constructor; reflexivity|].
  cbn [count_item]. apply Nat.leb_le. vm_compute. reflexivity.
Qed.

Lemma read_aer_some bs a rest :
  read_aer bs = Some (a, rest) ->
  exists r1 tr r2 st r3 r4 sz r5 r6 r7 r8,
    read_bytes 32 bs = Some (acontainer a, r1) /\ read_b r1 = Some (tr, r2) /\ read_b r2 = Some (st, r3) /\
    read_u 8 r3 = Some (agas a, r4) /\ read_varuint r4 = Some (sz, r5) /\ sz <= Z.of_nat max_items /\
    read_n (read_item_dec true) (Z.to_nat sz) r5 = Some (astack a, r6) /\
    read_array read_notification max_array r6 = Some (aevents a, r7) /\
    read_varbytes max_array r7 = Some (afault a, r8) /\ atrigger a = tr /\
    ((Z.land st 128 = 0 /\ avmstate a = st /\ ainvocs a = [] /\ rest = r8) \/
     (Z.land st 128 <> 0 /\ avmstate a = Z.land st 127 /\
      read_array read_invocation max_array r8 = Some (ainvocs a, rest))).
Proof.
  unfold read_aer. intros H.
  apply bind_some in H as (c & r1 & Hc & H). apply bind_some in H as (tr & r2 & Htr & H).
  apply bind_some in H as (st & r3 & Hst & H). apply bind_some in H as (g & r4 & Hg & H).
  apply bind_some in H as (sz & r5 & Hsz & H). case_if_in H; [discriminate|].
  apply bind_some in H as (stk & r6 & Hstk & H). apply bind_some in H as (evs & r7 & Hevs & H).
  apply bind_some in H as (f & r8 & Hf & H). unfold save_invocations_bit in H.
  exists r1, tr, r2, st, r3, r4, sz, r5, r6, r7, r8. case_if_in H.
  - inv H. cbn [acontainer atrigger avmstate agas astack aevents afault ainvocs].
    repeat (split; [assumption || reflexivity || lia|]). left. repeat split; lia.
  - apply bind_some in H as (invs & r9 & Hinv & H). inv H.
    cbn [acontainer atrigger avmstate agas astack aevents afault ainvocs].
    repeat (split; [assumption || reflexivity || lia|]). right. repeat split; (assumption || lia).
Qed.

(* alloc bounded: no accepted input yields more than MaxDeserialized stack items *)
Theorem aer_stack_bounded bs a rest : read_aer bs = Some (a, rest) -> (length (astack a) <= max_items)%nat.
Proof.
  intros H. apply read_aer_some in H as (r1 & tr & r2 & st & r3 & r4 & sz & r5 & r6 & r7 & r8 & _ & _ & _ & _ & _ & Hsz & Hstk & _).
  apply read_n_length in Hstk. lia.
Qed.
Corollary aer_stack_bounded_2048 bs a rest : read_aer bs = Some (a, rest) -> Z.of_nat (length (astack a)) <= 2048.
Proof. intros H. apply aer_stack_bounded in H. rewrite <- max_items_val. lia. Qed.

Theorem aer_decode_encode a bs rest :
  write_aer a = Some bs -> aer_wf a -> Forall item_fits (astack a) -> read_aer (bs ++ rest) = Some (a, rest).
Proof.
  intros Hw (Hcl & _ & _ & Hst & Hg & Hsl & Hs & Hel & He & _ & Hfl & Hil & Hi) Hfit.
  unfold write_aer in Hw. destruct (write_notifications (aevents a)) as [ev|] eqn:Eev; [|discriminate]. inv Hw.
  destruct a as [c tr st g stk evs f invs]. cbn [acontainer atrigger avmstate agas astack aevents afault ainvocs] in *.
  destruct (state_bit_set st Hst) as (Hb0 & Hb1 & Hb2 & _).
  unfold read_aer. rewrite <- !app_assoc. cbn [app].
  step_ok ltac:(apply read_bytes_app; exact Hcl).
  step_ok ltac:(apply read_b_cons). step_ok ltac:(apply read_b_cons).
  step_ok ltac:(apply (read_u_write 8); exact Hg).
  pose proof max_items_val as Hmi.
  rewrite <- ?app_assoc. step_ok ltac:(apply varuint_roundtrip; unfold u64_ok; lia).
  replace (Z.of_nat max_items <? Z.of_nat (length stk)) with false by lia. rewrite Nat2Z.id.
  step_ok ltac:(apply (read_n_write _ _ _ stack_codec); rewrite Forall_forall in *; auto).
  step_ok ltac:(apply read_array_notifications; [exact He|exact Hel|exact Eev]).
  step_ok ltac:(apply varbytes_roundtrip; unfold max_array in *; lia).
  unfold save_invocations_bit. destruct invs as [|i0 invs'].
  - cbn [length Nat.eqb app]. replace (Z.land st 128 =? 0) with true by lia. reflexivity.
  - cbn [length Nat.eqb]. replace (Z.land (Z.lor st 128) 128 =? 0) with false by lia.
    step_ok ltac:(apply (array_roundtrip invocation_wf); [exact invocation_decode_encode|exact Hi|exact Hil|unfold max_array in *; cbn [length] in *; lia]).
    unfold ret. rewrite Hb2. reflexivity.
Qed.

Theorem aer_decode_wf : dec_wf aer_wf read_aer.
Proof.
  intros bs a rest Hb H.
  apply read_aer_some in H as (r1 & tr & r2 & st & r3 & r4 & sz & r5 & r6 & r7 & r8 & Hc & Htr & Hst & Hg & Hsz & Hszl & Hstk & Hev & Hf & Etr & Hcase).
  destruct (read_bytes_wf _ _ _ _ Hb Hc) as [[Hcl Hcb] Hr1].
  apply read_b_some in Htr as ->. inv Hr1. rename H1 into Htrb, H2 into Hr2.
  apply read_b_some in Hst as ->. inv Hr2. rename H1 into Hstb, H2 into Hr3.
  pose proof (read_u_some _ _ _ _ Hr3 Hg) as (Hgr & _ & Hr4). change (8 * Z.of_nat 8) with 64 in Hgr.
  pose proof (read_varuint_some _ _ _ Hr4 Hsz) as ([Hsz0 _] & Hr5 & _).
  destruct (read_n_some _ _ stack_dec_wf _ _ _ _ Hr5 Hstk) as (Hsf & Hsl & Hr6).
  destruct (read_array_some _ _ max_array notification_decode_wf _ _ _ Hr6 Hev) as (Hef & Hel & _ & Hr7).
  pose proof (read_varbytes_some _ _ _ _ Hr7 Hf) as (Hfl & _ & Hfb & Hr8 & _).
  destruct (state_byte st Hstb) as [Hs1 Hs2].
  unfold aer_wf. destruct Hcase as [(Hz & Es & Ei & ->) | (Hnz & Es & Hinv)].
  - rewrite Es, Ei. split; [|exact Hr8]. repeat split; try assumption; try lia; try constructor.
    cbn [length]. unfold max_array. lia.
  - destruct (read_array_some _ _ max_array invocation_decode_wf _ _ _ Hr8 Hinv) as (Hif & Hil & _ & Hr).
    rewrite Es. split; [|exact Hr]. repeat split; try assumption; lia.
Qed.

Theorem aer_consumes : dec_consumes read_aer.
Proof.
  intros bs a rest H. unfold read_aer in H. apply bind_some in H as (c & r1 & Hc & H).
  apply (read_bytes_consumes 32) in Hc; [|lia].
  apply bind_some in H as (tr & r2 & Htr & H). apply read_b_consumes in Htr.
  apply bind_some in H as (st & r3 & Hst & H). apply read_b_consumes in Hst.
  apply bind_some in H as (g & r4 & Hg & H). apply (read_u_consumes 8) in Hg; [|lia].
  apply bind_some in H as (sz & r5 & Hsz & H). apply read_varuint_consumes in Hsz. case_if_in H; [discriminate|].
  apply bind_some in H as (stk & r6 & Hstk & H).
  apply (read_n_shrinks _ (consumes_shrinks _ (read_item_dec_consumes true))) in Hstk.
  apply bind_some in H as (evs & r7 & Hevs & H).
  apply (read_array_consumes _ _ (consumes_shrinks _ notification_consumes)) in Hevs.
  apply bind_some in H as (f & r8 & Hf & H). apply read_varbytes_consumes in Hf.
  case_if_in H; [inv H; lia|].
  apply bind_some in H as (invs & r9 & Hinv & H). inv H.
  apply (read_array_consumes _ _ (consumes_shrinks _ invocation_consumes)) in Hinv. lia.
Qed.

(* ---- sizes: the canonical encoding is not longer than the input consumed ---- *)
Lemma read_array_minimal {A} (wf : A -> Prop) (d : dec A) (sz : A -> nat) max :
  dec_wf wf d ->
  (forall bs v rest, bytes_ok bs -> d bs = Some (v, rest) -> (sz v + length rest <= length bs)%nat) ->
  forall bs l rest, bytes_ok bs -> read_array d max bs = Some (l, rest) ->
    (length (write_varuint (Z.of_nat (length l))) + list_sum (map sz l) + length rest <= length bs)%nat.
Proof.
  intros Hw Hm bs l rest Hb H. unfold read_array in H. apply bind_some in H as (n & r & Hn & H).
  pose proof (read_varuint_some _ _ _ Hb Hn) as ([Hn0 _] & Hr & _). pose proof (varuint_minimal _ _ _ Hb Hn) as Hv.
  case_if_in H; [discriminate|]. pose proof (read_n_length _ _ _ _ _ H) as Hl.
  pose proof (read_n_minimal wf d sz Hw Hm _ _ _ _ Hr H) as Hs.
  rewrite Hl, Z2Nat.id by lia. clear - Hv Hs. lia.
Qed.
Lemma flat_map_length_sum {A} (f : A -> list Z) l : length (flat_map f l) = list_sum (map (fun x => length (f x)) l).
Proof.
  induction l as [|x t IH]; [reflexivity|]. cbn [flat_map map]. rewrite app_length, IH. reflexivity.
Qed.
Lemma list_sum_le {A} (f g : A -> nat) l : (forall x, (f x <= g x)%nat) -> (list_sum (map f l) <= list_sum (map g l))%nat.
Proof.
  intros H. induction l as [|x t IH]; [apply Nat.le_refl|].
  change (list_sum (map f (x :: t))) with (f x + list_sum (map f t))%nat.
  change (list_sum (map g (x :: t))) with (g x + list_sum (map g t))%nat. specialize (H x). clear - H IH. lia.
Qed.
Lemma serialize_prot_length_le i : (length (serialize_prot i) <= length (enc_item i))%nat.
Proof. rewrite serialize_prot_total. case_if; [apply Nat.le_refl|]. pose proof (enc_item_nonempty i). cbn [length]. lia. Qed.

Definition aer_canon_size (a : aer) : nat :=
  (32 + 2 + 8 + length (write_varuint (Z.of_nat (length (astack a)))) + list_sum (map (fun i => length (enc_item i)) (astack a))
   + length (write_varuint (Z.of_nat (length (aevents a)))) + list_sum (map notification_size (aevents a))
   + length (write_varbytes (afault a))
   + (if (length (ainvocs a) =? 0)%nat then 0 else length (write_array write_invocation (ainvocs a))))%nat.

Theorem aer_minimal bs a rest :
  bytes_ok bs -> read_aer bs = Some (a, rest) -> (aer_canon_size a + length rest <= length bs)%nat.
Proof.
  intros Hb H.
  apply read_aer_some in H as (r1 & tr & r2 & st & r3 & r4 & sz & r5 & r6 & r7 & r8 & Hc & Htr & Hst & Hg & Hsz & Hszl & Hstk & Hev & Hf & Etr & Hcase).
  destruct (read_bytes_wf _ _ _ _ Hb Hc) as [[Hcl Hcb] Hr1]. apply read_bytes_some in Hc as [-> _].
  apply read_b_some in Htr as ->. inv Hr1. rename H1 into Htrb, H2 into Hr2.
  apply read_b_some in Hst as ->. inv Hr2. rename H1 into Hstb, H2 into Hr3.
  pose proof (read_u_some _ _ _ _ Hr3 Hg) as (_ & -> & Hr4).
  pose proof (read_varuint_some _ _ _ Hr4 Hsz) as ([Hsz0 _] & Hr5 & _). pose proof (varuint_minimal _ _ _ Hr4 Hsz) as Hm1.
  pose proof (read_n_length _ _ _ _ _ Hstk) as Hsl.
  pose proof (read_n_minimal _ _ (fun i => length (enc_item i)) stack_dec_wf (read_item_dec_minimal true) _ _ _ _ Hr5 Hstk) as Hm2.
  destruct (read_n_some _ _ stack_dec_wf _ _ _ _ Hr5 Hstk) as (_ & _ & Hr6).
  pose proof (read_array_minimal _ _ notification_size max_array notification_decode_wf notification_minimal _ _ _ Hr6 Hev) as Hm3.
  destruct (read_array_some _ _ max_array notification_decode_wf _ _ _ Hr6 Hev) as (_ & _ & _ & Hr7).
  pose proof (read_varbytes_minimal _ _ _ _ Hr7 Hf) as Hm4.
  pose proof (read_varbytes_some _ _ _ _ Hr7 Hf) as (_ & _ & _ & Hr8 & _).
  unfold aer_canon_size. rewrite app_length. cbn [length]. rewrite app_length, Hcl, le_bytes_length.
  rewrite Hsl, Z2Nat.id by lia.
  destruct Hcase as [(_ & _ & Ei & ->) | (_ & _ & Hinv)].
  - rewrite Ei. cbn [length Nat.eqb]. clear - Hm1 Hm2 Hm3 Hm4. lia.
  - pose proof (read_array_minimal _ _ (fun c => length (write_invocation c)) max_array invocation_decode_wf invocation_minimal _ _ _ Hr8 Hinv) as Hm5.
    assert (length (write_array write_invocation (ainvocs a)) =
            length (write_varuint (Z.of_nat (length (ainvocs a)))) + list_sum (map (fun c => length (write_invocation c)) (ainvocs a)))%nat as El.
    { unfold write_array, write_list. rewrite app_length, flat_map_length_sum. reflexivity. }
    case_if; clear - Hm1 Hm2 Hm3 Hm4 Hm5 El; lia.
Qed.

Definition aer_bytes (a : aer) (ev : list Z) : list Z :=
  acontainer a ++ [atrigger a; if (length (ainvocs a) =? 0)%nat then avmstate a else Z.lor (avmstate a) save_invocations_bit]
  ++ le_bytes 8 (agas a)
  ++ write_varuint (Z.of_nat (length (astack a))) ++ flat_map serialize_prot (astack a)
  ++ write_varuint (Z.of_nat (length (aevents a))) ++ ev
  ++ write_varbytes (afault a)
  ++ (if (length (ainvocs a) =? 0)%nat then [] else write_array write_invocation (ainvocs a)).
Lemma write_aer_eq a :
  write_aer a = match write_notifications (aevents a) with None => None | Some ev => Some (aer_bytes a ev) end.
Proof. reflexivity. Qed.

Lemma write_aer_length_le a bs :
  write_aer a = Some bs -> length (acontainer a) = 32%nat -> Forall notification_wf (aevents a) ->
  (length bs <= aer_canon_size a)%nat.
Proof.
  intros Hw Hcl He. rewrite write_aer_eq in Hw. destruct (write_notifications (aevents a)) as [ev|] eqn:Eev; [|discriminate].
  assert (bs = aer_bytes a ev) as -> by congruence. clear Hw. unfold aer_bytes.
  apply write_notifications_some in Eev as (_ & -> & _).
  assert (length (flat_map (fun n => nhash n ++ write_varbytes (nname n) ++ enc_item (IArray (nitems n))) (aevents a))
          = list_sum (map notification_size (aevents a))) as Eev.
  { rewrite flat_map_length_sum. induction He as [|n t Hn Ht IH]; [reflexivity|].
    change (list_sum (map notification_size (n :: t))) with (notification_size n + list_sum (map notification_size t))%nat.
    rewrite <- IH. cbn [map]. change (list_sum (?x :: ?l)) with (x + list_sum l)%nat.
    destruct Hn as (Hl & _). unfold notification_size. rewrite !app_length, Hl. reflexivity. }
  pose proof (list_sum_le (fun i => length (serialize_prot i)) (fun i => length (enc_item i)) (astack a) serialize_prot_length_le) as Hs.
  unfold aer_canon_size. rewrite !app_length, Hcl, le_bytes_length, Eev, flat_map_length_sum. cbn [length].
  case_if; cbn [length]; clear - Hs; lia.
Qed.

(* every decoded value whose input was within MaxSize is serialisable *)
Theorem aer_fits_of_size bs a rest :
  bytes_ok bs -> Z.of_nat (length bs) <= max_size -> read_aer bs = Some (a, rest) -> aer_fits a.
Proof.
  intros Hb Hs H. pose proof (aer_minimal _ _ _ Hb H) as Hm. unfold aer_canon_size in Hm.
  assert (list_sum (map (fun i => length (enc_item i)) (astack a)) <= length bs)%nat as H1 by (clear - Hm; lia).
  assert (list_sum (map notification_size (aevents a)) <= length bs)%nat as H2 by (clear - Hm; lia).
  apply list_sum_Forall_le in H1, H2. split.
  - eapply Forall_impl; [|exact H1]. cbv beta. intros i Hi. unfold item_fits. lia.
  - eapply Forall_impl; [|exact H2]. cbv beta. intros n Hn. unfold notification_fits, item_fits, notification_size in *. lia.
Qed.

(* decode_canonical: when every stack item and every event is serialisable (in particular when the input was
   within MaxSize) the canonical encoding exists, is not longer than the input and decodes to the same value.
   Without [aer_fits] the writer either fails (event) or writes the Invalid marker (stack item). *)
Theorem aer_decode_canonical bs a rest rest' :
  bytes_ok bs -> read_aer bs = Some (a, rest) -> aer_fits a ->
  exists bs', write_aer a = Some bs' /\ read_aer (bs' ++ rest') = Some (a, rest') /\
              (length bs' + length rest <= length bs)%nat.
Proof.
  intros Hb H [Hfs Hfe]. pose proof (aer_decode_wf _ _ _ Hb H) as [Hw _]. pose proof (aer_minimal _ _ _ Hb H) as Hm.
  assert (exists bs', write_aer a = Some bs') as [bs' Hbs'].
  { destruct Hw as (_ & _ & _ & _ & _ & _ & _ & _ & He & _). destruct (write_notifications_ok _ He Hfe) as [ev Hev].
    unfold write_aer. rewrite Hev. eauto. }
  exists bs'. split; [exact Hbs'|]. split; [apply aer_decode_encode; assumption|].
  assert (length bs' <= aer_canon_size a)%nat by (destruct Hw as (Hcl & _ & _ & _ & _ & _ & _ & _ & He & _); apply write_aer_length_le; assumption).
  lia.
Qed.
Corollary aer_decode_canonical_size bs a rest rest' :
  bytes_ok bs -> Z.of_nat (length bs) <= max_size -> read_aer bs = Some (a, rest) ->
  exists bs', write_aer a = Some bs' /\ read_aer (bs' ++ rest') = Some (a, rest') /\
              (length bs' + length rest <= length bs)%nat.
Proof. intros Hb Hs H. eapply aer_decode_canonical; eauto. eapply aer_fits_of_size; eauto. Qed.

(* ================= examples ================= *)
(* a notification whose state was written as a Struct decodes to the Array form: not canonical, same length *)
Definition ex_notif : notification := Notif (repeat 7 20) [104; 105] [IAny; IBool true].
Example ex_notification_struct :
  read_notification (repeat 7 20 ++ [2; 104; 105] ++ [65; 2; 0; 32; 1]) = Some (ex_notif, []) /\
  write_notification ex_notif = Some (repeat 7 20 ++ [2; 104; 105] ++ [64; 2; 0; 32; 1]) /\
  read_notification (repeat 7 20 ++ [2; 104; 105] ++ [64; 2; 0; 32; 1]) = Some (ex_notif, []).
Proof. repeat split; vm_compute; reflexivity. Qed.
Example ex_notif_wf : notification_wf ex_notif /\ notification_fits ex_notif.
Proof.
  split.
  - unfold notification_wf, ex_notif. cbn [nhash nname nitems].
    split; [reflexivity|]. split; [repeat constructor; lia|]. split; [repeat constructor; lia|].
    split; [vm_compute; discriminate|]. split; [repeat constructor|]. apply Nat.leb_le. vm_compute. reflexivity.
  - apply Z.leb_le. vm_compute. reflexivity.
Qed.
(* a notification state that is not an Array/Struct, or that contains a protected-mode item, is refused *)
Example ex_notification_refused :
  read_notification (repeat 7 20 ++ [0] ++ [33; 1; 5]) = None /\
  read_notification (repeat 7 20 ++ [0] ++ [64; 1; 96]) = None /\
  write_notification (Notif (repeat 7 20) [] [IInterop]) = None.
Proof. repeat split; vm_compute; reflexivity. Qed.

Definition ex_invoc : invocation := Invoc (repeat 3 20) [109] 2 false [64; 0].
Example ex_invocation :
  invocation_wf ex_invoc /\ read_invocation (write_invocation ex_invoc ++ [1]) = Some (ex_invoc, [1]) /\
  (* Truncated read from a byte other than 0/1 is normalised to 1 *)
  read_invocation (repeat 3 20 ++ [1; 109] ++ [2; 0; 0; 0] ++ [7]) = Some (Invoc (repeat 3 20) [109] 2 true [], []) /\
  write_invocation (Invoc (repeat 3 20) [109] 2 true []) = repeat 3 20 ++ [1; 109] ++ [2; 0; 0; 0] ++ [1].
Proof.
  split; [|repeat split; vm_compute; reflexivity].
  unfold invocation_wf, ex_invoc. cbn [chash cmethod cargc ctruncated cargs].
  split; [reflexivity|]. split; [repeat constructor; lia|]. split; [repeat constructor; lia|].
  split; [vm_compute; discriminate|]. split; [lia|]. split; [repeat constructor; lia|].
  split; [vm_compute; discriminate|discriminate].
Qed.

(* an execution result with an Interop item and an Array [Pointer 7; Any] on the stack, one event, one invocation *)
Definition ex_aer : aer :=
  Aer (repeat 9 32) 64 1 12345 [IInterop; IArray [IPointer 7; IAny]] [Notif (repeat 7 20) [104; 105] [IInt 5]] [] [ex_invoc].
Example ex_aer_roundtrip :
  match write_aer ex_aer with
  | Some bs => read_aer (bs ++ [42]) = Some (ex_aer, [42]) /\ length bs = 110%nat /\ nth 33 bs 0 = 129
  | None => False
  end.
Proof. vm_compute. repeat split; reflexivity. Qed.
Example ex_aer_wf : aer_wf ex_aer /\ aer_fits ex_aer.
Proof.
  split.
  - unfold aer_wf, ex_aer. cbn [acontainer atrigger avmstate agas astack aevents afault ainvocs].
    split; [reflexivity|]. split; [repeat constructor; lia|]. split; [lia|]. split; [lia|]. split; [lia|].
    split; [apply Nat.leb_le; vm_compute; reflexivity|].
    split.
    { repeat constructor; try reflexivity; try lia; apply Nat.leb_le; vm_compute; reflexivity. }
    split; [vm_compute; discriminate|].
    split.
    { constructor; [|constructor]. unfold notification_wf. cbn [nhash nname nitems].
      split; [reflexivity|]. split; [repeat constructor; lia|]. split; [repeat constructor; lia|].
      split; [vm_compute; discriminate|]. split; [repeat constructor; vm_compute; reflexivity|].
      apply Nat.leb_le. vm_compute. reflexivity. }
    split; [constructor|]. split; [vm_compute; discriminate|]. split; [vm_compute; discriminate|].
    constructor; [exact (proj1 ex_invocation)|constructor].
  - split; repeat constructor; apply Z.leb_le; vm_compute; reflexivity.
Qed.
(* the save-invocations bit with an EMPTY invocation array: accepted, re-encoded one byte and one bit shorter *)
Example ex_aer_empty_invocations :
  let bs := repeat 9 32 ++ [64; 129] ++ le_bytes 8 0 ++ [0] ++ [0] ++ [0] ++ [0] in
  let a := Aer (repeat 9 32) 64 1 0 [] [] [] [] in
  read_aer bs = Some (a, []) /\
  write_aer a = Some (repeat 9 32 ++ [64; 1] ++ le_bytes 8 0 ++ [0] ++ [0] ++ [0]) /\
  length bs = 46%nat /\ read_aer (repeat 9 32 ++ [64; 1] ++ le_bytes 8 0 ++ [0] ++ [0] ++ [0]) = Some (a, []).
Proof. vm_compute. repeat split; reflexivity. Qed.
(* more than MaxDeserialized stack items are refused before anything is allocated *)
Example ex_aer_stack_limit :
  read_aer (repeat 9 32 ++ [64; 1] ++ le_bytes 8 0 ++ [253; 1; 8] ++ repeat 0 2049 ++ [0; 0]) = None /\
  (exists a, read_aer (repeat 9 32 ++ [64; 1] ++ le_bytes 8 0 ++ [253; 0; 8] ++ repeat 0 2048 ++ [0; 0]) = Some (a, [])
             /\ length (astack a) = 2048%nat).
Proof. split; [vm_compute; reflexivity|]. eexists. split; [vm_compute; reflexivity|]. vm_compute. reflexivity. Qed.
(* a stack item beyond the item-count limit is written as the Invalid marker and does not come back *)
Example ex_aer_unfit_item :
  let a := Aer (repeat 9 32) 64 1 0 [IArray (repeat IAny 2048)] [] [] [] in
  match write_aer a with
  | Some bs => read_aer bs = Some (Aer (repeat 9 32) 64 1 0 [IInvalid] [] [] [], [])
  | None => False
  end.
Proof. vm_compute. reflexivity. Qed.

Print Assumptions notification_decode_encode.
Print Assumptions notification_decode_wf.
Print Assumptions notification_decode_canonical.
Print Assumptions invocation_decode_encode.
Print Assumptions invocation_decode_wf.
Print Assumptions invocation_decode_canonical.
Print Assumptions aer_decode_encode.
Print Assumptions aer_decode_wf.
Print Assumptions aer_decode_canonical.
Print Assumptions aer_consumes.
Print Assumptions aer_stack_bounded.
