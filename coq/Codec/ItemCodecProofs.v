(* Proofs about Codec/ItemCodec.v (model of pkg/vm/stackitem/serialization.go), generic in the mode
   [prot] (false = Serialize/Deserialize, true = EncodeBinaryProtected/DecodeBinaryProtected):
   A. the stateful serialiser [ser] against the pure encoding [enc_item] (size_eq / limits of Serialize);
   B. well-formed items [item_wf] (normal mode) and [item_wf_p] (protected mode);
   C. round-trip with the item budget threaded (Deserialize (Serialize i) = i);
   D. decoded items are well-formed and within the item budget (alloc/count bounded);
   E. decode_canonical: what Deserialize accepts re-serialises (never longer) and decodes to the same item;
   F. fuel: more fuel never changes a result, beyond the input length it changes nothing (decode_total);
   G. examples (findings F11, F17, F28; duplicate keys; non-canonical boolean; protected mode). *)
From NG Require Import Common.Tactics Codec.Bigint Codec.BigintProofs Codec.Wire Codec.WireProofs Codec.ItemCodec.
Open Scope Z_scope.

(* [max_items] is the unary nat 2048: never let a tactic unfold it *)
Opaque max_items.

(* ================= induction principle for the nested inductive ================= *)
Section ItemInd.
  Variable P : item -> Prop.
  Hypothesis Hany : P IAny.
  Hypothesis Hbool : forall b, P (IBool b).
  Hypothesis Hint : forall z, P (IInt z).
  Hypothesis Hbytes : forall b, P (IBytes b).
  Hypothesis Hbuffer : forall b, P (IBuffer b).
  Hypothesis Harray : forall l, Forall P l -> P (IArray l).
  Hypothesis Hstruct : forall l, Forall P l -> P (IStruct l).
  Hypothesis Hmap : forall l, Forall (fun kv => P (fst kv) /\ P (snd kv)) l -> P (IMap l).
  Hypothesis Hinterop : P IInterop.
  Hypothesis Hpointer : forall pos, P (IPointer pos).
  Hypothesis Hinvalid : P IInvalid.

  Fixpoint item_ind' (i : item) : P i :=
    match i with
    | IAny => Hany
    | IBool b => Hbool b
    | IInt z => Hint z
    | IBytes b => Hbytes b
    | IBuffer b => Hbuffer b
    | IArray l =>
        Harray l ((fix go (l : list item) : Forall P l :=
                     match l with [] => Forall_nil P | x :: t => Forall_cons x (item_ind' x) (go t) end) l)
    | IStruct l =>
        Hstruct l ((fix go (l : list item) : Forall P l :=
                      match l with [] => Forall_nil P | x :: t => Forall_cons x (item_ind' x) (go t) end) l)
    | IMap l =>
        Hmap l ((fix go (l : list (item * item)) : Forall (fun kv => P (fst kv) /\ P (snd kv)) l :=
                   match l with
                   | [] => Forall_nil _
                   | p :: t =>
                       Forall_cons p
                         (match p as p0 return P (fst p0) /\ P (snd p0) with
                          | (k, v) => conj (item_ind' k) (item_ind' v)
                          end) (go t)
                   end) l)
    | IInterop => Hinterop
    | IPointer pos => Hpointer pos
    | IInvalid => Hinvalid
    end.
End ItemInd.

(* ================= top-level names for the nested fixpoints ================= *)
Fixpoint enc_list (l : list item) : list Z :=
  match l with [] => [] | x :: t => enc_item x ++ enc_list t end.
Fixpoint enc_pairs (l : list (item * item)) : list Z :=
  match l with [] => [] | (k, v) :: t => enc_item k ++ enc_item v ++ enc_pairs t end.
Fixpoint count_list (l : list item) : nat :=
  match l with [] => O | x :: t => (count_item x + count_list t)%nat end.
Fixpoint count_pairs (l : list (item * item)) : nat :=
  match l with [] => O | (k, v) :: t => (count_item k + count_item v + count_pairs t)%nat end.
Definition ser_list (prot : bool) : list item -> list Z * nat -> option (list Z * nat) :=
  fix sl (l : list item) (st : list Z * nat) : option (list Z * nat) :=
    match l with [] => Some st | x :: t => match ser prot x st with Some st' => sl t st' | None => None end end.
Definition ser_pairs (prot : bool) : list (item * item) -> list Z * nat -> option (list Z * nat) :=
  fix sl (l : list (item * item)) (st : list Z * nat) : option (list Z * nat) :=
    match l with
    | [] => Some st
    | (k, v) :: t => match ser prot k st with
                     | Some st' => match ser prot v st' with Some st'' => sl t st'' | None => None end
                     | None => None
                     end
    end.
Lemma ser_list_nil prot st : ser_list prot [] st = Some st.
Proof. reflexivity. Qed.
Lemma ser_list_cons prot x t st :
  ser_list prot (x :: t) st = match ser prot x st with Some st' => ser_list prot t st' | None => None end.
Proof. reflexivity. Qed.
Lemma ser_pairs_nil prot st : ser_pairs prot [] st = Some st.
Proof. reflexivity. Qed.
Lemma ser_pairs_cons prot k v t st :
  ser_pairs prot ((k, v) :: t) st =
  match ser prot k st with
  | Some st' => match ser prot v st' with Some st'' => ser_pairs prot t st'' | None => None end
  | None => None
  end.
Proof. reflexivity. Qed.

Lemma enc_item_array l : enc_item (IArray l) = 64 :: write_varuint (Z.of_nat (length l)) ++ enc_list l.
Proof. reflexivity. Qed.
Lemma enc_item_struct l : enc_item (IStruct l) = 65 :: write_varuint (Z.of_nat (length l)) ++ enc_list l.
Proof. reflexivity. Qed.
Lemma enc_item_map l : enc_item (IMap l) = 72 :: write_varuint (Z.of_nat (length l)) ++ enc_pairs l.
Proof. reflexivity. Qed.
Lemma count_item_array l : count_item (IArray l) = S (count_list l).
Proof. reflexivity. Qed.
Lemma count_item_struct l : count_item (IStruct l) = S (count_list l).
Proof. reflexivity. Qed.
Lemma count_item_map l : count_item (IMap l) = S (count_pairs l).
Proof. reflexivity. Qed.

(* the MaxSize check made at the end of SerializationContext.serialize *)
Definition after (r : option (list Z * nat)) : option (list Z * nat) :=
  match r with
  | Some (d, l) => if max_size <? Z.of_nat (length d) then None else Some (d, l)
  | None => None
  end.
Definition ser_body (prot : bool) (i : item) (data : list Z) (lim' : nat) : option (list Z * nat) :=
  match i with
  | IAny => Some (data ++ [0], lim')
  | IBool b => Some (data ++ 32 :: write_bool b, lim')
  | IInt z => Some (data ++ 33 :: Z.of_nat (length (to_bytes z)) :: to_bytes z, lim')
  | IBytes b => Some (data ++ 40 :: write_varbytes b, lim')
  | IBuffer b => Some (data ++ 48 :: write_varbytes b, lim')
  | IArray l => ser_list prot l (data ++ 64 :: write_varuint (Z.of_nat (length l)), lim')
  | IStruct l => ser_list prot l (data ++ 65 :: write_varuint (Z.of_nat (length l)), lim')
  | IMap l => ser_pairs prot l (data ++ 72 :: write_varuint (Z.of_nat (length l)), lim')
  | IInterop => if prot then Some (data ++ [96], lim') else None
  | IPointer pos => if prot then Some (data ++ 16 :: write_varuint pos, lim') else None
  | IInvalid => if prot then Some (data ++ [255], lim') else None
  end.
Lemma ser_eq prot i data lim :
  ser prot i (data, lim) = match lim with O => None | S lim' => after (ser_body prot i data lim') end.
Proof. destruct lim; destruct i; try reflexivity; destruct prot; reflexivity. Qed.


(* no protected-mode constructor anywhere in the item *)
Fixpoint plain (i : item) : bool :=
  match i with
  | IInterop | IPointer _ | IInvalid => false
  | IArray l | IStruct l => (fix pl (l : list item) := match l with [] => true | x :: t => plain x && pl t end) l
  | IMap l => (fix pl (l : list (item * item)) := match l with [] => true | (k, v) :: t => plain k && plain v && pl t end) l
  | _ => true
  end.
Fixpoint plain_list (l : list item) : bool := match l with [] => true | x :: t => plain x && plain_list t end.
Fixpoint plain_pairs (l : list (item * item)) : bool :=
  match l with [] => true | (k, v) :: t => plain k && plain v && plain_pairs t end.
Lemma plain_array l : plain (IArray l) = plain_list l.
Proof. reflexivity. Qed.
Lemma plain_struct l : plain (IStruct l) = plain_list l.
Proof. reflexivity. Qed.
Lemma plain_map l : plain (IMap l) = plain_pairs l.
Proof. reflexivity. Qed.
(* the mode accepts the item's constructors *)
Definition mode_ok (prot : bool) (i : item) : bool := prot || plain i.

(* ================= A. the serialiser against the pure encoding ================= *)
Lemma count_item_pos i : (1 <= count_item i)%nat.
Proof. destruct i; cbn [count_item]; lia. Qed.
Lemma length_le_count_list l : (length l <= count_list l)%nat.
Proof. induction l as [|x t IH]; cbn [length count_list]; [lia|]. pose proof (count_item_pos x). lia. Qed.
Lemma length_le_count_pairs l : (2 * length l <= count_pairs l)%nat.
Proof.
  induction l as [|[k v] t IH]; cbn [length count_pairs]; [lia|].
  pose proof (count_item_pos k). pose proof (count_item_pos v). lia.
Qed.

Lemma after_some r d l : after r = Some (d, l) -> r = Some (d, l) /\ Z.of_nat (length d) <= max_size.
Proof.
  unfold after. destruct r as [[d0 l0]|]; [|discriminate]. case_if; [discriminate|].
  intros E; inv E. split; [reflexivity|lia].
Qed.
Lemma after_ok d l : Z.of_nat (length d) <= max_size -> after (Some (d, l)) = Some (d, l).
Proof. intros H. unfold after. now replace (max_size <? Z.of_nat (length d)) with false by lia. Qed.

Definition ser_some_P (prot : bool) (i : item) : Prop :=
  forall data lim d' lim', ser prot i (data, lim) = Some (d', lim') ->
    d' = data ++ enc_item i /\ (lim' + count_item i = lim)%nat /\ Z.of_nat (length d') <= max_size /\
    mode_ok prot i = true.
Definition ser_ok_P (prot : bool) (i : item) : Prop :=
  forall data lim, mode_ok prot i = true -> (count_item i <= lim)%nat ->
    Z.of_nat (length data + length (enc_item i)) <= max_size ->
    ser prot i (data, lim) = Some (data ++ enc_item i, (lim - count_item i)%nat).

Lemma mode_ok_list prot x t : prot || (plain x && plain_list t) = mode_ok prot x && (prot || plain_list t).
Proof. unfold mode_ok. destruct prot, (plain x), (plain_list t); reflexivity. Qed.
Lemma mode_ok_pairs prot k v t :
  prot || (plain k && plain v && plain_pairs t) = mode_ok prot k && mode_ok prot v && (prot || plain_pairs t).
Proof. unfold mode_ok. destruct prot, (plain k), (plain v), (plain_pairs t); reflexivity. Qed.

Lemma ser_list_some prot l : Forall (ser_some_P prot) l ->
  forall data lim d' lim', ser_list prot l (data, lim) = Some (d', lim') ->
    d' = data ++ enc_list l /\ (lim' + count_list l = lim)%nat /\ prot || plain_list l = true.
Proof.
  induction 1 as [|x t Hx Ht IH]; intros data lim d' lim' H; cbn [enc_list count_list plain_list] in *.
  - rewrite ser_list_nil in H. inv H. rewrite app_nil_r. split; [reflexivity|]. split; [lia|apply orb_true_r].
  - rewrite ser_list_cons in H. destruct (ser prot x (data, lim)) as [[d1 l1]|] eqn:E; [|discriminate].
    apply Hx in E as (-> & Hl & _ & Hm). apply IH in H as (-> & Hl2 & Hm2).
    rewrite app_assoc. split; [reflexivity|]. split; [lia|]. rewrite mode_ok_list, Hm, Hm2. reflexivity.
Qed.
Lemma ser_pairs_some prot l : Forall (fun kv => ser_some_P prot (fst kv) /\ ser_some_P prot (snd kv)) l ->
  forall data lim d' lim', ser_pairs prot l (data, lim) = Some (d', lim') ->
    d' = data ++ enc_pairs l /\ (lim' + count_pairs l = lim)%nat /\ prot || plain_pairs l = true.
Proof.
  induction 1 as [|[k v] t [Hk Hv] Ht IH]; intros data lim d' lim' H; cbn [enc_pairs count_pairs plain_pairs fst snd] in *.
  - rewrite ser_pairs_nil in H. inv H. rewrite app_nil_r. split; [reflexivity|]. split; [lia|apply orb_true_r].
  - rewrite ser_pairs_cons in H. destruct (ser prot k (data, lim)) as [[d1 l1]|] eqn:E1; [|discriminate].
    destruct (ser prot v (d1, l1)) as [[d2 l2]|] eqn:E2; [|discriminate].
    apply Hk in E1 as (-> & Hl1 & _ & Hm1). apply Hv in E2 as (-> & Hl2 & _ & Hm2). apply IH in H as (-> & Hl3 & Hm3).
    rewrite !app_assoc. split; [reflexivity|]. split; [lia|]. rewrite mode_ok_pairs, Hm1, Hm2, Hm3. reflexivity.
Qed.

Lemma ser_some_all prot i : ser_some_P prot i.
Proof.
  induction i as [| | | | |l IHl|l IHl|l IHl| | |] using item_ind'; intros data lim d' lim' H; rewrite ser_eq in H;
    (destruct lim as [|lim0]; [discriminate|]); apply after_some in H as [H Hsz]; cbn [ser_body] in H.
  1-5: inv H; cbn [count_item]; split; [reflexivity|split; [lia|split; [exact Hsz|apply orb_true_r]]].
  - apply ser_list_some in H as (-> & Hl & Hm); [|assumption]. rewrite enc_item_array, count_item_array.
    rewrite <- app_assoc. split; [reflexivity|split; [lia|]]. rewrite <- app_assoc in Hsz. split; assumption.
  - apply ser_list_some in H as (-> & Hl & Hm); [|assumption]. rewrite enc_item_struct, count_item_struct.
    rewrite <- app_assoc. split; [reflexivity|split; [lia|]]. rewrite <- app_assoc in Hsz. split; assumption.
  - apply ser_pairs_some in H as (-> & Hl & Hm); [|assumption]. rewrite enc_item_map, count_item_map.
    rewrite <- app_assoc. split; [reflexivity|split; [lia|]]. rewrite <- app_assoc in Hsz. split; assumption.
  - destruct prot; [|discriminate]. inv H. cbn [count_item]. split; [reflexivity|split; [lia|split; [exact Hsz|reflexivity]]].
  - destruct prot; [|discriminate]. inv H. cbn [count_item]. split; [reflexivity|split; [lia|split; [exact Hsz|reflexivity]]].
  - destruct prot; [|discriminate]. inv H. cbn [count_item]. split; [reflexivity|split; [lia|split; [exact Hsz|reflexivity]]].
Qed.

Lemma ser_list_ok prot l : Forall (ser_ok_P prot) l ->
  forall data lim, prot || plain_list l = true -> (count_list l <= lim)%nat ->
    Z.of_nat (length data + length (enc_list l)) <= max_size ->
    ser_list prot l (data, lim) = Some (data ++ enc_list l, (lim - count_list l)%nat).
Proof.
  induction 1 as [|x t Hx Ht IH]; intros data lim Hm Hc Hs; cbn [enc_list count_list plain_list] in *.
  - rewrite ser_list_nil, app_nil_r, Nat.sub_0_r. reflexivity.
  - rewrite mode_ok_list in Hm. apply andb_true_iff in Hm as [Hm1 Hm2].
    rewrite app_length in Hs. rewrite ser_list_cons, Hx by (assumption || lia).
    rewrite IH by (rewrite ?app_length; (assumption || lia)).
    rewrite app_assoc. do 2 f_equal. lia.
Qed.
Lemma ser_pairs_ok prot l : Forall (fun kv => ser_ok_P prot (fst kv) /\ ser_ok_P prot (snd kv)) l ->
  forall data lim, prot || plain_pairs l = true -> (count_pairs l <= lim)%nat ->
    Z.of_nat (length data + length (enc_pairs l)) <= max_size ->
    ser_pairs prot l (data, lim) = Some (data ++ enc_pairs l, (lim - count_pairs l)%nat).
Proof.
  induction 1 as [|[k v] t [Hk Hv] Ht IH]; intros data lim Hm Hc Hs; cbn [enc_pairs count_pairs plain_pairs fst snd] in *.
  - rewrite ser_pairs_nil, app_nil_r, Nat.sub_0_r. reflexivity.
  - rewrite mode_ok_pairs in Hm. apply andb_true_iff in Hm as [Hm Hm3]. apply andb_true_iff in Hm as [Hm1 Hm2].
    rewrite !app_length in Hs. rewrite ser_pairs_cons, Hk by (assumption || lia).
    rewrite Hv by (rewrite ?app_length; (assumption || lia)).
    rewrite IH by (rewrite ?app_length; (assumption || lia)). rewrite !app_assoc. do 2 f_equal. lia.
Qed.

Lemma ser_ok_all prot i : ser_ok_P prot i.
Proof.
  induction i as [| | | | |l IHl|l IHl|l IHl| | |] using item_ind'; intros data lim Hm Hc Hs; rewrite ser_eq;
    (destruct lim as [|lim0]; [cbn [count_item] in Hc; lia|]); cbn [ser_body].
  1-5: rewrite after_ok by (rewrite app_length; exact Hs); cbn [count_item]; do 2 f_equal; lia.
  - unfold mode_ok in Hm. rewrite plain_array in Hm.
    rewrite enc_item_array, count_item_array in *. cbn [length] in Hs. rewrite app_length in Hs.
    pose proof (write_varuint_length (Z.of_nat (length l))).
    rewrite ser_list_ok; [|assumption|assumption|lia|rewrite app_length; cbn [length]; lia].
    rewrite <- app_assoc. cbn [app]. rewrite after_ok; [do 2 f_equal; lia|].
    rewrite !app_length. cbn [length]. rewrite app_length. lia.
  - unfold mode_ok in Hm. rewrite plain_struct in Hm.
    rewrite enc_item_struct, count_item_struct in *. cbn [length] in Hs. rewrite app_length in Hs.
    pose proof (write_varuint_length (Z.of_nat (length l))).
    rewrite ser_list_ok; [|assumption|assumption|lia|rewrite app_length; cbn [length]; lia].
    rewrite <- app_assoc. cbn [app]. rewrite after_ok; [do 2 f_equal; lia|].
    rewrite !app_length. cbn [length]. rewrite app_length. lia.
  - unfold mode_ok in Hm. rewrite plain_map in Hm.
    rewrite enc_item_map, count_item_map in *. cbn [length] in Hs. rewrite app_length in Hs.
    pose proof (write_varuint_length (Z.of_nat (length l))).
    rewrite ser_pairs_ok; [|assumption|assumption|lia|rewrite app_length; cbn [length]; lia].
    rewrite <- app_assoc. cbn [app]. rewrite after_ok; [do 2 f_equal; lia|].
    rewrite !app_length. cbn [length]. rewrite app_length. lia.
  - destruct prot; [|discriminate]. rewrite after_ok by (rewrite app_length; exact Hs). cbn [count_item]. do 2 f_equal. lia.
  - destruct prot; [|discriminate]. rewrite after_ok by (rewrite app_length; exact Hs). cbn [count_item]. do 2 f_equal. lia.
  - destruct prot; [|discriminate]. rewrite after_ok by (rewrite app_length; exact Hs). cbn [count_item]. do 2 f_equal. lia.
Qed.

(* --- generic in the mode --- *)
Theorem ser_some_gen prot i data lim d' lim' :
  ser prot i (data, lim) = Some (d', lim') ->
  d' = data ++ enc_item i /\ (lim' + count_item i = lim)%nat /\ Z.of_nat (length d') <= max_size /\ mode_ok prot i = true.
Proof. apply ser_some_all. Qed.
Theorem ser_ok_gen prot i data lim :
  mode_ok prot i = true -> (count_item i <= lim)%nat -> Z.of_nat (length data + length (enc_item i)) <= max_size ->
  ser prot i (data, lim) = Some (data ++ enc_item i, (lim - count_item i)%nat).
Proof. apply ser_ok_all. Qed.
(* complete characterisation: the mode lets_in the constructors, the item budget and the size suffice *)
Theorem ser_spec_gen prot i data lim :
  ser prot i (data, lim) =
  if mode_ok prot i && (count_item i <=? lim)%nat && (Z.of_nat (length data + length (enc_item i)) <=? max_size)
  then Some (data ++ enc_item i, (lim - count_item i)%nat) else None.
Proof.
  destruct (ser prot i (data, lim)) as [[d' lim']|] eqn:E.
  - apply ser_some_gen in E as (-> & Hl & Hs & Hm). rewrite app_length in Hs. rewrite Hm.
    replace (count_item i <=? lim)%nat with true by lia.
    replace (Z.of_nat (length data + length (enc_item i)) <=? max_size) with true by lia.
    cbn [andb]. do 2 f_equal. lia.
  - case_if; [|reflexivity]. apply andb_true_iff in Heqb as [Hb Hs]. apply andb_true_iff in Hb as [Hm Hc].
    rewrite ser_ok_gen in E by (assumption || lia). discriminate.
Qed.
Theorem serialize_gen_some prot i bs :
  serialize_gen prot i = Some bs ->
  bs = enc_item i /\ (count_item i <= max_items)%nat /\ Z.of_nat (length bs) <= max_size /\ mode_ok prot i = true.
Proof.
  unfold serialize_gen. destruct (ser prot i ([], max_items)) as [[d l]|] eqn:E; [|discriminate].
  intros H; inv H. apply ser_some_gen in E as (-> & Hl & Hs & Hm). cbn [app] in *.
  split; [reflexivity|]. split; [lia|]. split; assumption.
Qed.
Theorem serialize_gen_ok prot i :
  mode_ok prot i = true -> (count_item i <= max_items)%nat -> Z.of_nat (length (enc_item i)) <= max_size ->
  serialize_gen prot i = Some (enc_item i).
Proof. intros Hm Hc Hs. unfold serialize_gen. rewrite ser_ok_gen by (cbn [length]; (assumption || lia)). reflexivity. Qed.
Theorem serialize_gen_spec prot i :
  serialize_gen prot i =
  if mode_ok prot i && (count_item i <=? max_items)%nat && (Z.of_nat (length (enc_item i)) <=? max_size)
  then Some (enc_item i) else None.
Proof. unfold serialize_gen. rewrite ser_spec_gen. cbn [length app Nat.add]. case_if; reflexivity. Qed.

(* --- normal mode (Serialize) --- *)
Theorem ser_some i data lim d' lim' :
  ser false i (data, lim) = Some (d', lim') ->
  d' = data ++ enc_item i /\ (lim' + count_item i = lim)%nat /\ Z.of_nat (length d') <= max_size.
Proof. intros H. apply ser_some_gen in H. tauto. Qed.
Theorem ser_ok i data lim :
  plain i = true -> (count_item i <= lim)%nat -> Z.of_nat (length data + length (enc_item i)) <= max_size ->
  ser false i (data, lim) = Some (data ++ enc_item i, (lim - count_item i)%nat).
Proof. intros Hp. apply ser_ok_gen. exact Hp. Qed.
Theorem ser_spec i data lim :
  ser false i (data, lim) =
  if plain i && (count_item i <=? lim)%nat && (Z.of_nat (length data + length (enc_item i)) <=? max_size)
  then Some (data ++ enc_item i, (lim - count_item i)%nat) else None.
Proof. exact (ser_spec_gen false i data lim). Qed.
Theorem serialize_some i bs :
  serialize i = Some bs -> bs = enc_item i /\ (count_item i <= max_items)%nat /\ Z.of_nat (length bs) <= max_size.
Proof. intros H. apply serialize_gen_some in H. tauto. Qed.
Theorem serialize_plain i bs : serialize i = Some bs -> plain i = true.
Proof. intros H. apply serialize_gen_some in H. tauto. Qed.
Theorem serialize_ok i :
  plain i = true -> (count_item i <= max_items)%nat -> Z.of_nat (length (enc_item i)) <= max_size ->
  serialize i = Some (enc_item i).
Proof. intros Hp. apply serialize_gen_ok. exact Hp. Qed.
Theorem serialize_spec i :
  serialize i = if plain i && (count_item i <=? max_items)%nat && (Z.of_nat (length (enc_item i)) <=? max_size)
                then Some (enc_item i) else None.
Proof. exact (serialize_gen_spec false i). Qed.
(* the statement of the unextended model, for items without protected-mode constructors *)
Theorem serialize_spec_plain i : plain i = true ->
  serialize i = if (count_item i <=? max_items)%nat && (Z.of_nat (length (enc_item i)) <=? max_size)
                then Some (enc_item i) else None.
Proof. intros Hp. rewrite serialize_spec, Hp. reflexivity. Qed.

(* --- protected mode: SerializationContext.Serialize(item, true) never fails, it writes the Invalid marker --- *)
Theorem serialize_prot_total i :
  serialize_prot i = if (count_item i <=? max_items)%nat && (Z.of_nat (length (enc_item i)) <=? max_size)
                     then enc_item i else [255].
Proof. unfold serialize_prot. rewrite serialize_gen_spec. cbn [mode_ok orb andb]. case_if; reflexivity. Qed.
Theorem serialize_prot_ok i :
  (count_item i <= max_items)%nat -> Z.of_nat (length (enc_item i)) <= max_size -> serialize_prot i = enc_item i.
Proof. intros Hc Hs. rewrite serialize_prot_total. now replace ((count_item i <=? max_items)%nat && (Z.of_nat (length (enc_item i)) <=? max_size)) with true by lia. Qed.

(* ================= one step of decodeBinary, parametrised by the recursive call ================= *)
Definition read_body (prot : bool) (rd : rdec item) (t : Z) (lim' : nat) (r : list Z) : option (item * nat * list Z) :=
  if t =? 0 then Some (IAny, lim', r)
  else if t =? 32 then match read_bool_lax r with Some (b, r') => Some (IBool b, lim', r') | None => None end
  else if t =? 33 then match read_varbytes max_int_bytes r with Some (d, r') => Some (IInt (from_bytes d), lim', r') | None => None end
  else if t =? 40 then match read_varbytes max_size r with Some (d, r') => Some (IBytes d, lim', r') | None => None end
  else if t =? 48 then match read_varbytes max_size r with Some (d, r') => Some (IBuffer d, lim', r') | None => None end
  else if (t =? 64) || (t =? 65) then
    match read_varuint r with
    | Some (n, r') =>
        if Z.of_nat lim' <? n then None else
        match read_items rd (Z.to_nat n) lim' r' with
        | Some (l, lim'', r'') => Some ((if t =? 64 then IArray l else IStruct l), lim'', r'')
        | None => None
        end
    | None => None
    end
  else if t =? 72 then
    match read_varuint r with
    | Some (n, r') =>
        if Z.of_nat (lim' / 2) <? n then None else
        match read_pairs rd (Z.to_nat n) [] lim' r' with
        | Some (l, lim'', r'') => Some (IMap l, lim'', r'')
        | None => None
        end
    | None => None
    end
  else if prot && (t =? 96) then Some (IInterop, lim', r)
  else if prot && (t =? 16) then match read_varuint r with Some (p, r') => Some (IPointer p, lim', r') | None => None end
  else if prot && (t =? 255) then Some (IInvalid, lim', r)
  else None.

Lemma read_item_S prot f lim bs :
  read_item prot (S f) lim bs =
  match bs with
  | [] => None
  | t :: r => match lim with O => None | S lim' => read_body prot (read_item prot f) t lim' r end
  end.
Proof. reflexivity. Qed.
Lemma read_item_O prot lim bs : read_item prot O lim bs = None.
Proof. reflexivity. Qed.

Lemma read_body_0 prot rd lim r : read_body prot rd 0 lim r = Some (IAny, lim, r).
Proof. reflexivity. Qed.
Lemma read_body_32 prot rd lim r :
  read_body prot rd 32 lim r = match read_bool_lax r with Some (b, r') => Some (IBool b, lim, r') | None => None end.
Proof. reflexivity. Qed.
Lemma read_body_33 prot rd lim r :
  read_body prot rd 33 lim r =
  match read_varbytes max_int_bytes r with Some (d, r') => Some (IInt (from_bytes d), lim, r') | None => None end.
Proof. reflexivity. Qed.
Lemma read_body_40 prot rd lim r :
  read_body prot rd 40 lim r = match read_varbytes max_size r with Some (d, r') => Some (IBytes d, lim, r') | None => None end.
Proof. reflexivity. Qed.
Lemma read_body_48 prot rd lim r :
  read_body prot rd 48 lim r = match read_varbytes max_size r with Some (d, r') => Some (IBuffer d, lim, r') | None => None end.
Proof. reflexivity. Qed.
Lemma read_body_64 prot rd lim r :
  read_body prot rd 64 lim r =
  match read_varuint r with
  | Some (n, r') => if Z.of_nat lim <? n then None else
                    match read_items rd (Z.to_nat n) lim r' with
                    | Some (l, lim'', r'') => Some (IArray l, lim'', r'') | None => None end
  | None => None
  end.
Proof. reflexivity. Qed.
Lemma read_body_65 prot rd lim r :
  read_body prot rd 65 lim r =
  match read_varuint r with
  | Some (n, r') => if Z.of_nat lim <? n then None else
                    match read_items rd (Z.to_nat n) lim r' with
                    | Some (l, lim'', r'') => Some (IStruct l, lim'', r'') | None => None end
  | None => None
  end.
Proof. reflexivity. Qed.
Lemma read_body_72 prot rd lim r :
  read_body prot rd 72 lim r =
  match read_varuint r with
  | Some (n, r') => if Z.of_nat (lim / 2) <? n then None else
                    match read_pairs rd (Z.to_nat n) [] lim r' with
                    | Some (l, lim'', r'') => Some (IMap l, lim'', r'') | None => None end
  | None => None
  end.
Proof. reflexivity. Qed.
Lemma read_body_96 rd lim r : read_body true rd 96 lim r = Some (IInterop, lim, r).
Proof. reflexivity. Qed.
Lemma read_body_16 rd lim r :
  read_body true rd 16 lim r = match read_varuint r with Some (p, r') => Some (IPointer p, lim, r') | None => None end.
Proof. reflexivity. Qed.
Lemma read_body_255 rd lim r : read_body true rd 255 lim r = Some (IInvalid, lim, r).
Proof. reflexivity. Qed.

(* every way [read_body] can succeed *)
Inductive read_case (prot : bool) (rd : rdec item) (t : Z) (lim : nat) (r : list Z) (i : item) (lim' : nat) (rest : list Z) : Prop :=
| rc_any : t = 0 -> i = IAny -> lim' = lim -> rest = r -> read_case prot rd t lim r i lim' rest
| rc_bool b : t = 32 -> read_bool_lax r = Some (b, rest) -> i = IBool b -> lim' = lim -> read_case prot rd t lim r i lim' rest
| rc_int d : t = 33 -> read_varbytes max_int_bytes r = Some (d, rest) -> i = IInt (from_bytes d) -> lim' = lim ->
             read_case prot rd t lim r i lim' rest
| rc_bytes d : t = 40 -> read_varbytes max_size r = Some (d, rest) -> i = IBytes d -> lim' = lim ->
               read_case prot rd t lim r i lim' rest
| rc_buffer d : t = 48 -> read_varbytes max_size r = Some (d, rest) -> i = IBuffer d -> lim' = lim ->
                read_case prot rd t lim r i lim' rest
| rc_array n r' l : t = 64 -> read_varuint r = Some (n, r') -> n <= Z.of_nat lim ->
                    read_items rd (Z.to_nat n) lim r' = Some (l, lim', rest) -> i = IArray l ->
                    read_case prot rd t lim r i lim' rest
| rc_struct n r' l : t = 65 -> read_varuint r = Some (n, r') -> n <= Z.of_nat lim ->
                     read_items rd (Z.to_nat n) lim r' = Some (l, lim', rest) -> i = IStruct l ->
                     read_case prot rd t lim r i lim' rest
| rc_map n r' l : t = 72 -> read_varuint r = Some (n, r') -> n <= Z.of_nat (lim / 2) ->
                  read_pairs rd (Z.to_nat n) [] lim r' = Some (l, lim', rest) -> i = IMap l ->
                  read_case prot rd t lim r i lim' rest
| rc_interop : prot = true -> t = 96 -> i = IInterop -> lim' = lim -> rest = r -> read_case prot rd t lim r i lim' rest
| rc_pointer p : prot = true -> t = 16 -> read_varuint r = Some (p, rest) -> i = IPointer p -> lim' = lim ->
                 read_case prot rd t lim r i lim' rest
| rc_invalid : prot = true -> t = 255 -> i = IInvalid -> lim' = lim -> rest = r -> read_case prot rd t lim r i lim' rest.

Lemma read_body_some prot rd t lim r i lim' rest :
  read_body prot rd t lim r = Some (i, lim', rest) -> read_case prot rd t lim r i lim' rest.
Proof.
  unfold read_body. intros H.
  case_if_in H. { inv H. apply rc_any; auto; lia. }
  case_if_in H. { destruct (read_bool_lax r) as [[b r']|] eqn:E; [|discriminate]. inv H. eapply rc_bool; eauto; lia. }
  case_if_in H. { destruct (read_varbytes max_int_bytes r) as [[d r']|] eqn:E; [|discriminate]. inv H. eapply rc_int; eauto; lia. }
  case_if_in H. { destruct (read_varbytes max_size r) as [[d r']|] eqn:E; [|discriminate]. inv H. eapply rc_bytes; eauto; lia. }
  case_if_in H. { destruct (read_varbytes max_size r) as [[d r']|] eqn:E; [|discriminate]. inv H. eapply rc_buffer; eauto; lia. }
  case_if_in H.
  { destruct (read_varuint r) as [[n r']|] eqn:E; [|discriminate].
    case_if_in H; [discriminate|].
    destruct (read_items rd (Z.to_nat n) lim r') as [[[l l2] r2]|] eqn:E2; [|discriminate].
    case_if_in H; inv H; [eapply rc_array|eapply rc_struct]; eauto; lia. }
  case_if_in H.
  { destruct (read_varuint r) as [[n r']|] eqn:E; [|discriminate].
    case_if_in H; [discriminate|].
    destruct (read_pairs rd (Z.to_nat n) [] lim r') as [[[l l2] r2]|] eqn:E2; [|discriminate].
    inv H. eapply rc_map; eauto; lia. }
  destruct prot; cbn [andb] in H; [|discriminate].
  case_if_in H. { inv H. apply rc_interop; auto; lia. }
  case_if_in H. { destruct (read_varuint r) as [[p r']|] eqn:E; [|discriminate]. inv H. eapply rc_pointer; eauto; lia. }
  case_if_in H; [|discriminate]. inv H. apply rc_invalid; auto; lia.
Qed.

Lemma read_item_some prot f lim bs i lim' rest :
  read_item prot f lim bs = Some (i, lim', rest) ->
  exists f0 t r lim0, f = S f0 /\ bs = t :: r /\ lim = S lim0 /\ read_case prot (read_item prot f0) t lim0 r i lim' rest.
Proof.
  destruct f as [|f0]; [discriminate|]. rewrite read_item_S.
  destruct bs as [|t r]; [discriminate|]. destruct lim as [|lim0]; [discriminate|].
  intros H. apply read_body_some in H. eauto 8.
Qed.

(* ================= the item budget and the consumed input (no assumption on the bytes) ================= *)
Definition rd_budget (rd : rdec item) : Prop :=
  forall lim bs i lim' rest, rd lim bs = Some (i, lim', rest) ->
    (lim' + count_item i <= lim)%nat /\ (length rest < length bs)%nat.

Lemma read_bool_lax_some bs b rest : read_bool_lax bs = Some (b, rest) -> exists x, bs = x :: rest.
Proof.
  unfold read_bool_lax. intros H. apply bind_some in H as (x & r & Hx & H). apply read_b_some in Hx as ->.
  inv H. eauto.
Qed.

Lemma read_items_budget rd : rd_budget rd -> forall n lim bs l lim' rest,
  read_items rd n lim bs = Some (l, lim', rest) ->
  (lim' + count_list l <= lim)%nat /\ (length rest <= length bs)%nat /\ length l = n.
Proof.
  intros Hrd n. induction n as [|n IH]; intros lim bs l lim' rest H; cbn [read_items] in H.
  - inv H. cbn [count_list length]. lia.
  - destruct (rd lim bs) as [[[x l1] r1]|] eqn:E; [|discriminate].
    destruct (read_items rd n l1 r1) as [[[t l2] r2]|] eqn:E2; [|discriminate]. inv H.
    apply Hrd in E. apply IH in E2. cbn [count_list length]. lia.
Qed.

Lemma count_pairs_map_add acc k v :
  (count_pairs (map_add acc k v) <= count_pairs acc + count_item k + count_item v)%nat.
Proof.
  induction acc as [|[k' v'] t IH]; cbn [map_add count_pairs]; [lia|].
  case_if; cbn [count_pairs]; lia.
Qed.
Lemma length_map_add acc k v : (length acc <= length (map_add acc k v) <= S (length acc))%nat.
Proof. induction acc as [|[k' v'] t IH]; cbn [map_add length]; [lia|]. case_if; cbn [length]; lia. Qed.

Lemma read_pairs_budget rd : rd_budget rd -> forall n acc lim bs l lim' rest,
  read_pairs rd n acc lim bs = Some (l, lim', rest) ->
  (lim' + count_pairs l <= lim + count_pairs acc)%nat /\ (length rest <= length bs)%nat /\
  (length acc <= length l <= length acc + n)%nat.
Proof.
  intros Hrd n. induction n as [|n IH]; intros acc lim bs l lim' rest H; cbn [read_pairs] in H.
  - inv H. lia.
  - destruct (rd lim bs) as [[[k l1] r1]|] eqn:E; [|discriminate].
    destruct (rd l1 r1) as [[[v l2] r2]|] eqn:E2; [|discriminate].
    case_if_in H; [|discriminate].
    apply Hrd in E. apply Hrd in E2. apply IH in H.
    pose proof (count_pairs_map_add acc k v). pose proof (length_map_add acc k v). lia.
Qed.

Lemma read_case_budget prot rd t lim r i lim' rest : rd_budget rd ->
  read_case prot rd t lim r i lim' rest -> (lim' + count_item i <= S lim)%nat /\ (length rest <= length r)%nat.
Proof.
  intros Hrd H. destruct H as [? ? ? ?|b ? E ? ?|d ? E ? ?|d ? E ? ?|d ? E ? ?|n r' l ? E ? E2 ?|n r' l ? E ? E2 ?|n r' l ? E ? E2 ?
                              |? ? ? ? ?|p ? ? E ? ?|? ? ? ? ?]; subst.
  - cbn [count_item]. lia.
  - apply read_bool_lax_some in E as [x ->]. cbn [count_item length]. lia.
  - apply read_varbytes_consumes in E. cbn [count_item]. lia.
  - apply read_varbytes_consumes in E. cbn [count_item]. lia.
  - apply read_varbytes_consumes in E. cbn [count_item]. lia.
  - apply read_varuint_consumes in E. apply (read_items_budget rd Hrd) in E2. rewrite count_item_array. lia.
  - apply read_varuint_consumes in E. apply (read_items_budget rd Hrd) in E2. rewrite count_item_struct. lia.
  - apply read_varuint_consumes in E. apply (read_pairs_budget rd Hrd) in E2. rewrite count_item_map.
    cbn [count_pairs] in E2. lia.
  - cbn [count_item]. lia.
  - apply read_varuint_consumes in E. cbn [count_item]. lia.
  - cbn [count_item]. lia.
Qed.

Lemma read_item_budget_all prot f : rd_budget (read_item prot f).
Proof.
  induction f as [|f IH]; intros lim bs i lim' rest H; [discriminate|].
  apply read_item_some in H as (f0 & t & r & lim0 & Ef & -> & -> & Hc). inv Ef.
  apply (read_case_budget _ _ _ _ _ _ _ _ IH) in Hc. cbn [length]. lia.
Qed.

(* the budget consumed bounds the number of items built; at least one byte is consumed (both modes) *)
Theorem read_item_budget prot f lim bs i lim' rest :
  read_item prot f lim bs = Some (i, lim', rest) ->
  (lim' + count_item i <= lim)%nat /\ (length rest < length bs)%nat.
Proof. apply read_item_budget_all. Qed.

(* alloc/count bounded: no accepted input yields more than MaxDeserialized items *)
Theorem deserialize_gen_limits prot bs i : deserialize_gen prot bs = Some i -> (count_item i <= max_items)%nat.
Proof.
  unfold deserialize_gen. destruct (read_item prot (S (length bs)) max_items bs) as [[[x l] r]|] eqn:E; [|discriminate].
  intros H; inv H. apply read_item_budget in E. lia.
Qed.
Theorem deserialize_limits bs i : deserialize bs = Some i -> (count_item i <= max_items)%nat.
Proof. apply deserialize_gen_limits. Qed.

(* one item from a stream *)
Lemma read_item_dec_some prot bs i rest :
  read_item_dec prot bs = Some (i, rest) <->
  exists lim', read_item prot (S (length bs)) max_items bs = Some (i, lim', rest).
Proof.
  unfold read_item_dec. destruct (read_item prot (S (length bs)) max_items bs) as [[[x l] r]|]; split.
  - intros H; inv H. eauto.
  - intros [l0 H]. inv H. reflexivity.
  - discriminate.
  - intros [l0 H]. discriminate.
Qed.
Theorem read_item_dec_consumes prot : dec_consumes (read_item_dec prot).
Proof. intros bs i rest H. apply read_item_dec_some in H as [l0 H]. apply read_item_budget in H. lia. Qed.
Theorem read_item_dec_limits prot bs i rest : read_item_dec prot bs = Some (i, rest) -> (count_item i <= max_items)%nat.
Proof. intros H. apply read_item_dec_some in H as [l0 H]. apply read_item_budget in H. lia. Qed.

(* ================= F. fuel ================= *)
Definition rd_le (rd rd' : rdec item) : Prop := forall lim bs r, rd lim bs = Some r -> rd' lim bs = Some r.

Lemma read_items_mono rd rd' : rd_le rd rd' -> forall n lim bs r,
  read_items rd n lim bs = Some r -> read_items rd' n lim bs = Some r.
Proof.
  intros Hle n. induction n as [|n IH]; intros lim bs r H; cbn [read_items] in *; [exact H|].
  destruct (rd lim bs) as [[[x l1] r1]|] eqn:E; [|discriminate]. rewrite (Hle _ _ _ E).
  destruct (read_items rd n l1 r1) as [[[l l2] r2]|] eqn:E2; [|discriminate]. rewrite (IH _ _ _ E2). exact H.
Qed.
Lemma read_pairs_mono rd rd' : rd_le rd rd' -> forall n acc lim bs r,
  read_pairs rd n acc lim bs = Some r -> read_pairs rd' n acc lim bs = Some r.
Proof.
  intros Hle n. induction n as [|n IH]; intros acc lim bs r H; cbn [read_pairs] in *; [exact H|].
  destruct (rd lim bs) as [[[k l1] r1]|] eqn:E; [|discriminate]. rewrite (Hle _ _ _ E).
  destruct (rd l1 r1) as [[[v l2] r2]|] eqn:E2; [|discriminate]. rewrite (Hle _ _ _ E2).
  case_if; [|discriminate]. apply IH. exact H.
Qed.
Lemma read_body_mono prot rd rd' t lim r x : rd_le rd rd' ->
  read_body prot rd t lim r = Some x -> read_body prot rd' t lim r = Some x.
Proof.
  intros Hle. unfold read_body. repeat (case_if; [exact (fun H => H)|]).
  case_if.
  { destruct (read_varuint r) as [[n r']|]; [|discriminate]. case_if; [discriminate|].
    destruct (read_items rd (Z.to_nat n) lim r') as [[[l l2] r2]|] eqn:E; [|discriminate].
    rewrite (read_items_mono _ _ Hle _ _ _ _ E). exact (fun H => H). }
  case_if; [|exact (fun H => H)].
  destruct (read_varuint r) as [[n r']|]; [|discriminate]. case_if; [discriminate|].
  destruct (read_pairs rd (Z.to_nat n) [] lim r') as [[[l l2] r2]|] eqn:E; [|discriminate].
  rewrite (read_pairs_mono _ _ Hle _ _ _ _ _ E). exact (fun H => H).
Qed.

(* a result obtained with some fuel is obtained with any larger fuel *)
Theorem read_item_fuel_mono prot f f' lim bs r :
  read_item prot f lim bs = Some r -> (f <= f')%nat -> read_item prot f' lim bs = Some r.
Proof.
  revert f' lim bs r. induction f as [|f IH]; intros f' lim bs r H Hle; [discriminate|].
  destruct f' as [|f']; [lia|]. rewrite read_item_S in *.
  destruct bs as [|t b]; [discriminate|]. destruct lim as [|lim0]; [discriminate|].
  eapply read_body_mono; [|exact H]. intros l0 b0 r0 H0. apply (IH f'); [exact H0|lia].
Qed.

(* two readers that agree on inputs of length <= m *)
Definition rd_agree (m : nat) (rd rd' : rdec item) : Prop :=
  forall lim bs, (length bs <= m)%nat -> rd lim bs = rd' lim bs.

Lemma read_items_agree m rd rd' : rd_agree m rd rd' -> rd_budget rd -> forall n lim bs,
  (length bs <= m)%nat -> read_items rd n lim bs = read_items rd' n lim bs.
Proof.
  intros Ha Hb n. induction n as [|n IH]; intros lim bs Hl; cbn [read_items]; [reflexivity|].
  rewrite <- (Ha lim bs Hl). destruct (rd lim bs) as [[[x l1] r1]|] eqn:E; [|reflexivity].
  apply Hb in E. rewrite IH by lia. reflexivity.
Qed.
Lemma read_pairs_agree m rd rd' : rd_agree m rd rd' -> rd_budget rd -> forall n acc lim bs,
  (length bs <= m)%nat -> read_pairs rd n acc lim bs = read_pairs rd' n acc lim bs.
Proof.
  intros Ha Hb n. induction n as [|n IH]; intros acc lim bs Hl; cbn [read_pairs]; [reflexivity|].
  rewrite <- (Ha lim bs Hl). destruct (rd lim bs) as [[[k l1] r1]|] eqn:E; [|reflexivity].
  apply Hb in E. rewrite <- (Ha l1 r1) by lia. destruct (rd l1 r1) as [[[v l2] r2]|] eqn:E2; [|reflexivity].
  apply Hb in E2. case_if; [|reflexivity]. apply IH. lia.
Qed.
Lemma read_body_agree prot m rd rd' t lim r : rd_agree m rd rd' -> rd_budget rd -> (length r <= m)%nat ->
  read_body prot rd t lim r = read_body prot rd' t lim r.
Proof.
  intros Ha Hb Hl. unfold read_body. repeat (case_if; [reflexivity|]).
  case_if.
  { destruct (read_varuint r) as [[n r']|] eqn:E; [|reflexivity]. apply read_varuint_consumes in E.
    case_if; [reflexivity|]. rewrite (read_items_agree m rd rd' Ha Hb) by lia. reflexivity. }
  case_if; [|reflexivity].
  destruct (read_varuint r) as [[n r']|] eqn:E; [|reflexivity]. apply read_varuint_consumes in E.
  case_if; [reflexivity|]. rewrite (read_pairs_agree m rd rd' Ha Hb) by lia. reflexivity.
Qed.

(* beyond the input length extra fuel changes nothing: a [None] of [deserialize] (fuel = S (length bs)) is a
   genuine rejection of the input, never "out of fuel"  (decode_total) *)
Theorem read_item_fuel_enough prot f f' lim bs :
  (length bs < f)%nat -> (length bs < f')%nat -> read_item prot f lim bs = read_item prot f' lim bs.
Proof.
  revert f' lim bs. induction f as [|f IH]; intros f' lim bs H1 H2; [lia|].
  destruct f' as [|f']; [lia|]. rewrite !read_item_S.
  destruct bs as [|t b]; [reflexivity|]. destruct lim as [|lim0]; [reflexivity|]. cbn [length] in *.
  apply (read_body_agree prot (length b)); [|apply read_item_budget_all|lia].
  intros l0 b0 Hb0. apply IH; lia.
Qed.
Corollary deserialize_gen_fuel prot bs f : (length bs < f)%nat ->
  deserialize_gen prot bs = match read_item prot f max_items bs with Some (i, _, _) => Some i | None => None end.
Proof. intros H. unfold deserialize_gen. rewrite (read_item_fuel_enough prot (S (length bs)) f) by lia. reflexivity. Qed.
Corollary deserialize_fuel bs f : (length bs < f)%nat ->
  deserialize bs = match read_item false f max_items bs with Some (i, _, _) => Some i | None => None end.
Proof. apply deserialize_gen_fuel. Qed.

(* ================= B. well-formed items ================= *)
(* keys pairwise distinct w.r.t. Map.Add's comparison (earlier key against later key, as [map_add] tests) *)
Fixpoint keys_distinct (ks : list item) : Prop :=
  match ks with
  | [] => True
  | k :: t => Forall (fun k' => key_eqb k k' = false) t /\ keys_distinct t
  end.

(* what mode [prot] produces and accepts: the last three constructors in protected mode only (at any depth) *)
Inductive item_wf_g (prot : bool) : item -> Prop :=
| wf_any : item_wf_g prot IAny
| wf_bool b : item_wf_g prot (IBool b)
| wf_int z : in_int256 z = true -> item_wf_g prot (IInt z)                                  (* 32-byte VM integer *)
| wf_bytes b : bytes_ok b -> Z.of_nat (length b) <= max_size -> item_wf_g prot (IBytes b)
| wf_buffer b : bytes_ok b -> Z.of_nat (length b) <= max_size -> item_wf_g prot (IBuffer b)
| wf_array l : Forall (item_wf_g prot) l -> item_wf_g prot (IArray l)
| wf_struct l : Forall (item_wf_g prot) l -> item_wf_g prot (IStruct l)
| wf_map l : Forall (fun kv => valid_key (fst kv) = true /\ item_wf_g prot (fst kv) /\ item_wf_g prot (snd kv)) l ->
             keys_distinct (map fst l) -> item_wf_g prot (IMap l)
| wf_interop : prot = true -> item_wf_g prot IInterop
| wf_pointer pos : prot = true -> 0 <= pos < 2 ^ 64 -> item_wf_g prot (IPointer pos)
| wf_invalid : prot = true -> item_wf_g prot IInvalid.

(* normal mode (Serialize / Deserialize) and protected mode *)
Definition item_wf : item -> Prop := item_wf_g false.
Definition item_wf_p : item -> Prop := item_wf_g true.

Definition pairs_wf (prot : bool) (l : list (item * item)) : Prop :=
  Forall (fun kv => valid_key (fst kv) = true /\ item_wf_g prot (fst kv) /\ item_wf_g prot (snd kv)) l /\
  keys_distinct (map fst l).

(* a normal-mode item is a protected-mode item *)
Lemma item_wf_g_mono prot i : item_wf_g false i -> item_wf_g prot i.
Proof.
  induction i as [| | | | |l IHl|l IHl|l IHl| | |] using item_ind'; intros H; inv H; try discriminate.
  - constructor.
  - constructor.
  - constructor; assumption.
  - constructor; assumption.
  - constructor; assumption.
  - constructor. rewrite Forall_forall in *. auto.
  - constructor. rewrite Forall_forall in *. auto.
  - constructor; [|assumption]. rewrite Forall_forall in *. intros kv Hin.
    destruct (H1 kv Hin) as (A & B & C). destruct (IHl kv Hin) as [Hk Hv]. auto.
Qed.
Theorem item_wf_wf_p i : item_wf i -> item_wf_p i.
Proof. apply item_wf_g_mono. Qed.

(* a well-formed item of a mode has only constructors of that mode *)
Lemma wf_plain_list prot l : Forall (fun x => item_wf_g prot x -> mode_ok prot x = true) l ->
  Forall (item_wf_g prot) l -> prot || plain_list l = true.
Proof.
  induction 1 as [|x t Hx Ht IH]; intros Hw; cbn [plain_list]; [apply orb_true_r|]. inv Hw.
  rewrite mode_ok_list, Hx, IH by assumption. reflexivity.
Qed.
Lemma wf_mode_ok prot i : item_wf_g prot i -> mode_ok prot i = true.
Proof.
  induction i as [| | | | |l IHl|l IHl|l IHl| | |] using item_ind'; intros H; inv H; unfold mode_ok;
    try (cbn [plain]; apply orb_true_r); try (cbn [orb]; reflexivity).
  - rewrite plain_array. apply wf_plain_list; assumption.
  - rewrite plain_struct. apply wf_plain_list; assumption.
  - rewrite plain_map. clear H2. induction IHl as [|[k v] t [Hk Hv] Ht IH]; cbn [plain_pairs]; [apply orb_true_r|].
    inv H1. destruct H2 as (_ & Hwk & Hwv). cbn [fst snd] in *.
    rewrite mode_ok_pairs, Hk, Hv, IH by assumption. reflexivity.
Qed.
Theorem item_wf_plain i : item_wf i -> plain i = true.
Proof. intros H. apply wf_mode_ok in H. exact H. Qed.

(* nesting depth; every level costs at least one byte of encoding *)
Fixpoint item_depth (i : item) : nat :=
  match i with
  | IArray l | IStruct l => S ((fix dl (l : list item) := match l with [] => O | x :: t => Nat.max (item_depth x) (dl t) end) l)
  | IMap l => S ((fix dl (l : list (item * item)) :=
                    match l with [] => O | (k, v) :: t => Nat.max (Nat.max (item_depth k) (item_depth v)) (dl t) end) l)
  | _ => O
  end.
Fixpoint depth_list (l : list item) : nat :=
  match l with [] => O | x :: t => Nat.max (item_depth x) (depth_list t) end.
Fixpoint depth_pairs (l : list (item * item)) : nat :=
  match l with [] => O | (k, v) :: t => Nat.max (Nat.max (item_depth k) (item_depth v)) (depth_pairs t) end.
Lemma item_depth_array l : item_depth (IArray l) = S (depth_list l).
Proof. reflexivity. Qed.
Lemma item_depth_struct l : item_depth (IStruct l) = S (depth_list l).
Proof. reflexivity. Qed.
Lemma item_depth_map l : item_depth (IMap l) = S (depth_pairs l).
Proof. reflexivity. Qed.

Lemma enc_item_nonempty i : (1 <= length (enc_item i))%nat.
Proof. destruct i; cbn [enc_item length]; lia. Qed.

Lemma depth_list_lt l : Forall (fun x => (item_depth x < length (enc_item x))%nat) l ->
  (depth_list l <= length (enc_list l))%nat.
Proof.
  induction 1 as [|x t Hx Ht IH]; cbn [depth_list enc_list length]; [lia|]. rewrite app_length. lia.
Qed.
Lemma depth_pairs_lt l :
  Forall (fun kv => (item_depth (fst kv) < length (enc_item (fst kv)))%nat /\
                    (item_depth (snd kv) < length (enc_item (snd kv)))%nat) l ->
  (depth_pairs l <= length (enc_pairs l))%nat.
Proof.
  induction 1 as [|[k v] t [Hk Hv] Ht IH]; cbn [depth_pairs enc_pairs length fst snd] in *; [lia|].
  rewrite !app_length. lia.
Qed.
Theorem item_depth_lt_enc i : (item_depth i < length (enc_item i))%nat.
Proof.
  induction i as [| | | | |l IHl|l IHl|l IHl| | |] using item_ind'.
  1-5, 9-11: cbn [item_depth enc_item length]; lia.
  - rewrite item_depth_array, enc_item_array. cbn [length]. rewrite app_length.
    pose proof (write_varuint_length (Z.of_nat (length l))). apply depth_list_lt in IHl. lia.
  - rewrite item_depth_struct, enc_item_struct. cbn [length]. rewrite app_length.
    pose proof (write_varuint_length (Z.of_nat (length l))). apply depth_list_lt in IHl. lia.
  - rewrite item_depth_map, enc_item_map. cbn [length]. rewrite app_length.
    pose proof (write_varuint_length (Z.of_nat (length l))). apply depth_pairs_lt in IHl. lia.
Qed.

(* ================= C. round-trip ================= *)
Lemma keys_distinct_app_inv a k t :
  keys_distinct (a ++ k :: t) -> Forall (fun k' => key_eqb k' k = false) a.
Proof.
  induction a as [|x a IH]; cbn [app keys_distinct]; [constructor|].
  intros [Hf Hd]. constructor; [|apply IH; exact Hd].
  apply Forall_app in Hf as [_ Hf]. now inv Hf.
Qed.
Lemma map_add_fresh acc k v :
  Forall (fun k' => key_eqb k' k = false) (map fst acc) -> map_add acc k v = acc ++ [(k, v)].
Proof.
  induction acc as [|[k' v'] t IH]; cbn [map fst map_add app]; [reflexivity|].
  intros Hf. inv Hf. rewrite H1. now rewrite IH.
Qed.

Definition rt_P (prot : bool) (i : item) : Prop :=
  item_wf_g prot i -> forall fuel lim rest, (count_item i <= lim)%nat -> Z.of_nat lim < 2 ^ 64 -> (item_depth i < fuel)%nat ->
    read_item prot fuel lim (enc_item i ++ rest) = Some (i, (lim - count_item i)%nat, rest).

Lemma read_items_enc prot f l : Forall (rt_P prot) l -> Forall (item_wf_g prot) l -> (depth_list l < f)%nat ->
  forall lim rest, (count_list l <= lim)%nat -> Z.of_nat lim < 2 ^ 64 ->
    read_items (read_item prot f) (length l) lim (enc_list l ++ rest) = Some (l, (lim - count_list l)%nat, rest).
Proof.
  intros HP. induction HP as [|x t Hx Ht IH]; intros Hwf Hd lim rest Hc H64;
    cbn [length read_items enc_list count_list depth_list] in *.
  - rewrite Nat.sub_0_r. reflexivity.
  - inv Hwf. rewrite <- app_assoc. rewrite Hx by (assumption || lia).
    rewrite IH by (assumption || lia). do 3 f_equal. lia.
Qed.
Lemma read_pairs_enc prot f l : Forall (fun kv => rt_P prot (fst kv) /\ rt_P prot (snd kv)) l ->
  Forall (fun kv => valid_key (fst kv) = true /\ item_wf_g prot (fst kv) /\ item_wf_g prot (snd kv)) l ->
  (depth_pairs l < f)%nat ->
  forall acc lim rest, keys_distinct (map fst acc ++ map fst l) -> (count_pairs l <= lim)%nat -> Z.of_nat lim < 2 ^ 64 ->
    read_pairs (read_item prot f) (length l) acc lim (enc_pairs l ++ rest) = Some (acc ++ l, (lim - count_pairs l)%nat, rest).
Proof.
  intros HP. induction HP as [|[k v] t [Hk Hv] Ht IH]; intros Hwf Hd acc lim rest Hkd Hc H64;
    cbn [length read_pairs enc_pairs count_pairs depth_pairs fst snd map] in *.
  - rewrite Nat.sub_0_r, app_nil_r. reflexivity.
  - inv Hwf. destruct H1 as (Hvk & Hwk & Hwv). cbn [fst snd] in *.
    rewrite <- !app_assoc. rewrite Hk by (assumption || lia). rewrite Hv by (assumption || lia). rewrite Hvk.
    rewrite (map_add_fresh acc k v) by (eapply keys_distinct_app_inv; exact Hkd).
    rewrite IH; [|assumption|lia| |lia|lia].
    + rewrite <- app_assoc. cbn [app]. do 3 f_equal. lia.
    + rewrite map_app. cbn [map fst]. rewrite <- app_assoc. exact Hkd.
Qed.

Lemma rt_all prot i : rt_P prot i.
Proof.
  induction i as [| | | | |l IHl|l IHl|l IHl| | |] using item_ind'; intros Hwf fuel lim rest Hc H64 Hd;
    (destruct fuel as [|f]; [lia|]); (destruct lim as [|lim0]; [cbn [count_item] in Hc; lia|]).
  - cbn [enc_item app]. rewrite read_item_S, read_body_0. cbn [count_item]. do 3 f_equal. lia.
  - cbn [enc_item app]. rewrite read_item_S, read_body_32, read_bool_lax_write. cbn [count_item]. do 3 f_equal. lia.
  - inv Hwf. apply fits256_iff_len in H0. cbn [enc_item app]. rewrite read_item_S, read_body_33.
    change (Z.of_nat (length (to_bytes z)) :: to_bytes z ++ rest) with ([Z.of_nat (length (to_bytes z))] ++ to_bytes z ++ rest).
    replace [Z.of_nat (length (to_bytes z))] with (write_varuint (Z.of_nat (length (to_bytes z))))
      by (unfold write_varuint; now replace (Z.of_nat (length (to_bytes z)) <? 253) with true by lia).
    rewrite app_assoc. fold (write_varbytes (to_bytes z)).
    rewrite varbytes_roundtrip by (unfold max_int_bytes; lia). rewrite bigint_roundtrip.
    cbn [count_item]. do 3 f_equal. lia.
  - inv Hwf. cbn [enc_item app]. rewrite read_item_S, read_body_40.
    rewrite varbytes_roundtrip by (unfold max_size in *; lia). cbn [count_item]. do 3 f_equal. lia.
  - inv Hwf. cbn [enc_item app]. rewrite read_item_S, read_body_48.
    rewrite varbytes_roundtrip by (unfold max_size in *; lia). cbn [count_item]. do 3 f_equal. lia.
  - inv Hwf. rewrite enc_item_array, count_item_array, item_depth_array in *. cbn [app].
    rewrite read_item_S, read_body_64. rewrite <- app_assoc.
    pose proof (length_le_count_list l).
    rewrite varuint_roundtrip by (unfold u64_ok; lia).
    replace (Z.of_nat lim0 <? Z.of_nat (length l)) with false by lia. rewrite Nat2Z.id.
    rewrite read_items_enc by (assumption || lia). do 3 f_equal.
  - inv Hwf. rewrite enc_item_struct, count_item_struct, item_depth_struct in *. cbn [app].
    rewrite read_item_S, read_body_65. rewrite <- app_assoc.
    pose proof (length_le_count_list l).
    rewrite varuint_roundtrip by (unfold u64_ok; lia).
    replace (Z.of_nat lim0 <? Z.of_nat (length l)) with false by lia. rewrite Nat2Z.id.
    rewrite read_items_enc by (assumption || lia). do 3 f_equal.
  - inv Hwf. rewrite enc_item_map, count_item_map, item_depth_map in *. cbn [app].
    rewrite read_item_S, read_body_72. rewrite <- app_assoc.
    pose proof (length_le_count_pairs l).
    rewrite varuint_roundtrip by (unfold u64_ok; lia).
    replace (Z.of_nat (lim0 / 2) <? Z.of_nat (length l)) with false by lia. rewrite Nat2Z.id.
    rewrite read_pairs_enc by (assumption || lia). cbn [app]. do 3 f_equal.
  - inv Hwf. cbn [enc_item app]. rewrite read_item_S, read_body_96. cbn [count_item]. do 3 f_equal. lia.
  - inv Hwf. cbn [enc_item app]. rewrite read_item_S, read_body_16.
    rewrite varuint_roundtrip by (unfold u64_ok; lia). cbn [count_item]. do 3 f_equal. lia.
  - inv Hwf. cbn [enc_item app]. rewrite read_item_S, read_body_255. cbn [count_item]. do 3 f_equal. lia.
Qed.

(* Round-trip with the budget threaded.  [lim < 2^64]: the budget is a Go int. *)
Theorem read_item_enc_gen prot i fuel lim rest :
  item_wf_g prot i -> (count_item i <= lim)%nat -> Z.of_nat lim < 2 ^ 64 -> (item_depth i < fuel)%nat ->
  read_item prot fuel lim (enc_item i ++ rest) = Some (i, (lim - count_item i)%nat, rest).
Proof. intros Hwf Hc H64 Hd. apply rt_all; assumption. Qed.
Theorem read_item_enc i fuel lim rest :
  item_wf i -> (count_item i <= lim)%nat -> Z.of_nat lim < 2 ^ 64 -> (item_depth i < fuel)%nat ->
  read_item false fuel lim (enc_item i ++ rest) = Some (i, (lim - count_item i)%nat, rest).
Proof. apply read_item_enc_gen. Qed.
Theorem read_item_enc_p i fuel lim rest :
  item_wf_p i -> (count_item i <= lim)%nat -> Z.of_nat lim < 2 ^ 64 -> (item_depth i < fuel)%nat ->
  read_item true fuel lim (enc_item i ++ rest) = Some (i, (lim - count_item i)%nat, rest).
Proof. apply read_item_enc_gen. Qed.

Lemma max_items_val : Z.of_nat max_items = 2048.
Proof. vm_compute. reflexivity. Qed.

(* the stream reader returns the item and exactly the rest: [codec_ok] for items within the count limit *)
Theorem read_item_dec_enc prot i rest :
  item_wf_g prot i -> (count_item i <= max_items)%nat -> read_item_dec prot (enc_item i ++ rest) = Some (i, rest).
Proof.
  intros Hwf Hc. unfold read_item_dec.
  rewrite read_item_enc_gen; [reflexivity|assumption|assumption|rewrite max_items_val; lia|].
  pose proof (item_depth_lt_enc i). rewrite app_length. lia.
Qed.
Theorem deserialize_gen_enc prot i :
  item_wf_g prot i -> (count_item i <= max_items)%nat -> deserialize_gen prot (enc_item i) = Some i.
Proof.
  intros Hwf Hc. unfold deserialize_gen. rewrite <- (app_nil_r (enc_item i)) at 2.
  rewrite read_item_enc_gen; [reflexivity|assumption|assumption|rewrite max_items_val; lia|].
  pose proof (item_depth_lt_enc i). lia.
Qed.
Theorem deserialize_gen_serialize prot i bs :
  item_wf_g prot i -> serialize_gen prot i = Some bs -> deserialize_gen prot bs = Some i.
Proof. intros Hwf H. apply serialize_gen_some in H as (-> & Hc & _). apply deserialize_gen_enc; assumption. Qed.
Theorem deserialize_serialize i bs : item_wf i -> serialize i = Some bs -> deserialize bs = Some i.
Proof. apply deserialize_gen_serialize. Qed.
(* protected mode: what Serialize(item, true) wrote for a well-formed item within the limits comes back *)
Theorem deserialize_p_enc i :
  item_wf_p i -> (count_item i <= max_items)%nat -> deserialize_gen true (enc_item i) = Some i.
Proof. apply deserialize_gen_enc. Qed.
Theorem deserialize_serialize_prot i :
  item_wf_p i -> (count_item i <= max_items)%nat -> Z.of_nat (length (enc_item i)) <= max_size ->
  deserialize_gen true (serialize_prot i) = Some i.
Proof. intros Hwf Hc Hs. rewrite serialize_prot_ok by assumption. apply deserialize_p_enc; assumption. Qed.
(* ... and an item beyond the limits comes back as the nil item *)
Theorem deserialize_serialize_prot_over i :
  serialize_gen true i = None -> deserialize_gen true (serialize_prot i) = Some IInvalid.
Proof. intros H. unfold serialize_prot. rewrite H. vm_compute. reflexivity. Qed.

(* ================= D/E. what the decoder accepts ================= *)
(* well-formed, rest still bytes, and the canonical encoding of the result is not longer than what was read *)
Definition rd_good (prot : bool) (rd : rdec item) : Prop :=
  forall lim bs i lim' rest, bytes_ok bs -> rd lim bs = Some (i, lim', rest) ->
    item_wf_g prot i /\ bytes_ok rest /\ (length (enc_item i) + length rest <= length bs)%nat.

Lemma write_varuint_length_mono a b : 0 <= a <= b -> (length (write_varuint a) <= length (write_varuint b))%nat.
Proof. intros H. unfold write_varuint. repeat case_if; cbn [length]; rewrite ?le_bytes_length; lia. Qed.

Lemma read_varbytes_minimal max bs b rest : bytes_ok bs -> read_varbytes max bs = Some (b, rest) ->
  (length (write_varbytes b) + length rest <= length bs)%nat.
Proof.
  intros Hb H. unfold read_varbytes in H. apply bind_some in H as (n & r & Hn & H).
  pose proof (read_varuint_some _ _ _ Hb Hn) as ([Hn0 Hn1] & Hr & _).
  pose proof (varuint_minimal _ _ _ Hb Hn) as Hm.
  case_if_in H; [discriminate|]. apply read_bytes_some in H as [-> Hl].
  unfold write_varbytes. rewrite !app_length in *. rewrite Hl, Z2Nat.id by lia. lia.
Qed.

Lemma from_bytes_in_int256 d : bytes_ok d -> Z.of_nat (length d) <= max_int_bytes -> in_int256 (from_bytes d) = true.
Proof.
  intros Hd Hl. apply fits256_iff_len. pose proof (bigint_minimal d Hd). unfold max_int_bytes in Hl. lia.
Qed.

Lemma read_items_good prot rd : rd_good prot rd -> forall n lim bs l lim' rest, bytes_ok bs ->
  read_items rd n lim bs = Some (l, lim', rest) ->
  Forall (item_wf_g prot) l /\ bytes_ok rest /\ (length (enc_list l) + length rest <= length bs)%nat.
Proof.
  intros Hrd n. induction n as [|n IH]; intros lim bs l lim' rest Hb H; cbn [read_items] in H.
  - inv H. cbn [enc_list length]. split; [constructor|]. split; [assumption|lia].
  - destruct (rd lim bs) as [[[x l1] r1]|] eqn:E; [|discriminate].
    destruct (read_items rd n l1 r1) as [[[t l2] r2]|] eqn:E2; [|discriminate]. inv H.
    apply Hrd in E as (Hx & Hr1 & Hl1); [|assumption]. apply IH in E2 as (Ht & Hr2 & Hl2); [|assumption].
    split; [constructor; assumption|]. split; [assumption|]. cbn [enc_list]. rewrite app_length. lia.
Qed.

Lemma Forall_keys_map_add (P : item -> Prop) acc k v :
  Forall P (map fst acc) -> P k -> Forall P (map fst (map_add acc k v)).
Proof.
  induction acc as [|[k' v'] t IH]; cbn [map fst map_add]; intros Hf Hk.
  - constructor; [exact Hk|constructor].
  - inv Hf. case_if; cbn [map fst]; constructor; auto.
Qed.
Lemma pairs_wf_map_add prot acc k v :
  pairs_wf prot acc -> valid_key k = true -> item_wf_g prot k -> item_wf_g prot v -> pairs_wf prot (map_add acc k v).
Proof.
  intros [Hf Hd] Hvk Hk Hv. split.
  - clear Hd. induction acc as [|[k' v'] t IH]; cbn [map_add].
    + constructor; [cbn [fst snd]; auto|constructor].
    + inv Hf. destruct H1 as (A & B & C). cbn [fst snd] in *. case_if; constructor; cbn [fst snd]; auto.
  - clear Hf. induction acc as [|[k' v'] t IH]; cbn [map_add map fst keys_distinct] in *.
    + split; [constructor|exact I].
    + destruct Hd as [Hf Hd]. case_if; cbn [map fst keys_distinct].
      * split; assumption.
      * split; [apply Forall_keys_map_add; assumption|apply IH; exact Hd].
Qed.
Lemma enc_pairs_map_add acc k v :
  (length (enc_pairs (map_add acc k v)) <= length (enc_pairs acc) + length (enc_item k) + length (enc_item v))%nat.
Proof.
  induction acc as [|[k' v'] t IH]; cbn [map_add enc_pairs].
  - rewrite !app_length. cbn [length]. lia.
  - case_if; cbn [enc_pairs]; rewrite !app_length in *; lia.
Qed.

Lemma read_pairs_good prot rd : rd_good prot rd -> forall n acc lim bs l lim' rest, bytes_ok bs -> pairs_wf prot acc ->
  read_pairs rd n acc lim bs = Some (l, lim', rest) ->
  pairs_wf prot l /\ bytes_ok rest /\ (length (enc_pairs l) + length rest <= length (enc_pairs acc) + length bs)%nat.
Proof.
  intros Hrd n. induction n as [|n IH]; intros acc lim bs l lim' rest Hb Hacc H; cbn [read_pairs] in H.
  - inv H. split; [assumption|]. split; [assumption|lia].
  - destruct (rd lim bs) as [[[k l1] r1]|] eqn:E; [|discriminate].
    destruct (rd l1 r1) as [[[v l2] r2]|] eqn:E2; [|discriminate].
    case_if_in H; [|discriminate].
    apply Hrd in E as (Hk & Hr1 & Hl1); [|assumption]. apply Hrd in E2 as (Hv & Hr2 & Hl2); [|assumption].
    apply IH in H as (Hl & Hr & Hlen); [|assumption|apply pairs_wf_map_add; assumption].
    pose proof (enc_pairs_map_add acc k v). split; [assumption|]. split; [assumption|lia].
Qed.

Lemma read_items_budget_len rd n lim bs l lim' rest :
  read_items rd n lim bs = Some (l, lim', rest) -> length l = n.
Proof.
  revert lim bs l lim' rest. induction n as [|n IH]; intros lim bs l lim' rest H; cbn [read_items] in H.
  - inv H. reflexivity.
  - destruct (rd lim bs) as [[[x l1] r1]|]; [|discriminate].
    destruct (read_items rd n l1 r1) as [[[t l2] r2]|] eqn:E2; [|discriminate]. inv H.
    apply IH in E2. cbn [length]. lia.
Qed.
Lemma read_pairs_length rd n acc lim bs l lim' rest :
  read_pairs rd n acc lim bs = Some (l, lim', rest) -> (length l <= length acc + n)%nat.
Proof.
  revert acc lim bs l lim' rest. induction n as [|n IH]; intros acc lim bs l lim' rest H; cbn [read_pairs] in H.
  - inv H. lia.
  - destruct (rd lim bs) as [[[k l1] r1]|]; [|discriminate].
    destruct (rd l1 r1) as [[[v l2] r2]|]; [|discriminate].
    case_if_in H; [|discriminate]. apply IH in H. pose proof (length_map_add acc k v). lia.
Qed.

Lemma read_case_good prot rd t lim r i lim' rest : rd_good prot rd -> bytes_ok r ->
  read_case prot rd t lim r i lim' rest ->
  item_wf_g prot i /\ bytes_ok rest /\ (length (enc_item i) + length rest <= S (length r))%nat.
Proof.
  intros Hrd Hb H. destruct H as [? ? ? ?|b ? E ? ?|d ? E ? ?|d ? E ? ?|d ? E ? ?|n r' l ? E ? E2 ?|n r' l ? E ? E2 ?|n r' l ? E ? E2 ?
                                 |? ? ? ? ?|p ? ? E ? ?|? ? ? ? ?]; subst.
  - split; [constructor|]. split; [assumption|]. cbn [enc_item length]. lia.
  - apply read_bool_lax_some in E as [x ->]. inv Hb. split; [constructor|]. split; [assumption|].
    cbn [enc_item write_bool length]. lia.
  - pose proof (read_varbytes_some _ _ _ _ Hb E) as (Hl & _ & Hd & Hr & _).
    pose proof (read_varbytes_minimal _ _ _ _ Hb E) as Hm.
    split; [constructor; apply from_bytes_in_int256; assumption|]. split; [assumption|].
    cbn [enc_item length]. unfold write_varbytes in Hm. rewrite app_length in Hm.
    pose proof (write_varuint_length (Z.of_nat (length d))). pose proof (bigint_minimal d Hd). lia.
  - pose proof (read_varbytes_some _ _ _ _ Hb E) as (Hl & _ & Hd & Hr & _).
    pose proof (read_varbytes_minimal _ _ _ _ Hb E) as Hm.
    split; [constructor; assumption|]. split; [assumption|]. cbn [enc_item length]. lia.
  - pose proof (read_varbytes_some _ _ _ _ Hb E) as (Hl & _ & Hd & Hr & _).
    pose proof (read_varbytes_minimal _ _ _ _ Hb E) as Hm.
    split; [constructor; assumption|]. split; [assumption|]. cbn [enc_item length]. lia.
  - pose proof (read_varuint_some _ _ _ Hb E) as ([Hn0 _] & Hr' & _). pose proof (varuint_minimal _ _ _ Hb E) as Hm.
    pose proof (read_items_budget_len rd _ _ _ _ _ _ E2) as Hlen.
    apply (read_items_good prot rd Hrd) in E2 as (Hf & Hr & Hl); [|assumption].
    split; [constructor; assumption|]. split; [assumption|].
    rewrite enc_item_array. cbn [length]. rewrite app_length, Hlen, Z2Nat.id by lia. lia.
  - pose proof (read_varuint_some _ _ _ Hb E) as ([Hn0 _] & Hr' & _). pose proof (varuint_minimal _ _ _ Hb E) as Hm.
    pose proof (read_items_budget_len rd _ _ _ _ _ _ E2) as Hlen.
    apply (read_items_good prot rd Hrd) in E2 as (Hf & Hr & Hl); [|assumption].
    split; [constructor; assumption|]. split; [assumption|].
    rewrite enc_item_struct. cbn [length]. rewrite app_length, Hlen, Z2Nat.id by lia. lia.
  - pose proof (read_varuint_some _ _ _ Hb E) as ([Hn0 _] & Hr' & _). pose proof (varuint_minimal _ _ _ Hb E) as Hm.
    pose proof (read_pairs_length rd _ _ _ _ _ _ _ E2) as Hlen. cbn [length] in Hlen.
    apply (read_pairs_good prot rd Hrd) in E2 as ([Hf Hd] & Hr & Hl); [|assumption|split; constructor].
    split; [constructor; assumption|]. split; [assumption|].
    rewrite enc_item_map. cbn [length enc_pairs] in *. rewrite app_length.
    pose proof (write_varuint_length_mono (Z.of_nat (length l)) n ltac:(lia)). lia.
  - split; [constructor; reflexivity|]. split; [assumption|]. cbn [enc_item length]. lia.
  - pose proof (read_varuint_some _ _ _ Hb E) as ([Hn0 Hn1] & Hr & _). pose proof (varuint_minimal _ _ _ Hb E) as Hm.
    split; [constructor; [reflexivity|lia]|]. split; [assumption|]. cbn [enc_item length]. lia.
  - split; [constructor; reflexivity|]. split; [assumption|]. cbn [enc_item length]. lia.
Qed.

Lemma read_item_good_all prot f : rd_good prot (read_item prot f).
Proof.
  induction f as [|f IH]; intros lim bs i lim' rest Hb H; [discriminate|].
  apply read_item_some in H as (f0 & t & r & lim0 & Ef & -> & -> & Hc). inv Ef. inv Hb.
  apply (read_case_good _ _ _ _ _ _ _ _ IH) in Hc; [|assumption]. cbn [length]. exact Hc.
Qed.

(* D. decoded values are well-formed and within the limits.  [<=] for the budget: Map.Add merges duplicate
   keys, so the item built can be smaller than the budget consumed. *)
Theorem read_item_wf_gen prot fuel lim bs i lim' rest :
  bytes_ok bs -> read_item prot fuel lim bs = Some (i, lim', rest) ->
  item_wf_g prot i /\ (lim' + count_item i <= lim)%nat /\ bytes_ok rest /\ (length rest < length bs)%nat.
Proof.
  intros Hb H. pose proof (read_item_good_all prot fuel _ _ _ _ _ Hb H) as (Hw & Hr & _).
  pose proof (read_item_budget _ _ _ _ _ _ _ H) as [Hc Hl]. auto.
Qed.
Theorem read_item_wf fuel lim bs i lim' rest :
  bytes_ok bs -> read_item false fuel lim bs = Some (i, lim', rest) ->
  item_wf i /\ (lim' + count_item i <= lim)%nat /\ bytes_ok rest /\ (length rest < length bs)%nat.
Proof. apply read_item_wf_gen. Qed.
Theorem read_item_wf_p fuel lim bs i lim' rest :
  bytes_ok bs -> read_item true fuel lim bs = Some (i, lim', rest) ->
  item_wf_p i /\ (lim' + count_item i <= lim)%nat /\ bytes_ok rest /\ (length rest < length bs)%nat.
Proof. apply read_item_wf_gen. Qed.
(* the canonical encoding of the decoded item is never longer than the bytes that were consumed (both modes) *)
Theorem read_item_enc_length prot fuel lim bs i lim' rest :
  bytes_ok bs -> read_item prot fuel lim bs = Some (i, lim', rest) ->
  (length (enc_item i) + length rest <= length bs)%nat.
Proof. intros Hb H. apply (read_item_good_all prot fuel _ _ _ _ _ Hb H). Qed.

(* the stream reader: [dec_wf], count bound and minimality *)
Theorem read_item_dec_wf prot bs i rest :
  bytes_ok bs -> read_item_dec prot bs = Some (i, rest) ->
  item_wf_g prot i /\ (count_item i <= max_items)%nat /\ bytes_ok rest.
Proof.
  intros Hb H. apply read_item_dec_some in H as [l0 H]. apply read_item_wf_gen in H; [|assumption].
  destruct H as (Hw & Hc & Hr & _). split; [assumption|]. split; [lia|assumption].
Qed.
Theorem read_item_dec_minimal prot bs i rest :
  bytes_ok bs -> read_item_dec prot bs = Some (i, rest) -> (length (enc_item i) + length rest <= length bs)%nat.
Proof. intros Hb H. apply read_item_dec_some in H as [l0 H]. eapply read_item_enc_length; eauto. Qed.
(* canonical re-reading from a stream: the canonical encoding followed by anything gives the item and that rest *)
Theorem read_item_dec_canonical prot bs i rest rest' :
  bytes_ok bs -> read_item_dec prot bs = Some (i, rest) -> read_item_dec prot (enc_item i ++ rest') = Some (i, rest').
Proof. intros Hb H. apply read_item_dec_wf in H as (Hw & Hc & _); [|assumption]. apply read_item_dec_enc; assumption. Qed.

Theorem deserialize_gen_wf prot bs i : bytes_ok bs -> deserialize_gen prot bs = Some i -> item_wf_g prot i.
Proof.
  unfold deserialize_gen. intros Hb. destruct (read_item prot (S (length bs)) max_items bs) as [[[x l] r]|] eqn:E; [|discriminate].
  intros H; inv H. eapply read_item_wf_gen; eauto.
Qed.
Theorem deserialize_wf bs i : bytes_ok bs -> deserialize bs = Some i -> item_wf i.
Proof. apply deserialize_gen_wf. Qed.
Theorem deserialize_wf_p bs i : bytes_ok bs -> deserialize_gen true bs = Some i -> item_wf_p i.
Proof. apply deserialize_gen_wf. Qed.

(* E. decode_canonical: an input within MaxSize that Deserialize accepts yields an item that Serialize accepts,
   whose encoding is not longer than the input and decodes to the same item. *)
Theorem deserialize_gen_canonical prot bs i :
  bytes_ok bs -> Z.of_nat (length bs) <= max_size -> deserialize_gen prot bs = Some i ->
  exists bs', serialize_gen prot i = Some bs' /\ deserialize_gen prot bs' = Some i /\ (length bs' <= length bs)%nat.
Proof.
  intros Hb Hs H. pose proof (deserialize_gen_wf _ _ _ Hb H) as Hwf. pose proof (deserialize_gen_limits _ _ _ H) as Hc.
  unfold deserialize_gen in H. destruct (read_item prot (S (length bs)) max_items bs) as [[[x l] r]|] eqn:E; [|discriminate].
  inv H. pose proof (read_item_enc_length _ _ _ _ _ _ _ Hb E) as Hl.
  exists (enc_item i). assert (serialize_gen prot i = Some (enc_item i)) as Hser
    by (apply serialize_gen_ok; [apply wf_mode_ok; assumption|lia|lia]).
  split; [exact Hser|]. split; [apply deserialize_gen_serialize; assumption|lia].
Qed.
Theorem deserialize_canonical bs i :
  bytes_ok bs -> Z.of_nat (length bs) <= max_size -> deserialize bs = Some i ->
  exists bs', serialize i = Some bs' /\ deserialize bs' = Some i /\ (length bs' <= length bs)%nat.
Proof. apply deserialize_gen_canonical. Qed.
(* without the size side condition: whenever the decoded item serialises at all, it decodes back to itself *)
Theorem deserialize_canonical_weak bs bs' i :
  bytes_ok bs -> deserialize bs = Some i -> serialize i = Some bs' -> deserialize bs' = Some i.
Proof. intros Hb H Hs. eapply deserialize_serialize; [eapply deserialize_wf; eauto|exact Hs]. Qed.
(* re-decoding is idempotent on the canonical form: the second round is the identity on bytes *)
Theorem serialize_deserialize_fixpoint i bs bs' j :
  item_wf i -> serialize i = Some bs -> deserialize bs = Some j -> serialize j = Some bs' -> bs' = bs.
Proof. intros Hwf Hs Hd Hs'. rewrite (deserialize_serialize i bs Hwf Hs) in Hd. inv Hd. congruence. Qed.

(* ================= G. examples ================= *)
Definition ex_item : item :=
  let arr := IArray [IStruct [IBool true; IAny; IBuffer [1; 2; 3]]; IInt (- 2 ^ 255)] in
  IMap [(IInt 7, arr); (IBool false, arr); (IBytes [104; 105], IArray [])].

Example ex_item_wf : item_wf ex_item.
Proof.
  assert (item_wf (IArray [IStruct [IBool true; IAny; IBuffer [1; 2; 3]]; IInt (- 2 ^ 255)])) as Harr.
  { repeat (constructor; try (vm_compute; (reflexivity || discriminate || lia))). }
  unfold item_wf, ex_item in *. apply wf_map.
  - repeat (constructor; try exact Harr; try (vm_compute; (reflexivity || discriminate || lia))).
  - cbn [map fst keys_distinct]. repeat (split || constructor).
Qed.
Example ex_item_roundtrip :
  match serialize ex_item with
  | Some bs => deserialize bs = Some ex_item /\ length bs = 105%nat /\ bs = enc_item ex_item
  | None => False
  end /\ count_item ex_item = 17%nat /\ item_depth ex_item = 3%nat.
Proof. vm_compute. repeat split; reflexivity. Qed.
Example ex_ser_hyps : (count_item ex_item <= max_items)%nat /\ Z.of_nat (length (enc_item ex_item)) <= max_size.
Proof. split; [apply Nat.leb_le|apply Z.leb_le]; vm_compute; reflexivity. Qed.

(* Integer with length prefix 33 > 32 is rejected (finding F11: the unchanged Go code panics there) *)
Example ex_int_len_33 : deserialize [33; 33] = None.
Proof. vm_compute. reflexivity. Qed.
(* an Array as a Map key is rejected (finding F17: Map.Add panics) *)
Example ex_array_key : deserialize [72; 1; 64; 0; 0] = None.
Proof. vm_compute. reflexivity. Qed.
(* element count >= 2^63 is rejected (finding F28: negative int passes the limit check, make() panics) *)
Example ex_huge_count : deserialize [64; 255; 255; 255; 255; 255; 255; 255; 255; 255] = None.
Proof. vm_compute. reflexivity. Qed.
(* duplicate keys: Map.Add keeps the first position with the last value; the re-encoding is shorter *)
Example ex_dup_keys :
  deserialize [72; 2; 33; 1; 5; 0; 33; 1; 5; 32; 1] = Some (IMap [(IInt 5, IBool true)]) /\
  serialize (IMap [(IInt 5, IBool true)]) = Some [72; 1; 33; 1; 5; 32; 1] /\
  deserialize [72; 1; 33; 1; 5; 32; 1] = Some (IMap [(IInt 5, IBool true)]).
Proof. vm_compute. repeat split; reflexivity. Qed.
(* equal integers with different byte strings are one key: 5 and 5 with a redundant sign byte *)
Example ex_dup_keys_noncanonical_int :
  deserialize [72; 2; 33; 1; 5; 0; 33; 2; 5; 0; 32; 1] = Some (IMap [(IInt 5, IBool true)]).
Proof. vm_compute. reflexivity. Qed.
(* non-canonical boolean: ReadBool accepts any non-zero byte, Serialize writes 1 *)
Example ex_bool_noncanonical :
  deserialize [32; 2] = Some (IBool true) /\ serialize (IBool true) = Some [32; 1].
Proof. vm_compute. split; reflexivity. Qed.
(* the item budget: an array announcing more elements than the remaining budget is rejected before allocation;
   2047 elements is the maximum *)
Example ex_budget :
  deserialize (64 :: 253 :: 0 :: 8 :: repeat 0 2048) = None /\
  (exists l, deserialize (64 :: 253 :: 255 :: 7 :: repeat 0 2047) = Some (IArray l) /\ length l = 2047%nat).
Proof. split; [vm_compute; reflexivity|]. eexists. split; [vm_compute; reflexivity|]. vm_compute. reflexivity. Qed.
(* Serialize refuses 2049 items and more than MaxSize bytes *)
Example ex_serialize_limits :
  serialize (IArray (repeat IAny 2048)) = None /\
  serialize (IBytes (repeat 0 (Z.to_nat 131065))) = None /\
  match serialize (IBytes (repeat 0 (Z.to_nat 131064))) with
  | Some bs => Z.of_nat (length bs) = max_size
  | None => False
  end.
Proof. split; [|split]; vm_compute; reflexivity. Qed.

(* --- protected mode --- *)
Definition ex_item_p : item := IArray [IInterop; IPointer 7; IInvalid; IMap [(IInt 1, IStruct [IPointer 300; IAny])]].
Example ex_item_p_wf : item_wf_p ex_item_p /\ ~ item_wf ex_item_p /\ plain ex_item_p = false.
Proof.
  split; [|split; [|reflexivity]].
  - unfold item_wf_p, ex_item_p.
    repeat (constructor; try (vm_compute; (reflexivity || discriminate || lia))); cbn [fst snd];
      repeat (constructor; try (vm_compute; (reflexivity || discriminate || lia))).
  - intros H. apply item_wf_plain in H. discriminate.
Qed.
Example ex_item_p_roundtrip :
  serialize ex_item_p = None /\ serialize_gen true ex_item_p = Some (enc_item ex_item_p) /\
  serialize_prot ex_item_p = [64; 4; 96; 16; 7; 255; 72; 1; 33; 1; 1; 65; 2; 16; 253; 44; 1; 0] /\
  deserialize_gen true (serialize_prot ex_item_p) = Some ex_item_p /\
  deserialize (serialize_prot ex_item_p) = None.
Proof. repeat split; vm_compute; reflexivity. Qed.
(* the three protected kinds are refused in normal mode by both directions *)
Example ex_protected_refused :
  deserialize [96] = None /\ deserialize [16; 7] = None /\ deserialize [255] = None /\
  deserialize_gen true [96] = Some IInterop /\ deserialize_gen true [16; 7] = Some (IPointer 7) /\
  deserialize_gen true [255] = Some IInvalid /\
  serialize IInterop = None /\ serialize (IPointer 7) = None /\ serialize IInvalid = None.
Proof. repeat split; vm_compute; reflexivity. Qed.
(* Serialize(item, true) replaces a failure (2049 items) by the Invalid marker; the pointer position is a var-uint
   and may be read in a non-minimal form *)
Example ex_prot_total :
  serialize_prot (IArray (repeat IInterop 2048)) = [255] /\
  deserialize_gen true [16; 253; 7; 0] = Some (IPointer 7) /\ serialize_prot (IPointer 7) = [16; 7].
Proof. split; [|split]; vm_compute; reflexivity. Qed.

Print Assumptions ser_spec_gen.
Print Assumptions serialize_spec.
Print Assumptions serialize_prot_total.
Print Assumptions read_item_enc_gen.
Print Assumptions deserialize_serialize.
Print Assumptions read_item_wf_gen.
Print Assumptions deserialize_limits.
Print Assumptions deserialize_gen_canonical.
Print Assumptions read_item_dec_consumes.
Print Assumptions read_item_dec_minimal.
Print Assumptions read_item_fuel_mono.
Print Assumptions read_item_fuel_enough.
