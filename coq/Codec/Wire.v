(* Model of pkg/io: BinReader / BinWriter primitives and io.GetVarSize.
   Bytes are Z in [0,256).  A decoder consumes a prefix of the input and returns the value and the
   unread rest; None = the reader's sticky error (BinReader.Err <> nil at the end).
   The model is of the CORRECT behaviour: write_varuint uses [<=] at the 0xFFFF / 0xFFFFFFFF
   boundaries like io.getVarIntSize and the reference node; the unchanged PutVarUint uses [<]
   there (finding F19), which the correspondence reports. *)
From NG Require Import Common.Tactics Codec.Bigint.
Open Scope Z_scope.

Definition dec (A : Type) := list Z -> option (A * list Z).

Definition ret {A} (a : A) : dec A := fun bs => Some (a, bs).
Definition fail {A} : dec A := fun _ => None.
Definition bind {A B} (d : dec A) (f : A -> dec B) : dec B :=
  fun bs => match d bs with Some (a, r) => f a r | None => None end.
Notation "x <- d ;; f" := (bind d (fun x => f)) (at level 61, d at next level, right associativity).

(* ReadBytes into a buffer of n bytes (io.ReadFull: error unless n bytes are available) *)
Definition read_bytes (n : nat) : dec (list Z) :=
  fun bs => if (n <=? length bs)%nat then Some (firstn n bs, skipn n bs) else None.

(* ReadB / ReadU16LE / ReadU32LE / ReadU64LE *)
Definition read_u (n : nat) : dec Z := b <- read_bytes n ;; ret (from_le b).
Definition read_b : dec Z := fun bs => match bs with [] => None | b :: t => Some (b, t) end.
Definition write_u (n : nat) (v : Z) : list Z := le_bytes n v.

(* ReadVarUint: every width is accepted whatever the value (non-minimal forms included) *)
Definition read_varuint : dec Z :=
  fun bs => match bs with
            | [] => None
            | b :: t => if b =? 253 then read_u 2 t else if b =? 254 then read_u 4 t
                        else if b =? 255 then read_u 8 t else Some (b, t)
            end.

(* WriteVarUint / PutVarUint (minimal form) *)
Definition write_varuint (v : Z) : list Z :=
  if v <? 253 then [v]
  else if v <=? 65535 then 253 :: le_bytes 2 v
  else if v <=? 4294967295 then 254 :: le_bytes 4 v
  else 255 :: le_bytes 8 v.

(* io.getVarIntSize (used by GetVarSize for ints, strings and slice lengths); no 9-byte case *)
Definition varuint_size (v : Z) : Z := if v <? 253 then 1 else if v <=? 65535 then 3 else 5.

(* MaxArraySize *)
Definition max_array : Z := 16777216.

(* ReadVarBytes(max): the length is checked against the maximum BEFORE the buffer is allocated *)
Definition read_varbytes (max : Z) : dec (list Z) :=
  n <- read_varuint ;; if max <? n then fail else read_bytes (Z.to_nat n).
Definition write_varbytes (b : list Z) : list Z := write_varuint (Z.of_nat (length b)) ++ b.
(* GetVarSize([]byte) / GetVarSize(string) *)
Definition varbytes_size (b : list Z) : Z := varuint_size (Z.of_nat (length b)) + Z.of_nat (length b).

(* n elements in sequence (the loop of ReadArray and of the hand-written array decoders) *)
Fixpoint read_n {A} (d : dec A) (n : nat) : dec (list A) :=
  match n with
  | O => ret []
  | S n' => x <- d ;; l <- read_n d n' ;; ret (x :: l)
  end.
Definition write_list {A} (w : A -> list Z) (l : list A) : list Z := flat_map w l.

(* ReadArray(max) / WriteArray: var-uint count, checked against max before allocation *)
Definition read_array {A} (d : dec A) (max : Z) : dec (list A) :=
  n <- read_varuint ;; if max <? n then fail else read_n d (Z.to_nat n).
Definition write_array {A} (w : A -> list Z) (l : list A) : list Z :=
  write_varuint (Z.of_nat (length l)) ++ write_list w l.
(* GetVarSize(slice of Serializable) = getVarIntSize(len) + sum of element sizes *)
Definition array_size {A} (sz : A -> Z) (l : list A) : Z :=
  varuint_size (Z.of_nat (length l)) + fold_right (fun x acc => sz x + acc) 0 l.

(* strict boolean (0/1), as the reference node's MemoryReader.ReadBoolean; BinReader.ReadBool itself
   (any non-zero byte = true) is [read_bool_lax] *)
Definition read_bool : dec bool := b <- read_b ;; if b =? 0 then ret false else if b =? 1 then ret true else fail.
Definition read_bool_lax : dec bool := b <- read_b ;; ret (negb (b =? 0)).
Definition write_bool (b : bool) : list Z := [if b then 1 else 0].

Definition byte_eqb (a b : list Z) : bool :=
  (length a =? length b)%nat && forallb (fun p => fst p =? snd p) (combine a b).

(* whole-buffer decoding: all input must be consumed *)
Definition decode_all {A} (d : dec A) (bs : list Z) : option A :=
  match d bs with Some (a, []) => Some a | _ => None end.
