(* Proofs about Codec/Fixed.v: printing then parsing a scaled integer gives it back, for every
   integer and every precision (values in (-1,0) included). *)
From NG Require Import Common.Tactics Codec.Radix Codec.RadixProofs Codec.Fixed.
Open Scope Z_scope.

(* ---------------- powers of ten ---------------- *)
Lemma pow10_pos n : 0 < pow10 n.
Proof. unfold pow10. apply Z.pow_pos_nonneg; lia. Qed.

Lemma pow10_S n : pow10 (S n) = 10 * pow10 n.
Proof. unfold pow10. rewrite Nat2Z.inj_succ, Z.pow_succ_r by lia. reflexivity. Qed.

Lemma pow10_add a b : pow10 (a + b) = pow10 a * pow10 b.
Proof. unfold pow10. rewrite Nat2Z.inj_add, Z.pow_add_r by lia. reflexivity. Qed.

(* ---------------- decimal numerals as digit lists ---------------- *)
Definition chr (d : Z) : Z := 48 + d.

Lemma dec_digit_chr d : 0 <= d < 10 -> dec_digit (chr d) = Some d.
Proof.
  intros Hd. unfold dec_digit, chr. replace ((48 <=? 48 + d) && (48 + d <=? 57)) with true by lia.
  f_equal. lia.
Qed.

Lemma parse_nat_chr ds : ds <> [] -> digits_ok 10 ds -> parse_nat (map chr ds) = Some (value_be 10 ds).
Proof.
  intros Hne Hok. unfold parse_nat.
  rewrite (map_option_map dec_digit chr (fun d => 0 <= d < 10) dec_digit_chr ds Hok).
  destruct ds as [|d t]; [congruence|]. reflexivity.
Qed.

Lemma parse_int_chr ds : ds <> [] -> digits_ok 10 ds -> parse_int (map chr ds) = Some (value_be 10 ds).
Proof.
  intros Hne Hok. rewrite <- parse_nat_chr by assumption.
  destruct ds as [|d t]; [congruence|]. inv Hok. cbn [map parse_int].
  replace (chr d =? 43) with false by (unfold chr; lia).
  replace (chr d =? 45) with false by (unfold chr; lia). reflexivity.
Qed.

Lemma parse_int_minus_chr ds : ds <> [] -> digits_ok 10 ds ->
  parse_int (45 :: map chr ds) = Some (- value_be 10 ds).
Proof.
  intros Hne Hok. cbn [parse_int]. change (45 =? 43) with false. change (45 =? 45) with true. cbv iota.
  rewrite parse_nat_chr by assumption. reflexivity.
Qed.

(* dec_string n is a non-empty numeral denoting n *)
Lemma dec_string_digits n : 0 <= n ->
  exists ds, dec_string n = map chr ds /\ ds <> [] /\ digits_ok 10 ds /\ value_be 10 ds = n.
Proof.
  intros Hn. unfold dec_string. destruct (n <=? 0) eqn:E.
  - exists [0]. assert (n = 0) by lia. subst n. split; [reflexivity|]. split; [discriminate|].
    split; [repeat constructor; lia|reflexivity].
  - exists (digits_be 10 n). split; [reflexivity|].
    pose proof (digits_be_canon 10 ltac:(lia) n Hn) as [Hok _].
    split; [|split; [assumption|apply value_digits_be; lia]].
    intros E0. apply digits_be_nil_iff in E0; lia.
Qed.

Theorem parse_dec_string : forall n, 0 <= n -> parse_int (dec_string n) = Some n.
Proof.
  intros n Hn. destruct (dec_string_digits n Hn) as (ds & -> & Hne & Hok & Hv).
  rewrite parse_int_chr by assumption. now rewrite Hv.
Qed.

Example parse_dec_string_ex :
  dec_string 1234567890123456789012 = [49;50;51;52;53;54;55;56;57;48;49;50;51;52;53;54;55;56;57;48;49;50] /\
  parse_int (dec_string 1234567890123456789012) = Some 1234567890123456789012 /\
  dec_string 0 = [48] /\
  (* SetString: one optional sign, at least one digit, nothing else *)
  parse_int [43;48;55] = Some 7 /\ parse_int [45;48] = Some 0 /\ parse_int [45] = None /\
  parse_int [] = None /\ parse_int [45;45;49] = None /\ parse_int [49;95;48] = None /\ parse_int [49;32] = None.
Proof. vm_compute. repeat split. Qed.

Lemma dec_string_length n k : 0 < n < pow10 k -> (length (dec_string n) <= k)%nat.
Proof.
  intros Hn. unfold dec_string. replace (n <=? 0) with false by lia. rewrite map_length.
  apply digits_be_length; [lia|]. apply Hn.
Qed.

Lemma chr_not_dot ds : digits_ok 10 ds -> Forall (fun c => c <> 46) (map chr ds).
Proof.
  intros H. apply Forall_forall. intros c Hc. apply in_map_iff in Hc. destruct Hc as (d & <- & Hd).
  unfold digits_ok in H. rewrite Forall_forall in H. specialize (H d Hd). unfold chr. lia.
Qed.

Lemma map_chr_zeros n : map chr (repeat 0 n) = repeat 48 n.
Proof. induction n as [|n IH]; [reflexivity|]. cbn [repeat map]. rewrite IH. reflexivity. Qed.

(* ---------------- SplitN ---------------- *)
Lemma split_dot_none a : Forall (fun c => c <> 46) a -> split_dot a = (a, None).
Proof.
  induction 1 as [|c t Hc Ht IH]; [reflexivity|]. cbn [split_dot].
  replace (c =? 46) with false by lia. now rewrite IH.
Qed.

Lemma split_dot_some a r : Forall (fun c => c <> 46) a -> split_dot (a ++ 46 :: r) = (a, Some r).
Proof.
  induction 1 as [|c t Hc Ht IH]; [reflexivity|]. cbn [app split_dot].
  replace (c =? 46) with false by lia. now rewrite IH.
Qed.

(* ---------------- the trailing-zero loop ---------------- *)
Lemma trim10_spec fuel : forall f, 0 < f < pow10 fuel ->
  forall f' t, trim10 fuel f = (f', t) ->
  f = f' * pow10 t /\ 0 < f' /\ f' mod 10 <> 0 /\ (t <= fuel)%nat.
Proof.
  induction fuel as [|k IH]; intros f Hf f' t H.
  - change (pow10 0) with 1 in Hf. lia.
  - cbn [trim10] in H. rewrite pow10_S in Hf. destruct (f mod 10 =? 0) eqn:E.
    + destruct (trim10 k (f / 10)) as [g u] eqn:Et. inv H.
      specialize (IH (f / 10) ltac:(lia) _ _ Et). destruct IH as (H1 & H2 & H3 & H4).
      rewrite pow10_S. split; [|split; [assumption|split; [assumption|lia]]].
      assert (f = 10 * (f / 10)) as Hf10 by lia. rewrite Hf10 at 1. rewrite H1. ring.
    + inv H. change (pow10 0) with 1. split; [lia|]. split; [lia|]. split; [lia|lia].
Qed.

Lemma trimmed_bound f t prec : 0 < f -> (t <= prec)%nat -> f * pow10 t < pow10 prec -> f < pow10 (prec - t).
Proof.
  intros Hf Ht Hlt. replace prec with ((prec - t) + t)%nat in Hlt by lia. rewrite pow10_add in Hlt.
  pose proof (pow10_pos t). pose proof (pow10_pos (prec - t)). nia.
Qed.

(* the fraction text: no more than prec characters, parses (without sign) to fp / 10^(prec - length) *)
Lemma frac_string_spec fp prec : 0 < fp < pow10 prec ->
  exists ds, frac_string fp prec = map chr ds /\ ds <> [] /\ digits_ok 10 ds /\
             (length ds <= prec)%nat /\ value_be 10 ds * pow10 (prec - length ds) = fp.
Proof.
  intros Hfp. unfold frac_string. destruct (trim10 prec fp) as [f t] eqn:Et.
  destruct (trim10_spec prec fp Hfp f t Et) as (H1 & H2 & H3 & H4).
  assert (f < pow10 (prec - t)) as Hfb by (apply trimmed_bound; [assumption|assumption|lia]).
  pose proof (dec_string_length f (prec - t) ltac:(lia)) as Hlen.
  destruct (dec_string_digits f ltac:(lia)) as (ds & Eds & Hne & Hok & Hv). rewrite Eds in *.
  rewrite map_length in *.
  exists (repeat 0 (prec - t - length ds) ++ ds).
  split; [rewrite map_app, map_chr_zeros; reflexivity|].
  split; [intros E; apply app_eq_nil in E; tauto|].
  split; [apply Forall_app; split; [apply Forall_repeat; lia|assumption]|].
  rewrite app_length, repeat_length.
  split; [lia|].
  rewrite value_be_lead_zeros by lia. rewrite Hv.
  replace (prec - (prec - t - length ds + length ds))%nat with t by lia. lia.
Qed.

(* ---------------- ToString then FromString ---------------- *)
Theorem fixed_roundtrip : forall v prec, from_string (to_string v prec) prec = Some v.
Proof.
  intros v prec. unfold to_string.
  pose proof (pow10_pos prec) as HP.
  set (P := pow10 prec) in *. set (a := Z.abs v).
  assert (0 <= a) as Ha by (subst a; lia).
  assert (0 <= a / P) as Hip by (apply Z.div_pos; lia).
  pose proof (Z.mod_pos_bound a P HP) as Hfp.
  pose proof (Z.div_mod a P ltac:(lia)) as Hdm.
  set (ip := a / P) in *. set (fp := a mod P) in *.
  destruct (dec_string_digits ip Hip) as (ds & Eds & Hne & Hok & Hv). rewrite Eds.
  set (IP := (if v <? 0 then [45] else []) ++ map chr ds).
  assert (Forall (fun c => c <> 46) IP) as Hnodot.
  { subst IP. apply Forall_app. split; [case_if; repeat constructor; lia|apply chr_not_dot; assumption]. }
  assert (parse_int IP = Some (if v <? 0 then - ip else ip)) as Hparse.
  { subst IP. destruct (v <? 0); cbn [app].
    - rewrite parse_int_minus_chr by assumption. now rewrite Hv.
    - rewrite parse_int_chr by assumption. now rewrite Hv. }
  assert (starts_minus IP = (v <? 0)) as Hsm.
  { subst IP. destruct (v <? 0); [reflexivity|]. cbn [app]. destruct ds as [|d t]; [congruence|].
    inv Hok. cbn [map starts_minus]. unfold chr. lia. }
  rewrite app_assoc. fold IP. unfold from_string.
  destruct (fp =? 0) eqn:Efp.
  - rewrite app_nil_r, split_dot_none by assumption. rewrite Hparse. fold P. f_equal.
    destruct (v <? 0) eqn:Ev; lia.
  - destruct (frac_string_spec fp prec ltac:(fold P; lia)) as (fs & Efs & Hfne & Hfok & Hflen & Hfv).
    rewrite Efs, split_dot_some by assumption. rewrite Hparse, map_length.
    replace (prec <? length fs)%nat with false by lia.
    rewrite parse_int_chr by assumption. rewrite Hsm. fold P. rewrite Hfv.
    destruct (v <? 0) eqn:Ev; f_equal; lia.
Qed.

Example fixed_roundtrip_ex :
  to_string (-50000000) 8 = [45;48;46;53] /\ from_string [45;48;46;53] 8 = Some (-50000000) /\
  to_string 100000000 8 = [49] /\ from_string [49] 8 = Some 100000000 /\
  to_string 1 8 = [48;46;48;48;48;48;48;48;48;49] /\ from_string (to_string 1 8) 8 = Some 1 /\
  to_string (-1234500) 4 = [45;49;50;51;46;52;53] /\ from_string [45;49;50;51;46;52;53] 4 = Some (-1234500) /\
  to_string (-7) 0 = [45;55] /\ from_string [45;55] 0 = Some (-7) /\
  to_string 0 8 = [48] /\
  to_string (-123456789012345678901234567890) 20 = [45;49;50;51;52;53;54;55;56;57;48;46;49;50;51;52;53;54;55;56;57;48;49;50;51;52;53;54;55;56;57].
Proof. vm_compute. repeat split. Qed.

(* what FromString accepts and rejects (mechanism of the Go code) *)
Example from_string_ex :
  from_string [49;46] 8 = None /\                         (* "1."   : empty fraction *)
  from_string [46;53] 8 = None /\                         (* ".5"   : empty integer part *)
  from_string [49;46;49;50;51] 2 = None /\                (* "1.123" with precision 2 *)
  from_string [49;46;50;46;51] 8 = None /\                (* "1.2.3" *)
  from_string [43;49;46;53] 1 = Some 15 /\                (* "+1.5" *)
  from_string [49;46;45;53] 8 = Some 95000000 /\          (* "1.-5" : SetString accepts a signed fraction *)
  from_string [45;49;46;53] 1 = Some (-15) /\             (* "-1.5" *)
  from_string [45;48;46;53] 1 = Some (-5).                (* "-0.5" : correct behaviour (F14) *)
Proof. vm_compute. repeat split. Qed.

Theorem fixed_canonical : forall s p v,
  from_string s p = Some v -> from_string (to_string v p) p = Some v.
Proof. intros s p v _. apply fixed_roundtrip. Qed.

(* several texts denote one value; to_string picks the one that parses back *)
Example fixed_canonical_ex :
  from_string [43;48;49;46;53;48] 8 = Some 150000000 /\ to_string 150000000 8 = [49;46;53] /\
  from_string [49;46;53] 8 = Some 150000000.
Proof. vm_compute. repeat split. Qed.

(* ---------------- Fixed8 ---------------- *)
Lemma repeat_snoc {A} (x : A) n : repeat x n ++ [x] = x :: repeat x n.
Proof. induction n; simpl; congruence. Qed.

Lemma rev_repeat_ {A} (x : A) n : rev (repeat x n) = repeat x n.
Proof. induction n as [|n IH]; [reflexivity|]. cbn [repeat rev]. rewrite IH. apply repeat_snoc. Qed.

Lemma trim_right_app z a t : no_lead z (rev a) -> trim_right z (a ++ repeat z t) = a.
Proof.
  intros H. unfold trim_right. rewrite rev_app_distr, rev_repeat_, strip_leading_app by assumption.
  apply rev_involutive.
Qed.

(* the last character of a positive numeral is the digit n mod 10 *)
Lemma dec_string_last n : 0 < n -> n mod 10 <> 0 -> no_lead 48 (rev (dec_string n)).
Proof.
  intros Hn Hm. unfold dec_string. replace (n <=? 0) with false by lia.
  unfold digits_be. rewrite <- map_rev, rev_involutive. unfold digit_fuel. cbn [digits_le].
  replace (n <=? 0) with false by lia. cbn [map no_lead]. lia.
Qed.

Lemma dec_string_shift n t : 0 < n -> dec_string (n * pow10 t) = dec_string n ++ repeat 48 t.
Proof.
  intros Hn. pose proof (pow10_pos t). unfold dec_string.
  replace (n <=? 0) with false by lia. replace (n * pow10 t <=? 0) with false by nia.
  unfold pow10. rewrite digits_be_shift by lia. rewrite map_app. f_equal. apply map_chr_zeros.
Qed.

Lemma fixed8_frac_eq r : 0 < r < pow10 8 ->
  repeat 48 (8 - length (dec_string r)) ++ trim_right 48 (dec_string r) = frac_string r 8.
Proof.
  intros Hr. unfold frac_string. destruct (trim10 8 r) as [f t] eqn:Et.
  destruct (trim10_spec 8 r Hr f t Et) as (H1 & H2 & H3 & H4).
  rewrite H1, dec_string_shift by assumption.
  rewrite trim_right_app by (apply dec_string_last; assumption).
  rewrite app_length, repeat_length. f_equal. f_equal. lia.
Qed.

Lemma fixed8_string_eq_all v : fixed8_string v = to_string v 8.
Proof.
  unfold fixed8_string, to_string. change (pow10 8) with 100000000.
  pose proof (Z.mod_pos_bound (Z.abs v) 100000000 ltac:(lia)) as Hr.
  set (r := Z.abs v mod 100000000) in *.
  f_equal. f_equal. destruct (0 <? r) eqn:E.
  - replace (r =? 0) with false by lia. f_equal. apply fixed8_frac_eq. change (pow10 8) with 100000000. lia.
  - replace (r =? 0) with true by lia. reflexivity.
Qed.

(* int64 values other than math.MinInt64 *)
Theorem fixed8_string_eq : forall v, - 2 ^ 63 < v < 2 ^ 63 -> fixed8_string v = to_string v 8.
Proof. intros v _. apply fixed8_string_eq_all. Qed.

Lemma int64_wrap_id v : - 2 ^ 63 <= v < 2 ^ 63 -> int64_wrap v = v.
Proof.
  intros Hv. unfold int64_wrap. change (2 ^ 64) with (2 * 2 ^ 63) in *.
  set (h := 2 ^ 63) in *. assert (0 < h) by (subst h; apply Z.pow_pos_nonneg; lia).
  rewrite Z.mod_small by lia. lia.
Qed.

Theorem fixed8_roundtrip : forall v, - 2 ^ 63 < v < 2 ^ 63 -> fixed8_from_string (fixed8_string v) = Some v.
Proof.
  intros v Hv. unfold fixed8_from_string. rewrite fixed8_string_eq_all, fixed_roundtrip.
  cbn [option_map]. f_equal. apply int64_wrap_id. lia.
Qed.

Example fixed8_ex :
  - 2 ^ 63 < -50000000 < 2 ^ 63 /\
  fixed8_string (-50000000) = [45;48;46;53] /\ fixed8_from_string [45;48;46;53] = Some (-50000000) /\
  fixed8_string 100000000 = [49] /\ fixed8_string 1 = [48;46;48;48;48;48;48;48;48;49] /\
  fixed8_string 1230000 = [48;46;48;49;50;51] /\ to_string 1230000 8 = [48;46;48;49;50;51] /\
  fixed8_string (-9223372036854775807) = to_string (-9223372036854775807) 8 /\
  fixed8_from_string (fixed8_string 9223372036854775807) = Some 9223372036854775807 /\
  (* Int64() wraps beyond the range *)
  fixed8_from_string [57;50;50;51;51;55;50;48;51;54;56;46;53;52;55;55;53;56;48;56] = Some (- 9223372036854775808).
Proof. split; [lia|]. vm_compute. repeat split. Qed.
