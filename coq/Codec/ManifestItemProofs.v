From NG Require Import Common.Tactics Auth.Permission Auth.PermStore Auth.PermStoreProofs Codec.ManifestItem.
From Coq Require Import String.
Open Scope Z_scope.

(* the permission-level items embed faithfully *)
Lemma to_of_sitem : forall i, to_sitem (of_sitem i) = Some i.
Proof.
  fix IH 1. intros [| l v | s | l | l]; try reflexivity.
  - cbn [of_sitem to_sitem].
    assert (H : (fix go (l0 : list xitem) : option (list sitem) :=
                   match l0 with
                   | [] => Some []
                   | a :: t => match to_sitem a, go t with Some a', Some t' => Some (a' :: t') | _, _ => None end
                   end) (map of_sitem l) = Some l).
    { induction l as [|a t IHl]; [reflexivity|]. cbn [map]. rewrite IH, IHl. reflexivity. }
    rewrite H. reflexivity.
  - cbn [of_sitem to_sitem].
    assert (H : (fix go (l0 : list xitem) : option (list sitem) :=
                   match l0 with
                   | [] => Some []
                   | a :: t => match to_sitem a, go t with Some a', Some t' => Some (a' :: t') | _, _ => None end
                   end) (map of_sitem l) = Some l).
    { induction l as [|a t IHl]; [reflexivity|]. cbn [map]. rewrite IH, IHl. reflexivity. }
    rewrite H. reflexivity.
Qed.

Lemma all_from_map {A} (f : xitem -> option A) (g : A -> xitem) (l : list A) :
  Forall (fun a => f (g a) = Some a) l -> all_from f (map g l) = Some l.
Proof. induction 1 as [|a t Ha Ht IH]; [reflexivity|]. cbn [map all_from]. rewrite Ha, IH. reflexivity. Qed.

Lemma param_roundtrip p : param_wf p -> param_from_item (param_to_item p) = Some p.
Proof. intros H. destruct p as [n t]. unfold param_wf in H. cbn in *. rewrite H. reflexivity. Qed.

Lemma params_roundtrip l : Forall param_wf l -> all_from param_from_item (map param_to_item l) = Some l.
Proof. intros H. apply all_from_map. eapply Forall_impl; [|exact H]. intros a. apply param_roundtrip. Qed.

Lemma method_roundtrip m : method_wf m -> method_from_item (method_to_item m) = Some m.
Proof.
  intros [Hp Hr]. destruct m as [n ps r o s]. cbn in *. rewrite (params_roundtrip ps Hp), Hr. reflexivity.
Qed.
Lemma event_roundtrip e : event_wf e -> event_from_item (event_to_item e) = Some e.
Proof. intros Hp. destruct e as [n ps]. cbn in *. rewrite (params_roundtrip ps Hp). reflexivity. Qed.
Lemma group_roundtrip g : group_from_item (group_to_item g) = Some g.
Proof. destruct g; reflexivity. Qed.
Lemma desc_x_roundtrip d : desc_from_xitem (of_sitem (desc_to_item d)) = Some d.
Proof. unfold desc_from_xitem. rewrite to_of_sitem. apply desc_roundtrip. Qed.
Lemma perm_x_roundtrip p : perm_from_xitem (of_sitem (perm_to_item p)) = Some p.
Proof. unfold perm_from_xitem. rewrite to_of_sitem. apply perm_roundtrip. Qed.
Lemma trusts_roundtrip t : trusts_from_item (trusts_to_item t) = Some t.
Proof.
  destruct t as [l|]; [|reflexivity]. cbn [trusts_to_item trusts_from_item].
  rewrite (all_from_map desc_from_xitem (fun d => of_sitem (desc_to_item d))); [reflexivity|].
  apply Forall_forall. intros d _. apply desc_x_roundtrip.
Qed.

(* Manifest.FromStackItem (Manifest.ToStackItem m) = m *)
Theorem manifest_item_roundtrip m : manifest_wf m -> manifest_from_item (manifest_to_item m) = Some m.
Proof.
  intros [Hm He]. destruct m as [n gs ss ms es ps tr ex]. cbn [manifest_to_item manifest_from_item fname fgroups fstandards fmethods fevents fperms ftrusts fextra] in *.
  rewrite (all_from_map group_from_item group_to_item gs) by (apply Forall_forall; intros g _; apply group_roundtrip).
  rewrite (all_from_map str_from_item XStr ss) by (apply Forall_forall; intros s _; reflexivity).
  rewrite (all_from_map method_from_item method_to_item ms) by (eapply Forall_impl; [|exact Hm]; intros a; apply method_roundtrip).
  rewrite (all_from_map event_from_item event_to_item es) by (eapply Forall_impl; [|exact He]; intros a; apply event_roundtrip).
  rewrite (all_from_map perm_from_xitem (fun p => of_sitem (perm_to_item p)) ps) by (apply Forall_forall; intros p _; apply perm_x_roundtrip).
  rewrite trusts_roundtrip. reflexivity.
Qed.

(* the stored form determines the manifest *)
Theorem manifest_item_injective m m' : manifest_wf m -> manifest_wf m' -> manifest_to_item m = manifest_to_item m' -> m = m'.
Proof.
  intros H H' E. assert (Some m = Some m') as X by (rewrite <- (manifest_item_roundtrip m H), <- (manifest_item_roundtrip m' H'), E; reflexivity).
  inv X. reflexivity.
Qed.

(* the stored form keeps apart what the code keeps apart: wildcard trusts / explicit empty trusts, wildcard methods /
   explicit empty method list of a permission, safe / unsafe method, a group with another signature *)
Theorem manifest_stored_form_distinguishes :
  trusts_to_item None <> trusts_to_item (Some []) /\
  (forall d, of_sitem (perm_to_item (mk_perm d MWild)) <> of_sitem (perm_to_item (mk_perm d (MList [])))) /\
  (forall n ps r o, method_to_item (MMethod n ps r o true) <> method_to_item (MMethod n ps r o false)) /\
  (forall k s s', s <> s' -> group_to_item (MGroup k s) <> group_to_item (MGroup k s')).
Proof.
  split; [discriminate|]. split; [intros d; destruct d; discriminate|]. split; [intros; discriminate|].
  intros k s s' Hs E. inv E. congruence.
Qed.

(* everything FromStackItem accepts is well-formed and re-stores to the same item *)
Lemma all_from_some {A} (f : xitem -> option A) (g : A -> xitem) (P : A -> Prop) :
  (forall x a, f x = Some a -> P a /\ g a = x) -> forall l r, all_from f l = Some r -> Forall P r /\ map g r = l.
Proof.
  intros Hf l. induction l as [|x t IH]; intros r H; cbn [all_from] in H.
  - inv H. split; [constructor|reflexivity].
  - destruct (f x) as [a|] eqn:Ea; [|discriminate]. destruct (all_from f t) as [r'|] eqn:Er; [|discriminate]. inv H.
    destruct (Hf _ _ Ea) as [Pa Ga]. destruct (IH _ eq_refl) as [Pr Gr]. split; [constructor; assumption|]. cbn [map]. now rewrite Ga, Gr.
Qed.

Example manifest_item_ex :
  let m := MManifest "c" [MGroup 7 9] ["NEP-17"%string] [MMethod "transfer" [MParam "to" 20; MParam "amount" 17] 16 0 false; MMethod "balanceOf" [] 17 42 true]
                     [MEvent "Transfer" [MParam "from" 20]] [mk_perm DWild MWild; mk_perm (DHash 5) (MList []); mk_perm (DGroup 7) (MList ["a"%string])]
                     (Some []) "null" in
  manifest_wf m /\ manifest_from_item (manifest_to_item m) = Some m /\
  manifest_to_item m <> manifest_to_item (MManifest "c" [MGroup 7 9] ["NEP-17"%string] (fmethods m) (fevents m) (fperms m) None "null").
Proof.
  cbv zeta. split; [split; repeat constructor|]. split; [vm_compute; reflexivity|discriminate].
Qed.
