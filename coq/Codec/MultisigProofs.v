(* Proofs about the model of vm.CheckMultisigPar (Multisig.v):
   the sequential matcher decides the specification, and the parallel checker returns the sequential answer
   under EVERY interleaving of its worker goroutines, never deadlocks, never blocks on a send, never indexes
   out of range, and terminates after at most [length keys] received results. *)
From NG Require Import Common.Tactics Codec.Multisig.
From Coq Require Import Sorted.

(* ---------- sub-lists ---------- *)

(* [len] elements of l starting at position [lo] *)
Definition sub {A : Type} (l : list A) (lo len : nat) : list A := firstn len (skipn lo l).

Lemma skipn_nth_error {A : Type} (l : list A) lo x :
  nth_error l lo = Some x -> skipn lo l = x :: skipn (S lo) l.
Proof.
  revert l; induction lo as [|lo IH]; intros [|y l] H; try discriminate; simpl in *.
  - now inv H.
  - now apply IH.
Qed.

Lemma nth_error_skipn {A : Type} (l : list A) lo i : nth_error (skipn lo l) i = nth_error l (lo + i).
Proof.
  revert l; induction lo as [|lo IH]; intros [|y l]; simpl; try reflexivity.
  - now destruct i.
  - apply IH.
Qed.

Lemma firstn_snoc {A : Type} (l : list A) len x :
  nth_error l len = Some x -> firstn (S len) l = firstn len l ++ [x].
Proof.
  revert l; induction len as [|len IH]; intros [|y l] H; try discriminate; simpl in *.
  - now inv H.
  - f_equal. now apply IH.
Qed.

Lemma sub_cons {A : Type} (l : list A) lo len x :
  nth_error l lo = Some x -> sub l lo (S len) = x :: sub l (S lo) len.
Proof. intros H. unfold sub. rewrite (skipn_nth_error _ _ _ H). reflexivity. Qed.

Lemma sub_snoc {A : Type} (l : list A) lo len x :
  nth_error l (lo + len) = Some x -> sub l lo (S len) = sub l lo len ++ [x].
Proof. intros H. unfold sub. apply firstn_snoc. now rewrite nth_error_skipn. Qed.

Lemma sub_length {A : Type} (l : list A) lo len : lo + len <= length l -> length (sub l lo len) = len.
Proof. intros H. unfold sub. rewrite firstn_length, skipn_length. lia. Qed.

Lemma sub_zero {A : Type} (l : list A) lo : sub l lo 0 = [].
Proof. reflexivity. Qed.

Lemma sub_full {A : Type} (l : list A) : sub l 0 (length l) = l.
Proof. unfold sub. simpl. apply firstn_all. Qed.

Lemma sub_eq {A : Type} (l : list A) lo len lo' len' : lo = lo' -> len = len' -> sub l lo len = sub l lo' len'.
Proof. congruence. Qed.

Section MultisigProofs.
Variables (K Sg : Type).
Variable verify : K -> Sg -> bool.
Local Notation matching := (matching verify).
Local Notation seq_match := (seq_match verify).

(* ---------- the specification: structural facts ---------- *)

Lemma matching_length ks ss : matching ks ss -> length ss <= length ks.
Proof. induction 1; simpl; lia. Qed.

Lemma matching_drop_sig ks s ss : matching ks (s :: ss) -> matching ks ss.
Proof.
  intros H. remember (s :: ss) as l eqn:El. revert s ss El.
  induction H as [ks|k ks s' ss' Hv Hm IH|k ks ss' Hm IH]; intros s ss El.
  - discriminate.
  - inv El. now apply m_skip.
  - apply m_skip. eapply IH; eauto.
Qed.

(* greedy exchange: a key that verifies the first signature may as well be used for it *)
Lemma matching_use_iff k ks s ss : verify k s = true -> (matching (k :: ks) (s :: ss) <-> matching ks ss).
Proof.
  intros Hv; split; intros H.
  - inv H; [assumption | eapply matching_drop_sig; eauto].
  - now apply m_use.
Qed.

Lemma matching_skip_iff k ks s ss :
  verify k s = false -> (matching (k :: ks) (s :: ss) <-> matching ks (s :: ss)).
Proof.
  intros Hv; split; intros H.
  - inv H; [congruence | assumption].
  - now apply m_skip.
Qed.

Lemma matching_app ka sa kb sb : matching ka sa -> matching kb sb -> matching (ka ++ kb) (sa ++ sb).
Proof.
  intros Ha Hb. induction Ha as [ks|k ks s ss Hv Hm IH|k ks ss Hm IH]; simpl.
  - induction ks as [|k ks IH]; simpl; [assumption | now apply m_skip].
  - now apply m_use.
  - now apply m_skip.
Qed.

Lemma matching_rev_1 ks ss : matching ks ss -> matching (rev ks) (rev ss).
Proof.
  induction 1 as [ks|k ks s ss Hv Hm IH|k ks ss Hm IH]; simpl.
  - apply m_nil.
  - apply matching_app; [assumption|]. apply m_use; [assumption | apply m_nil].
  - rewrite <- (app_nil_r (rev ss)). apply matching_app; [assumption | apply m_nil].
Qed.

(* the specification is symmetric under reversal of both lists *)
Lemma matching_rev ks ss : matching (rev ks) (rev ss) <-> matching ks ss.
Proof.
  split; intros H; [|now apply matching_rev_1].
  apply matching_rev_1 in H. now rewrite !rev_involutive in H.
Qed.

Lemma matching_use_iff_r k ks s ss :
  verify k s = true -> (matching (ks ++ [k]) (ss ++ [s]) <-> matching ks ss).
Proof.
  intros Hv. etransitivity; [symmetry; apply matching_rev|].
  rewrite !rev_app_distr. simpl. rewrite matching_use_iff by assumption. apply matching_rev.
Qed.

Lemma matching_skip_iff_r k ks s ss :
  verify k s = false -> (matching (ks ++ [k]) (ss ++ [s]) <-> matching ks (ss ++ [s])).
Proof.
  intros Hv. etransitivity; [symmetry; apply matching_rev|].
  rewrite !rev_app_distr. simpl. rewrite matching_skip_iff by assumption.
  etransitivity; [|apply matching_rev]. rewrite rev_app_distr. simpl. reflexivity.
Qed.

Lemma matching_one k s : matching [k] [s] <-> verify k s = true.
Proof.
  split; intros H.
  - inv H; [assumption|]. match goal with H : matching [] _ |- _ => inv H end.
  - apply m_use; [assumption | apply m_nil].
Qed.

(* ---------- sequential matcher = specification ---------- *)

Lemma seq_match_nil keys : seq_match keys [] = true.
Proof. destruct keys; reflexivity. Qed.

Theorem seq_match_iff_matching keys sigs : seq_match keys sigs = true <-> matching keys sigs.
Proof.
  revert sigs; induction keys as [|k ks IH]; intros [|s ss]; simpl.
  - split; [intros _; apply m_nil | reflexivity].
  - split; [discriminate | intros H; inv H].
  - split; [intros _; apply m_nil | reflexivity].
  - destruct (verify k s) eqn:Hv; rewrite IH; symmetry.
    + now apply matching_use_iff.
    + now apply matching_skip_iff.
Qed.

(* ---------- the two formulations of the specification coincide ---------- *)

Lemma SSorted_map_S f : StronglySorted lt f -> StronglySorted lt (map S f).
Proof.
  induction 1 as [|p f Hs IH Hf]; simpl; constructor; [assumption|].
  rewrite Forall_map. eapply Forall_impl; [|exact Hf]. simpl; lia.
Qed.

Lemma matching_index keys sigs : matching keys sigs -> index_matching verify keys sigs.
Proof.
  induction 1 as [ks|k ks s ss Hv Hm IH|k ks ss Hm IH].
  - exists []. split; [reflexivity|]. split; [constructor|]. intros [|i] s H; discriminate.
  - destruct IH as (f & Hl & Hs & Hf). exists (0 :: map S f).
    split; [simpl; rewrite map_length; lia|]. split.
    + constructor; [now apply SSorted_map_S|]. rewrite Forall_map. apply Forall_forall. intros; lia.
    + intros [|i] s' Hi; simpl in Hi.
      * inv Hi. exists 0, k. auto.
      * destruct (Hf i s' Hi) as (p & k' & Hp & Hk & Hv'). exists (S p), k'. simpl.
        rewrite (map_nth_error S _ _ Hp). auto.
  - destruct IH as (f & Hl & Hs & Hf). exists (map S f).
    split; [rewrite map_length; lia|]. split; [now apply SSorted_map_S|].
    intros i s' Hi. destruct (Hf i s' Hi) as (p & k' & Hp & Hk & Hv'). exists (S p), k'. simpl.
    rewrite (map_nth_error S _ _ Hp). auto.
Qed.

Lemma index_matching_off keys : forall sigs f off,
  length f = length sigs -> StronglySorted lt f -> Forall (le off) f ->
  (forall i s, nth_error sigs i = Some s ->
     exists p k, nth_error f i = Some p /\ nth_error keys (p - off) = Some k /\ verify k s = true) ->
  matching keys sigs.
Proof.
  induction keys as [|k ks IH]; intros sigs f off Hl Hs Hle Hf.
  - destruct sigs as [|s ss]; [apply m_nil|].
    destruct (Hf 0 s eq_refl) as (p & k & _ & Hk & _). destruct (p - off); discriminate.
  - destruct sigs as [|s ss]; [apply m_nil|]. destruct f as [|p f]; [discriminate|].
    pose proof (StronglySorted_inv Hs) as [Hs' Hlt]. pose proof (Forall_inv Hle) as Hp0.
    destruct (Nat.eq_dec p off) as [Heq|Hne]; [subst p|].
    + destruct (Hf 0 s eq_refl) as (p' & k' & Hp & Hk & Hv). simpl in Hp. injection Hp as Hp. subst p'.
      rewrite Nat.sub_diag in Hk. simpl in Hk. inv Hk.
      apply m_use; [assumption|]. apply (IH ss f (S off)); [simpl in Hl; lia | assumption | |].
      * eapply Forall_impl; [|exact Hlt]. simpl; lia.
      * intros i s' Hi. destruct (Hf (S i) s' Hi) as (q & kq & Hq & Hkq & Hvq). simpl in Hq.
        exists q, kq. split; [assumption|]. split; [|assumption].
        assert (Hoq : off < q) by (rewrite Forall_forall in Hlt; apply Hlt; eapply nth_error_In; eauto).
        replace (q - off) with (S (q - S off)) in Hkq by lia. exact Hkq.
    + apply m_skip. apply (IH (s :: ss) (p :: f) (S off)); [assumption | assumption | |].
      * constructor; [lia|]. eapply Forall_impl; [|exact Hlt]. simpl; lia.
      * intros i s' Hi. destruct (Hf i s' Hi) as (q & kq & Hq & Hkq & Hvq).
        exists q, kq. split; [assumption|]. split; [|assumption].
        assert (Hoq : off < q).
        { destruct i as [|i]; simpl in Hq; [inv Hq; lia|].
          rewrite Forall_forall in Hlt. apply nth_error_In in Hq. apply Hlt in Hq. lia. }
        replace (q - off) with (S (q - S off)) in Hkq by lia. exact Hkq.
Qed.

Theorem matching_iff_index_matching keys sigs : matching keys sigs <-> index_matching verify keys sigs.
Proof.
  split; [apply matching_index|]. intros (f & Hl & Hs & Hf).
  apply (index_matching_off keys sigs f 0); [assumption | assumption | | ].
  - apply Forall_forall. intros; lia.
  - intros i s Hi. destruct (Hf i s Hi) as (p & k & Hp & Hk & Hv). exists p, k. now rewrite Nat.sub_0_r.
Qed.

(* ---------- the parallel checker: invariant ---------- *)

Definition shape (l x y : list task) : Prop := l = x ++ y \/ l = y ++ x.

Lemma shape_pick (l : list task) (ox oy : bool) (tx ty : task) j t :
  shape l (if ox then [tx] else []) (if oy then [ty] else []) ->
  nth_error l j = Some t ->
  (ox = true /\ t = tx /\ remove_nth j l = (if oy then [ty] else [])) \/
  (oy = true /\ t = ty /\ remove_nth j l = (if ox then [tx] else [])).
Proof.
  intros [-> | ->] Hj; destruct ox, oy; simpl in *;
    repeat (destruct j as [|j]; simpl in *; try discriminate); inv Hj;
    first [left; repeat split; reflexivity | right; repeat split; reflexivity].
Qed.

(* 0 when the direction has a task in flight, 1 when it has finished (its end element is used up) *)
Definition off (pending : bool) : nat := if pending then 0 else 1.

Section Invariant.
Variables (keys : list K) (sigs : list Sg).

(* fp / bp: the forward / backward direction has a task in flight.  The tasks in flight are exactly
   (k1,s1) (if fp) and (k2,s2) (if bp); a direction that is not in flight has matched its signature and then
   s1+1 = s2; the original problem is equivalent to the residual problem between the two fronts. *)
Definition inv (st : pstate) : Prop :=
  exists fp bp : bool,
    k1 st < k2 st /\ k2 st < length keys /\ s1 st < s2 st /\ s2 st < length sigs /\
    sigok st = true /\ taskCount st = length (inflight st) /\
    shape (inflight st) (if fp then [(k1 st, s1 st)] else []) (if bp then [(k2 st, s2 st)] else []) /\
    (fp = false -> bp = true) /\
    (fp = false \/ bp = false -> s1 st + 1 = s2 st) /\
    (matching keys sigs <->
       matching (sub keys (k1 st + off fp) (k2 st + 1 - k1 st - off fp - off bp))
                (sub sigs (s1 st + off fp) (s2 st + 1 - s1 st - off fp - off bp))).

(* what one delivery establishes; m0 = measure before the delivery *)
Definition post (m0 : nat) (o : outcome) : Prop :=
  match o with
  | Running st' => inv st' /\ measure st' + 1 = m0
  | Done b => b = true <-> matching keys sigs
  | Crash => False
  end.

Ltac sub_iff :=
  match goal with
  | |- matching ?a ?b <-> matching ?c ?d =>
      let H1 := fresh in let H2 := fresh in
      assert (H1 : a = c) by (apply sub_eq; simpl; lia);
      assert (H2 : b = d) by (apply sub_eq; simpl; lia);
      rewrite H1, H2; reflexivity
  end.

Ltac inv_side :=
  first [ lia | reflexivity | discriminate | (right; reflexivity) | (left; reflexivity)
        | (intros [?|?]; first [discriminate | auto]) ].

Ltac new_inv fp' bp' :=
  split; [exists fp', bp'; cbn [k1 k2 s1 s2 sigok taskCount inflight send_next];
          repeat match goal with |- _ /\ _ => split end
         | unfold measure, send_next; cbn [k1 k2 taskCount]; try lia];
  try solve [inv_side].

Lemma body_fwd a1 a2 b1 b2 tc infl (bp : bool) kk ss :
  a1 < a2 -> a2 < length keys -> b1 < b2 -> b2 < length sigs ->
  nth_error keys a1 = Some kk -> nth_error sigs b1 = Some ss ->
  tc = 1 + (if bp then 1 else 0) ->
  (bp = false -> b1 + 1 = b2) ->
  (matching keys sigs <->
     matching (sub keys a1 (a2 + 1 - a1 - off bp)) (sub sigs b1 (b2 + 1 - b1 - off bp))) ->
  post (a2 - a1 + tc)
       (loop_body (mk_pstate a1 a2 b1 b2 true tc infl) (if bp then [(a2, b2)] else []) b1 (verify kk ss)).
Proof.
  intros Ha Ha2 Hb Hb2 Hkk Hss Htc Hbp HM.
  assert (Hrk : sub keys a1 (a2 + 1 - a1 - off bp) = kk :: sub keys (a1 + 1) (a2 - a1 - off bp)).
  { replace (a2 + 1 - a1 - off bp) with (S (a2 - a1 - off bp)) by (destruct bp; simpl; lia).
    rewrite (sub_cons _ _ _ _ Hkk). f_equal. apply sub_eq; lia. }
  assert (Hrs : sub sigs b1 (b2 + 1 - b1 - off bp) = ss :: sub sigs (b1 + 1) (b2 - b1 - off bp)).
  { replace (b2 + 1 - b1 - off bp) with (S (b2 - b1 - off bp)) by (destruct bp; simpl; [lia|specialize (Hbp eq_refl); lia]).
    rewrite (sub_cons _ _ _ _ Hss). f_equal. apply sub_eq; lia. }
  assert (Hlk : length (sub keys (a1 + 1) (a2 - a1 - off bp)) = a2 - a1 - off bp)
    by (apply sub_length; destruct bp; simpl; lia).
  assert (Hls : length (sub sigs (b1 + 1) (b2 - b1 - off bp)) = b2 - b1 - off bp)
    by (apply sub_length; destruct bp; simpl; lia).
  unfold loop_body; cbn [k1 k2 s1 s2 sigok taskCount].
  replace (b1 =? b2) with false by lia. cbn [negb].
  assert (Hdone_true : verify kk ss = true -> b2 - b1 - off bp = 0 -> (true = true <-> matching keys sigs)).
  { intros Hv H0. split; [intros _|reflexivity]. rewrite HM, Hrk, Hrs, matching_use_iff by assumption.
    rewrite H0 in *. rewrite sub_zero. apply m_nil. }
  assert (Hfalse_use : verify kk ss = true -> a2 - a1 - off bp < b2 - b1 - off bp ->
                       (false = true <-> matching keys sigs)).
  { intros Hv Hlt. split; [discriminate|]. rewrite HM, Hrk, Hrs, matching_use_iff by assumption.
    intros H; apply matching_length in H. rewrite Hlk, Hls in H. lia. }
  assert (Hfalse_skip : verify kk ss = false -> a2 - a1 - off bp < 1 + (b2 - b1 - off bp) ->
                       (false = true <-> matching keys sigs)).
  { intros Hv Hlt. split; [discriminate|]. rewrite HM, Hrk, Hrs, matching_skip_iff by assumption.
    intros H; apply matching_length in H. simpl length in H. rewrite Hlk, Hls in H. lia. }
  destruct (a1 + 1 =? a2) eqn:Ek.
  - (* the last two keys: sigok = r.ok && s1+1 == s2 *)
    destruct (verify kk ss) eqn:Hv; [destruct (b1 + 1 =? b2) eqn:Es|]; cbn [andb].
    + destruct bp; subst tc; cbn [Nat.add Nat.sub Nat.eqb negb andb post].
      * (* continue: wait for the backward result *)
        new_inv false true.
        rewrite HM, Hrk, Hrs, matching_use_iff by assumption. sub_iff.
      * apply Hdone_true; [reflexivity | simpl; lia].
    + rewrite andb_false_r. cbn [post]. apply Hfalse_use; [reflexivity|].
      destruct bp; simpl; [lia | specialize (Hbp eq_refl); lia].
    + rewrite andb_false_r. cbn [post]. apply Hfalse_skip; [reflexivity|]. destruct bp; simpl; lia.
  - destruct (verify kk ss) eqn:Hv; [destruct (b1 + 1 =? b2) eqn:Es|].
    + destruct bp; subst tc; cbn [Nat.add Nat.sub Nat.eqb negb andb post].
      * (* continue: this signature was the last one of the forward direction *)
        new_inv false true.
        rewrite HM, Hrk, Hrs, matching_use_iff by assumption. sub_iff.
      * apply Hdone_true; [reflexivity | simpl; lia].
    + (* s1++ ; k1++ ; send *)
      destruct bp; [|specialize (Hbp eq_refl); lia]. subst tc. cbn [post].
      new_inv true true.
      rewrite HM, Hrk, Hrs, matching_use_iff by assumption. sub_iff.
    + (* k1++ ; send *)
      cbn [post]. new_inv true bp.
      * rewrite app_length. subst tc. destruct bp; simpl; lia.
      * rewrite HM, Hrk, Hrs, matching_skip_iff by assumption. rewrite <- Hrs. sub_iff.
Qed.

(* the mirror image: the result of the backward task (k2, s2) is received *)
Lemma body_bwd a1 a2 b1 b2 tc infl (fp : bool) kk ss :
  a1 < a2 -> a2 < length keys -> b1 < b2 -> b2 < length sigs ->
  nth_error keys a2 = Some kk -> nth_error sigs b2 = Some ss ->
  tc = 1 + (if fp then 1 else 0) ->
  (fp = false -> b1 + 1 = b2) ->
  (matching keys sigs <->
     matching (sub keys (a1 + off fp) (a2 + 1 - a1 - off fp)) (sub sigs (b1 + off fp) (b2 + 1 - b1 - off fp))) ->
  post (a2 - a1 + tc)
       (loop_body (mk_pstate a1 a2 b1 b2 true tc infl) (if fp then [(a1, b1)] else []) b2 (verify kk ss)).
Proof.
  intros Ha Ha2 Hb Hb2 Hkk Hss Htc Hfp HM.
  assert (Hrk : sub keys (a1 + off fp) (a2 + 1 - a1 - off fp) = sub keys (a1 + off fp) (a2 - a1 - off fp) ++ [kk]).
  { replace (a2 + 1 - a1 - off fp) with (S (a2 - a1 - off fp)) by (destruct fp; simpl; lia).
    apply sub_snoc. replace (a1 + off fp + (a2 - a1 - off fp)) with a2 by (destruct fp; simpl; lia). exact Hkk. }
  assert (Hrs : sub sigs (b1 + off fp) (b2 + 1 - b1 - off fp) = sub sigs (b1 + off fp) (b2 - b1 - off fp) ++ [ss]).
  { replace (b2 + 1 - b1 - off fp) with (S (b2 - b1 - off fp))
      by (destruct fp; simpl; [lia|specialize (Hfp eq_refl); lia]).
    apply sub_snoc. replace (b1 + off fp + (b2 - b1 - off fp)) with b2 by (destruct fp; simpl; lia). exact Hss. }
  assert (Hlk : length (sub keys (a1 + off fp) (a2 - a1 - off fp)) = a2 - a1 - off fp)
    by (apply sub_length; destruct fp; simpl; lia).
  assert (Hls : length (sub sigs (b1 + off fp) (b2 - b1 - off fp)) = b2 - b1 - off fp)
    by (apply sub_length; destruct fp; simpl; lia).
  unfold loop_body; cbn [k1 k2 s1 s2 sigok taskCount].
  rewrite Nat.eqb_refl. cbn [negb].
  assert (Hdone_true : verify kk ss = true -> b2 - b1 - off fp = 0 -> (true = true <-> matching keys sigs)).
  { intros Hv H0. split; [intros _|reflexivity]. rewrite HM, Hrk, Hrs, matching_use_iff_r by assumption.
    rewrite H0 in *. rewrite sub_zero. apply m_nil. }
  assert (Hfalse_use : verify kk ss = true -> a2 - a1 - off fp < b2 - b1 - off fp ->
                       (false = true <-> matching keys sigs)).
  { intros Hv Hlt. split; [discriminate|]. rewrite HM, Hrk, Hrs, matching_use_iff_r by assumption.
    intros H; apply matching_length in H. rewrite Hlk, Hls in H. lia. }
  assert (Hfalse_skip : verify kk ss = false -> a2 - a1 - off fp < 1 + (b2 - b1 - off fp) ->
                       (false = true <-> matching keys sigs)).
  { intros Hv Hlt. split; [discriminate|]. rewrite HM, Hrk, Hrs, matching_skip_iff_r by assumption.
    intros H; apply matching_length in H. rewrite app_length in H. simpl length in H.
    rewrite Hlk, Hls in H. lia. }
  destruct (a1 + 1 =? a2) eqn:Ek.
  - (* the last two keys: sigok = r.ok && s1+1 == s2 *)
    destruct (verify kk ss) eqn:Hv; [destruct (b1 + 1 =? b2) eqn:Es|]; cbn [andb].
    + destruct fp; subst tc; cbn [Nat.add Nat.sub Nat.eqb negb andb post].
      * (* continue: wait for the forward result *)
        new_inv true false.
        rewrite HM, Hrk, Hrs, matching_use_iff_r by assumption. sub_iff.
      * apply Hdone_true; [reflexivity | simpl; lia].
    + rewrite andb_false_r. cbn [post]. apply Hfalse_use; [reflexivity|].
      destruct fp; simpl; [lia | specialize (Hfp eq_refl); lia].
    + rewrite andb_false_r. cbn [post]. apply Hfalse_skip; [reflexivity|]. destruct fp; simpl; lia.
  - destruct (verify kk ss) eqn:Hv; [destruct (b1 + 1 =? b2) eqn:Es|].
    + destruct fp; subst tc; cbn [Nat.add Nat.sub Nat.eqb negb andb post].
      * (* continue: this signature was the last one of the backward direction *)
        new_inv true false.
        rewrite HM, Hrk, Hrs, matching_use_iff_r by assumption. sub_iff.
      * apply Hdone_true; [reflexivity | simpl; lia].
    + (* s2-- ; k2-- ; send *)
      destruct fp; [|specialize (Hfp eq_refl); lia]. subst tc. cbn [post].
      new_inv true true.
      rewrite HM, Hrk, Hrs, matching_use_iff_r by assumption. sub_iff.
    + (* k2-- ; send *)
      cbn [post]. new_inv fp true.
      * rewrite app_length. subst tc. destruct fp; simpl; lia.
      * rewrite HM, Hrk, Hrs, matching_skip_iff_r by assumption. rewrite <- Hrs. sub_iff.
Qed.

(* every enabled delivery from a state satisfying the invariant: no crash, invariant kept, measure decreases by
   one, and a final answer is the right one *)
Lemma deliver_post st j t :
  inv st -> nth_error (inflight st) j = Some t ->
  exists o, deliver verify keys sigs j st = Some o /\ post (measure st) o.
Proof.
  intros (fp & bp & Hk & Hk2 & Hs & Hs2 & Hok & Htc & Hsh & Hfb & Hadj & HM) Hj.
  destruct st as [a1 a2 b1 b2 ok tc infl]; cbn [k1 k2 s1 s2 sigok taskCount inflight] in *. subst ok.
  assert (Hlen : length infl = (if fp then 1 else 0) + (if bp then 1 else 0))
    by (destruct Hsh as [-> | ->]; destruct fp, bp; reflexivity).
  unfold deliver, measure; cbn [k1 k2 s1 s2 sigok taskCount inflight]. rewrite Hj.
  destruct (shape_pick _ _ _ _ _ _ _ Hsh Hj) as [(-> & -> & Hrest)|(-> & -> & Hrest)]; rewrite Hrest.
  - (* the forward result *)
    destruct (nth_error keys a1) as [kk|] eqn:Hkk; [|apply nth_error_None in Hkk; lia].
    destruct (nth_error sigs b1) as [ss|] eqn:Hss; [|apply nth_error_None in Hss; lia].
    unfold worker; cbn [fst snd]. rewrite Hkk, Hss.
    eexists; split; [reflexivity|].
    apply body_fwd; try assumption; try lia.
    + intros Hb. apply Hadj. now right.
    + rewrite HM. simpl off. rewrite !Nat.add_0_r, !Nat.sub_0_r. reflexivity.
  - (* the backward result *)
    destruct (nth_error keys a2) as [kk|] eqn:Hkk; [|apply nth_error_None in Hkk; lia].
    destruct (nth_error sigs b2) as [ss|] eqn:Hss; [|apply nth_error_None in Hss; lia].
    unfold worker; cbn [fst snd]. rewrite Hkk, Hss.
    eexists; split; [reflexivity|].
    apply body_bwd; try assumption; try lia.
    + intros Hf. apply Hadj. now left.
    + rewrite HM. simpl off. rewrite !Nat.sub_0_r. reflexivity.
Qed.

Lemma inv_init : 2 <= length sigs <= length keys -> inv (init keys sigs).
Proof.
  intros Hlen. exists true, true. unfold init; cbn [k1 k2 s1 s2 sigok taskCount inflight].
  repeat match goal with |- _ /\ _ => split end; try solve [inv_side].
  simpl off. rewrite !Nat.add_0_r, !Nat.sub_0_r.
  replace (length keys - 1 + 1) with (length keys) by lia.
  replace (length sigs - 1 + 1) with (length sigs) by lia.
  rewrite !sub_full. reflexivity.
Qed.

Lemma inv_facts st :
  inv st ->
  k1 st < k2 st < length keys /\ s1 st < s2 st < length sigs /\ sigok st = true /\
  1 <= length (inflight st) <= 2 /\ taskCount st = length (inflight st) /\ 2 <= measure st.
Proof.
  intros (fp & bp & Hk & Hk2 & Hs & Hs2 & Hok & Htc & Hsh & Hfb & Hadj & HM).
  assert (Hlen : length (inflight st) = (if fp then 1 else 0) + (if bp then 1 else 0))
    by (destruct Hsh as [-> | ->]; destruct fp, bp; reflexivity).
  unfold measure. destruct fp, bp; try (specialize (Hfb eq_refl); discriminate); simpl in Hlen;
    repeat split; try assumption; lia.
Qed.

End Invariant.

(* ---------- all interleavings ---------- *)

Section Schedules.
Variables (keys : list K) (sigs : list Sg).
Local Notation deliver := (deliver verify keys sigs).
Local Notation run := (run verify keys sigs).
Local Notation steps := (steps verify keys sigs).

Lemma deliver_inv st j o : inv keys sigs st -> deliver j st = Some o -> post keys sigs (measure st) o.
Proof.
  intros Hinv Hd.
  destruct (nth_error (inflight st) j) as [t|] eqn:Hj.
  - destruct (deliver_post keys sigs st j t Hinv Hj) as (o' & Hd' & Hpost). congruence.
  - unfold Multisig.deliver in Hd. rewrite Hj in Hd. discriminate.
Qed.

Lemma run_sound st b : inv keys sigs st -> run st b -> (b = true <-> matching keys sigs).
Proof.
  intros Hinv Hrun. induction Hrun as [st j b Hd|st j st' b Hd Hrun IH].
  - exact (deliver_inv _ _ _ Hinv Hd).
  - apply IH. exact (proj1 (deliver_inv _ _ _ Hinv Hd)).
Qed.

Lemma steps_inv c st st' :
  inv keys sigs st -> steps c st st' -> inv keys sigs st' /\ c + measure st' = measure st.
Proof.
  intros Hinv Hs. induction Hs as [st|c st j st' st'' Hs IH Hd].
  - split; [assumption | reflexivity].
  - destruct (IH Hinv) as [Hinv' Hm]. destruct (deliver_inv _ _ _ Hinv' Hd) as [Hinv'' Hm']. split; [assumption|lia].
Qed.

(* the executable driver *)
Lemma run_sched_correct fuel : forall sched st,
  inv keys sigs st -> measure st <= fuel ->
  run_sched verify keys sigs fuel sched st = Some (seq_match keys sigs).
Proof.
  induction fuel as [|fuel IH]; intros sched st Hinv Hm.
  - pose proof (inv_facts keys sigs st Hinv). lia.
  - pose proof (inv_facts keys sigs st Hinv) as (_ & _ & _ & Hlen & _ & _).
    cbn [run_sched].
    set (j := match sched with [] => 0 | x :: _ => x mod length (inflight st) end).
    assert (Hj : j < length (inflight st)).
    { subst j. destruct sched as [|x sched]; [lia|]. apply Nat.mod_upper_bound. lia. }
    destruct (nth_error (inflight st) j) as [t|] eqn:Ht; [|apply nth_error_None in Ht; lia].
    destruct (deliver_post keys sigs st j t Hinv Ht) as (o & Hd & Hpost). rewrite Hd.
    destruct o as [st'|b|]; cbn [post] in Hpost.
    + destruct Hpost as [Hinv' Hm']. apply IH; [assumption | lia].
    + f_equal. apply eq_true_iff_eq. rewrite Hpost. symmetry. apply seq_match_iff_matching.
    + contradiction.
Qed.

Lemma run_sched_run fuel : forall sched st b, run_sched verify keys sigs fuel sched st = Some b -> run st b.
Proof.
  induction fuel as [|fuel IH]; intros sched st b H; [discriminate|].
  cbn [run_sched] in H.
  set (j := match sched with [] => 0 | x :: _ => x mod length (inflight st) end) in H.
  destruct (deliver j st) as [[st'|b'|]|] eqn:Hd; try discriminate.
  - eapply run_step; [exact Hd | eapply IH; exact H].
  - inv H. eapply run_done; exact Hd.
Qed.

End Schedules.

(* ---------- the theorems ---------- *)

(* EVERY schedule gives the sequential answer *)
Theorem multisig_schedule_free keys sigs :
  2 <= length sigs <= length keys ->
  forall b, run verify keys sigs (init keys sigs) b -> b = seq_match keys sigs.
Proof.
  intros Hlen b Hrun. apply eq_true_iff_eq.
  rewrite (run_sound keys sigs _ _ (inv_init keys sigs Hlen) Hrun). symmetry. apply seq_match_iff_matching.
Qed.

(* In every state reachable by c deliveries:
   - between 1 and 2 tasks are in flight: the main loop never waits on `results` for ever, a send on `tasks`
     (capacity 2) never blocks, and the results fit into `results` (capacity len(sigs) >= 2);
   - taskCount is the number of tasks in flight; k1 < k2 and s1 < s2 (the direction test r.signum == s2 is
     unambiguous, no counter is decremented below zero, all indices are in range);
   - c + measure = length keys + 1 and measure >= 2: the loop is left after at most [length keys] deliveries;
   - every result that can arrive is processed without a run-time panic. *)
Theorem multisig_progress keys sigs :
  2 <= length sigs <= length keys ->
  forall c st, steps verify keys sigs c (init keys sigs) st ->
    1 <= length (inflight st) <= 2 /\
    taskCount st = length (inflight st) /\
    k1 st < k2 st < length keys /\ s1 st < s2 st < length sigs /\
    c + measure st = length keys + 1 /\ 2 <= measure st /\
    (forall j, j < length (inflight st) ->
       exists o, deliver verify keys sigs j st = Some o /\ o <> Crash /\
                 (forall st', o = Running st' -> measure st' + 1 = measure st)).
Proof.
  intros Hlen c st Hs.
  destruct (steps_inv keys sigs c _ _ (inv_init keys sigs Hlen) Hs) as [Hinv Hm].
  pose proof (inv_facts keys sigs st Hinv) as (Hk & Hsg & _ & Hl & Htc & Hm2).
  unfold measure at 2 in Hm. unfold init in Hm; cbn [k1 k2 taskCount] in Hm.
  repeat split; try lia.
  intros j Hj. destruct (nth_error (inflight st) j) as [t|] eqn:Ht; [|apply nth_error_None in Ht; lia].
  destruct (deliver_post keys sigs st j t Hinv Ht) as (o & Hd & Hpost).
  exists o. split; [assumption|]. split.
  - intros ->. exact Hpost.
  - intros st' ->. exact (proj2 Hpost).
Qed.

(* at most [length keys] results are received in any execution *)
Corollary multisig_bounded keys sigs :
  2 <= length sigs <= length keys ->
  forall c st, steps verify keys sigs c (init keys sigs) st -> c + 1 <= length keys.
Proof. intros Hlen c st Hs. pose proof (multisig_progress keys sigs Hlen c st Hs). lia. Qed.

Lemma par_check_unfold sched keys sigs :
  2 <= length sigs ->
  par_check verify sched keys sigs = run_sched verify keys sigs (2 * length keys + 4) sched (init keys sigs).
Proof. destruct sigs as [|s [|s' ss]]; simpl length; intros H; try lia. reflexivity. Qed.

Theorem par_check_correct keys sigs :
  2 <= length sigs <= length keys ->
  forall sched, par_check verify sched keys sigs = Some (seq_match keys sigs).
Proof.
  intros Hlen sched. rewrite par_check_unfold by lia.
  apply run_sched_correct; [now apply inv_init|].
  unfold measure, init; cbn [k1 k2 taskCount]. lia.
Qed.

(* every schedule of the executable driver is an interleaving in the sense of [run] *)
Lemma par_check_run keys sigs sched b :
  2 <= length sigs -> par_check verify sched keys sigs = Some b -> run verify keys sigs (init keys sigs) b.
Proof. intros Hlen H. rewrite par_check_unfold in H by lia. eapply run_sched_run; exact H. Qed.

(* len(sigs) == 1 *)
Theorem multisig_one_sig keys s : one_sig verify keys s = seq_match keys [s].
Proof.
  induction keys as [|k ks IH]; [reflexivity|].
  cbn [one_sig existsb Multisig.seq_match]. destruct (verify k s); simpl; [now rewrite seq_match_nil | exact IH].
Qed.

Theorem par_check_total keys sigs :
  1 <= length sigs <= length keys ->
  forall sched, par_check verify sched keys sigs = Some (seq_match keys sigs).
Proof.
  intros Hlen sched. destruct (Nat.eq_dec (length sigs) 1) as [H1|H1].
  - destruct sigs as [|s [|s' ss]]; try discriminate. cbn [par_check]. now rewrite multisig_one_sig.
  - apply par_check_correct. lia.
Qed.

(* C18, schedules: the checker accepts exactly when the signatures can be matched to keys in order,
   whatever the scheduling of its parallel verification *)
Theorem multisig_accepts_iff_matching keys sigs :
  1 <= length sigs <= length keys ->
  forall sched, exists b, par_check verify sched keys sigs = Some b /\ (b = true <-> matching keys sigs).
Proof.
  intros Hlen sched. exists (seq_match keys sigs). split; [now apply par_check_total|].
  apply seq_match_iff_matching.
Qed.

(* the same on the interleaving system itself: some execution exists, and every execution answers correctly *)
Theorem multisig_run_iff_matching keys sigs :
  2 <= length sigs <= length keys ->
  (exists b, run verify keys sigs (init keys sigs) b) /\
  (forall b, run verify keys sigs (init keys sigs) b -> (b = true <-> matching keys sigs)).
Proof.
  intros Hlen. split.
  - exists (seq_match keys sigs). apply (par_check_run keys sigs []); [lia|]. now apply par_check_correct.
  - intros b Hrun. exact (run_sound keys sigs _ _ (inv_init keys sigs Hlen) Hrun).
Qed.

End MultisigProofs.

Arguments inv {K Sg} verify keys sigs st.

(* ---------- examples (non-vacuity) ---------- *)

Section Examples.
Let ks := [1; 2; 2; 3; 4].          (* repeated key *)
Let good := [2; 2; 4].
Let swapped := [2; 4; 2].           (* valid signatures in the wrong order *)
Let bad_mid := [2; 9; 4].           (* an invalid signature in the middle *)

(* the specification, both formulations *)
Example matching_ex : matching Nat.eqb ks good.
Proof. apply m_skip, m_use, m_use, m_skip, m_use, m_nil; reflexivity. Qed.

Example index_matching_ex : index_matching Nat.eqb ks good.
Proof. apply matching_iff_index_matching, matching_ex. Qed.

Example not_matching_ex : ~ matching Nat.eqb ks swapped /\ ~ matching Nat.eqb ks bad_mid.
Proof. split; intros H; apply seq_match_iff_matching in H; vm_compute in H; discriminate. Qed.

Example seq_match_ex :
  seq_match Nat.eqb ks good = true /\ seq_match Nat.eqb ks swapped = false /\
  seq_match Nat.eqb ks bad_mid = false.
Proof. vm_compute. auto. Qed.

(* accepted under several schedules *)
Example par_accept_ex :
  map (fun sched => par_check Nat.eqb sched ks good) [[]; [1; 1; 1; 1; 1]; [0; 1; 0; 1]; [1; 0; 0; 0]]
  = [Some true; Some true; Some true; Some true].
Proof. vm_compute. reflexivity. Qed.

(* rejected under several schedules: wrong order; invalid signature in the middle *)
Example par_reject_ex :
  map (fun sched => par_check Nat.eqb sched ks swapped) [[]; [1; 1; 1; 1; 1]; [0; 1; 0; 1]]
  = [Some false; Some false; Some false] /\
  map (fun sched => par_check Nat.eqb sched ks bad_mid) [[]; [1; 1; 1; 1; 1]; [0; 1; 0; 1]]
  = [Some false; Some false; Some false].
Proof. vm_compute. auto. Qed.

(* two schedules that verify different (key index, signum) pairs and still agree: the second one even finds
   that key #2 verifies signature #2, which the first never tries *)
Example different_traces_ex :
  trace_sched Nat.eqb ks swapped 14 [] (init ks swapped) = [(0, 0); (4, 2); (1, 0); (3, 2)] /\
  trace_sched Nat.eqb ks swapped 14 [1; 1; 1; 1] (init ks swapped) = [(4, 2); (3, 2); (2, 2); (1, 1)] /\
  par_check Nat.eqb [] ks swapped = par_check Nat.eqb [1; 1; 1; 1] ks swapped.
Proof. vm_compute. auto. Qed.

Example different_traces_accept_ex :
  trace_sched Nat.eqb ks good 14 [] (init ks good) = [(0, 0); (4, 2); (1, 0); (3, 1); (2, 1)] /\
  trace_sched Nat.eqb ks good 14 [0; 1; 0; 1] (init ks good) = [(0, 0); (1, 0); (4, 2); (2, 1)] /\
  par_check Nat.eqb [] ks good = par_check Nat.eqb [0; 1; 0; 1] ks good.
Proof. vm_compute. auto. Qed.

(* hypotheses of the theorems are satisfiable: a run, a reachable state with two tasks in flight and (after a
   `continue`) one with a single task in flight *)
Example run_ex : run Nat.eqb ks good (init ks good) true.
Proof. apply (par_check_run _ _ _ ks good [0; 1; 0; 1] true); [simpl; lia | vm_compute; reflexivity]. Qed.

Example steps_ex :
  steps Nat.eqb ks good 2 (init ks good) (mk_pstate 2 4 1 2 true 2 [(4, 2); (2, 1)]).
Proof.
  eapply steps_S with (j := 1); [eapply steps_S with (j := 0); [apply steps_0|] |]; vm_compute; reflexivity.
Qed.

Example steps_continue_ex :
  steps Nat.eqb [1; 2] [1; 2] 1 (init [1; 2] [1; 2]) (mk_pstate 0 1 0 1 true 1 [(1, 1)]).
Proof. eapply steps_S with (j := 0); [apply steps_0|]. vm_compute. reflexivity. Qed.

Example one_sig_ex : par_check Nat.eqb [] ks [3] = Some true /\ par_check Nat.eqb [] ks [7] = Some false.
Proof. vm_compute. auto. Qed.
End Examples.
