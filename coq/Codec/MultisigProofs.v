(* Proofs about the model of vm.CheckMultisigPar (Multisig.v):
   the sequential matcher decides the specification, and the parallel checker returns the sequential answer
   under EVERY interleaving of its worker goroutines, never deadlocks, never blocks on a send, never indexes
   out of range, and terminates after at most [length keys] received results. *)
From NG Require Import Common.Tactics Codec.Multisig.
From Coq Require Import Sorted.

(* ---------- sub-lists ---------- *)

(* [len] elements of l starting at position [lo] *)
Definition sub {A : Type} (l : list A) (lo len : nat) : list A := firstn len (skipn lo l).

Lemma skipn_nth_error {A : Type} (l : list A) lo x :
  nth_error l lo = Some x -> skipn lo l = x :: skipn (S lo) l.
Proof.
  revert l; induction lo as [|lo IH]; intros [|y l] H; try discriminate; simpl in *.
  - now inv H.
  - now apply IH.
Qed.

Lemma nth_error_skipn {A : Type} (l : list A) lo i : nth_error (skipn lo l) i = nth_error l (lo + i).
Proof.
  revert l; induction lo as [|lo IH]; intros [|y l]; simpl; try reflexivity.
  - now destruct i.
  - apply IH.
Qed.

Lemma firstn_snoc {A : Type} (l : list A) len x :
  nth_error l len = Some x -> firstn (S len) l = firstn len l ++ [x].
Proof.
  revert l; induction len as [|len IH]; intros [|y l] H; try discriminate; simpl in *.
  - now inv H.
  - f_equal. now apply IH.
Qed.

Lemma sub_cons {A : Type} (l : list A) lo len x :
  nth_error l lo = Some x -> sub l lo (S len) = x :: sub l (S lo) len.
Proof. intros H. unfold sub. rewrite (skipn_nth_error _ _ _ H). reflexivity. Qed.

Lemma sub_snoc {A : Type} (l : list A) lo len x :
  nth_error l (lo + len) = Some x -> sub l lo (S len) = sub l lo len ++ [x].
Proof. intros H. unfold sub. apply firstn_snoc. now rewrite nth_error_skipn. Qed.

Lemma sub_length {A : Type} (l : list A) lo len : lo + len <= length l -> length (sub l lo len) = len.
Proof. intros H. unfold sub. rewrite firstn_length, skipn_length. lia. Qed.

Lemma sub_zero {A : Type} (l : list A) lo : sub l lo 0 = [].
Proof. reflexivity. Qed.

Lemma sub_full {A : Type} (l : list A) : sub l 0 (length l) = l.
Proof. unfold sub. simpl. apply firstn_all. Qed.

Lemma sub_eq {A : Type} (l : list A) lo len lo' len' : lo = lo' -> len = len' -> sub l lo len = sub l lo' len'.
Proof. congruence. Qed.

Section MultisigProofs.
Variables (K Sg : Type).
Variable verify : K -> Sg -> bool.
Local Notation matching := (matching verify).
Local Notation seq_match := (seq_match verify).

(* ---------- the specification: structural facts ---------- *)

Lemma matching_length ks ss : matching ks ss -> length ss <= length ks.
Proof. induction 1; simpl; lia. Qed.

Lemma matching_drop_sig ks s ss : matching ks (s :: ss) -> matching ks ss.
Proof.
  intros H. remember (s :: ss) as l eqn:El. revert s ss El.
  induction H as [ks|k ks s' ss' Hv Hm IH|k ks ss' Hm IH]; intros s ss El.
  - discriminate.
  - inv El. now apply m_skip.
  - apply m_skip. eapply IH; eauto.
Qed.

(* greedy exchange: a key that verifies the first signature may as well be used for it *)
Lemma matching_use_iff k ks s ss : verify k s = true -> (matching (k :: ks) (s :: ss) <-> matching ks ss).
Proof.
  intros Hv; split; intros H.
  - inv H; [assumption | eapply matching_drop_sig; eauto].
  - now apply m_use.
Qed.

Lemma matching_skip_iff k ks s ss :
  verify k s = false -> (matching (k :: ks) (s :: ss) <-> matching ks (s :: ss)).
Proof.
  intros Hv; split; intros H.
  - inv H; [congruence | assumption].
  - now apply m_skip.
Qed.

Lemma matching_app ka sa kb sb : matching ka sa -> matching kb sb -> matching (ka ++ kb) (sa ++ sb).
Proof.
  intros Ha Hb. induction Ha as [ks|k ks s ss Hv Hm IH|k ks ss Hm IH]; simpl.
  - induction ks as [|k ks IH]; simpl; [assumption | now apply m_skip].
  - now apply m_use.
  - now apply m_skip.
Qed.

Lemma matching_rev_1 ks ss : matching ks ss -> matching (rev ks) (rev ss).
Proof.
  induction 1 as [ks|k ks s ss Hv Hm IH|k ks ss Hm IH]; simpl.
  - apply m_nil.
  - apply matching_app; [assumption|]. apply m_use; [assumption | apply m_nil].
  - rewrite <- (app_nil_r (rev ss)). apply matching_app; [assumption | apply m_nil].
Qed.

(* the specification is symmetric under reversal of both lists *)
Lemma matching_rev ks ss : matching (rev ks) (rev ss) <-> matching ks ss.
Proof.
  split; intros H; [|now apply matching_rev_1].
  apply matching_rev_1 in H. now rewrite !rev_involutive in H.
Qed.

Lemma matching_use_iff_r k ks s ss :
  verify k s = true -> (matching (ks ++ [k]) (ss ++ [s]) <-> matching ks ss).
Proof.
  intros Hv. etransitivity; [symmetry; apply matching_rev|].
  rewrite !rev_app_distr. simpl. rewrite matching_use_iff by assumption. apply matching_rev.
Qed.

Lemma matching_skip_iff_r k ks s ss :
  verify k s = false -> (matching (ks ++ [k]) (ss ++ [s]) <-> matching ks (ss ++ [s])).
Proof.
  intros Hv. etransitivity; [symmetry; apply matching_rev|].
  rewrite !rev_app_distr. simpl. rewrite matching_skip_iff by assumption.
  etransitivity; [|apply matching_rev]. rewrite rev_app_distr. simpl. reflexivity.
Qed.

Lemma matching_one k s : matching [k] [s] <-> verify k s = true.
Proof.
  split; intros H.
  - inv H; [assumption|]. match goal with H : matching [] _ |- _ => inv H end.
  - apply m_use; [assumption | apply m_nil].
Qed.

(* ---------- sequential matcher = specification ---------- *)

Lemma seq_match_nil keys : seq_match keys [] = true.
Proof. destruct keys; reflexivity. Qed.

Theorem seq_match_iff_matching keys sigs : seq_match keys sigs = true <-> matching keys sigs.
Proof.
  revert sigs; induction keys as [|k ks IH]; intros [|s ss]; simpl.
  - split; [intros _; apply m_nil | reflexivity].
  - split; [discriminate | intros H; inv H].
  - split; [intros _; apply m_nil | reflexivity].
  - destruct (verify k s) eqn:Hv; rewrite IH; symmetry.
    + now apply matching_use_iff.
    + now apply matching_skip_iff.
Qed.

(* ---------- the two formulations of the specification coincide ---------- *)

Lemma SSorted_map_S f : StronglySorted lt f -> StronglySorted lt (map S f).
Proof.
  induction 1 as [|p f Hs IH Hf]; simpl; constructor; [assumption|].
  rewrite Forall_map. eapply Forall_impl; [|exact Hf]. simpl; lia.
Qed.

Lemma matching_index keys sigs : matching keys sigs -> index_matching verify keys sigs.
Proof.
  induction 1 as [ks|k ks s ss Hv Hm IH|k ks ss Hm IH].
  - exists []. split; [reflexivity|]. split; [constructor|]. intros [|i] s H; discriminate.
  - destruct IH as (f & Hl & Hs & Hf). exists (0 :: map S f).
    split; [simpl; rewrite map_length; lia|]. split.
    + constructor; [now apply SSorted_map_S|]. rewrite Forall_map. apply Forall_forall. intros; lia.
    + intros [|i] s' Hi; simpl in Hi.
      * inv Hi. exists 0, k. auto.
      * destruct (Hf i s' Hi) as (p & k' & Hp & Hk & Hv'). exists (S p), k'. simpl.
        rewrite (map_nth_error S _ _ Hp). auto.
  - destruct IH as (f & Hl & Hs & Hf). exists (map S f).
    split; [rewrite map_length; lia|]. split; [now apply SSorted_map_S|].
    intros i s' Hi. destruct (Hf i s' Hi) as (p & k' & Hp & Hk & Hv'). exists (S p), k'. simpl.
    rewrite (map_nth_error S _ _ Hp). auto.
Qed.

Lemma index_matching_off keys : forall sigs f off,
  length f = length sigs -> StronglySorted lt f -> Forall (le off) f ->
  (forall i s, nth_error sigs i = Some s ->
     exists p k, nth_error f i = Some p /\ nth_error keys (p - off) = Some k /\ verify k s = true) ->
  matching keys sigs.
Proof.
  induction keys as [|k ks IH]; intros sigs f off Hl Hs Hle Hf.
  - destruct sigs as [|s ss]; [apply m_nil|].
    destruct (Hf 0 s eq_refl) as (p & k & _ & Hk & _). destruct (p - off); discriminate.
  - destruct sigs as [|s ss]; [apply m_nil|]. destruct f as [|p f]; [discriminate|].
    pose proof (StronglySorted_inv Hs) as [Hs' Hlt]. pose proof (Forall_inv Hle) as Hp0.
    destruct (Nat.eq_dec p off) as [Heq|Hne]; [subst p|].
    + destruct (Hf 0 s eq_refl) as (p' & k' & Hp & Hk & Hv). simpl in Hp. injection Hp as Hp. subst p'.
      rewrite Nat.sub_diag in Hk. simpl in Hk. inv Hk.
      apply m_use; [assumption|]. apply (IH ss f (S off)); [simpl in Hl; lia | assumption | |].
      * eapply Forall_impl; [|exact Hlt]. simpl; lia.
      * intros i s' Hi. destruct (Hf (S i) s' Hi) as (q & kq & Hq & Hkq & Hvq). simpl in Hq.
        exists q, kq. split; [assumption|]. split; [|assumption].
        assert (Hoq : off < q) by (rewrite Forall_forall in Hlt; apply Hlt; eapply nth_error_In; eauto).
        replace (q - off) with (S (q - S off)) in Hkq by lia. exact Hkq.
    + apply m_skip. apply (IH (s :: ss) (p :: f) (S off)); [assumption | assumption | |].
      * constructor; [lia|]. eapply Forall_impl; [|exact Hlt]. simpl; lia.
      * intros i s' Hi. destruct (Hf i s' Hi) as (q & kq & Hq & Hkq & Hvq).
        exists q, kq. split; [assumption|]. split; [|assumption].
        assert (Hoq : off < q).
        { destruct i as [|i]; simpl in Hq; [inv Hq; lia|].
          rewrite Forall_forall in Hlt. apply nth_error_In in Hq. apply Hlt in Hq. lia. }
        replace (q - off) with (S (q - S off)) in Hkq by lia. exact Hkq.
Qed.

Theorem matching_iff_index_matching keys sigs : matching keys sigs <-> index_matching verify keys sigs.
Proof.
  split; [apply matching_index|]. intros (f & Hl & Hs & Hf).
  apply (index_matching_off keys sigs f 0); [assumption | assumption | | ].
  - apply Forall_forall. intros; lia.
  - intros i s Hi. destruct (Hf i s Hi) as (p & k & Hp & Hk & Hv). exists p, k. now rewrite Nat.sub_0_r.
Qed.

(* ---------- the parallel checker: invariant ---------- *)

Definition shape (l x y : list task) : Prop := l = x ++ y \/ l = y ++ x.

Lemma shape_pick (l : list task) (ox oy : bool) (tx ty : task) j t :
  shape l (if ox then [tx] else []) (if oy then [ty] else []) ->
  nth_error l j = Some t ->
  (ox = true /\ t = tx /\ remove_nth j l = (if oy then [ty] else [])) \/
  (oy = true /\ t = ty /\ remove_nth j l = (if ox then [tx] else [])).
Proof.
  intros [-> | ->] Hj; destruct ox, oy; simpl in *;
    repeat (destruct j as [|j]; simpl in *; try discriminate); inv Hj;
    first [left; repeat split; reflexivity | right; repeat split; reflexivity].
Qed.

(* 0 when the direction has a task in flight, 1 when it has finished (its end element is used up) *)
Definition off (pending : bool) : nat := if pending then 0 else 1.

Section Invariant.
Variables (keys : list K) (sigs : list Sg).

(* fp / bp: the forward / backward direction has a task in flight.  The tasks in flight are exactly
   (k1,s1) (if fp) and (k2,s2) (if bp); a direction that is not in flight has matched its signature and then
   s1+1 = s2; the original problem is equivalent to the residual problem between the two fronts. *)
Definition inv (st : pstate) : Prop :=
  exists fp bp : bool,
    k1 st < k2 st /\ k2 st < length keys /\ s1 st < s2 st /\ s2 st < length sigs /\
    sigok st = true /\ taskCount st = length (inflight st) /\
    shape (inflight st) (if fp then [(k1 st, s1 st)] else []) (if bp then [(k2 st, s2 st)] else []) /\
    (fp = false -> bp = true) /\
    (fp = false \/ bp = false -> s1 st + 1 = s2 st) /\
    (matching keys sigs <->
       matching (sub keys (k1 st + off fp) (k2 st + 1 - k1 st - off fp - off bp))
                (sub sigs (s1 st + off fp) (s2 st + 1 - s1 st - off fp - off bp))).

(* what one delivery establishes; m0 = measure before the delivery *)
Definition post (m0 : nat) (o : outcome) : Prop :=
  match o with
  | Running st' => inv st' /\ measure st' + 1 = m0
  | Done b => b = true <-> matching keys sigs
  | Crash => False
  end.

Ltac sub_iff :=
  match goal with
  | |- matching ?a ?b <-> matching ?c ?d =>
      let H1 := fresh in let H2 := fresh in
      assert (H1 : a = c) by (apply sub_eq; simpl; lia);
      assert (H2 : b = d) by (apply sub_eq; simpl; lia);
      rewrite H1, H2; reflexivity
  end.

Ltac new_inv fp' bp' :=
  split; [exists fp', bp'; cbn [k1 k2 s1 s2 sigok taskCount inflight send_next];
          repeat match goal with |- _ /\ _ => split end
         | unfold measure, send_next; cbn [k1 k2 taskCount]; lia].

Lemma body_fwd a1 a2 b1 b2 tc infl (bp : bool) kk ss :
  a1 < a2 -> a2 < length keys -> b1 < b2 -> b2 < length sigs ->
  nth_error keys a1 = Some kk -> nth_error sigs b1 = Some ss ->
  tc = 1 + (if bp then 1 else 0) ->
  (bp = false -> b1 + 1 = b2) ->
  (matching keys sigs <->
     matching (sub keys a1 (a2 + 1 - a1 - off bp)) (sub sigs b1 (b2 + 1 - b1 - off bp))) ->
  post (a2 - a1 + tc)
       (loop_body (mk_pstate a1 a2 b1 b2 true tc infl) (if bp then [(a2, b2)] else []) b1 (verify kk ss)).
Proof.
  intros Ha Ha2 Hb Hb2 Hkk Hss Htc Hbp HM.
  assert (Hrk : sub keys a1 (a2 + 1 - a1 - off bp) = kk :: sub keys (a1 + 1) (a2 - a1 - off bp)).
  { replace (a2 + 1 - a1 - off bp) with (S (a2 - a1 - off bp)) by (destruct bp; simpl; lia).
    rewrite (sub_cons _ _ _ _ Hkk). f_equal. apply sub_eq; lia. }
  assert (Hrs : sub sigs b1 (b2 + 1 - b1 - off bp) = ss :: sub sigs (b1 + 1) (b2 - b1 - off bp)).
  { replace (b2 + 1 - b1 - off bp) with (S (b2 - b1 - off bp)) by (destruct bp; simpl; [lia|specialize (Hbp eq_refl); lia]).
    rewrite (sub_cons _ _ _ _ Hss). f_equal. apply sub_eq; lia. }
  assert (Hlk : length (sub keys (a1 + 1) (a2 - a1 - off bp)) = a2 - a1 - off bp)
    by (apply sub_length; destruct bp; simpl; lia).
  assert (Hls : length (sub sigs (b1 + 1) (b2 - b1 - off bp)) = b2 - b1 - off bp)
    by (apply sub_length; destruct bp; simpl; lia).
  unfold loop_body; cbn [k1 k2 s1 s2 sigok taskCount].
  replace (b1 =? b2) with false by lia. cbn [negb].
  destruct (a1 + 1 =? a2) eqn:Ek.
  - (* last two keys *)
    Show.
Abort.

End Invariant.

End MultisigProofs.
