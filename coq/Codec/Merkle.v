(* Model of pkg/crypto/hash/merkle_tree.go: the Merkle root of a list of hashes.
   Definitions only (all executable).  The hash type, the pair-hash function and the zero value are
   section variables: [H a b] stands for DoubleSha256(a.BytesBE() ++ b.BytesBE()), [zero] for util.Uint256{}.
   After the section closes every definition is generalised over (hash, H, zero); nothing is assumed of H.

   Three definitions:
     merkle_root        SPECIFICATION  level-wise pairing, an odd level duplicates its last element;
     calc_merkle_root   MECHANISM A    CalcMerkleRoot: in place on the caller's slice (slot i is overwritten
                                       after slots 2i, 2i+1 have been read; recursion on the prefix);
     new_merkle_tree    MECHANISM B    NewMerkleTree/buildMerkleTree: node structure built level by level
                                       into fresh [parents] arrays.
   Plus [sub_root], a tree-shaped (divide at a power of two) characterisation of the same value. *)
From NG Require Import Common.Tactics.

Section Merkle.
Variable hash : Type.
Variable H : hash -> hash -> hash.
Variable zero : hash.

(* ---------- specification ---------- *)

Fixpoint pair_level (l : list hash) : list hash :=
  match l with
  | [] => []
  | [a] => [H a a]
  | a :: b :: t => H a b :: pair_level t
  end.

Fixpoint merkle_root_fuel (fuel : nat) (l : list hash) : hash :=
  match l with
  | [] => zero
  | [h] => h
  | _ => match fuel with
         | O => zero
         | S f => merkle_root_fuel f (pair_level l)
         end
  end.

Definition merkle_root (l : list hash) : hash := merkle_root_fuel (length l) l.

(* ---------- mechanism A: CalcMerkleRoot (in place) ---------- *)

(* a[i] = v on a slice; out of range: no effect (Go would panic; never happens below) *)
Fixpoint upd (a : list hash) (i : nat) (v : hash) : list hash :=
  match a, i with
  | [], _ => []
  | _ :: t, O => v :: t
  | x :: t, S i' => x :: upd t i' v
  end.

(* one iteration of `for i := range parents`: reads hashes[2i], hashes[2i+1] (or hashes[2i] twice when
   2i+1 == len(hashes)), writes parents[i] = hashes[i] of the SAME array *)
Definition inplace_step (n i : nat) (a : list hash) : list hash :=
  let x := nth (2 * i) a zero in
  let y := if Nat.eqb (2 * i + 1) n then x else nth (2 * i + 1) a zero in
  upd a i (H x y).

(* [cnt] iterations starting at index [i]; [n] = len(hashes) of this level *)
Fixpoint inplace_loop (n cnt i : nat) (a : list hash) : list hash :=
  match cnt with
  | O => a
  | S cnt' => inplace_loop n cnt' (S i) (inplace_step n i a)
  end.

Fixpoint calc_merkle_root_fuel (fuel : nat) (a : list hash) : hash :=
  match a with
  | [] => zero
  | [h] => h
  | _ => match fuel with
         | O => zero
         | S f =>
             let n := length a in
             let p := (n + 1) / 2 in
             calc_merkle_root_fuel f (firstn p (inplace_loop n p 0 a))
         end
  end.

Definition calc_merkle_root (a : list hash) : hash := calc_merkle_root_fuel (length a) a.

(* ---------- mechanism B: NewMerkleTree / buildMerkleTree ---------- *)

(* parent pointers are not modelled; the last parent of an odd level has rightChild = leftChild *)
Inductive mtree : Type :=
| MLeaf (h : hash)
| MNode (h : hash) (l r : mtree).

Definition node_hash (t : mtree) : hash :=
  match t with
  | MLeaf h => h
  | MNode h _ _ => h
  end.

Definition tree_root (t : mtree) : hash := node_hash t.

(* parents[i] for a level [leaves] of length n *)
Definition mk_parent (n : nat) (leaves : list mtree) (i : nat) : mtree :=
  let lc := nth (2 * i) leaves (MLeaf zero) in
  let rc := if Nat.eqb (2 * i + 1) n then lc else nth (2 * i + 1) leaves (MLeaf zero) in
  MNode (H (node_hash lc) (node_hash rc)) lc rc.

(* `for i := range parents` filling a fresh array: parents[i..i+cnt) *)
Fixpoint build_loop (n cnt i : nat) (leaves : list mtree) : list mtree :=
  match cnt with
  | O => []
  | S cnt' => mk_parent n leaves i :: build_loop n cnt' (S i) leaves
  end.

Definition build_level (leaves : list mtree) : list mtree :=
  let n := length leaves in build_loop n ((n + 1) / 2) 0 leaves.

(* None: the Go code panics (empty level) or the model ran out of fuel (never with fuel >= length) *)
Fixpoint build_tree_fuel (fuel : nat) (leaves : list mtree) : option mtree :=
  match leaves with
  | [] => None
  | [t] => Some t
  | _ => match fuel with
         | O => None
         | S f => build_tree_fuel f (build_level leaves)
         end
  end.

(* None: NewMerkleTree returns an error for an empty list *)
Definition new_merkle_tree (l : list hash) : option mtree :=
  match l with
  | [] => None
  | _ => build_tree_fuel (length l) (map MLeaf l)
  end.

(* every inner node carries the pair hash of its children's hashes *)
Fixpoint tree_wf (t : mtree) : Prop :=
  match t with
  | MLeaf _ => True
  | MNode h l r => h = H (node_hash l) (node_hash r) /\ tree_wf l /\ tree_wf r
  end.

(* ---------- tree-shaped characterisation ---------- *)

(* root of the complete binary tree of depth d over l (length l <= 2^d): split at 2^(d-1); a subtree whose
   right half would be empty duplicates its left half *)
Fixpoint sub_root (d : nat) (l : list hash) : hash :=
  match d with
  | O => hd zero l
  | S d' =>
      if length l <=? 2 ^ d'
      then let x := sub_root d' l in H x x
      else H (sub_root d' (firstn (2 ^ d') l)) (sub_root d' (skipn (2 ^ d') l))
  end.

End Merkle.

(* [hash] is implicit for the node constructors and accessors only; every other definition takes
   hash (and H, zero where it uses them) explicitly: [merkle_root hash H zero l] etc. *)
Arguments MLeaf {hash} h.
Arguments MNode {hash} h l r.
Arguments node_hash {hash} t.
Arguments tree_root {hash} t.
