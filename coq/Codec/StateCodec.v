(* Model of pkg/core/state/mpt_root.go (MPTRoot: version, index, root hash, at most one witness) and of
   pkg/smartcontract/nef (NEF file: magic, 64-byte compiler field, source URL, reserved bytes, method tokens, script,
   checksum).  The NEF checksum function is a Section variable (Go: first four bytes of the double SHA-256 of
   everything before the checksum, read as a little-endian uint32). *)
From NG Require Import Common.Tactics Codec.Bigint Codec.Wire Codec.TxCodec.
Open Scope Z_scope.

(* ---------- state.MPTRoot ---------- *)
Record mptroot := MptRoot { rversion : Z; rindex : Z; rroot : list Z; rwitness : list witness }.
(* the part that is hashed (EncodeBinaryUnsigned) *)
Definition write_mptroot_unsigned (r : mptroot) : list Z := [rversion r] ++ le_bytes 4 (rindex r) ++ rroot r.
Definition write_mptroot (r : mptroot) : list Z := write_mptroot_unsigned r ++ write_array write_witness (rwitness r).
Definition read_mptroot : dec mptroot :=
  v <- read_b ;; i <- read_u 4 ;; h <- read_bytes 32 ;; ws <- read_array read_witness 1 ;; ret (MptRoot v i h ws).

(* ---------- NEF ---------- *)
Record token := Token { khash : list Z; kmethod : list Z; kparams : Z; kreturn : bool; kflags : Z }.
Definition max_method_length : Z := 32.
Definition write_token (t : token) : list Z :=
  khash t ++ write_varbytes (kmethod t) ++ le_bytes 2 (kparams t) ++ write_bool (kreturn t) ++ [kflags t].
Definition read_token : dec token :=
  h <- read_bytes 20 ;; m <- read_varbytes max_method_length ;;
  if match m with c :: _ => c =? 95 | [] => false end then fail else          (* no leading '_' *)
  p <- read_u 2 ;; r <- read_bool_lax ;; f <- read_b ;;
  if negb (Z.land f 240 =? 0) then fail else ret (Token h m p r f).           (* callflag.All = 0x0f *)

Record nef := Nef { ncompiler : list Z; nsource : list Z; ntokens : list token; nscript : list Z; nchecksum : Z }.
Definition nef_magic : Z := 860243278.          (* 0x3346454E *)
Definition compiler_field : nat := 64.
Definition max_source_length : Z := 256.
Definition max_nef_size : Z := 131070.          (* stackitem.MaxSize *)

(* bytes.TrimRightFunc(buf, r == 0): drop trailing zero bytes *)
Fixpoint trim_zeros (l : list Z) : list Z :=
  match l with
  | [] => []
  | x :: t => match trim_zeros t with [] => if x =? 0 then [] else [x] | t' => x :: t' end
  end.

(* everything before the checksum *)
Definition write_nef_body (f : nef) : list Z :=
  le_bytes 4 nef_magic ++ ncompiler f ++ repeat 0 (compiler_field - length (ncompiler f))
  ++ write_varbytes (nsource f) ++ [0] ++ write_array write_token (ntokens f) ++ [0; 0] ++ write_varbytes (nscript f).
Definition write_nef (f : nef) : list Z := write_nef_body f ++ le_bytes 4 (nchecksum f).

Section NefChecksum.
  Variable checksum : list Z -> Z.             (* CalculateChecksum as a function of the body bytes *)
  Definition read_nef : dec nef :=
    m <- read_u 4 ;; if negb (m =? nef_magic) then fail else
    c <- read_bytes compiler_field ;;
    s <- read_varbytes max_source_length ;;
    r1 <- read_b ;; if negb (r1 =? 0) then fail else
    ts <- read_array read_token max_array ;;
    r2 <- read_u 2 ;; if negb (r2 =? 0) then fail else
    sc <- read_varbytes max_nef_size ;;
    if (length sc =? 0)%nat then fail else
    ck <- read_u 4 ;;
    let f := Nef (trim_zeros c) s ts sc ck in
    if checksum (write_nef_body f) =? ck then ret f else fail.
  (* FileFromBytes: the source must not exceed MaxSize; trailing bytes are not looked at *)
  Definition nef_from_bytes (bs : list Z) : option nef :=
    if max_nef_size <? Z.of_nat (length bs) then None else
    match read_nef bs with Some (f, _) => Some f | None => None end.
End NefChecksum.
