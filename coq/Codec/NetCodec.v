(* Model of the P2P wire format: pkg/network/message.go (frame: flags, command, length-prefixed payload with the
   32 MB limit, optional compression), pkg/network/capability, and the payloads that are pure data
   (pkg/network/payload: version, addr, inventory, getblocks, getblockbyindex/getheaders, headers, ping/pong,
   mptinventory, mptdata, extensible — the envelope of consensus and state-service messages).
   Compression is an abstract pair of functions (Section variables) with decompress (compress x) = Some x as the only
   hypothesis; nothing is assumed in the other direction: lz4 block compression is NOT canonical (the same payload was
   observed to compress to 3914 and to 3915 bytes), so frames are compared and identified in uncompressed form. *)
From NG Require Import Common.Tactics Codec.Bigint Codec.Wire Codec.TxCodec.
Open Scope Z_scope.

(* ---------- capabilities ---------- *)
Inductive capab :=
| CapServer (t : Z) (port : Z)          (* TCPServer 1 / WSServer 2 *)
| CapDisableCompression                 (* 3 *)
| CapFullNode (start : Z)               (* 0x10 *)
| CapArchival                           (* 0x11 *)
| CapUnknown (t : Z) (data : list Z).
Definition capab_type (c : capab) : Z :=
  match c with CapServer t _ => t | CapDisableCompression => 3 | CapFullNode _ => 16 | CapArchival => 17 | CapUnknown t _ => t end.
Definition write_capab (c : capab) : list Z :=
  capab_type c ::
  match c with
  | CapServer _ p => le_bytes 2 p
  | CapDisableCompression => [0]
  | CapFullNode s => le_bytes 4 s
  | CapArchival => [0]
  | CapUnknown _ d => write_varbytes d
  end.
Definition read_capab : dec capab :=
  t <- read_b ;;
  if (t =? 1) || (t =? 2) then p <- read_u 2 ;; ret (CapServer t p)
  else if t =? 3 then z <- read_b ;; if z =? 0 then ret CapDisableCompression else fail
  else if t =? 16 then s <- read_u 4 ;; ret (CapFullNode s)
  else if t =? 17 then z <- read_b ;; if z =? 0 then ret CapArchival else fail
  else d <- read_varbytes max_array ;; ret (CapUnknown t d).
Definition max_capabilities : Z := 32.
(* checkUniqueCapabilities: the five known types occur at most once *)
Definition known_cap (t : Z) : bool := existsb (Z.eqb t) [1; 2; 3; 16; 17].
Definition caps_unique (l : list capab) : bool := distinct_by Z.eqb (filter known_cap (map capab_type l)).
Definition write_caps (l : list capab) : list Z := write_array write_capab l.
Definition read_caps : dec (list capab) :=
  l <- read_array read_capab max_capabilities ;; if caps_unique l then ret l else fail.

(* ---------- payloads ---------- *)
Record version := Version { vmagic : Z; vversion : Z; vtime : Z; vnonce : Z; vagent : list Z; vcaps : list capab }.
Definition write_version (v : version) : list Z :=
  le_bytes 4 (vmagic v) ++ le_bytes 4 (vversion v) ++ le_bytes 4 (vtime v) ++ le_bytes 4 (vnonce v)
  ++ write_varbytes (vagent v) ++ write_caps (vcaps v).
Definition read_version : dec version :=
  m <- read_u 4 ;; v <- read_u 4 ;; t <- read_u 4 ;; n <- read_u 4 ;; a <- read_varbytes 1024 ;; c <- read_caps ;;
  ret (Version m v t n a c).

Record addr := Addr { atime : Z; aip : list Z; acaps : list capab }.
Definition write_addr (a : addr) : list Z := le_bytes 4 (atime a) ++ aip a ++ write_caps (acaps a).
Definition read_addr : dec addr := t <- read_u 4 ;; ip <- read_bytes 16 ;; c <- read_caps ;; ret (Addr t ip c).
Definition max_addrs : Z := 200.
Definition read_addrlist : dec (list addr) :=
  l <- read_array read_addr max_addrs ;; if (length l =? 0)%nat then fail else ret l.
Definition write_addrlist (l : list addr) : list Z := write_array write_addr l.

Record inventory := Inventory { itype : Z; ihashes : list (list Z) }.
Definition max_hashes : Z := 500.
Definition write_inventory (i : inventory) : list Z := itype i :: write_array (fun h => h) (ihashes i).
Definition read_inventory : dec inventory :=
  t <- read_b ;; hs <- read_array (read_bytes 32) max_hashes ;; ret (Inventory t hs).

(* Count is an int16 carried in a uint16: -1 is 65535 *)
Record getblocks := GetBlocks { gstart : list Z; gcount : Z }.
Definition write_getblocks (g : getblocks) : list Z := gstart g ++ le_bytes 2 (gcount g).
Definition read_getblocks : dec getblocks :=
  h <- read_bytes 32 ;; c <- read_u 2 ;;
  if (c =? 65535) || ((1 <=? c) && (c <=? 32767)) then ret (GetBlocks h c) else fail.

Record getbyindex := GetByIndex { bstart : Z; bcount : Z }.
Definition max_headers : Z := 2000.
Definition write_getbyindex (g : getbyindex) : list Z := le_bytes 4 (bstart g) ++ le_bytes 2 (bcount g).
Definition read_getbyindex : dec getbyindex :=
  s <- read_u 4 ;; c <- read_u 2 ;;
  if (c =? 65535) || ((1 <=? c) && (c <=? max_headers)) then ret (GetByIndex s c) else fail.

(* headers: 1..2000 (a longer announcement is an error after the first 2000 were read) *)
Definition write_headers (sr : bool) (l : list header) : list Z := write_array (write_header sr) l.
Definition read_headers (sr : bool) : dec (list header) :=
  n <- read_varuint ;;
  if n =? 0 then fail else if max_headers <? n then fail else read_n (read_header sr) (Z.to_nat n).

Record ping := Ping { plast : Z; ptime : Z; pnonce : Z }.
Definition write_ping (p : ping) : list Z := le_bytes 4 (plast p) ++ le_bytes 4 (ptime p) ++ le_bytes 4 (pnonce p).
Definition read_ping : dec ping := a <- read_u 4 ;; b <- read_u 4 ;; c <- read_u 4 ;; ret (Ping a b c).

Definition max_mpt_hashes : Z := 32.
Definition write_mptinv (l : list (list Z)) : list Z := write_array (fun h => h) l.
Definition read_mptinv : dec (list (list Z)) := read_array (read_bytes 32) max_mpt_hashes.

(* MPTData: a non-empty list of var-bytes; the count itself has no maximum, every element costs at least a byte *)
Definition write_mptdata (l : list (list Z)) : list Z := write_array write_varbytes l.
Definition read_mptdata : dec (list (list Z)) :=
  n <- read_varuint ;; if n =? 0 then fail else read_n (read_varbytes max_array) (Z.to_nat n).

(* extensible payload: category <= 32 bytes, validity window, sender, data <= 32 MB, exactly one witness *)
Record extensible := Extensible { ecategory : list Z; estart : Z; eend : Z; esender : list Z; edata : list Z; ewitness : witness }.
Definition max_payload_size : Z := 33554432.   (* payload.MaxSize = 0x02000000 *)
Definition write_extensible_unsigned (e : extensible) : list Z :=
  write_varbytes (ecategory e) ++ le_bytes 4 (estart e) ++ le_bytes 4 (eend e) ++ esender e ++ write_varbytes (edata e).
Definition write_extensible (e : extensible) : list Z := write_extensible_unsigned e ++ [1] ++ write_witness (ewitness e).
Definition read_extensible : dec extensible :=
  c <- read_varbytes 32 ;; s <- read_u 4 ;; en <- read_u 4 ;; snd <- read_bytes 20 ;; d <- read_varbytes max_payload_size ;;
  one <- read_b ;; if negb (one =? 1) then fail else
  w <- read_witness ;; ret (Extensible c s en snd d w).

(* ---------- the frame ---------- *)
Inductive payload :=
| PNull
| PVersion (v : version)
| PAddr (l : list addr)
| PInv (i : inventory)
| PGetBlocks (g : getblocks)
| PGetByIndex (g : getbyindex)
| PHeaders (l : list header)
| PPing (p : ping)
| PTx (t : tx)
| PBlock (b : block)
| PExtensible (e : extensible)
| PMptInv (l : list (list Z))
| PMptData (l : list (list Z)).

Definition write_payload (sr : bool) (p : payload) : list Z :=
  match p with
  | PNull => []
  | PVersion v => write_version v
  | PAddr l => write_addrlist l
  | PInv i => write_inventory i
  | PGetBlocks g => write_getblocks g
  | PGetByIndex g => write_getbyindex g
  | PHeaders l => write_headers sr l
  | PPing p => write_ping p
  | PTx t => write_tx t
  | PBlock b => write_block sr b
  | PExtensible e => write_extensible e
  | PMptInv l => write_mptinv l
  | PMptData l => write_mptdata l
  end.

Definition lift {A} (d : dec A) (f : A -> payload) : dec payload := x <- d ;; ret (f x).
(* decodePayload: the decoder chosen by the command byte; None = a command this model does not carry
   (merkleblock 0x38, notary request 0x50) or one that neo-go does not decode at all *)
Definition payload_decoder (sr : bool) (cmd : Z) : option (dec payload) :=
  if cmd =? 0 then Some (lift read_version PVersion)
  else if (cmd =? 39) || (cmd =? 40) || (cmd =? 42) then Some (lift read_inventory PInv)    (* inv, getdata, notfound *)
  else if cmd =? 81 then Some (lift read_mptinv PMptInv)
  else if cmd =? 82 then Some (lift read_mptdata PMptData)
  else if cmd =? 17 then Some (lift read_addrlist PAddr)
  else if cmd =? 44 then Some (lift (read_block sr) PBlock)
  else if cmd =? 46 then Some (lift read_extensible PExtensible)
  else if cmd =? 36 then Some (lift read_getblocks PGetBlocks)
  else if (cmd =? 32) || (cmd =? 41) then Some (lift read_getbyindex PGetByIndex)           (* getheaders, getblockbyindex *)
  else if cmd =? 33 then Some (lift (read_headers sr) PHeaders)
  else if (cmd =? 24) || (cmd =? 25) then Some (lift read_ping PPing)
  else None.
(* commands that may come with an empty payload: verack, getaddr, mempool, filterclear *)
Definition null_command (cmd : Z) : bool := existsb (Z.eqb cmd) [1; 16; 37; 50].

Record frame := Frame { fflags : Z; fcmd : Z; fpayload : payload }.

Section Compression.
  Variable compress : list Z -> list Z.
  Variable decompress : list Z -> option (list Z).

  (* Message.Decode.  A transaction payload (0x2b) must be consumed entirely (NewTransactionFromBytes); every other
     payload decoder may leave bytes unread *)
  Definition read_frame (sr : bool) : dec frame :=
    fl <- read_b ;; cmd <- read_b ;; l <- read_varuint ;;
    if l =? 0 then (if null_command cmd then ret (Frame fl cmd PNull) else fail) else
    if max_payload_size <? l then fail else
    raw <- read_bytes (Z.to_nat l) ;;
    match (if Z.odd fl then decompress raw else Some raw) with
    | None => fail
    | Some buf =>
        if cmd =? 43 then
          match tx_from_bytes buf with Some t => ret (Frame fl cmd (PTx t)) | None => fail end
        else match payload_decoder sr cmd with
             | Some d => match d buf with Some (p, _) => ret (Frame fl cmd p) | None => fail end
             | None => fail
             end
    end.

  (* EncodeCompressed(allowCompression = false): the Compressed bit is cleared, the payload written as it is *)
  Definition clear_compressed (fl : Z) : Z := fl - fl mod 2.
  Definition write_frame (sr : bool) (f : frame) : list Z :=
    clear_compressed (fflags f) :: fcmd f :: write_varbytes (write_payload sr (fpayload f)).
  (* with compression (what a node sends for payloads above CompressionMinSize of the compressible kinds) *)
  Definition write_frame_compressed (sr : bool) (f : frame) : list Z :=
    (clear_compressed (fflags f) + 1) :: fcmd f :: write_varbytes (compress (write_payload sr (fpayload f))).
End Compression.
