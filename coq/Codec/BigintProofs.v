From NG Require Import Common.Tactics Codec.Bigint.
Open Scope Z_scope.

Lemma pow8S n : 2 ^ (8 * Z.of_nat (S n)) = 256 * 2 ^ (8 * Z.of_nat n).
Proof. replace (8 * Z.of_nat (S n)) with (8 + 8 * Z.of_nat n) by lia.
  rewrite Z.pow_add_r by lia. reflexivity. Qed.

Lemma pow8_pos n : 0 < 2 ^ (8 * Z.of_nat n).
Proof. apply Z.pow_pos_nonneg; lia. Qed.

Lemma le_bytes_length n z : length (le_bytes n z) = n.
Proof. revert z; induction n as [|n IH]; intros z; simpl; [reflexivity|]. now rewrite IH. Qed.

Lemma le_bytes_ok n z : bytes_ok (le_bytes n z).
Proof. revert z; induction n as [|n IH]; intros z; simpl; constructor; [lia|apply IH]. Qed.

Lemma from_le_le_bytes n z : from_le (le_bytes n z) = z mod 2 ^ (8 * Z.of_nat n).
Proof.
  revert z; induction n as [|n IH]; intros z.
  - simpl. now rewrite Z.mod_1_r.
  - cbn [le_bytes from_le]. rewrite IH, pow8S.
    pose proof (pow8_pos n). rewrite Z.rem_mul_r by lia. reflexivity.
Qed.

Lemma from_le_bounds l : bytes_ok l -> 0 <= from_le l < 2 ^ (8 * Z.of_nat (length l)).
Proof.
  induction 1 as [|b t Hb Ht IH]; [simpl; lia|].
  cbn [from_le length]. rewrite pow8S. lia.
Qed.

Lemma le_bytes_from_le l : bytes_ok l -> le_bytes (length l) (from_le l) = l.
Proof.
  induction 1 as [|b t Hb Ht IH]; [reflexivity|].
  cbn [from_le length le_bytes].
  replace ((b + 256 * from_le t) mod 256) with b by lia.
  replace ((b + 256 * from_le t) / 256) with (from_le t) by lia.
  now rewrite IH.
Qed.

(* two lists of the same length with the same residue are equal *)
Lemma le_bytes_mod n z z' :
  z mod 2 ^ (8 * Z.of_nat n) = z' mod 2 ^ (8 * Z.of_nat n) -> le_bytes n z = le_bytes n z'.
Proof.
  revert z z'; induction n as [|n IH]; intros z z' H; [reflexivity|].
  cbn [le_bytes]. rewrite pow8S in H. pose proof (pow8_pos n).
  rewrite !Z.rem_mul_r in H by lia.
  assert (z mod 256 = z' mod 256 /\ (z / 256) mod 2 ^ (8 * Z.of_nat n) = (z' / 256) mod 2 ^ (8 * Z.of_nat n)) as [H1 H2].
  { pose proof (Z.mod_pos_bound (z/256) (2 ^ (8 * Z.of_nat n)) ltac:(lia)).
    pose proof (Z.mod_pos_bound (z'/256) (2 ^ (8 * Z.of_nat n)) ltac:(lia)).
    pose proof (Z.mod_pos_bound z 256 ltac:(lia)).
    pose proof (Z.mod_pos_bound z' 256 ltac:(lia)).
    remember (z mod 256) as a. remember (z' mod 256) as a'.
    remember ((z / 256) mod 2 ^ (8 * Z.of_nat n)) as b. remember ((z' / 256) mod 2 ^ (8 * Z.of_nat n)) as b'.
    clear - H H0 H1 H2 H3 H4. lia. }
  rewrite H1. f_equal. now apply IH.
Qed.

(* inversion of the magnitude bytes = two's complement digits *)
Lemma invert_le_bytes n m : map (fun b => 255 - b) (le_bytes n m) = le_bytes n (- m - 1).
Proof.
  revert m; induction n as [|n IH]; intros m; [reflexivity|].
  cbn [le_bytes map]. rewrite IH. f_equal; [lia|]. f_equal. lia.
Qed.

Lemma from_le_invert l : bytes_ok l ->
  from_le (map (fun b => 255 - b) l) = 2 ^ (8 * Z.of_nat (length l)) - 1 - from_le l.
Proof.
  induction 1 as [|b t Hb Ht IH]; [reflexivity|].
  cbn [map from_le length]. rewrite IH, pow8S. lia.
Qed.

(* --- last byte / sign --- *)
Lemma last_cons_ne {A} (x : A) l d : l <> [] -> last (x :: l) d = last l d.
Proof. destruct l; [congruence|reflexivity]. Qed.

Lemma last_le_bytes n z : last (le_bytes (S n) z) 0 = (z / 2 ^ (8 * Z.of_nat n)) mod 256.
Proof.
  revert z; induction n as [|n IH]; intros z.
  - simpl. now rewrite Z.div_1_r.
  - change (le_bytes (S (S n)) z) with (z mod 256 :: le_bytes (S n) (z / 256)).
    rewrite last_cons_ne by (simpl; congruence). rewrite IH.
    rewrite pow8S. rewrite Z.div_div by (pose proof (pow8_pos n); lia). reflexivity.
Qed.

Lemma last_from_le l : bytes_ok l -> l <> [] ->
  last l 0 = from_le l / 2 ^ (8 * Z.of_nat (length l - 1)).
Proof.
  induction 1 as [|b t Hb Ht IH]; [congruence|]. intros _.
  destruct t as [|c t'].
  - simpl. lia.
  - rewrite last_cons_ne by congruence. rewrite IH by congruence.
    cbn [from_le length]. replace (S (S (length t')) - 1)%nat with (S (length t')) by lia.
    replace (S (length t') - 1)%nat with (length t') by lia.
    rewrite pow8S. pose proof (pow8_pos (length t')).
    rewrite <- Z.div_div by lia.
    replace ((b + 256 * (c + 256 * from_le t')) / 256) with (c + 256 * from_le t') by lia.
    reflexivity.
Qed.

Lemma is_neg_iff l : bytes_ok l -> l <> [] ->
  is_neg l = (2 ^ (8 * Z.of_nat (length l) - 1) <=? from_le l).
Proof.
  intros Hok Hne. unfold is_neg. rewrite last_from_le by assumption.
  pose proof (from_le_bounds l Hok) as Hb.
  destruct l as [|x t]; [congruence|]. cbn [length] in *.
  replace (S (length t) - 1)%nat with (length t) by lia.
  rewrite pow8S in Hb.
  replace (8 * Z.of_nat (S (length t)) - 1) with (7 + 8 * Z.of_nat (length t)) by lia.
  rewrite Z.pow_add_r by lia. change (2 ^ 7) with 128.
  pose proof (pow8_pos (length t)).
  set (P := 2 ^ (8 * Z.of_nat (length t))) in *.
  set (v := from_le (x :: t)) in *.
  apply eq_true_iff_eq. rewrite !Z.leb_le. split; intros Hx; nia.
Qed.

(* --- stripping --- *)
Lemma strip_trailing_ok b l : bytes_ok l -> bytes_ok (strip_trailing b l).
Proof.
  induction 1 as [|x t Hx Ht IH]; [constructor|].
  cbn [strip_trailing]. destruct (strip_trailing b t) eqn:E.
  - case_if; constructor; [assumption|constructor].
  - constructor; assumption.
Qed.

Lemma strip_trailing_length b l : (length (strip_trailing b l) <= length l)%nat.
Proof.
  induction l as [|x t IH]; [simpl; lia|]. cbn [strip_trailing].
  destruct (strip_trailing b t); [case_if|]; simpl in *; lia.
Qed.

(* value decomposition: l = stripped part, then only filler bytes *)
Lemma strip_trailing_value b l :
  from_le l = from_le (strip_trailing b l)
              + b * ((2 ^ (8 * Z.of_nat (length l)) - 2 ^ (8 * Z.of_nat (length (strip_trailing b l)))) / 255).
Proof.
  induction l as [|x t IH]; [cbn [strip_trailing from_le length]; change (2 ^ (8 * Z.of_nat 0)) with 1; change ((1 - 1) / 255) with 0; lia|].
  cbn [strip_trailing]. destruct (strip_trailing b t) as [|y t'] eqn:E.
  - case_if.
    + assert (x = b) by lia. subst x. cbn [from_le length] in *. rewrite IH.
      rewrite pow8S. change (8 * Z.of_nat 0) with 0. change (2 ^ 0) with 1.
      pose proof (pow8_pos (length t)). set (P := 2 ^ (8 * Z.of_nat (length t))) in *.
      assert (exists q, P = 255 * q + 1) as [q Hq].
      { subst P. clear. induction (length t) as [|n [q IHn]]; [exists 0; reflexivity|].
        rewrite pow8S, IHn. exists (256 * q + 1). lia. }
      rewrite Hq. replace (255 * q + 1 - 1) with (q * 255) by lia.
      replace (256 * (255 * q + 1) - 1) with ((256 * q + 1) * 255) by lia.
      rewrite !Z.div_mul by lia. lia.
    + cbn [from_le length] in *. rewrite IH.
      rewrite pow8S. change (8 * Z.of_nat 0) with 0. change (2 ^ 0) with 1.
      change (8 * Z.of_nat 1) with 8. change (2 ^ 8) with 256.
      pose proof (pow8_pos (length t)). set (P := 2 ^ (8 * Z.of_nat (length t))) in *.
      assert (exists q, P = 255 * q + 1) as [q Hq].
      { subst P. clear. induction (length t) as [|n [q IHn]]; [exists 0; reflexivity|].
        rewrite pow8S, IHn. exists (256 * q + 1). lia. }
      rewrite Hq. replace (255 * q + 1 - 1) with (q * 255) by lia.
      replace (256 * (255 * q + 1) - 256) with ((256 * q) * 255) by lia.
      rewrite !Z.div_mul by lia. lia.
  - change (length (x :: t)) with (S (length t)). change (length (x :: y :: t')) with (S (length (y :: t'))).
    rewrite (pow8S (length t)), (pow8S (length (y :: t'))).
    change (from_le (x :: t)) with (x + 256 * from_le t).
    change (from_le (x :: y :: t')) with (x + 256 * from_le (y :: t')).
    rewrite IH.
    set (P := 2 ^ (8 * Z.of_nat (length t))). set (Q := 2 ^ (8 * Z.of_nat (length (y :: t')))).
    assert (exists q, P - Q = 255 * q) as [q Hq].
    { assert (forall n, exists q, 2 ^ (8 * Z.of_nat n) = 255 * q + 1) as Hn.
      { clear. induction n as [|n [q IHn]]; [exists 0; reflexivity|].
        rewrite pow8S, IHn. exists (256 * q + 1). lia. }
      destruct (Hn (length t)) as [q1 H1]. destruct (Hn (length (y :: t'))) as [q2 H2].
      exists (q1 - q2). subst P Q. lia. }
    rewrite Hq. replace (256 * P - 256 * Q) with ((256 * q) * 255) by lia.
    replace (255 * q) with (q * 255) by lia.
    rewrite !Z.div_mul by lia. lia.
Qed.

Lemma strip0_value l : from_le (strip_trailing 0 l) = from_le l.
Proof. rewrite (strip_trailing_value 0 l). lia. Qed.

Lemma strip255_value l :
  from_le l - 2 ^ (8 * Z.of_nat (length l))
  = from_le (strip_trailing 255 l) - 2 ^ (8 * Z.of_nat (length (strip_trailing 255 l))).
Proof.
  rewrite (strip_trailing_value 255 l) at 1.
  assert (forall n, exists q, 2 ^ (8 * Z.of_nat n) = 255 * q + 1) as Hn.
  { clear. induction n as [|n [q IHn]]; [exists 0; reflexivity|].
    rewrite pow8S, IHn. exists (256 * q + 1). lia. }
  destruct (Hn (length l)) as [q1 H1]. destruct (Hn (length (strip_trailing 255 l))) as [q2 H2].
  rewrite H1, H2. replace (255 * q1 + 1 - (255 * q2 + 1)) with ((q1 - q2) * 255) by lia.
  rewrite Z.div_mul by lia. lia.
Qed.

(* the mechanism model of FromBytes is two's complement *)
Theorem from_bytes_is_spec l : bytes_ok l -> from_bytes l = from_bytes_spec l.
Proof.
  intros Hok. unfold from_bytes, from_bytes_spec. destruct l as [|x t]; [reflexivity|].
  set (l := x :: t) in *. destruct (is_neg l) eqn:Hn.
  - rewrite strip255_value.
    pose proof (strip_trailing_ok 255 l Hok) as Hs.
    destruct (strip_trailing 255 l) as [|y t'] eqn:E; [reflexivity|].
    rewrite from_le_invert by assumption. lia.
  - apply strip0_value.
Qed.

(* ---- ToBytes ---- *)
Lemma log2_bounds z : 0 < z -> 2 ^ Z.log2 z <= z < 2 ^ (Z.log2 z + 1).
Proof. intros H. pose proof (Z.log2_spec z H). replace (Z.log2 z + 1) with (Z.succ (Z.log2 z)) by lia. lia. Qed.

Definition nbytes (z : Z) : nat := Z.to_nat (bitlen z / 8 + 1).

(* the byte count chosen by ToBytes is the least n >= 1 with 0 < z < 2^(8n-1) *)
Lemma nbytes_upper z : 0 < z -> z < 2 ^ (8 * Z.of_nat (nbytes z) - 1).
Proof.
  intros Hz. unfold nbytes, bitlen. replace (z =? 0) with false by lia.
  pose proof (log2_bounds z Hz) as [_ Hu]. pose proof (Z.log2_nonneg z).
  eapply Z.lt_le_trans; [exact Hu|]. apply Z.pow_le_mono_r; lia.
Qed.

Lemma nbytes_lower z : 0 < z -> (1 < nbytes z)%nat -> 2 ^ (8 * Z.of_nat (nbytes z - 1) - 1) <= z.
Proof.
  intros Hz H1. unfold nbytes, bitlen in *. replace (z =? 0) with false in * by lia.
  pose proof (log2_bounds z Hz) as [Hl _]. pose proof (Z.log2_nonneg z).
  eapply Z.le_trans; [|exact Hl]. apply Z.pow_le_mono_r; lia.
Qed.

Lemma nbytes_pos z : (1 <= nbytes z)%nat.
Proof. unfold nbytes, bitlen. case_if; [simpl; lia|]. pose proof (Z.log2_nonneg z). lia. Qed.

Lemma to_bytes_pos z : 0 < z -> to_bytes z = le_bytes (nbytes z) z.
Proof. intros. unfold to_bytes. replace (z =? 0) with false by lia. replace (0 <? z) with true by lia. reflexivity. Qed.

Lemma to_bytes_neg z : z < -1 -> to_bytes z = le_bytes (nbytes (- z - 1)) z.
Proof.
  intros. unfold to_bytes. replace (z =? 0) with false by lia. replace (0 <? z) with false by lia.
  replace (- z - 1 =? 0) with false by lia. rewrite invert_le_bytes. f_equal. lia.
Qed.

Lemma to_bytes_ok z : bytes_ok (to_bytes z).
Proof.
  destruct (Z.lt_trichotomy z 0) as [H|[H|H]].
  - destruct (Z.eq_dec z (-1)) as [->|Hm1]; [repeat constructor; lia|].
    rewrite to_bytes_neg by lia. apply le_bytes_ok.
  - subst. constructor.
  - rewrite to_bytes_pos by lia. apply le_bytes_ok.
Qed.

(* spec-level decoding of n two's-complement digits *)
Lemma spec_le_bytes n z :
  - 2 ^ (8 * Z.of_nat (S n) - 1) <= z < 2 ^ (8 * Z.of_nat (S n) - 1) ->
  from_bytes_spec (le_bytes (S n) z) = z.
Proof.
  intros Hr. unfold from_bytes_spec.
  change (le_bytes (S n) z) with (z mod 256 :: le_bytes n (z / 256)) at 1.
  cbv iota beta.
  rewrite is_neg_iff by (apply le_bytes_ok || (simpl; congruence)).
  rewrite !from_le_le_bytes, !le_bytes_length.
  replace (8 * Z.of_nat (S n)) with (8 * Z.of_nat (S n) - 1 + 1) in * by lia.
  assert (0 <= 8 * Z.of_nat (S n) - 1) by lia.
  set (k := 8 * Z.of_nat (S n) - 1) in *.
  rewrite Z.pow_add_r in * by lia. change (2 ^ 1) with 2 in *.
  assert (0 < 2 ^ k) by (apply Z.pow_pos_nonneg; lia).
  set (P := 2 ^ k) in *.
  replace (k + 1 - 1) with k in * by lia. fold P in Hr. fold P.
  destruct (Z_lt_dec z 0) as [Hz|Hz].
  - replace (z mod (P * 2)) with (z + P * 2) by (apply Z.mod_unique with (-1); lia).
    destruct (Z.leb_spec P (z + P * 2)); lia.
  - rewrite Z.mod_small by lia. destruct (Z.leb_spec P z); lia.
Qed.

Theorem to_bytes_spec_roundtrip z : from_bytes_spec (to_bytes z) = z.
Proof.
  destruct (Z.lt_trichotomy z 0) as [H|[H|H]].
  - destruct (Z.eq_dec z (-1)) as [->|Hm1]; [reflexivity|].
    rewrite to_bytes_neg by lia.
    pose proof (nbytes_pos (- z - 1)). destruct (nbytes (- z - 1)) as [|n] eqn:E; [lia|].
    apply spec_le_bytes. pose proof (nbytes_upper (- z - 1) ltac:(lia)) as Hu. rewrite E in Hu. lia.
  - subst. reflexivity.
  - rewrite to_bytes_pos by lia.
    pose proof (nbytes_pos z). destruct (nbytes z) as [|n] eqn:E; [lia|].
    apply spec_le_bytes. pose proof (nbytes_upper z H) as Hu. rewrite E in Hu.
    assert (0 < 2 ^ (8 * Z.of_nat (S n) - 1)) by (apply Z.pow_pos_nonneg; lia). lia.
Qed.

Theorem bigint_roundtrip z : from_bytes (to_bytes z) = z.
Proof. rewrite from_bytes_is_spec by apply to_bytes_ok. apply to_bytes_spec_roundtrip. Qed.

(* range of what n bytes can denote *)
Lemma spec_range l : bytes_ok l -> l <> [] ->
  - 2 ^ (8 * Z.of_nat (length l) - 1) <= from_bytes_spec l < 2 ^ (8 * Z.of_nat (length l) - 1).
Proof.
  intros Hok Hne. unfold from_bytes_spec. destruct l as [|x t] eqn:El; [congruence|]. rewrite <- El in *.
  rewrite is_neg_iff by assumption. pose proof (from_le_bounds l Hok) as Hb.
  assert (0 < length l)%nat by (subst; simpl; lia).
  replace (8 * Z.of_nat (length l)) with (8 * Z.of_nat (length l) - 1 + 1) in * by lia.
  set (k := 8 * Z.of_nat (length l) - 1) in *.
  rewrite Z.pow_add_r in * by lia. change (2 ^ 1) with 2 in *.
  replace (k + 1 - 1) with k by lia.
  destruct (Z.leb_spec (2 ^ k) (from_le l)); lia.
Qed.

Lemma to_bytes_length_le z n :
  z <> 0 -> - 2 ^ (8 * Z.of_nat n - 1) <= z < 2 ^ (8 * Z.of_nat n - 1) -> (1 <= n)%nat ->
  (length (to_bytes z) <= n)%nat.
Proof.
  intros Hz Hr Hn.
  destruct (Z.lt_trichotomy z 0) as [H|[H|H]]; [|congruence|].
  - destruct (Z.eq_dec z (-1)) as [->|Hm1]; [simpl; lia|].
    rewrite to_bytes_neg, le_bytes_length by lia.
    destruct (le_lt_dec (nbytes (- z - 1)) n) as [|Hgt]; [assumption|exfalso].
    pose proof (nbytes_lower (- z - 1) ltac:(lia) ltac:(lia)) as Hl.
    assert (2 ^ (8 * Z.of_nat n - 1) <= 2 ^ (8 * Z.of_nat (nbytes (- z - 1) - 1) - 1)) by (apply Z.pow_le_mono_r; lia).
    lia.
  - rewrite to_bytes_pos, le_bytes_length by lia.
    destruct (le_lt_dec (nbytes z) n) as [|Hgt]; [assumption|exfalso].
    pose proof (nbytes_lower z H ltac:(lia)) as Hl.
    assert (2 ^ (8 * Z.of_nat n - 1) <= 2 ^ (8 * Z.of_nat (nbytes z - 1) - 1)) by (apply Z.pow_le_mono_r; lia).
    lia.
Qed.

(* minimality: nothing shorter denotes the same integer *)
Theorem bigint_minimal l : bytes_ok l -> (length (to_bytes (from_bytes l)) <= length l)%nat.
Proof.
  intros Hok. rewrite from_bytes_is_spec by assumption.
  destruct l as [|x t] eqn:El; [simpl; lia|]. rewrite <- El in *.
  assert (l <> []) by (subst; congruence).
  destruct (Z.eq_dec (from_bytes_spec l) 0) as [->|Hnz]; [simpl; lia|].
  apply to_bytes_length_le; [assumption|apply spec_range; assumption|subst; simpl; lia].
Qed.

(* uniqueness at a given length: decoding is injective on byte strings of one length *)
Theorem from_bytes_inj l l' : bytes_ok l -> bytes_ok l' -> length l = length l' ->
  from_bytes l = from_bytes l' -> l = l'.
Proof.
  intros Hok Hok' Hlen Heq. rewrite !from_bytes_is_spec in Heq by assumption.
  destruct l as [|x t] eqn:El; destruct l' as [|x' t'] eqn:El'; try (simpl in Hlen; congruence).
  rewrite <- El, <- El' in *.
  rewrite <- (le_bytes_from_le l Hok), <- (le_bytes_from_le l' Hok'). rewrite <- Hlen.
  apply le_bytes_mod. unfold from_bytes_spec in Heq. rewrite El, El' in Heq. rewrite <- El, <- El' in Heq.
  rewrite <- Hlen in Heq.
  pose proof (pow8_pos (length l)).
  destruct (is_neg l), (is_neg l').
  - f_equal; lia.
  - replace (from_le l) with (from_le l' + 1 * 2 ^ (8 * Z.of_nat (length l))) by lia. now rewrite Z_mod_plus_full.
  - replace (from_le l') with (from_le l + 1 * 2 ^ (8 * Z.of_nat (length l))) by lia. now rewrite Z_mod_plus_full.
  - f_equal; lia.
Qed.

(* canonical form: re-encoding a decoded string gives it back iff it had minimal length *)
Theorem bigint_canonical l : bytes_ok l ->
  (to_bytes (from_bytes l) = l <-> length l = length (to_bytes (from_bytes l))).
Proof.
  intros Hok. split; [intros H; now rewrite H|]. intros Hlen.
  apply from_bytes_inj; [apply to_bytes_ok|assumption|lia|apply bigint_roundtrip].
Qed.

(* the VM's 256-bit range is exactly "at most 32 bytes" *)
Theorem fits256_iff_len z : in_int256 z = true <-> (length (to_bytes z) <= 32)%nat.
Proof.
  unfold in_int256. rewrite andb_true_iff, Z.leb_le, Z.ltb_lt.
  destruct (Z.eq_dec z 0) as [->|Hz].
  { change (to_bytes 0) with (@nil Z). cbn [length]. pose proof (Z.pow_pos_nonneg 2 255 ltac:(lia) ltac:(lia)). split; intros; lia. }
  split.
  - intros Hr. apply to_bytes_length_le; [assumption| |lia]. exact Hr.
  - intros Hl. pose proof (to_bytes_spec_roundtrip z) as Hrt.
    pose proof (spec_range (to_bytes z) (to_bytes_ok z)) as Hsr.
    assert (to_bytes z <> []) as Hne.
    { intros E. rewrite E in Hrt. simpl in Hrt. congruence. }
    specialize (Hsr Hne). rewrite Hrt in Hsr.
    assert (1 <= length (to_bytes z))%nat by (destruct (to_bytes z); [congruence|simpl; lia]).
    assert (2 ^ (8 * Z.of_nat (length (to_bytes z)) - 1) <= 2 ^ 255) by (apply Z.pow_le_mono_r; lia).
    lia.
Qed.
