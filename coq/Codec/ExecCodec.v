(* Model of pkg/core/state/notification_event.go and contract_invocation.go: binary forms of NotificationEvent,
   ContractInvocation and AppExecResult, on top of the stack-item codec.  The Go code threads one reusable
   SerializationContext through all items of a result; each Serialize call on it starts from a clean table and the full
   budget, so the bytes are those of independent serialisations (what the model writes); sharing between items is
   covered by the harness (kind item_dag). *)
From NG Require Import Common.Tactics Codec.Bigint Codec.Wire Codec.ItemCodec.
Open Scope Z_scope.

(* ---------- NotificationEvent ---------- *)
Record notification := Notif { nhash : list Z; nname : list Z; nitems : list item }.
(* EncodeBinaryWithContext: script hash, name, the state array in NORMAL mode (an error aborts the encoding) *)
Definition write_notification (n : notification) : option (list Z) :=
  match serialize (IArray (nitems n)) with
  | Some b => Some (nhash n ++ write_varbytes (nname n) ++ b)
  | None => None
  end.
(* DecodeBinary: the item must be an Array or a Struct; it is stored as an Array *)
Definition read_notification : dec notification :=
  h <- read_bytes 20 ;; nm <- read_varbytes max_array ;; i <- read_item_dec false ;;
  match i with
  | IArray l | IStruct l => ret (Notif h nm l)
  | _ => fail
  end.

(* ---------- ContractInvocation ---------- *)
Record invocation := Invoc { chash : list Z; cmethod : list Z; cargc : Z; ctruncated : bool; cargs : list Z }.
Definition write_invocation (c : invocation) : list Z :=
  chash c ++ write_varbytes (cmethod c) ++ le_bytes 4 (cargc c) ++ write_bool (ctruncated c)
  ++ (if ctruncated c then [] else write_varbytes (cargs c)).
Definition read_invocation : dec invocation :=
  h <- read_bytes 20 ;; m <- read_varbytes max_array ;; n <- read_u 4 ;; t <- read_bool_lax ;;
  if t then ret (Invoc h m n true []) else a <- read_varbytes max_array ;; ret (Invoc h m n false a).

(* ---------- AppExecResult ---------- *)
Record aer := Aer { acontainer : list Z; atrigger : Z; avmstate : Z; agas : Z; astack : list item;
                    aevents : list notification; afault : list Z; ainvocs : list invocation }.
Definition save_invocations_bit : Z := 128.

Fixpoint write_notifications (l : list notification) : option (list Z) :=
  match l with
  | [] => Some []
  | n :: t => match write_notification n, write_notifications t with
              | Some a, Some b => Some (a ++ b)
              | _, _ => None
              end
  end.

(* EncodeBinaryWithContext: stack items in PROTECTED mode (a failing item becomes the Invalid marker), the
   invocations only when there are some, announced by bit 0x80 of the VM state byte *)
Definition write_aer (a : aer) : option (list Z) :=
  match write_notifications (aevents a) with
  | None => None
  | Some ev =>
      let st := if (length (ainvocs a) =? 0)%nat then avmstate a else Z.lor (avmstate a) save_invocations_bit in
      Some (acontainer a ++ [atrigger a; st] ++ le_bytes 8 (agas a)
            ++ write_varuint (Z.of_nat (length (astack a))) ++ flat_map serialize_prot (astack a)
            ++ write_varuint (Z.of_nat (length (aevents a))) ++ ev
            ++ write_varbytes (afault a)
            ++ (if (length (ainvocs a) =? 0)%nat then [] else write_array write_invocation (ainvocs a)))
  end.

Definition read_aer : dec aer :=
  c <- read_bytes 32 ;; tr <- read_b ;; st <- read_b ;; g <- read_u 8 ;;
  sz <- read_varuint ;;
  if Z.of_nat max_items <? sz then fail else
  stk <- read_n (read_item_dec true) (Z.to_nat sz) ;;
  evs <- read_array read_notification max_array ;;
  f <- read_varbytes max_array ;;
  if Z.land st save_invocations_bit =? 0 then ret (Aer c tr st g stk evs f [])
  else invs <- read_array read_invocation max_array ;; ret (Aer c tr (Z.land st 127) g stk evs f invs).
