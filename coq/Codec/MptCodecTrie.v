(* Agreement between the two models of pkg/core/mpt node (de)serialisation:
     Codec.MptCodec  (mnode, write_node H, read_node; bytes are Z; hash of a node = H encoding)
     Trie.Model      (node, enc H, decode;           bytes are N; hash of a node = H (H encoding), H = one SHA-256)
   node_codec_is_trie_enc        map Z.of_N (enc H t) = write_node (HZ H) (of_trie t)
   node_decoder_is_trie_decode   read_node and decode return the same thing on the same bytes (same fuel, same depth)
   so that C10/C20 (over Trie.Model) and C17 (over Codec) speak about the same byte strings.
   Trie.Model is only referred to through the module name T (its le_bytes, from_le, child_ref ... would shadow ours). *)
From NG Require Import Common.Tactics Codec.Bigint Codec.BigintProofs Codec.Wire Codec.WireProofs.
From NG Require Import Codec.MptCodec Codec.MptCodecProofs.
From NG Require Trie.Model.
Module T := NG.Trie.Model.
Open Scope Z_scope.

(* ================= the translation ================= *)
Fixpoint to_trie (n : mnode) : T.node :=
  match n with
  | MEmpty => T.Empty
  | MHash h => T.HashRef (map Z.to_N h)
  | MLeaf v => T.Leaf (map Z.to_N v)
  | MExt k nx => T.Ext (map Z.to_nat k) (to_trie nx)
  | MBranch cs => T.Branch (firstn 16 (map to_trie cs)) (nth 16 (map to_trie cs) T.Empty)
  end.
Fixpoint of_trie (t : T.node) : mnode :=
  match t with
  | T.Empty => MEmpty
  | T.HashRef h => MHash (map Z.of_N h)
  | T.Leaf v => MLeaf (map Z.of_N v)
  | T.Ext k n => MExt (map Z.of_nat k) (of_trie n)
  | T.Branch cs vc => MBranch (map of_trie cs ++ [of_trie vc])
  end.
(* the trie model hashes twice with a single-SHA H *)
Definition HZ (H : list N -> list N) : list Z -> list Z := fun b => map Z.of_N (H (H (map Z.to_N b))).

(* ---------- list conversions ---------- *)
Lemma map_to_of_N l : map Z.to_N (map Z.of_N l) = l.
Proof. rewrite map_map. rewrite <- (map_id l) at 2. apply map_ext. intros a. apply N2Z.id. Qed.
Lemma map_to_of_nat l : map Z.to_nat (map Z.of_nat l) = l.
Proof. rewrite map_map. rewrite <- (map_id l) at 2. apply map_ext. intros a. apply Nat2Z.id. Qed.
Lemma map_nat_of_N l : map Z.to_nat (map Z.of_N l) = map N.to_nat l.
Proof. rewrite map_map. apply map_ext. intros a. lia. Qed.
Lemma map_of_nat_N l : map Z.of_nat (map N.to_nat l) = map Z.of_N l.
Proof. rewrite map_map. apply map_ext. intros a. lia. Qed.
Lemma map_of_N_nat l : map Z.of_N (map N.of_nat l) = map Z.of_nat l.
Proof. rewrite map_map. apply map_ext. intros a. lia. Qed.
Lemma map_of_to_N l : bytes_ok l -> map Z.of_N (map Z.to_N l) = l.
Proof.
  intros Hb. rewrite map_map. rewrite <- (map_id l) at 2. apply map_ext_in. intros a Hin.
  unfold bytes_ok in Hb. rewrite Forall_forall in Hb. specialize (Hb a Hin). lia.
Qed.
Lemma map_of_to_nat l : bytes_ok l -> map Z.of_nat (map Z.to_nat l) = l.
Proof.
  intros Hb. rewrite map_map. rewrite <- (map_id l) at 2. apply map_ext_in. intros a Hin.
  unfold bytes_ok in Hb. rewrite Forall_forall in Hb. specialize (Hb a Hin). lia.
Qed.
Lemma split17 {A B} (g : A -> B) (cs : list A) (dflt : A) :
  length cs = 17%nat -> map g (firstn 16 cs) ++ [g (nth 16 cs dflt)] = map g cs.
Proof. intros Hl. do 17 (destruct cs as [|? cs]; [discriminate|]). destruct cs; [reflexivity|discriminate]. Qed.

(* ================= the encoders ================= *)
Lemma le_bytes_N k : forall n, map Z.of_N (T.le_bytes k n) = le_bytes k (Z.of_N n).
Proof.
  induction k as [|k IH]; intros n; [reflexivity|]. cbn [T.le_bytes le_bytes map].
  rewrite IH, N2Z.inj_mod, N2Z.inj_div. reflexivity.
Qed.
(* Go's PutVarUint (Trie.Model.var_uint) and the minimal form (Codec.Wire.write_varuint) differ exactly at
   0xFFFF and 0xFFFFFFFF (finding F19) *)
Lemma var_uint_N n : n <> 65535%N -> n <> 4294967295%N -> map Z.of_N (T.var_uint n) = write_varuint (Z.of_N n).
Proof.
  intros H1 H2. unfold T.var_uint, write_varuint.
  destruct (n <? 253)%N eqn:E1; [replace (Z.of_N n <? 253) with true by lia; reflexivity|].
  replace (Z.of_N n <? 253) with false by lia.
  destruct (n <? 65535)%N eqn:E2.
  { replace (Z.of_N n <=? 65535) with true by lia. cbn [map]. now rewrite le_bytes_N. }
  replace (Z.of_N n <=? 65535) with false by lia.
  destruct (n <? 4294967295)%N eqn:E3.
  { replace (Z.of_N n <=? 4294967295) with true by lia. cbn [map]. now rewrite le_bytes_N. }
  replace (Z.of_N n <=? 4294967295) with false by lia. cbn [map]. now rewrite le_bytes_N.
Qed.
Lemma var_uint_F19 :
  map Z.of_N (T.var_uint 65535) = [254; 255; 255; 0; 0] /\ write_varuint 65535 = [253; 255; 255] /\
  map Z.of_N (T.var_uint 4294967295) = [255; 255; 255; 255; 255; 0; 0; 0; 0] /\
  write_varuint 4294967295 = [254; 255; 255; 255; 255].
Proof. repeat split; vm_compute; reflexivity. Qed.

Definition len_f19_free {A} (l : list A) : Prop :=
  N.of_nat (length l) <> 65535%N /\ N.of_nat (length l) <> 4294967295%N.
Lemma var_bytes_N b : len_f19_free b -> map Z.of_N (T.var_bytes b) = write_varbytes (map Z.of_N b).
Proof.
  intros [H1 H2]. unfold T.var_bytes, write_varbytes. rewrite map_app, map_length, var_uint_N by assumption.
  now rewrite nat_N_Z.
Qed.

(* no leaf value and no extension key ANYWHERE in t has length 0xFFFF or 0xFFFFFFFF.  The exclusion has to be deep,
   not only at the top node: a child enters the encoding of its parent through the hash of its OWN encoding. *)
Fixpoint f19_free (t : T.node) : Prop :=
  match t with
  | T.Leaf v => len_f19_free v
  | T.Ext k n => len_f19_free k /\ f19_free n
  | T.Branch cs vc => all_true (map f19_free cs) /\ f19_free vc
  | _ => True
  end.

Lemma trie_enc_ext H k n :
  T.enc H (T.Ext k n) = (1%N :: T.var_bytes (map N.of_nat k) ++ T.child_ref H n).
Proof. destruct n; reflexivity. Qed.
Lemma trie_enc_branch H cs vc :
  T.enc H (T.Branch cs vc) = (0%N :: flat_map (T.child_ref H) cs ++ T.child_ref H vc).
Proof.
  cbn [T.enc]. f_equal. f_equal; [|destruct vc; reflexivity].
  apply flat_map_ext. intros c. destruct c; reflexivity.
Qed.
Lemma child_ref_of_trie H c :
  map Z.of_N (T.enc H c) = write_node (HZ H) (of_trie c) ->
  map Z.of_N (T.child_ref H c) = child_ref (HZ H) (of_trie c).
Proof.
  intros E. destruct c; try reflexivity;
    match goal with |- map Z.of_N (T.child_ref H ?X) = child_ref (HZ H) (of_trie ?X) =>
      change (map Z.of_N (T.child_ref H X)) with (3 :: map Z.of_N (H (H (T.enc H X))));
      change (child_ref (HZ H) (of_trie X)) with (3 :: HZ H (write_node (HZ H) (of_trie X)))
    end; unfold HZ at 1; rewrite <- E, map_to_of_N; reflexivity.
Qed.

(* THE ENCODERS AGREE.  No well-formedness of t is needed (not even 16 children or bytes < 256): the only
   hypothesis is the F19 exclusion, because Trie.Model.var_uint follows Go's PutVarUint (0xFFFF written in five
   bytes) while Codec.Wire.write_varuint is the minimal form the reference node writes *)
Theorem node_codec_is_trie_enc_gen H t : f19_free t ->
  map Z.of_N (T.enc H t) = write_node (HZ H) (of_trie t).
Proof.
  induction t as [|v|k n IH|cs vc IHcs IHvc|h] using T.node_ind2; intros Hf.
  - reflexivity.
  - cbn [T.enc of_trie write_node map]. f_equal. apply var_bytes_N, Hf.
  - destruct Hf as [Hk Hn]. rewrite trie_enc_ext. cbn [of_trie]. rewrite write_node_ext. cbn [map]. rewrite map_app.
    f_equal. f_equal.
    + rewrite var_bytes_N, map_of_N_nat; [reflexivity|]. unfold len_f19_free in *. now rewrite map_length.
    + apply child_ref_of_trie, IH, Hn.
  - destruct Hf as [Hcs Hvc]. apply all_true_map in Hcs. rewrite trie_enc_branch. cbn [of_trie].
    rewrite write_node_branch, flat_map_app. cbn [map flat_map]. rewrite map_app, app_nil_r. f_equal. f_equal.
    + clear Hvc IHvc. induction IHcs as [|c t Hc Ht IH']; [reflexivity|]. inv Hcs.
      cbn [flat_map map]. rewrite map_app. f_equal; [apply child_ref_of_trie; auto|auto].
    + apply child_ref_of_trie, IHvc, Hvc.
  - reflexivity.
Qed.
(* and so do the node hashes: hash = H (H enc) on one side, HZ H (write_node ...) on the other *)
Corollary node_hash_is_trie_hash H t : f19_free t -> map Z.of_N (T.hash H t) = node_hash (HZ H) (of_trie t).
Proof.
  intros Hf. pose proof (node_codec_is_trie_enc_gen H t Hf) as E.
  destruct t; try reflexivity;
    match goal with |- map Z.of_N (T.hash H ?X) = node_hash (HZ H) (of_trie ?X) =>
      change (map Z.of_N (T.hash H X)) with (map Z.of_N (H (H (T.enc H X))));
      change (node_hash (HZ H) (of_trie X)) with (HZ H (write_node (HZ H) (of_trie X)))
    end; unfold HZ at 1; rewrite <- E, map_to_of_N; reflexivity.
Qed.

(* ---------- the statement for well-formed tries ---------- *)
(* what both decoders return / what Trie.Put builds: bytes below 256, 16 nibble children, key and value lengths
   within the limits.  (Key entries are only required to be bytes: neither decoder checks "nibble < 16".) *)
Fixpoint trie_wf (t : T.node) : Prop :=
  match t with
  | T.Empty => True
  | T.HashRef h => length h = 32%nat /\ Forall (fun b => (b < 256)%N) h
  | T.Leaf v => Forall (fun b => (b < 256)%N) v /\ (N.of_nat (length v) <= T.max_value_len)%N
  | T.Ext k n => Forall (fun x => (x < 256)%nat) k /\ (N.of_nat (length k) <= T.max_path_len)%N /\ trie_wf n
  | T.Branch cs vc => length cs = 16%nat /\ all_true (map trie_wf cs) /\ trie_wf vc
  end.
(* the exclusion, as it has to be stated for a well-formed trie: keys are at most 136 long, so only leaf values
   matter, and of the two boundary lengths only 0xFFFF is within MaxValueLength = 65539 *)
Fixpoint no_leaf_65535 (t : T.node) : Prop :=
  match t with
  | T.Leaf v => N.of_nat (length v) <> 65535%N
  | T.Ext _ n => no_leaf_65535 n
  | T.Branch cs vc => all_true (map no_leaf_65535 cs) /\ no_leaf_65535 vc
  | _ => True
  end.
Lemma wf_f19_free t : trie_wf t -> no_leaf_65535 t -> f19_free t.
Proof.
  induction t as [|v|k n IH|cs vc IHcs IHvc|h] using T.node_ind2; intros Hw Hn; cbn [f19_free]; auto.
  - destruct Hw as [_ Hl]. cbn [no_leaf_65535] in Hn. unfold len_f19_free, T.max_value_len in *. lia.
  - destruct Hw as (_ & Hl & Hw). cbn [no_leaf_65535] in Hn. split; [|auto]. unfold len_f19_free, T.max_path_len in *. lia.
  - destruct Hw as (_ & Hcs & Hvc). destruct Hn as [Hncs Hnvc]. split; [|auto].
    apply all_true_map in Hcs, Hncs. apply all_true_map. clear - IHcs Hcs Hncs.
    induction IHcs as [|c t Hc Ht IH']; [constructor|]. inv Hcs. inv Hncs. constructor; auto.
Qed.
Theorem node_codec_is_trie_enc H t : trie_wf t -> no_leaf_65535 t ->
  map Z.of_N (T.enc H t) = write_node (HZ H) (of_trie t).
Proof. intros Hw Hn. apply node_codec_is_trie_enc_gen, wf_f19_free; assumption. Qed.

(* the translation of a well-formed trie is a well-formed codec node, and the translations are inverse *)
Lemma bytes_ok_of_N l : Forall (fun b => (b < 256)%N) l -> bytes_ok (map Z.of_N l).
Proof. intros HF. unfold bytes_ok. rewrite Forall_map. eapply Forall_impl; [|exact HF]. intros a Ha. cbv beta in *. lia. Qed.
Lemma bytes_ok_of_nat l : Forall (fun x => (x < 256)%nat) l -> bytes_ok (map Z.of_nat l).
Proof. intros HF. unfold bytes_ok. rewrite Forall_map. eapply Forall_impl; [|exact HF]. intros a Ha. cbv beta in *. lia. Qed.
Theorem of_trie_wf t : trie_wf t -> mnode_wf (of_trie t).
Proof.
  induction t as [|v|k n IH|cs vc IHcs IHvc|h] using T.node_ind2; intros Hw; cbn [of_trie].
  - exact I.
  - destruct Hw as [Hb Hl]. cbn [mnode_wf]. rewrite map_length. split; [now apply bytes_ok_of_N|].
    unfold max_value_length, T.max_value_len in *. lia.
  - destruct Hw as (Hb & Hl & Hw). cbn [mnode_wf]. rewrite map_length. split; [now apply bytes_ok_of_nat|].
    split; [unfold max_path_length, T.max_path_len in *; lia|auto].
  - destruct Hw as (Hl & Hcs & Hvc). apply all_true_map in Hcs. apply mnode_wf_branch.
    split; [rewrite app_length, map_length, Hl; reflexivity|]. apply Forall_app. split; [|constructor; auto].
    rewrite Forall_map. clear - IHcs Hcs. induction IHcs as [|c t Hc Ht IH']; [constructor|]. inv Hcs. constructor; auto.
  - destruct Hw as [Hl Hb]. cbn [mnode_wf]. rewrite map_length. split; [exact Hl|now apply bytes_ok_of_N].
Qed.

(* all branches have 16 nibble children *)
Fixpoint branch16 (t : T.node) : Prop :=
  match t with
  | T.Ext _ n => branch16 n
  | T.Branch cs vc => length cs = 16%nat /\ all_true (map branch16 cs) /\ branch16 vc
  | _ => True
  end.
Lemma branch16_branch cs vc : branch16 (T.Branch cs vc) <-> length cs = 16%nat /\ Forall branch16 cs /\ branch16 vc.
Proof. cbn [branch16]. rewrite all_true_map. reflexivity. Qed.
Theorem to_of_trie t : branch16 t -> to_trie (of_trie t) = t.
Proof.
  induction t as [|v|k n IH|cs vc IHcs IHvc|h] using T.node_ind2; intros Hw; cbn [of_trie to_trie].
  - reflexivity.
  - now rewrite map_to_of_N.
  - now rewrite map_to_of_nat, IH.
  - destruct Hw as (Hl & Hcs & Hvc). apply all_true_map in Hcs.
    assert (E : map to_trie (map of_trie cs) = cs).
    { clear - IHcs Hcs. induction IHcs as [|c t Hc Ht IH']; [reflexivity|]. inv Hcs. cbn [map]. f_equal; auto. }
    rewrite map_app, E. cbn [map]. rewrite IHvc by exact Hvc.
    rewrite firstn_app, Hl, Nat.sub_diag, firstn_O, app_nil_r, firstn_all2 by lia.
    rewrite app_nth2, Hl, Nat.sub_diag by lia. reflexivity.
  - now rewrite map_to_of_N.
Qed.
Theorem of_to_trie n : mnode_wf n -> of_trie (to_trie n) = n.
Proof.
  induction n as [|h|v|k nx IH|cs IH] using mnode_ind2; intros Hw; cbn [to_trie of_trie].
  - reflexivity.
  - destruct Hw as [_ Hb]. now rewrite map_of_to_N.
  - destruct Hw as [Hb _]. now rewrite map_of_to_N.
  - destruct Hw as (Hb & _ & Hw). now rewrite map_of_to_nat, IH.
  - apply mnode_wf_branch in Hw as [Hl HF]. rewrite split17 by (rewrite map_length; exact Hl). f_equal.
    clear Hl. induction IH as [|c t Hc Ht IH']; [reflexivity|]. inv HF. cbn [map]. f_equal; auto.
Qed.

(* ================= the decoders ================= *)
Lemma take_read_bytes n r :
  read_bytes n (map Z.of_N r) =
  match T.take n r with Some (x, r') => Some (map Z.of_N x, map Z.of_N r') | None => None end.
Proof.
  unfold read_bytes, T.take. rewrite map_length, firstn_map, skipn_map.
  destruct (n <=? length r)%nat eqn:E.
  - replace (length r <? n)%nat with false by lia. reflexivity.
  - replace (length r <? n)%nat with true by lia. reflexivity.
Qed.
Lemma from_le_N x : from_le (map Z.of_N x) = Z.of_N (T.from_le x).
Proof. induction x as [|b t IH]; [reflexivity|]. cbn [map from_le T.from_le]. rewrite IH. lia. Qed.
Lemma read_u_N n r :
  read_u n (map Z.of_N r) =
  match T.take n r with Some (x, r') => Some (Z.of_N (T.from_le x), map Z.of_N r') | None => None end.
Proof.
  unfold read_u, bind. rewrite take_read_bytes. destruct (T.take n r) as [[x r']|]; [|reflexivity].
  unfold ret. now rewrite from_le_N.
Qed.
Lemma read_varuint_N r :
  read_varuint (map Z.of_N r) =
  match T.read_var_uint r with Some (n, r') => Some (Z.of_N n, map Z.of_N r') | None => None end.
Proof.
  destruct r as [|b t]; [reflexivity|]. cbn [map read_varuint T.read_var_uint].
  replace (Z.of_N b =? 253) with (b =? 253)%N by lia. destruct (b =? 253)%N; [rewrite read_u_N; destruct (T.take 2 t) as [[? ?]|]; reflexivity|].
  replace (Z.of_N b =? 254) with (b =? 254)%N by lia. destruct (b =? 254)%N; [rewrite read_u_N; destruct (T.take 4 t) as [[? ?]|]; reflexivity|].
  replace (Z.of_N b =? 255) with (b =? 255)%N by lia. destruct (b =? 255)%N; [rewrite read_u_N; destruct (T.take 8 t) as [[? ?]|]; reflexivity|].
  reflexivity.
Qed.
Lemma bind_read_b {B} (k : Z -> dec B) a r : bind read_b k (a :: r) = k a r.
Proof. reflexivity. Qed.

Lemma read_n_kids (dz : dec mnode) (dn : list N -> option (T.node * list N)) :
  (forall bs, dz (map Z.of_N bs) = match dn bs with Some (t, r) => Some (of_trie t, map Z.of_N r) | None => None end) ->
  forall n bs, read_n dz n (map Z.of_N bs) =
    match T.decode_kids dn n bs with Some (cs, r) => Some (map of_trie cs, map Z.of_N r) | None => None end.
Proof.
  intros He n. induction n as [|n IH]; intros bs; [reflexivity|]. cbn [read_n T.decode_kids].
  unfold bind. rewrite He. destruct (dn bs) as [[c r]|]; [|reflexivity].
  rewrite IH. destruct (T.decode_kids dn n r) as [[cs r']|]; reflexivity.
Qed.
Lemma decode_kids_length dn : forall n r cs r', T.decode_kids dn n r = Some (cs, r') -> length cs = n.
Proof.
  induction n as [|n IH]; intros r cs r' Hd; cbn [T.decode_kids] in Hd; [inv Hd; reflexivity|].
  destruct (dn r) as [[c r1]|]; [|discriminate]. destruct (T.decode_kids dn n r1) as [[cs1 r2]|] eqn:E; [|discriminate].
  inv Hd. cbn [length]. f_equal. eapply IH; eauto.
Qed.
Lemma decode_kids_forall (P : T.node -> Prop) dn : (forall r c r', dn r = Some (c, r') -> P c) ->
  forall n r cs r', T.decode_kids dn n r = Some (cs, r') -> Forall P cs.
Proof.
  intros HP. induction n as [|n IH]; intros r cs r' Hd; cbn [T.decode_kids] in Hd; [inv Hd; constructor|].
  destruct (dn r) as [[c r1]|] eqn:Ec; [|discriminate]. destruct (T.decode_kids dn n r1) as [[cs1 r2]|] eqn:E; [|discriminate].
  inv Hd. constructor; eauto.
Qed.

(* the codec decoder IS the trie decoder, read through of_trie: same fuel, same depth convention (both refuse
   depth > 136 before reading the type byte and pass depth + 1 to the children), same length limits, inline
   children accepted by both.  No hypothesis on the bytes is needed *)
Theorem read_node_of_trie f : forall d bs,
  read_node f (Z.of_N d) (map Z.of_N bs) =
  match T.decode f d bs with Some (t, r) => Some (of_trie t, map Z.of_N r) | None => None end.
Proof.
  induction f as [|f IH]; intros d bs; [reflexivity|]. rewrite read_node_S. cbn [T.decode].
  replace (max_path_length <? Z.of_N d) with (T.max_path_len <? d)%N by (unfold max_path_length, T.max_path_len; lia).
  destruct (T.max_path_len <? d)%N; [reflexivity|]. destruct bs as [|ty r]; [reflexivity|].
  cbn [map]. rewrite bind_read_b. replace (Z.of_N d + 1) with (Z.of_N (d + 1)) by lia.
  replace (Z.of_N ty =? 0) with (ty =? 0)%N by lia. destruct (ty =? 0)%N.
  { unfold bind. change children_count with 17%nat. rewrite (read_n_kids _ _ (IH (d + 1)%N)).
    destruct (T.decode_kids (T.decode f (d + 1)%N) 17 r) as [[cs r']|] eqn:E; [|reflexivity].
    unfold ret. cbn [of_trie]. rewrite (split17 of_trie cs T.Empty) by (eapply decode_kids_length; eauto). reflexivity. }
  replace (Z.of_N ty =? 1) with (ty =? 1)%N by lia. destruct (ty =? 1)%N.
  { unfold bind. rewrite read_varuint_N. destruct (T.read_var_uint r) as [[sz r1]|]; [|reflexivity].
    replace (max_path_length <? Z.of_N sz) with (T.max_path_len <? sz)%N by (unfold max_path_length, T.max_path_len; lia).
    destruct (T.max_path_len <? sz)%N; [reflexivity|].
    replace (Z.to_nat (Z.of_N sz)) with (N.to_nat sz) by lia. rewrite take_read_bytes.
    destruct (T.take (N.to_nat sz) r1) as [[k r2]|]; [|reflexivity].
    rewrite IH. destruct (T.decode f (d + 1)%N r2) as [[n r3]|]; [|reflexivity].
    unfold ret. cbn [of_trie]. now rewrite map_of_nat_N. }
  replace (Z.of_N ty =? 2) with (ty =? 2)%N by lia. destruct (ty =? 2)%N.
  { unfold bind. rewrite read_varuint_N. destruct (T.read_var_uint r) as [[sz r1]|]; [|reflexivity].
    replace (max_value_length <? Z.of_N sz) with (T.max_value_len <? sz)%N by (unfold max_value_length, T.max_value_len; lia).
    destruct (T.max_value_len <? sz)%N; [reflexivity|].
    replace (Z.to_nat (Z.of_N sz)) with (N.to_nat sz) by lia. rewrite take_read_bytes.
    destruct (T.take (N.to_nat sz) r1) as [[v r2]|]; reflexivity. }
  replace (Z.of_N ty =? 3) with (ty =? 3)%N by lia. destruct (ty =? 3)%N.
  { unfold bind. rewrite take_read_bytes. destruct (T.take 32 r) as [[h r1]|]; reflexivity. }
  replace (Z.of_N ty =? 4) with (ty =? 4)%N by lia. destruct (ty =? 4)%N; reflexivity.
Qed.

(* what the trie decoder returns has 16-children branches, so to_trie (of_trie _) is the identity on it *)
Lemma decode_branch16 f : forall d bs t r, T.decode f d bs = Some (t, r) -> branch16 t.
Proof.
  induction f as [|f IH]; intros d bs t r Hd; [discriminate|]. cbn [T.decode] in Hd.
  destruct (T.max_path_len <? d)%N; [discriminate|]. destruct bs as [|ty r0]; [discriminate|].
  destruct (ty =? 0)%N.
  { destruct (T.decode_kids (T.decode f (d + 1)%N) 17 r0) as [[cs r']|] eqn:E; [|discriminate].
    assert (Et : t = T.Branch (firstn 16 cs) (nth 16 cs T.Empty)) by congruence. rewrite Et. clear Hd Et.
    pose proof (decode_kids_length _ _ _ _ _ E) as Hl.
    pose proof (decode_kids_forall branch16 _ (fun r c r' => IH (d + 1)%N r c r') _ _ _ _ E) as HF.
    refine (proj2 (branch16_branch _ _) _). split; [rewrite firstn_length; lia|]. split.
    - rewrite <- (firstn_skipn 16 cs) in HF. apply Forall_app in HF. tauto.
    - rewrite Forall_forall in HF. apply HF. apply nth_In. lia. }
  destruct (ty =? 1)%N.
  { destruct (T.read_var_uint r0) as [[sz r1]|]; [|discriminate]. destruct (T.max_path_len <? sz)%N; [discriminate|].
    destruct (T.take (N.to_nat sz) r1) as [[k r2]|]; [|discriminate].
    destruct (T.decode f (d + 1)%N r2) as [[n r3]|] eqn:E; [|discriminate]. inv Hd. cbn [branch16]. eapply IH; eauto. }
  destruct (ty =? 2)%N.
  { destruct (T.read_var_uint r0) as [[sz r1]|]; [|discriminate]. destruct (T.max_value_len <? sz)%N; [discriminate|].
    destruct (T.take (N.to_nat sz) r1) as [[v r2]|]; [|discriminate]. inv Hd. exact I. }
  destruct (ty =? 3)%N.
  { destruct (T.take 32 r0) as [[h r1]|]; [|discriminate]. inv Hd. exact I. }
  destruct (ty =? 4)%N; [|discriminate]. inv Hd. exact I.
Qed.

(* THE DECODERS AGREE, for every fuel, depth and byte string (the hypothesis "bytes < 256" is not needed) *)
Theorem node_decoder_is_trie_decode f d bs :
  option_map (fun p => (to_trie (fst p), map Z.to_N (snd p))) (read_node f (Z.of_N d) (map Z.of_N bs)) = T.decode f d bs.
Proof.
  rewrite read_node_of_trie. destruct (T.decode f d bs) as [[t r]|] eqn:E; [|reflexivity].
  cbn [option_map fst snd]. rewrite to_of_trie by (eapply decode_branch16; eauto). now rewrite map_to_of_N.
Qed.
(* at the entry points: NodeObject.DecodeBinary on one side, decode (S (length bs)) 0 on the other (store_get) *)
Corollary decode_node_is_trie_decode bs :
  option_map (fun p => (to_trie (fst p), map Z.to_N (snd p))) (decode_node (map Z.of_N bs)) =
  T.decode (S (length bs)) 0 bs.
Proof. unfold decode_node. rewrite map_length. apply (node_decoder_is_trie_decode (S (length bs)) 0%N bs). Qed.

(* transfer: facts proved about read_node hold for Trie.Model.decode, e.g. fuel independence and the depth bound *)
Corollary trie_decode_total f f' d bs : (length bs < f)%nat -> (length bs < f')%nat -> T.decode f d bs = T.decode f' d bs.
Proof.
  intros Hf Hf'. rewrite <- !node_decoder_is_trie_decode.
  rewrite (node_decode_total f f') by (rewrite map_length; assumption). reflexivity.
Qed.
(* decode (enc t) = collapse of t by one level, stated on the trie side through the translation *)
Corollary trie_decode_enc H t rest :
  (forall b, length (H b) = 32%nat) -> trie_wf t -> no_leaf_65535 t ->
  T.decode (S (length (T.enc H t ++ rest))) 0 (T.enc H t ++ rest) =
  Some (to_trie (collapse1 (HZ H) (of_trie t)), rest).
Proof.
  intros HL Hw Hn. rewrite <- decode_node_is_trie_decode. rewrite map_app, node_codec_is_trie_enc by assumption.
  unfold decode_node. rewrite node_decode_collapse.
  - cbn [option_map fst snd]. now rewrite map_to_of_N.
  - intros b. unfold HZ. now rewrite map_length.
  - apply of_trie_wf, Hw.
  - rewrite app_length. destruct (of_trie t); cbn [write_node length]; lia.
  - destruct (of_trie t); cbn [node_levels]; lia.
Qed.

(* ================= Examples ================= *)
Definition toyHN (b : list N) : list N := repeat (N.of_nat (length b) mod 256)%N 32.
Definition ex_trie : T.node :=
  T.Branch ([T.Empty; T.HashRef (repeat 17%N 32)] ++ repeat T.Empty 8 ++
            [T.Ext [1; 2; 3]%nat (T.Leaf [5; 6]%N)] ++ repeat T.Empty 5) (T.Leaf [7; 8; 9]%N).
Example ex_trie_enc :
  map Z.of_N (T.enc toyHN ex_trie) = write_node (HZ toyHN) (of_trie ex_trie) /\
  length (T.enc toyHN ex_trie) = 114%nat /\ to_trie (of_trie ex_trie) = ex_trie /\
  T.decode 200 0 (T.enc toyHN ex_trie) = Some (to_trie (collapse1 (HZ toyHN) (of_trie ex_trie)), []) /\
  option_map (fun p => (to_trie (fst p), map Z.to_N (snd p))) (read_node 200 0 (map Z.of_N (T.enc toyHN ex_trie)))
  = T.decode 200 0 (T.enc toyHN ex_trie).
Proof. repeat split; vm_compute; reflexivity. Qed.
Example ex_trie_wf : trie_wf ex_trie /\ no_leaf_65535 ex_trie /\ f19_free ex_trie /\ branch16 ex_trie.
Proof.
  assert (Hw : trie_wf ex_trie).
  { cbn. unfold T.max_value_len, T.max_path_len. repeat split; try lia; repeat constructor; lia. }
  assert (Hn : no_leaf_65535 ex_trie) by (cbn; repeat split; lia).
  split; [exact Hw|]. split; [exact Hn|]. split; [now apply wf_f19_free|].
  cbn. repeat split; lia.
Qed.
(* an inline child on both sides *)
Example ex_inline_both :
  T.decode 5 0 [1; 0; 2; 0]%N = Some (T.Ext [] (T.Leaf []), []) /\
  read_node 5 0 [1; 0; 2; 0] = Some (MExt [] (MLeaf []), []) /\
  T.decode 5 135 [1; 0; 2; 0]%N = Some (T.Ext [] (T.Leaf []), []) /\ T.decode 5 136 [1; 0; 2; 0]%N = None /\
  read_node 5 136 [1; 0; 2; 0] = None.
Proof. repeat split; vm_compute; reflexivity. Qed.
(* F19: with a leaf value of 65535 bytes the two encoders differ (five-byte against three-byte length prefix) *)
Example ex_f19_needed :
  let t := T.Leaf (repeat 0%N (N.to_nat 65535)) in
  firstn 4 (map Z.of_N (T.enc toyHN t)) = [2; 254; 255; 255] /\
  firstn 4 (write_node (HZ toyHN) (of_trie t)) = [2; 253; 255; 255].
Proof. split; vm_compute; reflexivity. Qed.

Print Assumptions node_codec_is_trie_enc.
Print Assumptions node_decoder_is_trie_decode.
