(* The integer emitter of pkg/vm/emit (emit.BigInt / emit.Int, behind emit.Any / Array / StackItem, i.e. behind every
   script builder, the RPC client's invokers and the compiler's constant emission): definitions AND proofs.

   Go code followed (emit.go):
     smallInt: -1 -> PUSHM1, 0..15 -> PUSH0 + i            (BigInt tries it when the value fits int64; Int always)
     bigInt:   stackitem.CheckIntegerSize (the VM range [-2^255, 2^255)); buf = bigint.ToPreallocatedBytes(n) (minimal
               two's complement, little endian, in a zeroed buffer of capacity 32); empty -> PUSH0;
               padSize = 8 - LeadingZeros8(len(buf)-1) (= bit length of len-1); opcode PUSHINT8 + padSize;
               operand = padRight(1 << padSize, buf): the slice is extended to the operand width and, when the top bit of
               the last byte is set, the new bytes are filled with 0xFF (they are 0 otherwise).
   Decoding is the VM model's own: VM/Decode.v [decode] and the value VM/Data.v pushes ([from_bytes] of the operand for
   PUSHINT*, opcode - PUSH0 for PUSHM1..PUSH16). *)
From NG Require Import Common.Tactics Codec.Bigint Codec.BigintProofs gen.Opcodes gen.VMLimits VM.Items VM.Decode.
Open Scope Z_scope.

(* 8 - bits.LeadingZeros8(byte(len-1)) *)
Definition pad_exp (len : nat) : nat := Z.to_nat (bitlen (Z.of_nat len - 1)).

Definition neg_top (buf : list Z) : bool := 128 <=? last buf 0.

(* padRight *)
Definition pad_right (s : nat) (buf : list Z) : list Z :=
  buf ++ repeat (if neg_top buf then 255 else 0) (s - length buf).

(* a padding that fills at most [cap] bytes with 0xFF and leaves the zeroes of the fresh buffer above them *)
Definition pad_right_capped (cap s : nat) (buf : list Z) : list Z :=
  let d := (s - length buf)%nat in
  if neg_top buf then buf ++ repeat 255 (Nat.min d cap) ++ repeat 0 (d - Nat.min d cap) else buf ++ repeat 0 d.

Definition emit_gen (pad : nat -> list Z -> list Z) (try_small : bool) (n : Z) : option (list Z) :=
  if try_small && (n =? -1) then Some [15]
  else if try_small && (0 <=? n) && (n <? 16) then Some [16 + n]
  else if negb (in_int256 n) then None
  else match to_bytes n with
       | [] => Some [16]
       | buf => let k := pad_exp (length buf) in Some (Z.of_nat k :: pad (2 ^ k)%nat buf)
       end.

(* emit.BigInt; emit.Int is the same function on int64 values (smallInt first, then bigInt without the small case) *)
Definition emit_bigint : Z -> option (list Z) := emit_gen pad_right true.

(* the integer a one-instruction script pushes, by the VM model: decoded completely, a PUSHINT* or PUSHM1..PUSH16 *)
Definition pushed_int (op : opcode) (param : list Z) : option Z :=
  match op with
  | PUSHINT8 | PUSHINT16 | PUSHINT32 | PUSHINT64 | PUSHINT128 | PUSHINT256 => Some (from_bytes param)
  | PUSHM1 | PUSH0 | PUSH1 | PUSH2 | PUSH3 | PUSH4 | PUSH5 | PUSH6 | PUSH7 | PUSH8 | PUSH9 | PUSH10
  | PUSH11 | PUSH12 | PUSH13 | PUSH14 | PUSH15 | PUSH16 => Some (byte_of_opcode op - byte_of_opcode PUSH0)
  | _ => None
  end.

Definition decode_pushint (s : list Z) : option Z :=
  match decode s 0 with
  | DecOk op p next => if next =? Z.of_nat (length s) then pushed_int op p else None
  | _ => None
  end.

(* width in bytes of the operand of the emitted instruction (0 for the one-byte pushes) *)
Definition emitted_width (s : list Z) : nat := (length s - 1)%nat.

(* ================= proofs ================= *)

Lemma strip_trailing_repeat b k : strip_trailing b (repeat b k) = [].
Proof. induction k as [|k IH]; [reflexivity|]. cbn [repeat strip_trailing]. rewrite IH, Z.eqb_refl. reflexivity. Qed.

Lemma strip_trailing_app_repeat b l k : strip_trailing b (l ++ repeat b k) = strip_trailing b l.
Proof.
  induction l as [|x t IH]; [apply strip_trailing_repeat|]. cbn [app strip_trailing]. rewrite IH. reflexivity.
Qed.

Lemma last_app_repeat (l : list Z) x k : (0 < k)%nat -> last (l ++ repeat x k) 0 = x.
Proof.
  intros Hk. destruct k as [|k]; [lia|]. replace (repeat x (S k)) with (repeat x k ++ [x]).
  - rewrite app_assoc. apply last_last.
  - clear. induction k as [|k IH]; [reflexivity|]. cbn [repeat app]. rewrite IH. reflexivity.
Qed.

(* sign extension keeps the value *)
Theorem pad_right_value s buf : buf <> [] -> from_bytes (pad_right s buf) = from_bytes buf.
Proof.
  intros Hne. unfold pad_right. set (d := (s - length buf)%nat).
  destruct d as [|d'] eqn:Ed; [cbn [repeat]; now rewrite app_nil_r|].
  assert (forall f, buf ++ repeat f (S d') <> []) as Hne2 by (intros f E; apply app_eq_nil in E; tauto).
  unfold from_bytes.
  destruct buf as [|b0 bt] eqn:Eb; [congruence|]. rewrite <- Eb in *.
  destruct (neg_top buf) eqn:En; unfold neg_top in En.
  - destruct (buf ++ repeat 255 (S d')) eqn:E2; [exfalso; eapply Hne2; eassumption|]. rewrite <- E2.
    unfold is_neg. rewrite last_app_repeat by lia. rewrite En. change (128 <=? 255) with true. cbv iota.
    rewrite strip_trailing_app_repeat. subst buf. reflexivity.
  - destruct (buf ++ repeat 0 (S d')) eqn:E2; [exfalso; eapply Hne2; eassumption|]. rewrite <- E2.
    unfold is_neg. rewrite last_app_repeat by lia. rewrite En. change (128 <=? 0) with false. cbv iota.
    rewrite strip_trailing_app_repeat. subst buf. reflexivity.
Qed.

Lemma pad_right_length s buf : (length buf <= s)%nat -> length (pad_right s buf) = s.
Proof. intros H. unfold pad_right. rewrite app_length, repeat_length. lia. Qed.

(* the width chosen: the least power of two that holds the minimal form *)
Lemma pad_exp_spec len : (1 <= len <= 32)%nat ->
  (pad_exp len <= 5)%nat /\ (len <= 2 ^ pad_exp len)%nat /\ (pad_exp len = 0%nat \/ (2 ^ (pad_exp len - 1) < len)%nat).
Proof.
  intros H. do 33 (destruct len as [|len]; [try lia; vm_compute; repeat split; try lia; auto|]). lia.
Qed.

Lemma take_app {n} (a r : list Z) : length a = n -> take n (a ++ r) = Some (a, r).
Proof.
  revert a; induction n as [|n IH]; intros a H.
  - destruct a; [reflexivity|discriminate].
  - destruct a as [|x a]; [discriminate|]. cbn [app take]. rewrite IH by (simpl in H; lia). reflexivity.
Qed.

Lemma opcode_of_pushint k : (k <= 5)%nat ->
  exists op, opcode_of_byte (Z.of_nat k) = Some op /\ operand_of op = Fixed (2 ^ k) /\ pushed_int op = fun p => Some (from_bytes p).
Proof.
  intros H. do 6 (destruct k as [|k]; [eexists; split; [reflexivity|split; reflexivity]|]). lia.
Qed.

Lemma to_bytes_nonempty n : n <> 0 -> to_bytes n <> [].
Proof.
  intros Hn E. pose proof (bigint_roundtrip n) as R. rewrite E in R. simpl in R. congruence.
Qed.

(* THE round trip: whatever the emitter writes for an integer of the VM range is one instruction that pushes it *)
Theorem emit_decode : forall try_small n, in_int256 n = true ->
  exists s, emit_gen pad_right try_small n = Some s /\ decode_pushint s = Some n.
Proof.
  intros ts n Hr. unfold emit_gen.
  destruct (ts && (n =? -1)) eqn:E1.
  { apply andb_true_iff in E1 as [_ E1]. apply Z.eqb_eq in E1. subst n. eexists. split; [reflexivity|]. vm_compute. reflexivity. }
  destruct (ts && (0 <=? n) && (n <? 16)) eqn:E2.
  { apply andb_true_iff in E2 as [E2 E3]. apply andb_true_iff in E2 as [_ E2].
    assert (0 <= n < 16) as Hn by lia. eexists. split; [reflexivity|].
    assert (n = 0 \/ n = 1 \/ n = 2 \/ n = 3 \/ n = 4 \/ n = 5 \/ n = 6 \/ n = 7 \/ n = 8 \/ n = 9 \/ n = 10 \/ n = 11
            \/ n = 12 \/ n = 13 \/ n = 14 \/ n = 15) as Hc by lia.
    repeat (destruct Hc as [->|Hc]; [vm_compute; reflexivity|]). subst n. vm_compute. reflexivity. }
  rewrite Hr. cbn [negb].
  destruct (Z.eq_dec n 0) as [->|Hn0].
  { change (to_bytes 0) with (@nil Z). eexists. split; [reflexivity|]. vm_compute. reflexivity. }
  pose proof (to_bytes_nonempty n Hn0) as Hne.
  destruct (to_bytes n) as [|b0 bt] eqn:Eb; [congruence|]. rewrite <- Eb in *.
  eexists. split; [reflexivity|].
  assert (1 <= length (to_bytes n) <= 32)%nat as Hl.
  { split; [rewrite Eb; simpl; lia|]. apply fits256_iff_len. exact Hr. }
  destruct (pad_exp_spec _ Hl) as (H5 & Hfit & _).
  destruct (opcode_of_pushint _ H5) as (op & Hop & Hoper & Hpush).
  unfold decode_pushint, decode. cbn [Z.ltb Z.compare Z.to_nat skipn]. rewrite Hop, Hoper.
  rewrite <- (app_nil_r (pad_right _ _)) at 1. rewrite take_app by (apply pad_right_length; exact Hfit).
  cbn [length]. rewrite pad_right_length by exact Hfit.
  replace (0 + 1 + Z.of_nat (2 ^ pad_exp (length (to_bytes n))) =? Z.of_nat (S (2 ^ pad_exp (length (to_bytes n))))) with true by lia.
  rewrite Hpush. rewrite pad_right_value by exact Hne. rewrite bigint_roundtrip. reflexivity.
Qed.

(* out of the VM range: refused (not with the small forms: those are inside the range) *)
Theorem emit_refuses_out_of_range : forall try_small n, in_int256 n = false -> emit_gen pad_right try_small n = None.
Proof.
  intros ts n Hr. unfold emit_gen. pose proof Hr as Hr'. unfold in_int256 in Hr'.
  assert (n <> -1 /\ ~ (0 <= n < 16)) as [H1 H2].
  { pose proof (Z.pow_pos_nonneg 2 255 ltac:(lia) ltac:(lia)).
    assert (2 ^ 4 <= 2 ^ 255) by (apply Z.pow_le_mono_r; lia). change (2 ^ 4) with 16 in *. split; lia. }
  destruct (ts && (n =? -1)) eqn:E1.
  { apply andb_true_iff in E1 as [_ E1]. lia. }
  destruct (ts && (0 <=? n) && (n <? 16)) eqn:E2.
  { apply andb_true_iff in E2 as [E2 E3]. apply andb_true_iff in E2 as [_ E2]. lia. }
  rewrite Hr. reflexivity.
Qed.

(* the opcode chosen is the narrowest that fits: no PUSHINT operand of a smaller width denotes n *)
Theorem emit_width_minimal : forall n s, in_int256 n = true -> emit_gen pad_right false n = Some s -> n <> 0 ->
  forall k' param, bytes_ok param -> length param = (2 ^ k')%nat -> from_bytes param = n -> (emitted_width s <= 2 ^ k')%nat.
Proof.
  intros n s Hr He Hn0 k' param Hok Hlen Hv. unfold emit_gen in He. cbn [andb] in He. rewrite Hr in He. cbn [negb] in He.
  pose proof (to_bytes_nonempty n Hn0) as Hne.
  destruct (to_bytes n) as [|b0 bt] eqn:Eb; [congruence|]. rewrite <- Eb in *. injection He as <-.
  unfold emitted_width. cbn [length].
  assert (1 <= length (to_bytes n) <= 32)%nat as Hl.
  { split; [rewrite Eb; simpl; lia|]. apply fits256_iff_len. exact Hr. }
  destruct (pad_exp_spec _ Hl) as (H5 & Hfit & Hmin).
  rewrite pad_right_length by exact Hfit. replace (S (2 ^ pad_exp (length (to_bytes n))) - 1)%nat with (2 ^ pad_exp (length (to_bytes n)))%nat by lia.
  pose proof (bigint_minimal param Hok) as Hm. rewrite Hv, Hlen in Hm.
  destruct Hmin as [Hz|Hlt]; [rewrite Hz; cbn; pose proof (Nat.pow_nonzero 2 k'); lia|].
  (* 2^(k-1) < len <= 2^k' so k-1 < k' *)
  set (k := pad_exp (length (to_bytes n))) in *.
  assert (k - 1 < k')%nat.
  { destruct (le_lt_dec k' (k - 1)) as [Hle|]; [|assumption].
    assert (2 ^ k' <= 2 ^ (k - 1))%nat by (apply Nat.pow_le_mono_r; lia). lia. }
  apply Nat.pow_le_mono_r; lia.
Qed.

(* ================= a padding that fills at most 8 bytes ================= *)
Definition emit_capped8 : Z -> option (list Z) := emit_gen (pad_right_capped 8) true.

(* negatives with a 17..23-byte minimal form come out as large positive numbers; the others are unaffected *)
Example emit_capped8_examples :
  (exists s, emit_capped8 (- 2 ^ 130) = Some s /\ length s = 33%nat /\ decode_pushint s = Some (2 ^ 200 - 2 ^ 130))
  /\ (exists s, emit_bigint (- 2 ^ 130) = Some s /\ length s = 33%nat /\ decode_pushint s = Some (- 2 ^ 130))
  /\ (exists s, emit_capped8 (- 2 ^ 127) = Some s /\ decode_pushint s = Some (- 2 ^ 127))
  /\ (exists s, emit_capped8 (- 2 ^ 191) = Some s /\ decode_pushint s = Some (- 2 ^ 191))
  /\ (exists s, emit_capped8 (2 ^ 130) = Some s /\ decode_pushint s = Some (2 ^ 130)).
Proof.
  repeat split; eexists; (split; [vm_compute; reflexivity|]); try (split; [reflexivity|]); vm_compute; reflexivity.
Qed.

Theorem emit_capped8_refuted :
  ~ (forall n, in_int256 n = true -> exists s, emit_capped8 n = Some s /\ decode_pushint s = Some n).
Proof.
  intros H. destruct (H (- 2 ^ 130) eq_refl) as (s & Es & Ds).
  destruct emit_capped8_examples as ((s' & Es' & _ & Ds') & _). rewrite Es in Es'. inv Es'.
  rewrite Ds in Ds'. vm_compute in Ds'. discriminate.
Qed.
