(* Facts about positional numerals (Codec/Radix.v): digits and value are mutually inverse on canonical
   numerals (digits in range, no leading zero), for every base >= 2. *)
From NG Require Import Common.Tactics Codec.Radix.
Open Scope Z_scope.

Definition digits_ok (base : Z) (l : list Z) : Prop := Forall (fun d => 0 <= d < base) l.

(* head is not z (vacuous for the empty list) *)
Definition no_lead (z : Z) (l : list Z) : Prop :=
  match l with
  | [] => True
  | x :: _ => x <> z
  end.

(* canonical big-endian numeral *)
Definition canon_be (base : Z) (l : list Z) : Prop := digits_ok base l /\ no_lead 0 l.

(* canonical little-endian numeral: the last digit is not zero *)
Fixpoint canon_le (base : Z) (l : list Z) : Prop :=
  match l with
  | [] => True
  | d :: t => 0 <= d < base /\ canon_le base t /\ (t = [] -> d <> 0)
  end.

Lemma digits_okb_ok base l : digits_okb base l = true <-> digits_ok base l.
Proof.
  unfold digits_okb, digits_ok. rewrite forallb_forall, Forall_forall.
  split; intros H x Hx; specialize (H x Hx); lia.
Qed.

Lemma pow2S f : 2 ^ Z.of_nat (S f) = 2 * 2 ^ Z.of_nat f.
Proof. rewrite Nat2Z.inj_succ, Z.pow_succ_r by lia. reflexivity. Qed.

Lemma pow2_pos f : 0 < 2 ^ Z.of_nat f.
Proof. apply Z.pow_pos_nonneg; lia. Qed.

Lemma digit_fuel_ok n : 0 <= n -> n < 2 ^ Z.of_nat (digit_fuel n).
Proof.
  intros Hn. unfold digit_fuel. destruct (Z.eq_dec n 0) as [->|Hz]; [reflexivity|].
  pose proof (Z.log2_nonneg n) as Hl. pose proof (Z.log2_spec n ltac:(lia)) as [_ Hu].
  rewrite Nat2Z.inj_succ, Z2Nat.id by assumption. exact Hu.
Qed.

(* ---------------- leading runs ---------------- *)
Lemma leading_split z l : l = repeat z (count_leading z l) ++ strip_leading z l.
Proof.
  induction l as [|x t IH]; [reflexivity|]. cbn [count_leading strip_leading].
  case_if; [|reflexivity]. assert (x = z) by lia. subst x. cbn [repeat app]. now rewrite <- IH.
Qed.

Lemma strip_no_lead z l : no_lead z (strip_leading z l).
Proof.
  induction l as [|x t IH]; [exact I|]. cbn [strip_leading]. case_if; [exact IH|]. simpl. lia.
Qed.

Lemma count_leading_app z k r : no_lead z r -> count_leading z (repeat z k ++ r) = k.
Proof.
  intros Hr. induction k as [|k IH].
  - destruct r as [|x t]; [reflexivity|]. simpl in *. replace (x =? z) with false by lia. reflexivity.
  - cbn [repeat app count_leading]. rewrite Z.eqb_refl. now rewrite IH.
Qed.

Lemma strip_leading_app z k r : no_lead z r -> strip_leading z (repeat z k ++ r) = r.
Proof.
  intros Hr. induction k as [|k IH].
  - destruct r as [|x t]; [reflexivity|]. simpl in *. replace (x =? z) with false by lia. reflexivity.
  - cbn [repeat app strip_leading]. rewrite Z.eqb_refl. exact IH.
Qed.

Lemma strip_leading_Forall (P : Z -> Prop) z l : Forall P l -> Forall P (strip_leading z l).
Proof.
  induction 1 as [|x t Hx Ht IH]; [constructor|]. cbn [strip_leading]. case_if; [exact IH|].
  constructor; assumption.
Qed.

Lemma Forall_repeat {A} (P : A -> Prop) x n : P x -> Forall P (repeat x n).
Proof. intros Hx. induction n; simpl; constructor; assumption. Qed.

(* ---------------- map_option ---------------- *)
Lemma map_option_none {A B} (f : A -> option B) l :
  map_option f l = None <-> exists x, In x l /\ f x = None.
Proof.
  induction l as [|x t IH]; cbn [map_option].
  - split; [discriminate|intros (x & [] & _)].
  - destruct (f x) as [y|] eqn:Ef.
    + destruct (map_option f t) as [t'|] eqn:Et.
      * split; [discriminate|]. intros (c & [Hc|Hc] & Hn); [subst; congruence|].
        assert (@None (list B) = None) as _ by reflexivity.
        destruct IH as [_ IH]. discriminate IH. exists c; auto.
      * split; [intros _|reflexivity]. destruct IH as [IH _]. destruct (IH eq_refl) as (c & Hc & Hn).
        exists c; split; [right|]; assumption.
    + split; [intros _; exists x; split; [left; reflexivity|assumption]|reflexivity].
Qed.

Lemma map_option_inv {A B} (f : A -> option B) (g : B -> A) :
  (forall x y, f x = Some y -> g y = x) ->
  forall l l', map_option f l = Some l' -> map g l' = l.
Proof.
  intros Hfg. induction l as [|x t IH]; intros l' H; cbn [map_option] in H.
  - inv H. reflexivity.
  - destruct (f x) as [y|] eqn:Ef; [|discriminate]. destruct (map_option f t) as [t'|]; [|discriminate].
    inv H. cbn [map]. f_equal; [apply Hfg; assumption|apply IH; reflexivity].
Qed.

Lemma map_option_map {A B} (f : A -> option B) (g : B -> A) (P : B -> Prop) :
  (forall y, P y -> f (g y) = Some y) ->
  forall l', Forall P l' -> map_option f (map g l') = Some l'.
Proof.
  intros Hgf. induction 1 as [|y t Hy Ht IH]; [reflexivity|].
  cbn [map map_option]. now rewrite Hgf, IH.
Qed.

Lemma map_option_Forall {A B} (f : A -> option B) (P : B -> Prop) :
  (forall x y, f x = Some y -> P y) ->
  forall l l', map_option f l = Some l' -> Forall P l'.
Proof.
  intros Hf. induction l as [|x t IH]; intros l' H; cbn [map_option] in H.
  - inv H. constructor.
  - destruct (f x) as [y|] eqn:Ef; [|discriminate]. destruct (map_option f t) as [t'|]; [|discriminate].
    inv H. constructor; [eapply Hf; eassumption|apply IH; reflexivity].
Qed.

Lemma map_option_length {A B} (f : A -> option B) l l' : map_option f l = Some l' -> length l' = length l.
Proof.
  revert l'; induction l as [|x t IH]; intros l' H; cbn [map_option] in H.
  - inv H. reflexivity.
  - destruct (f x) as [y|]; [|discriminate]. destruct (map_option f t) as [t'|]; [|discriminate].
    inv H. simpl. f_equal. apply IH. reflexivity.
Qed.

(* ---------------- numerals in one base ---------------- *)
Section Base.
Variable base : Z.
Hypothesis base_ge2 : 2 <= base.

Lemma value_le_nonneg l : digits_ok base l -> 0 <= value_le base l.
Proof. induction 1 as [|d t Hd Ht IH]; cbn [value_le]; nia. Qed.

Lemma canon_le_ok l : canon_le base l -> digits_ok base l.
Proof.
  induction l as [|d t IH]; [constructor|]. intros (Hd & Ht & _). constructor; [assumption|apply IH; assumption].
Qed.

Lemma canon_le_pos l : canon_le base l -> l <> [] -> 0 < value_le base l.
Proof.
  induction l as [|d t IH]; [congruence|]. intros (Hd & Ht & Hz) _. cbn [value_le].
  destruct t as [|e t'].
  - specialize (Hz eq_refl). simpl. lia.
  - specialize (IH Ht ltac:(congruence)). nia.
Qed.

Lemma div_lt_pow2 n f : 0 < n < 2 ^ Z.of_nat (S f) -> 0 <= n / base < 2 ^ Z.of_nat f.
Proof.
  intros Hn. rewrite pow2S in Hn. split; [apply Z.div_pos; lia|].
  apply Z.div_lt_upper_bound; [lia|]. pose proof (pow2_pos f). nia.
Qed.

Lemma digits_le_nil f n : digits_le base f n = [] -> n < 2 ^ Z.of_nat f -> n <= 0.
Proof.
  destruct f as [|f]; cbn [digits_le].
  - intros _ H. change (2 ^ Z.of_nat 0) with 1 in H. lia.
  - case_if; [intros; lia|discriminate].
Qed.

Lemma digits_le_canon f n : n < 2 ^ Z.of_nat f -> canon_le base (digits_le base f n).
Proof.
  revert n; induction f as [|f IH]; intros n Hn; cbn [digits_le]; [exact I|].
  case_if; [exact I|]. assert (0 < n) as Hpos by lia.
  pose proof (div_lt_pow2 n f ltac:(lia)) as Hd.
  cbn [canon_le]. split; [apply Z.mod_pos_bound; lia|]. split; [apply IH; lia|].
  intros E. apply digits_le_nil in E; [|lia].
  assert (n / base = 0) as Hq by lia.
  apply Z.div_small_iff in Hq; [|lia]. rewrite Z.mod_small by lia. lia.
Qed.

Lemma value_digits_le f n : 0 <= n < 2 ^ Z.of_nat f -> value_le base (digits_le base f n) = n.
Proof.
  revert n; induction f as [|f IH]; intros n Hn; cbn [digits_le].
  - change (2 ^ Z.of_nat 0) with 1 in Hn. simpl. lia.
  - case_if; [simpl; lia|]. cbn [value_le].
    rewrite IH by (apply div_lt_pow2; lia).
    rewrite (Z.div_mod n base) at 3 by lia. lia.
Qed.

Lemma digits_value_le l : canon_le base l ->
  forall f, value_le base l < 2 ^ Z.of_nat f -> digits_le base f (value_le base l) = l.
Proof.
  induction l as [|d t IH]; intros Hc f Hf.
  - destruct f; reflexivity.
  - pose proof (canon_le_pos _ Hc ltac:(congruence)) as Hpos.
    destruct Hc as (Hd & Ht & Hz).
    pose proof (value_le_nonneg t (canon_le_ok t Ht)) as Hnn.
    cbn [value_le] in *.
    destruct f as [|f]; [change (2 ^ Z.of_nat 0) with 1 in Hf; lia|].
    cbn [digits_le]. replace (d + base * value_le base t <=? 0) with false by lia.
    assert ((d + base * value_le base t) mod base = d) as ->.
    { rewrite Z.mul_comm, Z_mod_plus_full. apply Z.mod_small. assumption. }
    assert ((d + base * value_le base t) / base = value_le base t) as ->.
    { rewrite Z.mul_comm, Z.div_add by lia. rewrite Z.div_small by assumption. lia. }
    f_equal. apply IH; [assumption|]. rewrite pow2S in Hf. nia.
Qed.

Lemma digits_le_length k : forall f n, n < base ^ Z.of_nat k -> (length (digits_le base f n) <= k)%nat.
Proof.
  induction k as [|k IH]; intros f n Hn.
  - change (base ^ Z.of_nat 0) with 1 in Hn. destruct f; cbn [digits_le]; [simpl; lia|].
    replace (n <=? 0) with true by lia. simpl. lia.
  - destruct f as [|f]; cbn [digits_le]; [simpl; lia|]. case_if; [simpl; lia|].
    cbn [length]. apply le_n_S. apply IH.
    rewrite Nat2Z.inj_succ, Z.pow_succ_r in Hn by lia.
    apply Z.div_lt_upper_bound; lia.
Qed.

Lemma value_le_app a b :
  value_le base (a ++ b) = value_le base a + base ^ Z.of_nat (length a) * value_le base b.
Proof.
  induction a as [|d t IH]; [cbn [app length value_le]; change (base ^ Z.of_nat 0) with 1; lia|].
  cbn [app length value_le]. rewrite IH, Nat2Z.inj_succ, Z.pow_succ_r by lia. ring.
Qed.

Lemma value_le_zeros l : Forall (fun d => d = 0) l -> value_le base l = 0.
Proof. induction 1 as [|d t Hd Ht IH]; cbn [value_le]; [reflexivity|]. rewrite IH. lia. Qed.

Lemma canon_le_snoc m x : canon_le base (m ++ [x]) <-> digits_ok base m /\ 0 <= x < base /\ x <> 0.
Proof.
  induction m as [|d t IH]; cbn [app canon_le].
  - split.
    + intros (Hx & _ & Hz). split; [constructor|]. split; [assumption|]. apply Hz. reflexivity.
    + intros (_ & Hx & Hz). split; [assumption|]. split; [exact I|]. intros _. assumption.
  - rewrite IH. split.
    + intros (Hd & (Ht & Hx & Hz) & _). split; [constructor; assumption|]. split; assumption.
    + intros (Hdt & Hx & Hz). inv Hdt. split; [assumption|]. split; [split; [assumption|split; assumption]|].
      intros E. destruct t; discriminate E.
Qed.

Lemma canon_le_rev l : canon_le base (rev l) <-> canon_be base l.
Proof.
  unfold canon_be. destruct l as [|x t].
  - simpl. split; [intros _; split; [constructor|exact I]|intros _; exact I].
  - cbn [rev no_lead]. rewrite canon_le_snoc. unfold digits_ok. split.
    + intros (Ht & Hx & Hz). split; [|assumption]. constructor; [assumption|].
      rewrite <- (rev_involutive t). apply Forall_rev. assumption.
    + intros (Hxt & Hz). inv Hxt. split; [apply Forall_rev; assumption|]. split; assumption.
Qed.

(* ---- big-endian forms ---- *)
Lemma digits_be_canon n : 0 <= n -> canon_be base (digits_be base n).
Proof.
  intros Hn. apply canon_le_rev. unfold digits_be. rewrite rev_involutive.
  apply digits_le_canon. apply digit_fuel_ok. assumption.
Qed.

Lemma value_digits_be n : 0 <= n -> value_be base (digits_be base n) = n.
Proof.
  intros Hn. unfold value_be, digits_be. rewrite rev_involutive.
  apply value_digits_le. split; [assumption|apply digit_fuel_ok; assumption].
Qed.

Lemma value_be_nonneg l : digits_ok base l -> 0 <= value_be base l.
Proof. intros H. apply value_le_nonneg. apply Forall_rev. assumption. Qed.

Lemma digits_value_be l : canon_be base l -> digits_be base (value_be base l) = l.
Proof.
  intros Hc. unfold digits_be, value_be.
  rewrite digits_value_le; [apply rev_involutive|apply canon_le_rev; assumption|].
  apply digit_fuel_ok. apply value_le_nonneg. apply Forall_rev. apply Hc.
Qed.

Lemma digits_be_nil_iff n : 0 <= n -> (digits_be base n = [] <-> n = 0).
Proof.
  intros Hn. split.
  - intros E. rewrite <- (value_digits_be n Hn), E. reflexivity.
  - intros ->. reflexivity.
Qed.

Lemma value_be_app a b :
  value_be base (a ++ b) = value_be base a * base ^ Z.of_nat (length b) + value_be base b.
Proof. unfold value_be. rewrite rev_app_distr, value_le_app, rev_length. lia. Qed.

Lemma value_be_zeros k : value_be base (repeat 0 k) = 0.
Proof.
  unfold value_be. apply value_le_zeros. apply Forall_rev. apply Forall_repeat. reflexivity.
Qed.

Lemma value_be_lead_zeros k l : value_be base (repeat 0 k ++ l) = value_be base l.
Proof. rewrite value_be_app, value_be_zeros. lia. Qed.

Lemma value_be_strip l : value_be base (strip_leading 0 l) = value_be base l.
Proof. rewrite (leading_split 0 l) at 2. now rewrite value_be_lead_zeros. Qed.

(* digits of n * base^t: t trailing zero digits *)
Lemma digits_be_shift n t : 0 < n ->
  digits_be base (n * base ^ Z.of_nat t) = digits_be base n ++ repeat 0 t.
Proof.
  intros Hn. pose proof (digits_be_canon n ltac:(lia)) as [Hok Hnl].
  assert (value_be base (digits_be base n ++ repeat 0 t) = n * base ^ Z.of_nat t) as Hv.
  { rewrite value_be_app, value_be_zeros, repeat_length, value_digits_be by lia. lia. }
  rewrite <- Hv. apply digits_value_be. split.
  - apply Forall_app. split; [assumption|]. apply Forall_repeat. lia.
  - destruct (digits_be base n) as [|x r] eqn:E; [|exact Hnl].
    apply digits_be_nil_iff in E; lia.
Qed.

Lemma digits_be_length n k : n < base ^ Z.of_nat k -> (length (digits_be base n) <= k)%nat.
Proof. intros H. unfold digits_be. rewrite rev_length. apply digits_le_length. assumption. Qed.

End Base.
