(* Proofs about Codec/TxCodec.v: for every type T of the transaction / block wire format
     T_wf            the values the decoder can return,
     T_decode_encode codec_ok T_wf write_T read_T      (decode (encode v) ++ rest = v, rest),
     T_good          everything accepted from well-formed bytes is T_wf, leaves well-formed bytes, and its
                     canonical re-encoding is not longer than what was consumed (=> T_decode_wf, T_minimal),
     T_consumes      a successful decode consumes at least one byte,
     T_canonical     re-encoding an accepted value decodes to the same value,
     write_T_ok      the encoding of a T_wf value consists of bytes.
   Then the whole-buffer statements about transactions, headers and blocks. *)
From NG Require Import Common.Tactics Codec.Bigint Codec.BigintProofs Codec.Wire Codec.WireProofs Codec.TxCodec.
Open Scope Z_scope.

(* ================= generic notions ================= *)
(* the canonical encoding of what was decoded is never longer than the bytes consumed *)
Definition dec_min {A} (w : A -> list Z) (d : dec A) : Prop :=
  forall bs v rest, bytes_ok bs -> d bs = Some (v, rest) -> (length (w v) + length rest <= length bs)%nat.
(* dec_wf and dec_min together (proved in one pass per decoder) *)
Definition dec_good {A} (wf : A -> Prop) (w : A -> list Z) (d : dec A) : Prop :=
  forall bs v rest, bytes_ok bs -> d bs = Some (v, rest) ->
    wf v /\ bytes_ok rest /\ (length (w v) + length rest <= length bs)%nat.

Lemma good_wf {A} (wf : A -> Prop) w (d : dec A) : dec_good wf w d -> dec_wf wf d.
Proof. intros G bs v rest Hb H. destruct (G _ _ _ Hb H) as (? & ? & ?). auto. Qed.
Lemma good_min {A} (wf : A -> Prop) w (d : dec A) : dec_good wf w d -> dec_min w d.
Proof. intros G bs v rest Hb H. destruct (G _ _ _ Hb H) as (? & ? & ?). auto. Qed.

(* one decoding step in the encode direction: [bstep tac] rewrites the leading bind, [tac] proves what the
   first decoder returns *)
(* the final [ret v r = Some (v', rest)] of a decoder, without letting [inversion] reduce inside the value *)
Lemma ret_some {A} (a v : A) r rest : ret a r = Some (v, rest) -> v = a /\ rest = r.
Proof. intros H. inv H. auto. Qed.
Ltac inv_ret H := apply ret_some in H as [-> ->].
Ltac bstep tac := erewrite bind_ok by tac; cbv beta.

(* ---------- shrinking: syntactic proof over the decoder's structure ---------- *)
Lemma shrinks_ret {A} (a : A) : dec_shrinks (ret a).
Proof. intros bs v rest H. inv H. lia. Qed.
Lemma shrinks_fail {A} : dec_shrinks (@fail A).
Proof. intros bs v rest H. discriminate. Qed.
Lemma shrinks_bind {A B} (d : dec A) (f : A -> dec B) :
  dec_shrinks d -> (forall a, dec_shrinks (f a)) -> dec_shrinks (bind d f).
Proof.
  intros Hd Hf bs v rest H. apply bind_some in H as (a & r & Ha & H). apply Hd in Ha. apply Hf in H. lia.
Qed.
Lemma consumes_bind {A B} (d : dec A) (f : A -> dec B) :
  dec_consumes d -> (forall a, dec_shrinks (f a)) -> dec_consumes (bind d f).
Proof.
  intros Hd Hf bs v rest H. apply bind_some in H as (a & r & Ha & H). apply Hd in Ha. apply Hf in H. lia.
Qed.
Lemma shrinks_if {A} (b : bool) (d1 d2 : dec A) : dec_shrinks d1 -> dec_shrinks d2 -> dec_shrinks (if b then d1 else d2).
Proof. destruct b; auto. Qed.
Lemma read_b_shrinks : dec_shrinks read_b.
Proof. apply consumes_shrinks, read_b_consumes. Qed.
Lemma read_u_shrinks n : dec_shrinks (read_u n).
Proof. unfold read_u. apply shrinks_bind; [apply read_bytes_shrinks|intros; apply shrinks_ret]. Qed.
Lemma read_varuint_shrinks : dec_shrinks read_varuint.
Proof. apply consumes_shrinks, read_varuint_consumes. Qed.
Lemma read_varbytes_shrinks max : dec_shrinks (read_varbytes max).
Proof. apply consumes_shrinks, read_varbytes_consumes. Qed.
Lemma read_array_shrinks {A} (d : dec A) max : dec_shrinks d -> dec_shrinks (read_array d max).
Proof. intros H. apply consumes_shrinks, read_array_consumes, H. Qed.

Ltac shr_leaf := fail.
Ltac shr :=
  repeat first
    [ assumption
    | apply shrinks_ret | apply shrinks_fail
    | apply read_bytes_shrinks | apply read_b_shrinks | apply read_u_shrinks
    | apply read_varuint_shrinks | apply read_varbytes_shrinks
    | apply read_n_shrinks | apply read_array_shrinks
    | shr_leaf
    | apply shrinks_if
    | (apply shrinks_bind; [|intros ?])
    | progress cbv zeta ].

(* ---------- primitives, decode direction, with the length bookkeeping ---------- *)
Lemma read_b_good bs b rest : bytes_ok bs -> read_b bs = Some (b, rest) ->
  0 <= b < 256 /\ bytes_ok rest /\ length bs = S (length rest).
Proof. intros Hb H. apply read_b_some in H as ->. inv Hb. auto. Qed.
Lemma read_bytes_good n bs a rest : bytes_ok bs -> read_bytes n bs = Some (a, rest) ->
  length a = n /\ bytes_ok a /\ bytes_ok rest /\ length bs = (n + length rest)%nat.
Proof.
  intros Hb H. apply read_bytes_some in H as [-> Hl]. apply bytes_ok_app in Hb as [Ha Hr].
  rewrite app_length. auto with zarith.
Qed.
Lemma read_u_good n bs v rest : bytes_ok bs -> read_u n bs = Some (v, rest) ->
  0 <= v < 2 ^ (8 * Z.of_nat n) /\ bytes_ok rest /\ length bs = (n + length rest)%nat.
Proof.
  intros Hb H. destruct (read_u_some _ _ _ _ Hb H) as (Hv & -> & Hr).
  rewrite app_length, le_bytes_length. auto.
Qed.
Lemma read_varuint_good bs v rest : bytes_ok bs -> read_varuint bs = Some (v, rest) ->
  0 <= v < 2 ^ 64 /\ bytes_ok rest /\ (length (write_varuint v) + length rest <= length bs)%nat.
Proof.
  intros Hb H. destruct (read_varuint_some _ _ _ Hb H) as (Hv & Hr & _).
  pose proof (varuint_minimal _ _ _ Hb H). auto.
Qed.
Lemma read_varbytes_good max bs b rest : bytes_ok bs -> read_varbytes max bs = Some (b, rest) ->
  Z.of_nat (length b) <= max /\ bytes_ok b /\ bytes_ok rest /\
  (length (write_varbytes b) + length rest <= length bs)%nat.
Proof.
  intros Hb H. unfold read_varbytes in H. apply bind_some in H as (n & r & Hn & H).
  destruct (read_varuint_good _ _ _ Hb Hn) as (Hn0 & Hr & Hmin).
  case_if_in H; [discriminate|]. destruct (read_bytes_good _ _ _ _ Hr H) as (Hl & Hbb & Hrest & Hlen).
  assert (Z.of_nat (length b) = n) as E by (rewrite Hl; lia). unfold write_varbytes. rewrite app_length, E.
  repeat split; try assumption; lia.
Qed.
Lemma varbytes_good max : dec_good (fun b => Z.of_nat (length b) <= max /\ bytes_ok b) write_varbytes (read_varbytes max).
Proof. intros bs b rest Hb H. apply read_varbytes_good in H; tauto. Qed.

Lemma read_n_good {A} (wf : A -> Prop) w (d : dec A) :
  dec_good wf w d -> forall n bs l rest, bytes_ok bs -> read_n d n bs = Some (l, rest) ->
  Forall wf l /\ length l = n /\ bytes_ok rest /\ (length (write_list w l) + length rest <= length bs)%nat.
Proof.
  intros G n. induction n as [|n IH]; intros bs l rest Hb H; cbn [read_n] in H.
  - inv H. cbn. auto.
  - apply bind_some in H as (x & r & Hx & H). apply bind_some in H as (t & r' & Ht & H). inv H.
    destruct (G _ _ _ Hb Hx) as (Hwx & Hr & Hm). destruct (IH _ _ _ Hr Ht) as (Hf & Hl & Hr' & Hm').
    cbn [write_list flat_map length]. fold (write_list w t). rewrite app_length.
    repeat split; [constructor; assumption|lia|assumption|lia].
Qed.
Lemma read_array_good {A} (wf : A -> Prop) w (d : dec A) max :
  dec_good wf w d -> forall bs l rest, bytes_ok bs -> read_array d max bs = Some (l, rest) ->
  Forall wf l /\ Z.of_nat (length l) <= max /\ bytes_ok rest /\
  (length (write_array w l) + length rest <= length bs)%nat.
Proof.
  intros G bs l rest Hb H. unfold read_array in H. apply bind_some in H as (n & r & Hn & H).
  destruct (read_varuint_good _ _ _ Hb Hn) as (Hn0 & Hr & Hmin).
  case_if_in H; [discriminate|]. destruct (read_n_good wf w d G _ _ _ _ Hr H) as (Hf & Hl & Hrest & Hm).
  assert (Z.of_nat (length l) = n) as E by (rewrite Hl; lia). unfold write_array. rewrite app_length, E.
  repeat split; try assumption; lia.
Qed.
(* any property of the elements, without the well-formedness of the input *)
Lemma read_n_forall {A} (P : A -> Prop) (d : dec A) :
  (forall bs v rest, d bs = Some (v, rest) -> P v) ->
  forall n bs l rest, read_n d n bs = Some (l, rest) -> Forall P l /\ length l = n.
Proof.
  intros Hd n. induction n as [|n IH]; intros bs l rest H; cbn [read_n] in H.
  - inv H. auto.
  - apply bind_some in H as (x & r & Hx & H). apply bind_some in H as (t & r' & Ht & H). inv H.
    destruct (IH _ _ _ Ht) as [Hf Hl]. split; [constructor; eauto|simpl; lia].
Qed.

Lemma write_array_ok {A} (wf : A -> Prop) (w : A -> list Z) l :
  (forall x, wf x -> bytes_ok (w x)) -> Forall wf l -> bytes_ok (write_array w l).
Proof.
  intros Hw Hf. unfold write_array. apply bytes_ok_app. split; [apply write_varuint_ok; lia|].
  apply write_list_ok. eapply Forall_impl; [|exact Hf]. exact Hw.
Qed.
Lemma bytes_ok_cons b l : 0 <= b < 256 -> bytes_ok l -> bytes_ok (b :: l).
Proof. intros. constructor; assumption. Qed.

(* 20- and 32-byte hashes *)
Definition hash_wf (n : nat) (h : list Z) : Prop := length h = n /\ bytes_ok h.
Lemma hash_codec n : codec_ok (hash_wf n) (fun h => h) (read_bytes n).
Proof. intros h rest [Hl _]. now apply read_bytes_app. Qed.
Lemma hash_good n : dec_good (hash_wf n) (fun h => h) (read_bytes n).
Proof. intros bs h rest Hb H. destruct (read_bytes_good _ _ _ _ Hb H) as (? & ? & ? & ?). unfold hash_wf. auto with zarith. Qed.

(* ================= public key ================= *)
Definition key_wf (k : key) : Prop := (kpar k = 2 \/ kpar k = 3) /\ length (kx k) = 32%nat /\ bytes_ok (kx k).

Theorem key_decode_encode : codec_ok key_wf write_key read_key.
Proof.
  intros [p x] rest (Hp & Hl & Hb). cbn [kpar kx] in *. unfold write_key, read_key. cbn [kpar kx app].
  bstep reflexivity. replace ((p =? 2) || (p =? 3)) with true by lia.
  bstep ltac:(apply read_bytes_app; exact Hl). reflexivity.
Qed.
Lemma key_wf_intro p x : (p = 2 \/ p = 3) -> length x = 32%nat -> bytes_ok x -> key_wf (Key p x).
Proof. unfold key_wf. cbn [kpar kx]. auto. Qed.
Lemma write_key_length p x : length (write_key (Key p x)) = S (length x).
Proof. reflexivity. Qed.
Lemma key_good : dec_good key_wf write_key read_key.
Proof.
  intros bs k rest Hb H. unfold read_key in H.
  apply bind_some in H as (p & r & Hp & H). destruct (read_b_good _ _ _ Hb Hp) as (Hp1 & Hr & Hlen).
  case_if_in H.
  - apply bind_some in H as (x & r1 & Hx & H). inv_ret H.
    destruct (read_bytes_good _ _ _ _ Hr Hx) as (? & ? & ? & ?).
    rewrite write_key_length. split; [apply key_wf_intro; auto; lia|]. split; [assumption|lia].
  - case_if_in H; [|discriminate].
    apply bind_some in H as (x & r1 & Hx & H). apply bind_some in H as (y & r2 & Hy & H). inv_ret H.
    destruct (read_bytes_good _ _ _ _ Hr Hx) as (? & ? & Hr1 & ?).
    destruct (read_bytes_good _ _ _ _ Hr1 Hy) as (? & ? & ? & ?).
    rewrite write_key_length. split; [apply key_wf_intro; auto; lia|]. split; [assumption|lia].
Qed.
Theorem key_decode_wf : dec_wf key_wf read_key.
Proof. exact (good_wf _ _ _ key_good). Qed.
Theorem key_minimal : dec_min write_key read_key.
Proof. exact (good_min _ _ _ key_good). Qed.
Theorem key_consumes : dec_consumes read_key.
Proof. unfold read_key. apply consumes_bind; [apply read_b_consumes|intros ?; shr]. Qed.
Lemma key_shrinks : dec_shrinks read_key.
Proof. apply consumes_shrinks, key_consumes. Qed.
Ltac shr_leaf ::= first [apply key_shrinks].
Theorem key_canonical bs k rest rest' :
  bytes_ok bs -> read_key bs = Some (k, rest) -> read_key (write_key k ++ rest') = Some (k, rest').
Proof. apply (canonical_of key_wf); [exact key_decode_encode|exact key_decode_wf]. Qed.
Theorem write_key_ok k : key_wf k -> bytes_ok (write_key k).
Proof. intros (Hp & _ & Hb). unfold write_key. apply bytes_ok_cons; [lia|exact Hb]. Qed.
(* the uncompressed form (prefix 4, 65 bytes) is accepted and re-encoded in 33 bytes *)
Example key_uncompressed_shrinks :
  let bs := 4 :: repeat 7 32 ++ repeat 9 32 in
  read_key bs = Some (Key 3 (repeat 7 32), []) /\ length bs = 65%nat
  /\ length (write_key (Key 3 (repeat 7 32))) = 33%nat /\ key_wf (Key 3 (repeat 7 32)).
Proof.
  cbv zeta. split; [vm_compute; reflexivity|]. split; [reflexivity|]. split; [reflexivity|].
  unfold key_wf; cbn [kpar kx]. split; [right; reflexivity|]. split; [reflexivity|].
  apply Forall_forall. intros b Hin. apply repeat_spec in Hin. lia.
Qed.

(* ================= witness ================= *)
Definition witness_wf (w : witness) : Prop :=
  Z.of_nat (length (winv w)) <= 1024 /\ bytes_ok (winv w) /\ Z.of_nat (length (wver w)) <= 1024 /\ bytes_ok (wver w).

Theorem witness_decode_encode : codec_ok witness_wf write_witness read_witness.
Proof.
  intros [i v] rest (Hi & _ & Hv & _). cbn [winv wver] in *. unfold write_witness, read_witness. cbn [winv wver].
  rewrite <- app_assoc.
  bstep ltac:(apply varbytes_roundtrip; lia). bstep ltac:(apply varbytes_roundtrip; lia). reflexivity.
Qed.
Lemma witness_good : dec_good witness_wf write_witness read_witness.
Proof.
  intros bs w rest Hb H. unfold read_witness in H.
  apply bind_some in H as (i & r & Hi & H). apply bind_some in H as (v & r1 & Hv & H). inv_ret H.
  destruct (read_varbytes_good _ _ _ _ Hb Hi) as (? & ? & Hr & ?).
  destruct (read_varbytes_good _ _ _ _ Hr Hv) as (? & ? & ? & ?).
  unfold witness_wf, write_witness; cbn [winv wver]. rewrite app_length. repeat split; auto; lia.
Qed.
Theorem witness_decode_wf : dec_wf witness_wf read_witness.
Proof. exact (good_wf _ _ _ witness_good). Qed.
Theorem witness_minimal : dec_min write_witness read_witness.
Proof. exact (good_min _ _ _ witness_good). Qed.
Theorem witness_consumes : dec_consumes read_witness.
Proof. unfold read_witness. apply consumes_bind; [apply read_varbytes_consumes|intros ?; shr]. Qed.
Lemma witness_shrinks : dec_shrinks read_witness.
Proof. apply consumes_shrinks, witness_consumes. Qed.
Ltac shr_leaf ::= first [apply key_shrinks | apply witness_shrinks].
Theorem witness_canonical bs w rest rest' :
  bytes_ok bs -> read_witness bs = Some (w, rest) -> read_witness (write_witness w ++ rest') = Some (w, rest').
Proof. apply (canonical_of witness_wf); [exact witness_decode_encode|exact witness_decode_wf]. Qed.
Theorem write_witness_ok w : witness_wf w -> bytes_ok (write_witness w).
Proof.
  intros (_ & Hi & _ & Hv). unfold write_witness. apply bytes_ok_app. split; apply write_varbytes_ok; assumption.
Qed.
(* the size used by block-size estimates equals the encoding length *)
Theorem witness_size_eq w : witness_wf w -> witness_size w = Z.of_nat (length (write_witness w)).
Proof.
  intros (Hi & _ & Hv & _). unfold witness_size, write_witness.
  rewrite app_length, Nat2Z.inj_add, !varbytes_size_eq by lia. reflexivity.
Qed.

(* ================= attributes ================= *)
Definition attr_wf (a : attr) : Prop :=
  match a with
  | AHigh => True
  | AOracle id code res =>
      0 <= id < 2 ^ 64 /\ oracle_code_ok code = true /\ Z.of_nat (length res) <= 65535 /\ bytes_ok res
      /\ (code <> 0 -> res = [])
  | ANotValidBefore h => 0 <= h < 2 ^ 32
  | AConflicts h => hash_wf 32 h
  | ANotary n => 0 <= n < 256
  | AReserved t v => 224 <= t <= 255 /\ Z.of_nat (length v) <= max_array /\ bytes_ok v
  end.

Lemma oracle_code_range c : oracle_code_ok c = true -> 0 <= c < 256.
Proof. unfold oracle_code_ok. cbn [existsb]. lia. Qed.

Theorem attr_decode_encode : codec_ok attr_wf write_attr read_attr.
Proof.
  intros a rest Hwf. destruct a as [|id code res|h|h|n|t v]; cbn [attr_wf] in Hwf;
    unfold write_attr, read_attr; cbn [attr_type app]; bstep reflexivity.
  - reflexivity.
  - destruct Hwf as (Hid & Hc & Hl & _ & He). change (17 =? 1) with false. change (17 =? 17) with true. cbv iota.
    rewrite <- !app_assoc. bstep ltac:(apply (read_u_write 8); exact Hid). cbn [app]. bstep reflexivity.
    rewrite Hc. cbn [negb]. bstep ltac:(apply varbytes_roundtrip; lia).
    destruct (code =? 0) eqn:E; cbn [negb andb]; [reflexivity|].
    rewrite He by lia. reflexivity.
  - change (32 =? 1) with false. change (32 =? 17) with false. change (32 =? 32) with true. cbv iota.
    bstep ltac:(apply (read_u_write 4); exact Hwf). reflexivity.
  - destruct Hwf as [Hl _]. change (33 =? 1) with false. change (33 =? 17) with false. change (33 =? 32) with false.
    change (33 =? 33) with true. cbv iota. bstep ltac:(apply read_bytes_app; exact Hl). reflexivity.
  - change (34 =? 1) with false. change (34 =? 17) with false. change (34 =? 32) with false.
    change (34 =? 33) with false. change (34 =? 34) with true. cbv iota. cbn [app]. bstep reflexivity. reflexivity.
  - destruct Hwf as (Ht & Hl & _).
    replace (t =? 1) with false by lia. replace (t =? 17) with false by lia. replace (t =? 32) with false by lia.
    replace (t =? 33) with false by lia. replace (t =? 34) with false by lia.
    replace ((224 <=? t) && (t <=? 255)) with true by lia.
    bstep ltac:(apply varbytes_roundtrip; unfold max_array in *; lia). reflexivity.
Qed.
Lemma attr_good : dec_good attr_wf write_attr read_attr.
Proof.
  intros bs a rest Hb H. unfold read_attr in H.
  apply bind_some in H as (t & r & Ht & H). destruct (read_b_good _ _ _ Hb Ht) as (Ht1 & Hr & Hlen).
  case_if_in H.
  { inv_ret H. cbn [attr_wf write_attr attr_type length]. repeat split; auto; lia. }
  case_if_in H.
  { apply bind_some in H as (id & r1 & Hid & H). apply bind_some in H as (code & r2 & Hcode & H).
    destruct (read_u_good _ _ _ _ Hr Hid) as (Hid1 & Hr1 & Hlen1).
    destruct (read_b_good _ _ _ Hr1 Hcode) as (Hc1 & Hr2 & Hlen2).
    destruct (oracle_code_ok code) eqn:Hc; cbn [negb] in H; [|discriminate].
    apply bind_some in H as (res & r3 & Hres & H).
    destruct (read_varbytes_good _ _ _ _ Hr2 Hres) as (Hl & Hbres & Hr3 & Hmin).
    case_if_in H; [discriminate|]. inv_ret H.
    cbn [attr_wf write_attr attr_type length]. rewrite !app_length, le_bytes_length. cbn [length].
    change (8 * Z.of_nat 8) with 64 in Hid1.
    repeat split; auto; try lia.
    intros Hne. destruct res; [reflexivity|]. cbn [length] in *. lia. }
  case_if_in H.
  { apply bind_some in H as (h & r1 & Hh & H). inv_ret H. destruct (read_u_good _ _ _ _ Hr Hh) as (Hh1 & Hr1 & Hlen1).
    cbn [attr_wf write_attr attr_type length]. rewrite le_bytes_length. change (8 * Z.of_nat 4) with 32 in Hh1.
    repeat split; auto; lia. }
  case_if_in H.
  { apply bind_some in H as (h & r1 & Hh & H). inv_ret H. destruct (read_bytes_good _ _ _ _ Hr Hh) as (? & ? & ? & ?).
    cbn [attr_wf write_attr attr_type length]. unfold hash_wf. repeat split; auto; lia. }
  case_if_in H.
  { apply bind_some in H as (n & r1 & Hn & H). inv_ret H. destruct (read_b_good _ _ _ Hr Hn) as (? & ? & ?).
    cbn [attr_wf write_attr attr_type length]. repeat split; auto; lia. }
  case_if_in H; [|discriminate].
  apply bind_some in H as (v & r1 & Hv & H). inv_ret H. destruct (read_varbytes_good _ _ _ _ Hr Hv) as (? & ? & ? & ?).
  cbn [attr_wf write_attr attr_type length]. repeat split; auto; lia.
Qed.
Theorem attr_decode_wf : dec_wf attr_wf read_attr.
Proof. exact (good_wf _ _ _ attr_good). Qed.
Theorem attr_minimal : dec_min write_attr read_attr.
Proof. exact (good_min _ _ _ attr_good). Qed.
Theorem attr_consumes : dec_consumes read_attr.
Proof. unfold read_attr. apply consumes_bind; [apply read_b_consumes|intros ?; shr]. Qed.
Lemma attr_shrinks : dec_shrinks read_attr.
Proof. apply consumes_shrinks, attr_consumes. Qed.
Ltac shr_leaf ::= first [apply key_shrinks | apply witness_shrinks | apply attr_shrinks].
Theorem attr_canonical bs a rest rest' :
  bytes_ok bs -> read_attr bs = Some (a, rest) -> read_attr (write_attr a ++ rest') = Some (a, rest').
Proof. apply (canonical_of attr_wf); [exact attr_decode_encode|exact attr_decode_wf]. Qed.
Theorem write_attr_ok a : attr_wf a -> bytes_ok (write_attr a).
Proof.
  intros Hwf. destruct a as [|id code res|h|h|n|t v]; cbn [attr_wf] in Hwf; unfold write_attr; cbn [attr_type];
    apply bytes_ok_cons; try lia.
  - constructor.
  - destruct Hwf as (_ & Hc & _ & Hres & _). apply oracle_code_range in Hc.
    apply bytes_ok_app; split; [apply le_bytes_ok|]. apply bytes_ok_app; split; [repeat constructor; lia|].
    apply write_varbytes_ok, Hres.
  - apply le_bytes_ok.
  - apply Hwf.
  - repeat constructor; lia.
  - apply write_varbytes_ok, Hwf.
Qed.

(* ================= witness conditions ================= *)
(* [cond_wf d c]: c is accepted with nesting budget d (every constructor, leaves included, uses one level) *)
Fixpoint cond_wf (d : nat) (c : cond) : Prop :=
  match d with
  | O => False
  | S d' =>
      match c with
      | CBool _ => True
      | CNot c' => cond_wf d' c'
      | CAnd l | COr l => (1 <= length l <= 16)%nat /\ Forall (cond_wf d') l
      | CScriptHash h | CCalledByContract h => hash_wf 20 h
      | CGroup k | CCalledByGroup k => key_wf k
      | CCalledByEntry => True
      end
  end.

Fixpoint cond_depth (c : cond) : nat :=
  match c with
  | CNot c' => S (cond_depth c')
  | CAnd l | COr l =>
      S ((fix dl (l : list cond) : nat := match l with [] => O | x :: t => Nat.max (cond_depth x) (dl t) end) l)
  | _ => 1%nat
  end.
Definition conds_depth (l : list cond) : nat := fold_right (fun x acc => Nat.max (cond_depth x) acc) O l.
Lemma cond_depth_And l : cond_depth (CAnd l) = S (conds_depth l).
Proof. reflexivity. Qed.
Lemma cond_depth_Or l : cond_depth (COr l) = S (conds_depth l).
Proof. reflexivity. Qed.
Lemma conds_depth_le d l : Forall (fun c => (cond_depth c <= d)%nat) l -> (conds_depth l <= d)%nat.
Proof. induction 1 as [|x t Hx Ht IH]; cbn [conds_depth fold_right]; [lia|]. fold (conds_depth t). lia. Qed.

Lemma write_cond_And l : write_cond (CAnd l) = 2 :: write_varuint (Z.of_nat (length l)) ++ write_list write_cond l.
Proof. reflexivity. Qed.
Lemma write_cond_Or l : write_cond (COr l) = 3 :: write_varuint (Z.of_nat (length l)) ++ write_list write_cond l.
Proof. reflexivity. Qed.

(* the decoder by tag *)
Lemma read_cond_0 d r : read_cond (S d) (0 :: r) = (b <- read_bool ;; ret (CBool b)) r.
Proof. reflexivity. Qed.
Lemma read_cond_1 d r : read_cond (S d) (1 :: r) = (c <- read_cond d ;; ret (CNot c)) r.
Proof. reflexivity. Qed.
Lemma read_cond_2 d r : read_cond (S d) (2 :: r) = (l <- read_cond_array (read_cond d) ;; ret (CAnd l)) r.
Proof. reflexivity. Qed.
Lemma read_cond_3 d r : read_cond (S d) (3 :: r) = (l <- read_cond_array (read_cond d) ;; ret (COr l)) r.
Proof. reflexivity. Qed.
Lemma read_cond_24 d r : read_cond (S d) (24 :: r) = (h <- read_bytes 20 ;; ret (CScriptHash h)) r.
Proof. reflexivity. Qed.
Lemma read_cond_25 d r : read_cond (S d) (25 :: r) = (k <- read_key ;; ret (CGroup k)) r.
Proof. reflexivity. Qed.
Lemma read_cond_32 d r : read_cond (S d) (32 :: r) = Some (CCalledByEntry, r).
Proof. reflexivity. Qed.
Lemma read_cond_40 d r : read_cond (S d) (40 :: r) = (h <- read_bytes 20 ;; ret (CCalledByContract h)) r.
Proof. reflexivity. Qed.
Lemma read_cond_41 d r : read_cond (S d) (41 :: r) = (k <- read_key ;; ret (CCalledByGroup k)) r.
Proof. reflexivity. Qed.

Lemma cond_array_roundtrip (wf : cond -> Prop) (d : dec cond) l rest :
  codec_ok wf write_cond d -> (1 <= length l <= 16)%nat -> Forall wf l ->
  read_cond_array d (write_varuint (Z.of_nat (length l)) ++ write_list write_cond l ++ rest) = Some (l, rest).
Proof.
  intros Hc Hl Hf. unfold read_cond_array.
  bstep ltac:(apply varuint_roundtrip; unfold u64_ok; lia).
  replace (Z.of_nat (length l) =? 0) with false by lia.
  replace (max_subitems <? Z.of_nat (length l)) with false by (unfold max_subitems; lia).
  rewrite Nat2Z.id. eapply read_n_write; eauto.
Qed.
Lemma cond_array_good (wf : cond -> Prop) (d : dec cond) :
  dec_good wf write_cond d -> forall bs l rest, bytes_ok bs -> read_cond_array d bs = Some (l, rest) ->
  Forall wf l /\ (1 <= length l <= 16)%nat /\ bytes_ok rest /\
  (length (write_varuint (Z.of_nat (length l)) ++ write_list write_cond l) + length rest <= length bs)%nat.
Proof.
  intros G bs l rest Hb H. unfold read_cond_array in H. apply bind_some in H as (n & r & Hn & H).
  destruct (read_varuint_good _ _ _ Hb Hn) as (Hn0 & Hr & Hmin).
  case_if_in H; [discriminate|]. case_if_in H; [discriminate|].
  destruct (read_n_good wf write_cond d G _ _ _ _ Hr H) as (Hf & Hl & Hrest & Hm).
  assert (Z.of_nat (length l) = n) as E by (rewrite Hl; lia). rewrite app_length, E.
  unfold max_subitems in *. repeat split; try assumption; lia.
Qed.
Lemma cond_array_shrinks (d : dec cond) : dec_shrinks d -> dec_shrinks (read_cond_array d).
Proof. intros H. unfold read_cond_array. shr. Qed.

Theorem cond_decode_encode d : codec_ok (cond_wf d) write_cond (read_cond d).
Proof.
  induction d as [|d IH]; intros c rest Hwf; [destruct Hwf|].
  destruct c as [b|c|l|l|h|k| |h|k]; cbn [cond_wf] in Hwf.
  - cbn [write_cond app]. rewrite read_cond_0. bstep ltac:(apply read_bool_write). reflexivity.
  - cbn [write_cond app]. rewrite read_cond_1. bstep ltac:(apply IH; exact Hwf). reflexivity.
  - destruct Hwf as [Hl Hf]. rewrite write_cond_And. cbn [app]. rewrite <- app_assoc. rewrite read_cond_2.
    bstep ltac:(apply (cond_array_roundtrip (cond_wf d)); [exact IH|exact Hl|exact Hf]). reflexivity.
  - destruct Hwf as [Hl Hf]. rewrite write_cond_Or. cbn [app]. rewrite <- app_assoc. rewrite read_cond_3.
    bstep ltac:(apply (cond_array_roundtrip (cond_wf d)); [exact IH|exact Hl|exact Hf]). reflexivity.
  - cbn [write_cond app]. rewrite read_cond_24. bstep ltac:(apply read_bytes_app; apply Hwf). reflexivity.
  - cbn [write_cond app]. rewrite read_cond_25. bstep ltac:(apply key_decode_encode; exact Hwf). reflexivity.
  - cbn [write_cond app]. apply read_cond_32.
  - cbn [write_cond app]. rewrite read_cond_40. bstep ltac:(apply read_bytes_app; apply Hwf). reflexivity.
  - cbn [write_cond app]. rewrite read_cond_41. bstep ltac:(apply key_decode_encode; exact Hwf). reflexivity.
Qed.

Lemma cond_good d : dec_good (cond_wf d) write_cond (read_cond d).
Proof.
  induction d as [|d IH]; intros bs c rest Hb H; [discriminate|].
  cbn [read_cond] in H. apply bind_some in H as (t & r & Ht & H).
  destruct (read_b_good _ _ _ Hb Ht) as (Ht1 & Hr & Hlen).
  case_if_in H.
  { apply bind_some in H as (b & r1 & Hb1 & H). inv_ret H. apply read_bool_some in Hb1. subst r.
    cbn [cond_wf write_cond]. apply bytes_ok_app in Hr as [_ Hr]. rewrite app_length in Hlen. cbn [length] in *.
    repeat split; auto; lia. }
  case_if_in H.
  { apply bind_some in H as (c' & r1 & Hc & H). inv_ret H. destruct (IH _ _ _ Hr Hc) as (? & ? & ?).
    cbn [cond_wf write_cond length]. repeat split; auto; lia. }
  case_if_in H.
  { apply bind_some in H as (l & r1 & Hl & H). inv_ret H.
    destruct (cond_array_good _ _ IH _ _ _ Hr Hl) as (? & ? & ? & ?).
    rewrite write_cond_And. cbn [cond_wf length]. repeat split; auto; lia. }
  case_if_in H.
  { apply bind_some in H as (l & r1 & Hl & H). inv_ret H.
    destruct (cond_array_good _ _ IH _ _ _ Hr Hl) as (? & ? & ? & ?).
    rewrite write_cond_Or. cbn [cond_wf length]. repeat split; auto; lia. }
  case_if_in H.
  { apply bind_some in H as (h & r1 & Hh & H). inv_ret H. destruct (read_bytes_good _ _ _ _ Hr Hh) as (? & ? & ? & ?).
    cbn [cond_wf write_cond length]. unfold hash_wf. repeat split; auto; lia. }
  case_if_in H.
  { apply bind_some in H as (k & r1 & Hk & H). inv_ret H. destruct (key_good _ _ _ Hr Hk) as (? & ? & ?).
    cbn [cond_wf write_cond length]. split; [assumption|]. split; [assumption|lia]. }
  case_if_in H.
  { inv_ret H. cbn [cond_wf write_cond length]. repeat split; auto; lia. }
  case_if_in H.
  { apply bind_some in H as (h & r1 & Hh & H). inv_ret H. destruct (read_bytes_good _ _ _ _ Hr Hh) as (? & ? & ? & ?).
    cbn [cond_wf write_cond length]. unfold hash_wf. repeat split; auto; lia. }
  case_if_in H; [|discriminate].
  apply bind_some in H as (k & r1 & Hk & H). inv_ret H. destruct (key_good _ _ _ Hr Hk) as (? & ? & ?).
  cbn [cond_wf write_cond length]. split; [assumption|]. split; [assumption|lia].
Qed.
Theorem cond_decode_wf d : dec_wf (cond_wf d) (read_cond d).
Proof. exact (good_wf _ _ _ (cond_good d)). Qed.
Theorem cond_minimal d : dec_min write_cond (read_cond d).
Proof. exact (good_min _ _ _ (cond_good d)). Qed.
Lemma cond_shrinks d : dec_shrinks (read_cond d).
Proof.
  induction d as [|d IH]; [apply shrinks_fail|]. cbn [read_cond].
  pose proof (cond_array_shrinks _ IH). shr.
Qed.
Theorem cond_consumes d : dec_consumes (read_cond d).
Proof.
  destruct d as [|d]; [intros bs v rest H; discriminate|]. cbn [read_cond].
  pose proof (cond_shrinks d) as IH. pose proof (cond_array_shrinks _ IH).
  apply consumes_bind; [apply read_b_consumes|intros ?; shr].
Qed.
Ltac shr_leaf ::= first [apply key_shrinks | apply witness_shrinks | apply attr_shrinks | apply cond_shrinks].
Theorem cond_canonical d bs c rest rest' :
  bytes_ok bs -> read_cond d bs = Some (c, rest) -> read_cond d (write_cond c ++ rest') = Some (c, rest').
Proof. apply (canonical_of (cond_wf d)); [exact (cond_decode_encode d)|exact (cond_decode_wf d)]. Qed.
Theorem write_cond_ok d c : cond_wf d c -> bytes_ok (write_cond c).
Proof.
  revert c. induction d as [|d IH]; intros c Hwf; [destruct Hwf|].
  destruct c as [b|c|l|l|h|k| |h|k]; cbn [cond_wf] in Hwf.
  - cbn [write_cond write_bool]. destruct b; repeat constructor; lia.
  - cbn [write_cond]. apply bytes_ok_cons; [lia|]. apply IH, Hwf.
  - rewrite write_cond_And. apply bytes_ok_cons; [lia|]. apply (write_array_ok (cond_wf d)); [exact IH|apply Hwf].
  - rewrite write_cond_Or. apply bytes_ok_cons; [lia|]. apply (write_array_ok (cond_wf d)); [exact IH|apply Hwf].
  - cbn [write_cond]. apply bytes_ok_cons; [lia|apply Hwf].
  - cbn [write_cond]. apply bytes_ok_cons; [lia|apply write_key_ok, Hwf].
  - repeat constructor; lia.
  - cbn [write_cond]. apply bytes_ok_cons; [lia|apply Hwf].
  - cbn [write_cond]. apply bytes_ok_cons; [lia|apply write_key_ok, Hwf].
Qed.

(* the nesting budget bounds the depth of whatever is accepted (no assumption on the input) *)
Theorem cond_depth_bound d bs c rest : read_cond d bs = Some (c, rest) -> (cond_depth c <= d)%nat.
Proof.
  revert bs c rest. induction d as [|d IH]; intros bs c rest H; [discriminate|].
  assert (forall bs l rest, read_cond_array (read_cond d) bs = Some (l, rest) -> (conds_depth l <= d)%nat) as HA.
  { intros bs' l rest' Hl. unfold read_cond_array in Hl. apply bind_some in Hl as (n & r & _ & Hl).
    case_if_in Hl; [discriminate|]. case_if_in Hl; [discriminate|].
    apply (read_n_forall (fun c => (cond_depth c <= d)%nat)) in Hl; [|exact IH]. apply conds_depth_le, Hl. }
  cbn [read_cond] in H. apply bind_some in H as (t & r & _ & H).
  repeat case_if_in H; try discriminate;
    try (apply bind_some in H as (x & r1 & Hx & H)); inv_ret H; try (cbn [cond_depth]; lia).
  - apply IH in Hx. cbn [cond_depth]. lia.
  - apply HA in Hx. rewrite cond_depth_And. lia.
  - apply HA in Hx. rewrite cond_depth_Or. lia.
Qed.
Lemma cond_wf_depth d c : cond_wf d c -> (cond_depth c <= d)%nat.
Proof.
  intros H. apply (cond_depth_bound d (write_cond c ++ []) c []). now apply cond_decode_encode.
Qed.
(* a concrete 4-level condition is rejected, the 3-level one is accepted *)
Example cond_depth_limit :
  read_cond max_nesting (write_cond (CNot (CNot (CNot (CBool true))))) = None
  /\ cond_depth (CNot (CNot (CNot (CBool true)))) = 4%nat
  /\ read_cond max_nesting (write_cond (CNot (CNot (CBool true)))) = Some (CNot (CNot (CBool true)), [])
  /\ read_cond max_nesting (write_cond (CAnd [COr [CBool true]; CCalledByEntry])) = Some (CAnd [COr [CBool true]; CCalledByEntry], [])
  /\ read_cond max_nesting (write_cond (CAnd [COr [CNot CCalledByEntry]])) = None.
Proof. repeat split; vm_compute; reflexivity. Qed.
Example cond_wf_ex : cond_wf max_nesting (CAnd [CNot (CBool false); CCalledByEntry]).
Proof. cbn. repeat split; try lia. repeat constructor. Qed.

(* ================= witness rule ================= *)
Definition rule_wf (r : rule) : Prop := (raction r = 0 \/ raction r = 1) /\ cond_wf max_nesting (rcond r).

Theorem rule_decode_encode : codec_ok rule_wf write_rule read_rule.
Proof.
  intros [a c] rest [Ha Hc]. cbn [raction rcond] in *. unfold write_rule, read_rule. cbn [raction rcond app].
  bstep reflexivity. replace ((a =? 0) || (a =? 1)) with true by lia.
  bstep ltac:(apply cond_decode_encode; exact Hc). reflexivity.
Qed.
Lemma rule_good : dec_good rule_wf write_rule read_rule.
Proof.
  intros bs v rest Hb H. unfold read_rule in H. apply bind_some in H as (a & r & Ha & H).
  destruct (read_b_good _ _ _ Hb Ha) as (Ha1 & Hr & Hlen). case_if_in H; [|discriminate].
  apply bind_some in H as (c & r1 & Hc & H). inv_ret H. destruct (cond_good _ _ _ _ Hr Hc) as (? & ? & ?).
  unfold rule_wf, write_rule. cbn [raction rcond length]. repeat split; auto; lia.
Qed.
Theorem rule_decode_wf : dec_wf rule_wf read_rule.
Proof. exact (good_wf _ _ _ rule_good). Qed.
Theorem rule_minimal : dec_min write_rule read_rule.
Proof. exact (good_min _ _ _ rule_good). Qed.
Theorem rule_consumes : dec_consumes read_rule.
Proof. unfold read_rule. apply consumes_bind; [apply read_b_consumes|intros ?; shr]. Qed.
Lemma rule_shrinks : dec_shrinks read_rule.
Proof. apply consumes_shrinks, rule_consumes. Qed.
Ltac shr_leaf ::= first [apply key_shrinks | apply witness_shrinks | apply attr_shrinks | apply cond_shrinks | apply rule_shrinks].
Theorem rule_canonical bs v rest rest' :
  bytes_ok bs -> read_rule bs = Some (v, rest) -> read_rule (write_rule v ++ rest') = Some (v, rest').
Proof. apply (canonical_of rule_wf); [exact rule_decode_encode|exact rule_decode_wf]. Qed.
Theorem write_rule_ok r : rule_wf r -> bytes_ok (write_rule r).
Proof. intros [Ha Hc]. unfold write_rule. apply bytes_ok_cons; [lia|]. eapply write_cond_ok, Hc. Qed.

(* ================= signer ================= *)
Definition signer_wf (s : signer) : Prop :=
  hash_wf 20 (saccount s) /\ scopes_ok (sscopes s) = true
  /\ (has (sscopes s) 16 = false -> scontracts s = []) /\ Z.of_nat (length (scontracts s)) <= 16
  /\ Forall (hash_wf 20) (scontracts s)
  /\ (has (sscopes s) 32 = false -> sgroups s = []) /\ Z.of_nat (length (sgroups s)) <= 16
  /\ Forall key_wf (sgroups s)
  /\ (has (sscopes s) 64 = false -> srules s = []) /\ Z.of_nat (length (srules s)) <= 16
  /\ Forall rule_wf (srules s).

Lemma scopes_ok_range sc : scopes_ok sc = true -> 0 <= sc < 256.
Proof. unfold scopes_ok. intros H. lia. Qed.

(* the three optional arrays: present exactly when the scope bit is set *)
Lemma opt_array_roundtrip {A} (wf : A -> Prop) w (d : dec A) (b : bool) l rest :
  codec_ok wf w d -> Forall wf l -> Z.of_nat (length l) <= 16 -> (b = false -> l = []) ->
  (if b then read_array d max_subitems else ret []) ((if b then write_array w l else []) ++ rest) = Some (l, rest).
Proof.
  intros Hc Hf Hl He. destruct b.
  - apply (array_roundtrip wf); auto; unfold max_subitems; lia.
  - rewrite He by reflexivity. reflexivity.
Qed.
Lemma opt_array_good {A} (wf : A -> Prop) w (d : dec A) (b : bool) :
  dec_good wf w d -> forall bs l rest, bytes_ok bs ->
  (if b then read_array d max_subitems else ret []) bs = Some (l, rest) ->
  Forall wf l /\ Z.of_nat (length l) <= 16 /\ (b = false -> l = []) /\ bytes_ok rest /\
  (length (if b then write_array w l else []) + length rest <= length bs)%nat.
Proof.
  intros G bs l rest Hb H. destruct b.
  - destruct (read_array_good wf w d max_subitems G _ _ _ Hb H) as (? & ? & ? & ?).
    unfold max_subitems in *. repeat split; auto. discriminate.
  - inv_ret H. cbn [length]. repeat split; auto; cbn [length]; lia.
Qed.

Theorem signer_decode_encode : codec_ok signer_wf write_signer read_signer.
Proof.
  intros [a sc cs gs rs] rest ([Ha _] & Hsc & Hc0 & Hc1 & Hc2 & Hg0 & Hg1 & Hg2 & Hr0 & Hr1 & Hr2).
  cbn [saccount sscopes scontracts sgroups srules] in *. unfold write_signer, read_signer.
  cbn [saccount sscopes scontracts sgroups srules]. rewrite <- !app_assoc.
  bstep ltac:(apply read_bytes_app; exact Ha). cbn [app]. bstep reflexivity.
  rewrite Hsc. cbn [negb].
  bstep ltac:(apply (opt_array_roundtrip (hash_wf 20)); [apply hash_codec|assumption..]).
  bstep ltac:(apply (opt_array_roundtrip key_wf); [apply key_decode_encode|assumption..]).
  rewrite <- (app_nil_r (if has sc 64 then _ else _)) at 1. rewrite <- app_assoc. cbn [app].
  bstep ltac:(apply (opt_array_roundtrip rule_wf); [apply rule_decode_encode|assumption..]).
  reflexivity.
Qed.
Lemma signer_good : dec_good signer_wf write_signer read_signer.
Proof.
  intros bs s rest Hb H. unfold read_signer in H.
  apply bind_some in H as (a & r & Ha & H). apply bind_some in H as (sc & r1 & Hsc & H).
  destruct (read_bytes_good _ _ _ _ Hb Ha) as (Ha1 & Ha2 & Hr & Hlen).
  destruct (read_b_good _ _ _ Hr Hsc) as (Hsc1 & Hr1 & Hlen1).
  destruct (scopes_ok sc) eqn:Hok; cbn [negb] in H; [|discriminate].
  apply bind_some in H as (cs & r2 & Hcs & H). apply bind_some in H as (gs & r3 & Hgs & H).
  apply bind_some in H as (rs & r4 & Hrs & H). inv_ret H.
  destruct (opt_array_good _ _ _ _ (hash_good 20) _ _ _ Hr1 Hcs) as (? & ? & ? & Hr2 & ?).
  destruct (opt_array_good _ _ _ _ key_good _ _ _ Hr2 Hgs) as (? & ? & ? & Hr3 & ?).
  destruct (opt_array_good _ _ _ _ rule_good _ _ _ Hr3 Hrs) as (? & ? & ? & Hr4 & ?).
  unfold signer_wf, write_signer, hash_wf. cbn [saccount sscopes scontracts sgroups srules].
  rewrite !app_length. cbn [length].
  split; [repeat split; assumption|]. split; [assumption|lia].
Qed.
Theorem signer_decode_wf : dec_wf signer_wf read_signer.
Proof. exact (good_wf _ _ _ signer_good). Qed.
Theorem signer_minimal : dec_min write_signer read_signer.
Proof. exact (good_min _ _ _ signer_good). Qed.
Theorem signer_consumes : dec_consumes read_signer.
Proof. unfold read_signer. apply consumes_bind; [apply read_bytes_consumes; lia|intros ?; shr]. Qed.
Lemma signer_shrinks : dec_shrinks read_signer.
Proof. apply consumes_shrinks, signer_consumes. Qed.
Ltac shr_leaf ::= first [apply key_shrinks | apply witness_shrinks | apply attr_shrinks | apply cond_shrinks
                        | apply rule_shrinks | apply signer_shrinks].
Theorem signer_canonical bs v rest rest' :
  bytes_ok bs -> read_signer bs = Some (v, rest) -> read_signer (write_signer v ++ rest') = Some (v, rest').
Proof. apply (canonical_of signer_wf); [exact signer_decode_encode|exact signer_decode_wf]. Qed.
Theorem write_signer_ok s : signer_wf s -> bytes_ok (write_signer s).
Proof.
  intros ([_ Ha] & Hsc & _ & _ & Hc & _ & _ & Hg & _ & _ & Hr). apply scopes_ok_range in Hsc. unfold write_signer.
  apply bytes_ok_app; split; [exact Ha|]. apply bytes_ok_app; split; [repeat constructor; lia|].
  apply bytes_ok_app; split.
  { case_if; [|constructor]. apply (write_array_ok (hash_wf 20)); [intros x Hx; apply Hx|exact Hc]. }
  apply bytes_ok_app; split.
  { case_if; [|constructor]. apply (write_array_ok key_wf); [exact write_key_ok|exact Hg]. }
  case_if; [|constructor]. apply (write_array_ok rule_wf); [exact write_rule_ok|exact Hr].
Qed.

(* ================= transaction ================= *)
Definition tx_hashable_wf (t : tx) : Prop :=
  tversion t = 0 /\ 0 <= tnonce t < 2 ^ 32 /\ 0 <= tsysfee t < 2 ^ 64 /\ 0 <= tnetfee t < 2 ^ 64
  /\ 0 <= tvub t < 2 ^ 32
  /\ (1 <= length (tsigners t))%nat /\ Z.of_nat (length (tsigners t)) + Z.of_nat (length (tattrs t)) <= 16
  /\ Forall signer_wf (tsigners t) /\ Forall attr_wf (tattrs t)
  /\ 1 <= Z.of_nat (length (tscript t)) <= 65535 /\ bytes_ok (tscript t)
  /\ tx_valid t = true.
Definition tx_wf (t : tx) : Prop :=
  tx_hashable_wf t /\ length (twitnesses t) = length (tsigners t) /\ Forall witness_wf (twitnesses t).
(* the hashable part read alone carries no witnesses *)
Definition tx_strip (t : tx) : tx :=
  Tx (tversion t) (tnonce t) (tsysfee t) (tnetfee t) (tvub t) (tsigners t) (tattrs t) (tscript t) [].

Lemma tx_valid_strip t : tx_valid (tx_strip t) = tx_valid t.
Proof. reflexivity. Qed.
Lemma tx_valid_facts t : tx_valid t = true ->
  tversion t = 0 /\ (1 <= length (tsigners t))%nat /\ (1 <= length (tscript t))%nat.
Proof.
  unfold tx_valid. intros H. repeat (apply andb_true_iff in H as [H ?]). lia.
Qed.
Lemma tx_hashable_wf_strip t : tx_hashable_wf t -> tx_hashable_wf (tx_strip t).
Proof. unfold tx_hashable_wf. rewrite tx_valid_strip. exact (fun H => H). Qed.

Lemma tx_hashable_decode_encode_strip t rest :
  tx_hashable_wf t -> read_tx_hashable (write_tx_hashable t ++ rest) = Some (tx_strip t, rest).
Proof.
  destruct t as [v n sf nf vub ss ats sc ws]. unfold tx_hashable_wf, tx_strip.
  cbn [tversion tnonce tsysfee tnetfee tvub tsigners tattrs tscript twitnesses].
  intros (Hv & Hn & Hsf & Hnf & Hvub & Hs1 & Hsa & Hss & Hats & Hsc & _ & Hval).
  unfold write_tx_hashable, read_tx_hashable, write_array.
  cbn [tversion tnonce tsysfee tnetfee tvub tsigners tattrs tscript twitnesses].
  rewrite <- !app_assoc. cbn [app].
  bstep reflexivity.
  bstep ltac:(apply (read_u_write 4); exact Hn).
  bstep ltac:(apply (read_u_write 8); exact Hsf).
  bstep ltac:(apply (read_u_write 8); exact Hnf).
  bstep ltac:(apply (read_u_write 4); exact Hvub).
  bstep ltac:(apply varuint_roundtrip; unfold u64_ok; lia).
  unfold max_attributes.
  replace (16 <? Z.of_nat (length ss)) with false by lia.
  replace (Z.of_nat (length ss) =? 0) with false by lia.
  rewrite Nat2Z.id.
  bstep ltac:(apply (read_n_write signer_wf); [exact signer_decode_encode|exact Hss]).
  bstep ltac:(apply varuint_roundtrip; unfold u64_ok; lia).
  replace (16 - Z.of_nat (length ss) <? Z.of_nat (length ats)) with false by lia.
  rewrite Nat2Z.id.
  bstep ltac:(apply (read_n_write attr_wf); [exact attr_decode_encode|exact Hats]).
  bstep ltac:(apply varbytes_roundtrip; lia).
  cbv zeta. change (tx_valid (Tx v n sf nf vub ss ats sc [])) with (tx_valid (Tx v n sf nf vub ss ats sc ws)).
  rewrite Hval. reflexivity.
Qed.
Theorem tx_hashable_decode_encode :
  codec_ok (fun t => tx_hashable_wf t /\ twitnesses t = []) write_tx_hashable read_tx_hashable.
Proof.
  intros t rest [Hh Hw]. rewrite tx_hashable_decode_encode_strip by exact Hh.
  destruct t as [v n sf nf vub ss ats sc ws]; cbn [twitnesses] in Hw; subst; reflexivity.
Qed.

Lemma tx_hashable_good :
  dec_good (fun t => tx_hashable_wf t /\ twitnesses t = []) write_tx_hashable read_tx_hashable.
Proof.
  intros bs t rest Hb H. unfold read_tx_hashable in H.
  apply bind_some in H as (v & r0 & Hv & H). apply bind_some in H as (n & r1 & Hn & H).
  apply bind_some in H as (sf & r2 & Hsf & H). apply bind_some in H as (nf & r3 & Hnf & H).
  apply bind_some in H as (vub & r4 & Hvub & H). apply bind_some in H as (ns & r5 & Hns & H).
  destruct (read_b_good _ _ _ Hb Hv) as (Hv1 & Hr0 & Hl0).
  destruct (read_u_good _ _ _ _ Hr0 Hn) as (Hn1 & Hr1 & Hl1). change (8 * Z.of_nat 4) with 32 in Hn1.
  destruct (read_u_good _ _ _ _ Hr1 Hsf) as (Hsf1 & Hr2 & Hl2). change (8 * Z.of_nat 8) with 64 in Hsf1.
  destruct (read_u_good _ _ _ _ Hr2 Hnf) as (Hnf1 & Hr3 & Hl3). change (8 * Z.of_nat 8) with 64 in Hnf1.
  destruct (read_u_good _ _ _ _ Hr3 Hvub) as (Hvub1 & Hr4 & Hl4). change (8 * Z.of_nat 4) with 32 in Hvub1.
  destruct (read_varuint_good _ _ _ Hr4 Hns) as (Hns1 & Hr5 & Hl5).
  unfold max_attributes in H. case_if_in H; [discriminate|]. case_if_in H; [discriminate|].
  apply bind_some in H as (ss & r6 & Hss & H). apply bind_some in H as (na & r7 & Hna & H).
  destruct (read_n_good _ _ _ signer_good _ _ _ _ Hr5 Hss) as (Hss1 & Hss2 & Hr6 & Hl6).
  destruct (read_varuint_good _ _ _ Hr6 Hna) as (Hna1 & Hr7 & Hl7).
  case_if_in H; [discriminate|].
  apply bind_some in H as (ats & r8 & Hats & H). apply bind_some in H as (sc & r9 & Hsc & H).
  destruct (read_n_good _ _ _ attr_good _ _ _ _ Hr7 Hats) as (Hats1 & Hats2 & Hr8 & Hl8).
  destruct (read_varbytes_good _ _ _ _ Hr8 Hsc) as (Hsc1 & Hsc2 & Hr9 & Hl9).
  cbv zeta in H. case_if_in H; [|discriminate]. inv_ret H. rename Heqb2 into Hval.
  destruct (tx_valid_facts _ Hval) as (Hv0 & Hs1 & Hsc0).
  cbn [tversion tsigners tscript] in Hv0, Hs1, Hsc0.
  assert (Z.of_nat (length ss) = ns) as Es by lia. assert (Z.of_nat (length ats) = na) as Ea by lia.
  unfold tx_hashable_wf, write_tx_hashable, write_array.
  cbn [tversion tnonce tsysfee tnetfee tvub tsigners tattrs tscript twitnesses].
  rewrite !app_length, !le_bytes_length, Es, Ea. cbn [length].
  split; [|split; [assumption|lia]].
  split; [|reflexivity]. repeat split; try assumption; lia.
Qed.
Theorem tx_hashable_decode_wf : dec_wf (fun t => tx_hashable_wf t /\ twitnesses t = []) read_tx_hashable.
Proof. exact (good_wf _ _ _ tx_hashable_good). Qed.
Theorem tx_hashable_minimal : dec_min write_tx_hashable read_tx_hashable.
Proof. exact (good_min _ _ _ tx_hashable_good). Qed.
Theorem tx_hashable_consumes : dec_consumes read_tx_hashable.
Proof. unfold read_tx_hashable. apply consumes_bind; [apply read_b_consumes|intros ?; shr]. Qed.
Lemma tx_hashable_shrinks : dec_shrinks read_tx_hashable.
Proof. apply consumes_shrinks, tx_hashable_consumes. Qed.
Theorem tx_hashable_canonical bs v rest rest' :
  bytes_ok bs -> read_tx_hashable bs = Some (v, rest) ->
  read_tx_hashable (write_tx_hashable v ++ rest') = Some (v, rest').
Proof.
  apply (canonical_of (fun t => tx_hashable_wf t /\ twitnesses t = []));
    [exact tx_hashable_decode_encode|exact tx_hashable_decode_wf].
Qed.
Theorem write_tx_hashable_ok t : tx_hashable_wf t -> bytes_ok (write_tx_hashable t).
Proof.
  intros (Hv & _ & _ & _ & _ & _ & _ & Hss & Hats & _ & Hsc & _). unfold write_tx_hashable.
  apply bytes_ok_app; split; [repeat constructor; lia|].
  repeat (apply bytes_ok_app; split; [apply le_bytes_ok|]).
  apply bytes_ok_app; split; [apply (write_array_ok signer_wf); [exact write_signer_ok|exact Hss]|].
  apply bytes_ok_app; split; [apply (write_array_ok attr_wf); [exact write_attr_ok|exact Hats]|].
  apply write_varbytes_ok, Hsc.
Qed.

Theorem tx_decode_encode : codec_ok tx_wf write_tx read_tx.
Proof.
  intros t rest (Hh & Hwl & Hws). unfold write_tx, read_tx, write_array. rewrite <- !app_assoc.
  bstep ltac:(apply tx_hashable_decode_encode_strip; exact Hh).
  destruct Hh as (_ & _ & _ & _ & _ & Hs1 & Hsa & _).
  destruct t as [v n sf nf vub ss ats sc ws].
  cbn [tx_strip tversion tnonce tsysfee tnetfee tvub tsigners tattrs tscript twitnesses] in *.
  bstep ltac:(apply varuint_roundtrip; unfold u64_ok; lia).
  unfold max_attributes. replace (16 <? Z.of_nat (length ws)) with false by lia.
  replace (negb (Z.of_nat (length ws) =? Z.of_nat (length ss))) with false by lia.
  rewrite Nat2Z.id.
  bstep ltac:(apply (read_n_write witness_wf); [exact witness_decode_encode|exact Hws]). reflexivity.
Qed.
Lemma tx_good : dec_good tx_wf write_tx read_tx.
Proof.
  intros bs t rest Hb H. unfold read_tx in H.
  apply bind_some in H as (t0 & r0 & Ht0 & H). apply bind_some in H as (nw & r1 & Hnw & H).
  destruct (tx_hashable_good _ _ _ Hb Ht0) as ([Hh Hw0] & Hr0 & Hl0).
  destruct (read_varuint_good _ _ _ Hr0 Hnw) as (Hnw1 & Hr1 & Hl1).
  case_if_in H; [discriminate|]. case_if_in H; [discriminate|].
  apply bind_some in H as (ws & r2 & Hws & H). inv_ret H.
  destruct (read_n_good _ _ _ witness_good _ _ _ _ Hr1 Hws) as (Hws1 & Hws2 & Hr2 & Hl2).
  assert (Z.of_nat (length ws) = nw) as Ew by lia.
  destruct t0 as [v n sf nf vub ss ats sc ws0]. cbn [twitnesses] in Hw0. subst ws0.
  cbn [tversion tnonce tsysfee tnetfee tvub tsigners tattrs tscript twitnesses] in *.
  unfold tx_wf, write_tx, write_array.
  cbn [tversion tnonce tsysfee tnetfee tvub tsigners tattrs tscript twitnesses].
  rewrite !app_length, Ew.
  change (write_tx_hashable (Tx v n sf nf vub ss ats sc ws)) with (write_tx_hashable (Tx v n sf nf vub ss ats sc [])).
  split; [|split; [assumption|lia]].
  split; [exact Hh|]. split; [lia|assumption].
Qed.
Theorem tx_decode_wf : dec_wf tx_wf read_tx.
Proof. exact (good_wf _ _ _ tx_good). Qed.
Theorem tx_minimal : dec_min write_tx read_tx.
Proof. exact (good_min _ _ _ tx_good). Qed.
Theorem tx_consumes : dec_consumes read_tx.
Proof. unfold read_tx. apply consumes_bind; [apply tx_hashable_consumes|intros ?; shr]. Qed.
Lemma tx_shrinks : dec_shrinks read_tx.
Proof. apply consumes_shrinks, tx_consumes. Qed.
Ltac shr_leaf ::= first [apply key_shrinks | apply witness_shrinks | apply attr_shrinks | apply cond_shrinks
                        | apply rule_shrinks | apply signer_shrinks | apply tx_shrinks].
Theorem tx_decode_canonical bs v rest rest' :
  bytes_ok bs -> read_tx bs = Some (v, rest) -> read_tx (write_tx v ++ rest') = Some (v, rest').
Proof. apply (canonical_of tx_wf); [exact tx_decode_encode|exact tx_decode_wf]. Qed.
Theorem write_tx_ok t : tx_wf t -> bytes_ok (write_tx t).
Proof.
  intros (Hh & _ & Hws). unfold write_tx. apply bytes_ok_app; split; [apply write_tx_hashable_ok, Hh|].
  apply (write_array_ok witness_wf); [exact write_witness_ok|exact Hws].
Qed.

(* ================= header ================= *)
Definition header_wf (sr : bool) (h : header) : Prop :=
  0 <= hversion h < 2 ^ 32 /\ hash_wf 32 (hprev h) /\ hash_wf 32 (hmerkle h)
  /\ 0 <= htime h < 2 ^ 64 /\ 0 <= hnonce h < 2 ^ 64 /\ 0 <= hindex h < 2 ^ 32 /\ 0 <= hprimary h < 256
  /\ hash_wf 20 (hnext h) /\ (if sr then hash_wf 32 (hprevstate h) else hprevstate h = [])
  /\ witness_wf (hscript h).

Lemma opt_hash_roundtrip (sr : bool) ps rest :
  (if sr then hash_wf 32 ps else ps = []) ->
  (if sr then read_bytes 32 else ret []) ((if sr then ps else []) ++ rest) = Some (ps, rest).
Proof. destruct sr; intros H; [apply read_bytes_app, H|subst; reflexivity]. Qed.
Lemma opt_hash_good (sr : bool) bs ps rest :
  bytes_ok bs -> (if sr then read_bytes 32 else ret []) bs = Some (ps, rest) ->
  (if sr then hash_wf 32 ps else ps = []) /\ bytes_ok rest /\
  (length (if sr then ps else []) + length rest <= length bs)%nat.
Proof.
  intros Hb H. destruct sr.
  - destruct (read_bytes_good _ _ _ _ Hb H) as (? & ? & ? & ?). unfold hash_wf. repeat split; auto; lia.
  - inv_ret H. cbn [length]. repeat split; auto; lia.
Qed.

Theorem header_decode_encode sr : codec_ok (header_wf sr) (write_header sr) (read_header sr).
Proof.
  intros [v p m t n i pi nx ps w] rest. unfold header_wf.
  cbn [hversion hprev hmerkle htime hnonce hindex hprimary hnext hprevstate hscript].
  intros (Hv & [Hp _] & [Hm _] & Ht & Hn & Hi & Hpi & [Hnx _] & Hps & Hw).
  unfold write_header, write_header_hashable, read_header.
  cbn [hversion hprev hmerkle htime hnonce hindex hprimary hnext hprevstate hscript].
  rewrite <- !app_assoc. cbn [app].
  bstep ltac:(apply (read_u_write 4); exact Hv).
  bstep ltac:(apply read_bytes_app; exact Hp).
  bstep ltac:(apply read_bytes_app; exact Hm).
  bstep ltac:(apply (read_u_write 8); exact Ht).
  bstep ltac:(apply (read_u_write 8); exact Hn).
  bstep ltac:(apply (read_u_write 4); exact Hi).
  bstep reflexivity.
  bstep ltac:(apply read_bytes_app; exact Hnx).
  bstep ltac:(apply opt_hash_roundtrip; exact Hps).
  bstep ltac:(apply varuint_roundtrip; unfold u64_ok; lia).
  change (negb (1 =? 1)) with false. cbv iota.
  bstep ltac:(apply witness_decode_encode; exact Hw). reflexivity.
Qed.
Lemma header_good sr : dec_good (header_wf sr) (write_header sr) (read_header sr).
Proof.
  intros bs h rest Hb H. unfold read_header in H.
  apply bind_some in H as (v & r0 & Hv & H). apply bind_some in H as (p & r1 & Hp & H).
  apply bind_some in H as (m & r2 & Hm & H). apply bind_some in H as (t & r3 & Ht & H).
  apply bind_some in H as (n & r4 & Hn & H). apply bind_some in H as (i & r5 & Hi & H).
  apply bind_some in H as (pi & r6 & Hpi & H). apply bind_some in H as (nx & r7 & Hnx & H).
  apply bind_some in H as (ps & r8 & Hps & H). apply bind_some in H as (wc & r9 & Hwc & H).
  destruct (read_u_good _ _ _ _ Hb Hv) as (Hv1 & Hr0 & Hl0). change (8 * Z.of_nat 4) with 32 in Hv1.
  destruct (read_bytes_good _ _ _ _ Hr0 Hp) as (Hp1 & Hp2 & Hr1 & Hl1).
  destruct (read_bytes_good _ _ _ _ Hr1 Hm) as (Hm1 & Hm2 & Hr2 & Hl2).
  destruct (read_u_good _ _ _ _ Hr2 Ht) as (Ht1 & Hr3 & Hl3). change (8 * Z.of_nat 8) with 64 in Ht1.
  destruct (read_u_good _ _ _ _ Hr3 Hn) as (Hn1 & Hr4 & Hl4). change (8 * Z.of_nat 8) with 64 in Hn1.
  destruct (read_u_good _ _ _ _ Hr4 Hi) as (Hi1 & Hr5 & Hl5). change (8 * Z.of_nat 4) with 32 in Hi1.
  destruct (read_b_good _ _ _ Hr5 Hpi) as (Hpi1 & Hr6 & Hl6).
  destruct (read_bytes_good _ _ _ _ Hr6 Hnx) as (Hnx1 & Hnx2 & Hr7 & Hl7).
  destruct (opt_hash_good _ _ _ _ Hr7 Hps) as (Hps1 & Hr8 & Hl8).
  destruct (read_varuint_good _ _ _ Hr8 Hwc) as (Hwc1 & Hr9 & Hl9).
  case_if_in H; [discriminate|]. assert (wc = 1) by lia. subst wc.
  apply bind_some in H as (w & r10 & Hw & H). inv_ret H.
  destruct (witness_good _ _ _ Hr9 Hw) as (Hw1 & Hr10 & Hl10).
  pose proof Hw1 as (? & ? & ? & ?).
  unfold header_wf, write_header, write_header_hashable, hash_wf.
  cbn [hversion hprev hmerkle htime hnonce hindex hprimary hnext hprevstate hscript].
  rewrite !app_length, !le_bytes_length. cbn [length].
  split; [repeat split; first [assumption|lia]|]. split; [assumption|lia].
Qed.
Theorem header_decode_wf sr : dec_wf (header_wf sr) (read_header sr).
Proof. exact (good_wf _ _ _ (header_good sr)). Qed.
Theorem header_minimal sr : dec_min (write_header sr) (read_header sr).
Proof. exact (good_min _ _ _ (header_good sr)). Qed.
Theorem header_consumes sr : dec_consumes (read_header sr).
Proof. unfold read_header. apply consumes_bind; [apply read_u_consumes; lia|intros ?; shr]. Qed.
Lemma header_shrinks sr : dec_shrinks (read_header sr).
Proof. apply consumes_shrinks, header_consumes. Qed.
Theorem header_canonical sr bs v rest rest' :
  bytes_ok bs -> read_header sr bs = Some (v, rest) -> read_header sr (write_header sr v ++ rest') = Some (v, rest').
Proof. apply (canonical_of (header_wf sr)); [exact (header_decode_encode sr)|exact (header_decode_wf sr)]. Qed.
Theorem write_header_ok sr h : header_wf sr h -> bytes_ok (write_header sr h).
Proof.
  intros (_ & [_ Hp] & [_ Hm] & _ & _ & _ & Hpi & [_ Hnx] & Hps & Hw). unfold write_header, write_header_hashable.
  apply bytes_ok_app; split.
  - apply bytes_ok_app; split; [apply le_bytes_ok|]. apply bytes_ok_app; split; [exact Hp|].
    apply bytes_ok_app; split; [exact Hm|]. repeat (apply bytes_ok_app; split; [apply le_bytes_ok|]).
    apply bytes_ok_app; split; [repeat constructor; lia|]. apply bytes_ok_app; split; [exact Hnx|].
    destruct sr; [apply Hps|constructor].
  - apply bytes_ok_app; split; [apply write_varuint_ok; lia|apply write_witness_ok, Hw].
Qed.

(* ================= block ================= *)
Definition block_wf (sr : bool) (b : block) : Prop :=
  header_wf sr (bheader b) /\ Z.of_nat (length (btxs b)) <= 65535 /\ Forall tx_wf (btxs b).

Theorem block_decode_encode sr : codec_ok (block_wf sr) (write_block sr) (read_block sr).
Proof.
  intros [h txs] rest (Hh & Hl & Hf). cbn [bheader btxs] in *. unfold write_block, read_block. cbn [bheader btxs].
  rewrite <- app_assoc. bstep ltac:(apply header_decode_encode; exact Hh).
  bstep ltac:(apply (array_roundtrip tx_wf); [exact tx_decode_encode|exact Hf|unfold max_txs_per_block; lia|lia]).
  reflexivity.
Qed.
Lemma block_good sr : dec_good (block_wf sr) (write_block sr) (read_block sr).
Proof.
  intros bs b rest Hb H. unfold read_block in H.
  apply bind_some in H as (h & r0 & Hh & H). apply bind_some in H as (txs & r1 & Htxs & H). inv_ret H.
  destruct (header_good _ _ _ _ Hb Hh) as (Hh1 & Hr0 & Hl0).
  destruct (read_array_good _ _ _ _ tx_good _ _ _ Hr0 Htxs) as (Ht1 & Ht2 & Hr1 & Hl1).
  unfold block_wf, write_block, max_txs_per_block in *. cbn [bheader btxs]. rewrite app_length.
  split; [split; [assumption|split; assumption]|]. split; [assumption|lia].
Qed.
Theorem block_decode_wf sr : dec_wf (block_wf sr) (read_block sr).
Proof. exact (good_wf _ _ _ (block_good sr)). Qed.
Theorem block_minimal sr : dec_min (write_block sr) (read_block sr).
Proof. exact (good_min _ _ _ (block_good sr)). Qed.
Theorem block_consumes sr : dec_consumes (read_block sr).
Proof. unfold read_block. apply consumes_bind; [apply header_consumes|intros ?; shr]. Qed.
Theorem block_canonical sr bs v rest rest' :
  bytes_ok bs -> read_block sr bs = Some (v, rest) -> read_block sr (write_block sr v ++ rest') = Some (v, rest').
Proof. apply (canonical_of (block_wf sr)); [exact (block_decode_encode sr)|exact (block_decode_wf sr)]. Qed.
Theorem write_block_ok sr b : block_wf sr b -> bytes_ok (write_block sr b).
Proof.
  intros (Hh & _ & Hf). unfold write_block. apply bytes_ok_app; split; [apply write_header_ok, Hh|].
  apply (write_array_ok tx_wf); [exact write_tx_ok|exact Hf].
Qed.
(* no amplification: the number of transactions accepted is bounded by the input length *)
Theorem block_tx_count_bounded sr bs b rest :
  read_block sr bs = Some (b, rest) -> (length (btxs b) + length rest < length bs)%nat.
Proof.
  intros H. unfold read_block in H. apply bind_some in H as (h & r0 & Hh & H).
  apply bind_some in H as (txs & r1 & Htxs & H). inv_ret H. cbn [btxs].
  apply header_consumes in Hh. unfold read_array in Htxs. apply bind_some in Htxs as (n & r & Hn & Htxs).
  apply read_varuint_consumes in Hn. case_if_in Htxs; [discriminate|].
  pose proof (read_n_forall (fun _ => True) read_tx (fun _ _ _ _ => I) _ _ _ _ Htxs) as [_ Hl].
  apply (read_n_count _ tx_consumes) in Htxs. lia.
Qed.

(* ================= whole-buffer statements ================= *)
Lemma decode_all_some {A} (d : dec A) bs v : decode_all d bs = Some v <-> d bs = Some (v, []).
Proof.
  unfold decode_all. destruct (d bs) as [[a [|x r]]|]; split; intros H; inv H; reflexivity.
Qed.
Lemma decode_all_roundtrip {A} (wf : A -> Prop) w (d : dec A) :
  codec_ok wf w d -> forall v, wf v -> decode_all d (w v) = Some v.
Proof. intros Hc v Hv. apply decode_all_some. rewrite <- (app_nil_r (w v)). now apply Hc. Qed.
Lemma decode_all_canonical {A} (wf : A -> Prop) w (d : dec A) :
  codec_ok wf w d -> dec_good wf w d -> forall bs v, bytes_ok bs -> decode_all d bs = Some v ->
  decode_all d (w v) = Some v /\ wf v /\ (length (w v) <= length bs)%nat.
Proof.
  intros Hc G bs v Hb H. apply decode_all_some in H. destruct (G _ _ _ Hb H) as (Hwf & _ & Hl).
  split; [now apply (decode_all_roundtrip wf)|]. split; [exact Hwf|]. cbn [length] in Hl. lia.
Qed.

Theorem tx_roundtrip : forall t, tx_wf t -> tx_from_bytes (write_tx t) = Some t.
Proof. exact (decode_all_roundtrip tx_wf write_tx read_tx tx_decode_encode). Qed.

(* whatever bytes a transaction was accepted from, its canonical encoding decodes to the same transaction *)
Theorem tx_canonical : forall bs t, bytes_ok bs -> tx_from_bytes bs = Some t ->
  tx_from_bytes (write_tx t) = Some t /\ tx_wf t.
Proof.
  intros bs t Hb H. destruct (decode_all_canonical _ _ _ tx_decode_encode tx_good _ _ Hb H) as (? & ? & _). auto.
Qed.

(* ... and is never longer than them *)
Theorem tx_reencoding_not_longer : forall bs t, bytes_ok bs -> tx_from_bytes bs = Some t ->
  (length (write_tx t) <= length bs)%nat.
Proof.
  intros bs t Hb H. destruct (decode_all_canonical _ _ _ tx_decode_encode tx_good _ _ Hb H) as (_ & _ & ?). auto.
Qed.
(* the size of a decoded transaction (a function of the value) is at most the number of bytes received *)
Corollary tx_size_le_received bs t : bytes_ok bs -> tx_from_bytes bs = Some t -> tx_size t <= Z.of_nat (length bs).
Proof. intros Hb H. unfold tx_size. pose proof (tx_reencoding_not_longer _ _ Hb H). lia. Qed.
(* the hashed bytes are the leading part of the canonical encoding *)
Lemma tx_hashed_bytes_prefix t : exists tail, write_tx t = tx_hashed_bytes t ++ tail.
Proof. eexists. reflexivity. Qed.

Theorem header_roundtrip sr h : header_wf sr h -> decode_all (read_header sr) (write_header sr h) = Some h.
Proof. exact (decode_all_roundtrip _ _ _ (header_decode_encode sr) h). Qed.
Theorem header_whole_canonical sr bs h : bytes_ok bs -> decode_all (read_header sr) bs = Some h ->
  decode_all (read_header sr) (write_header sr h) = Some h /\ header_wf sr h
  /\ (length (write_header sr h) <= length bs)%nat.
Proof. exact (decode_all_canonical _ _ _ (header_decode_encode sr) (header_good sr) bs h). Qed.
Theorem block_roundtrip sr b : block_wf sr b -> decode_all (read_block sr) (write_block sr b) = Some b.
Proof. exact (decode_all_roundtrip _ _ _ (block_decode_encode sr) b). Qed.
Theorem block_whole_canonical sr bs b : bytes_ok bs -> decode_all (read_block sr) bs = Some b ->
  decode_all (read_block sr) (write_block sr b) = Some b /\ block_wf sr b
  /\ (length (write_block sr b) <= length bs)%nat.
Proof. exact (decode_all_canonical _ _ _ (block_decode_encode sr) (block_good sr) bs b). Qed.

(* the well-formedness predicates describe exactly what the decoders can return from byte input *)
Lemma wf_exact {A} (wf : A -> Prop) w (d : dec A) :
  codec_ok wf w d -> dec_wf wf d -> (forall v, wf v -> bytes_ok (w v)) ->
  forall v, wf v <-> exists bs rest, bytes_ok bs /\ d bs = Some (v, rest).
Proof.
  intros Hc Hw Hb v. split.
  - intros Hv. exists (w v ++ []), []. split; [rewrite app_nil_r; auto|now apply Hc].
  - intros (bs & rest & Hbs & Hd). eapply Hw; eauto.
Qed.
Theorem tx_wf_exact t : tx_wf t <-> exists bs rest, bytes_ok bs /\ read_tx bs = Some (t, rest).
Proof. exact (wf_exact _ _ _ tx_decode_encode tx_decode_wf write_tx_ok t). Qed.
Theorem signer_wf_exact s : signer_wf s <-> exists bs rest, bytes_ok bs /\ read_signer bs = Some (s, rest).
Proof. exact (wf_exact _ _ _ signer_decode_encode signer_decode_wf write_signer_ok s). Qed.
Theorem attr_wf_exact a : attr_wf a <-> exists bs rest, bytes_ok bs /\ read_attr bs = Some (a, rest).
Proof. exact (wf_exact _ _ _ attr_decode_encode attr_decode_wf write_attr_ok a). Qed.
Theorem cond_wf_exact d c : cond_wf d c <-> exists bs rest, bytes_ok bs /\ read_cond d bs = Some (c, rest).
Proof. exact (wf_exact _ _ _ (cond_decode_encode d) (cond_decode_wf d) (write_cond_ok d) c). Qed.
Theorem block_wf_exact sr b : block_wf sr b <-> exists bs rest, bytes_ok bs /\ read_block sr bs = Some (b, rest).
Proof. exact (wf_exact _ _ _ (block_decode_encode sr) (block_decode_wf sr) (write_block_ok sr) b). Qed.

(* ================= concrete values: hypotheses are satisfiable, identity is not the bytes ================= *)
Lemma bytes_okb_sound l : bytes_okb l = true -> bytes_ok l.
Proof.
  unfold bytes_okb, bytes_ok. intros H. apply Forall_forall. intros b Hin.
  rewrite forallb_forall in H. specialize (H b Hin). lia.
Qed.

(* one signer of scope CalledByEntry, script [81], one empty witness *)
Definition id_tx : tx := Tx 0 0 0 0 0 [Signer (repeat 0 20) 1 [] [] []] [] [81] [Witness [] []].
Definition id_head : list Z := repeat 0 25.                              (* version, nonce, fees, valid-until *)
Definition id_tail : list Z := repeat 0 20 ++ [1] ++ [0] ++ [1; 81] ++ [1] ++ [0; 0].
Definition id_bs_canonical : list Z := id_head ++ [1] ++ id_tail.        (* signer count 1 as one byte *)
Definition id_bs_padded : list Z := id_head ++ [253; 1; 0] ++ id_tail.   (* the same count as 253,1,0 *)

Theorem tx_identity_not_bytes :
  exists bs1 bs2 t, bs1 <> bs2 /\ tx_from_bytes bs1 = Some t /\ tx_from_bytes bs2 = Some t.
Proof.
  exists id_bs_padded, id_bs_canonical, id_tx. split; [|split; vm_compute; reflexivity].
  intros E. apply (f_equal (@length Z)) in E. vm_compute in E. discriminate E.
Qed.
(* the same two buffers: the identity computed from the decoded value (hashed bytes, size) is that of the
   canonical form; the received bytes differ from it, also inside the region that a hash over the received
   buffer would cover *)
Example tx_identity_ex :
  bytes_ok id_bs_padded /\ bytes_ok id_bs_canonical
  /\ tx_from_bytes id_bs_padded = Some id_tx /\ tx_from_bytes id_bs_canonical = Some id_tx
  /\ write_tx id_tx = id_bs_canonical
  /\ tx_size id_tx = 53 /\ length id_bs_padded = 55%nat
  /\ (exists t r, read_tx_hashable id_bs_padded = Some (t, r) /\ r = [1; 0; 0]
        /\ tx_hashed_bytes t <> firstn (length id_bs_padded - length r) id_bs_padded).
Proof.
  split; [apply bytes_okb_sound; vm_compute; reflexivity|].
  split; [apply bytes_okb_sound; vm_compute; reflexivity|].
  repeat (split; [vm_compute; reflexivity|]).
  eexists _, _. split; [vm_compute; reflexivity|]. split; [reflexivity|].
  intros E. apply (f_equal (@length Z)) in E. vm_compute in E. discriminate E.
Qed.

(* a richer transaction: a Rules signer with a nested condition, a signer with contracts and groups,
   two attributes, two witnesses *)
Definition ex_cond : cond := CAnd [CNot (CBool false); CCalledByEntry].
Definition ex_signer1 : signer := Signer (repeat 1 20) 64 [] [] [Rule 1 ex_cond].
Definition ex_signer2 : signer := Signer (repeat 2 20) 49 [repeat 9 20] [Key 3 (repeat 7 32)] [].
Definition ex_tx : tx :=
  Tx 0 42 1000 2000 100 [ex_signer1; ex_signer2] [ANotValidBefore 7; AOracle 5 0 [1; 2; 3]] [81; 64]
     [Witness [12; 64] [65]; Witness [] []].

Example ex_tx_wf : tx_wf ex_tx /\ bytes_ok (write_tx ex_tx) /\ length (write_tx ex_tx) = 162%nat.
Proof.
  assert (bytes_ok (write_tx ex_tx)) as Hb by (apply bytes_okb_sound; vm_compute; reflexivity).
  assert (tx_from_bytes (write_tx ex_tx) = Some ex_tx) as Hd by (vm_compute; reflexivity).
  split; [apply (tx_canonical _ _ Hb Hd)|]. split; [exact Hb|vm_compute; reflexivity].
Qed.
Example ex_tx_roundtrip : tx_from_bytes (write_tx ex_tx) = Some ex_tx.
Proof. apply tx_roundtrip, ex_tx_wf. Qed.
Lemma wf_by_decoding {A} (wf : A -> Prop) w (d : dec A) v :
  dec_good wf w d -> bytes_okb (w v) = true -> d (w v) = Some (v, []) -> wf v.
Proof. intros G Hb Hd. apply bytes_okb_sound in Hb. destruct (G _ _ _ Hb Hd) as (? & _). assumption. Qed.
Example ex_components_wf :
  cond_wf max_nesting ex_cond /\ rule_wf (Rule 1 ex_cond) /\ signer_wf ex_signer1 /\ signer_wf ex_signer2
  /\ attr_wf (AOracle 5 0 [1; 2; 3]) /\ witness_wf (Witness [12; 64] [65]) /\ key_wf (Key 3 (repeat 7 32)).
Proof.
  split; [apply (wf_by_decoding _ _ _ _ (cond_good max_nesting)); vm_compute; reflexivity|].
  split; [apply (wf_by_decoding _ _ _ _ rule_good); vm_compute; reflexivity|].
  split; [apply (wf_by_decoding _ _ _ _ signer_good); vm_compute; reflexivity|].
  split; [apply (wf_by_decoding _ _ _ _ signer_good); vm_compute; reflexivity|].
  split; [apply (wf_by_decoding _ _ _ _ attr_good); vm_compute; reflexivity|].
  split; [apply (wf_by_decoding _ _ _ _ witness_good); vm_compute; reflexivity|].
  apply (wf_by_decoding _ _ _ _ key_good); vm_compute; reflexivity.
Qed.

Definition ex_header (sr : bool) : header :=
  Header 0 (repeat 1 32) (repeat 2 32) 1700000000000 77 5 3 (repeat 4 20) (if sr then repeat 5 32 else [])
         (Witness [12; 64] [65]).
Definition ex_block (sr : bool) : block := Block (ex_header sr) [ex_tx; id_tx].

Example ex_block_wf sr : block_wf sr (ex_block sr) /\ decode_all (read_block sr) (write_block sr (ex_block sr)) = Some (ex_block sr).
Proof.
  assert (block_wf sr (ex_block sr)) as Hwf.
  { assert (bytes_ok (write_block sr (ex_block sr))) as Hb by (apply bytes_okb_sound; destruct sr; vm_compute; reflexivity).
    assert (decode_all (read_block sr) (write_block sr (ex_block sr)) = Some (ex_block sr)) as Hd
      by (destruct sr; vm_compute; reflexivity).
    apply (block_whole_canonical sr _ _ Hb Hd). }
  split; [exact Hwf|]. apply block_roundtrip, Hwf.
Qed.
Example ex_header_wf sr : header_wf sr (ex_header sr) /\ decode_all (read_header sr) (write_header sr (ex_header sr)) = Some (ex_header sr).
Proof. destruct (ex_block_wf sr) as [[Hh _] _]. split; [exact Hh|]. apply header_roundtrip, Hh. Qed.
(* non-minimal count in a block is accepted and re-encoded shorter *)
Example block_reencoding_shorter :
  let bs := write_header true (ex_header true) ++ [253; 1; 0] ++ id_bs_padded in
  decode_all (read_block true) bs = Some (Block (ex_header true) [id_tx])
  /\ (length (write_block true (Block (ex_header true) [id_tx])) + 4 = length bs)%nat.
Proof. cbv zeta. split; vm_compute; reflexivity. Qed.
