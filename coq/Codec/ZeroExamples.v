(* Zero values are inside the well-formedness premises of the codec theorems wherever the real decoders accept them:
   one Example per modelled type with every field at its zero value (zero hash, 0, empty list, empty script), under
   both settings of the state-root switch for headers and blocks; and the zero values that ARE refused (empty
   transaction script, no signer, getblocks count 0).  Each wf fact is obtained the same way: the decoder accepts the
   encoding of the value, and everything a decoder accepts is well-formed (T_decode_wf). *)
From NG Require Import Common.Tactics Codec.Bigint Codec.Wire Codec.WireProofs Codec.TxCodec Codec.TxCodecProofs
  Codec.ItemCodec Codec.ItemCodecProofs Codec.ExecCodec Codec.ExecCodecProofs Codec.MptCodec Codec.MptCodecProofs
  Codec.StateCodec Codec.StateCodecProofs Codec.NetCodec Codec.NetCodecProofs.
Open Scope Z_scope.

Definition z20 : list Z := repeat 0 20.
Definition z32 : list Z := repeat 0 32.
Definition zwit : witness := Witness [] [].

Ltac by_decode lem bs :=
  refine (proj1 (lem bs _ [] _ _)); [apply mbytes_okb_sound; vm_compute; reflexivity | vm_compute; reflexivity].

(* header and block: genesis of a StateRootInHeader network has PrevStateRoot = 0 *)
Definition zheader (sr : bool) : header := Header 0 z32 z32 0 0 0 0 z20 (if sr then z32 else []) zwit.
Example zero_header_wf : header_wf true (zheader true) /\ header_wf false (zheader false).
Proof. split; [by_decode (header_decode_wf true) (write_header true (zheader true)) | by_decode (header_decode_wf false) (write_header false (zheader false))]. Qed.
Example zero_header_roundtrip : forall sr, decode_all (read_header sr) (write_header sr (zheader sr)) = Some (zheader sr).
Proof. intros [|]; vm_compute; reflexivity. Qed.
Example zero_block_wf : block_wf true (Block (zheader true) []) /\ block_wf false (Block (zheader false) []).
Proof. split; [by_decode (block_decode_wf true) (write_block true (Block (zheader true) [])) | by_decode (block_decode_wf false) (write_block false (Block (zheader false) []))]. Qed.
Example zero_header_lengths : length (write_header true (zheader true)) = (length (write_header false (zheader false)) + 32)%nat.
Proof. vm_compute; reflexivity. Qed.

(* signer: zero account, every scope with all its lists empty *)
Example zero_signer_wf : Forall (fun sc => signer_wf (Signer z20 sc [] [] [])) [0; 1; 16; 32; 64; 112; 113; 128].
Proof.
  repeat (constructor; [match goal with |- signer_wf ?s => by_decode signer_decode_wf (write_signer s) end|]). constructor.
Qed.

(* transaction: zero nonce, fees, ValidUntilBlock, no attributes, zero account, empty witness scripts; the script must be non-empty *)
Definition ztx : tx := Tx 0 0 0 0 0 [Signer z20 0 [] [] []] [] [0] [zwit].
Example zero_tx_wf : tx_wf ztx /\ tx_from_bytes (write_tx ztx) = Some ztx.
Proof. split; [by_decode tx_decode_wf (write_tx ztx) | vm_compute; reflexivity]. Qed.
Example zero_tx_refused :
  tx_from_bytes (write_tx (Tx 0 0 0 0 0 [Signer z20 0 [] [] []] [] [] [zwit])) = None      (* empty script *)
  /\ tx_from_bytes (write_tx (Tx 0 0 0 0 0 [] [] [0] [])) = None.                              (* no signer *)
Proof. split; vm_compute; reflexivity. Qed.
Example zero_witness_attr_wf : witness_wf zwit /\ attr_wf (ANotValidBefore 0) /\ attr_wf (AOracle 0 0 []) /\ attr_wf (AConflicts z32) /\ attr_wf (ANotary 0).
Proof.
  repeat split; try lia; try reflexivity; try (apply mbytes_okb_sound; vm_compute; reflexivity); try discriminate;
    try (intros; congruence); try constructor.
Qed.

(* state root: zero root, no witness; with one empty witness *)
Example zero_mptroot_wf : mptroot_wf (MptRoot 0 0 z32 []) /\ mptroot_wf (MptRoot 0 0 z32 [zwit]).
Proof. split; [by_decode mptroot_decode_wf (write_mptroot (MptRoot 0 0 z32 [])) | by_decode mptroot_decode_wf (write_mptroot (MptRoot 0 0 z32 [zwit]))]. Qed.

(* notification with an empty state and an empty name; execution result with an empty stack, no events, empty fault string *)
Example zero_notification_wf : notification_wf (Notif z20 [] []) /\ write_notification (Notif z20 [] []) = Some (z20 ++ [0; 64; 0]).
Proof. split; [by_decode notification_decode_wf (z20 ++ [0; 64; 0]) | vm_compute; reflexivity]. Qed.
Definition zaer : aer := Aer z32 0 0 0 [] [] [] [].
Example zero_aer_wf : aer_wf zaer /\ exists bs, write_aer zaer = Some bs /\ read_aer bs = Some (zaer, []).
Proof.
  split.
  - by_decode aer_decode_wf (z32 ++ [0; 0] ++ repeat 0 8 ++ [0; 0; 0]).
  - eexists; split; vm_compute; reflexivity.
Qed.

(* MPT nodes: zero hash, empty leaf value, extension with an empty key, a branch with every child empty *)
Example zero_mptnode_wf : mnode_wf (MHash z32) /\ mnode_wf (MLeaf []) /\ mnode_wf (MExt [] (MHash z32)) /\ mnode_wf (MBranch (repeat MEmpty 17)).
Proof. split; [|split; [|split]]; apply mnode_wfb_sound; vm_compute; reflexivity. Qed.

(* P2P payloads *)
Example zero_payloads_wf :
  ping_wf (Ping 0 0 0) /\ inventory_wf (Inventory 0 []) /\ version_wf (Version 0 0 0 0 [] []) /\ extensible_wf (Extensible [] 0 0 z20 [] zwit)
  /\ getbyindex_wf (GetByIndex 0 1) /\ addr_wf (Addr 0 (repeat 0 16) []) /\ mptinv_wf [].
Proof.
  split; [by_decode ping_decode_wf (write_ping (Ping 0 0 0))|].
  split; [by_decode inventory_decode_wf (write_inventory (Inventory 0 []))|].
  split; [by_decode version_decode_wf (write_version (Version 0 0 0 0 [] []))|].
  split; [by_decode extensible_decode_wf (write_extensible (Extensible [] 0 0 z20 [] zwit))|].
  split; [by_decode getbyindex_decode_wf (write_getbyindex (GetByIndex 0 1))|].
  split; [by_decode addr_decode_wf (write_addr (Addr 0 (repeat 0 16) []))|].
  by_decode mptinv_decode_wf (write_mptinv []).
Qed.
Example zero_counts_refused :
  read_getblocks (z32 ++ [0; 0]) = None /\ read_getbyindex [0; 0; 0; 0; 0; 0] = None /\ read_addrlist [0] = None /\ read_headers false [0] = None /\ read_mptdata [0] = None.
Proof. repeat split; vm_compute; reflexivity. Qed.
