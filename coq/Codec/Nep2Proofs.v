(* NEP-2 envelope: proofs. The passphrase normalisers of the two sides are parameters; everything that can be said
   without modelling scrypt, AES, the address hash and Unicode is said here. *)
From NG Require Import Codec.Bigint Codec.BigintProofs Codec.Radix Codec.RadixProofs Codec.Base58 Codec.Base58Proofs Codec.Nep2.
Open Scope Z_scope.

(* ---------------- xor ---------------- *)
Lemma xor_bytes_length a : forall b, length a = length b -> length (xor_bytes a b) = length a.
Proof. induction a as [|x a IH]; intros [|y b] H; simpl in *; try lia. rewrite IH; lia. Qed.

Lemma lxor_byte x y : 0 <= x < 256 -> 0 <= y < 256 -> 0 <= Z.lxor x y < 256.
Proof.
  intros Hx Hy. assert (0 <= Z.lxor x y) as Hn by (apply Z.lxor_nonneg; lia). split; [assumption|].
  destruct (Z.eq_dec (Z.lxor x y) 0) as [E|E]; [lia|].
  change 256 with (2 ^ 8). apply Z.log2_lt_pow2; [lia|].
  pose proof (Z.log2_lxor x y ltac:(lia) ltac:(lia)) as Hl.
  assert (forall v, 0 <= v < 256 -> Z.log2 v < 8) as Hb.
  { intros v Hv. destruct (Z.eq_dec v 0) as [->|]; [reflexivity|]. apply Z.log2_lt_pow2; lia. }
  pose proof (Hb x Hx). pose proof (Hb y Hy). lia.
Qed.

Lemma xor_bytes_ok a : forall b, bytes_ok a -> bytes_ok b -> bytes_ok (xor_bytes a b).
Proof.
  induction a as [|x a IH]; intros [|y b] Ha Hb; simpl; try constructor.
  - inv Ha. inv Hb. apply lxor_byte; assumption.
  - inv Ha. inv Hb. apply IH; assumption.
Qed.

Lemma xor_bytes_invol a : forall b, length a = length b -> xor_bytes (xor_bytes a b) b = a.
Proof.
  induction a as [|x a IH]; intros [|y b] H; simpl in *; try lia; [reflexivity|].
  rewrite IH by lia. rewrite Z.lxor_assoc, Z.lxor_nilpotent, Z.lxor_0_r. reflexivity.
Qed.

Lemma skipn_skipn_ {A} (l : list A) : forall b a, skipn a (skipn b l) = skipn (b + a) l.
Proof.
  induction l as [|x l IH]; intros b a; [now rewrite !skipn_nil|].
  destruct b; [reflexivity|]. simpl. apply IH.
Qed.

Section Nep2.
Variable checksum : list Z -> list Z.
Hypothesis checksum_len : forall b, length (checksum b) = 4%nat.
Hypothesis checksum_ok : forall b, bytes_ok (checksum b).
Variable addr_hash : list Z -> list Z.
Hypothesis addr_hash_len : forall k, length (addr_hash k) = 4%nat.
Hypothesis addr_hash_ok : forall k, bytes_ok (addr_hash k).
Variable key_valid : list Z -> bool.
Variable kdf : list Z -> list Z -> list Z.
Hypothesis kdf_len : forall p s, length (kdf p s) = 64%nat.
Hypothesis kdf_ok : forall p s, bytes_ok (kdf p s).
Variable enc dec : list Z -> list Z -> list Z.
Hypothesis enc_len : forall key x, length key = 32%nat -> length x = 32%nat -> length (enc key x) = 32%nat.
Hypothesis enc_ok : forall key x, bytes_ok key -> bytes_ok x -> bytes_ok (enc key x).
Hypothesis dec_enc : forall key x, length key = 32%nat -> length x = 32%nat -> bytes_ok x -> dec key (enc key x) = x.

Notation frame := (nep2_frame checksum).
Notation unframe := (nep2_unframe checksum).
Notation encrypt := (nep2_encrypt checksum addr_hash kdf enc).
Notation decrypt := (nep2_decrypt checksum addr_hash key_valid kdf dec).
Notation recover := (nep2_recover dec).
Notation wf := (key_wf key_valid).

(* ---------------- the frame ---------------- *)
Theorem nep2_unframe_frame : forall ah body,
  length ah = 4%nat -> bytes_ok ah -> length body = 32%nat -> bytes_ok body ->
  unframe (frame ah body) = Some (ah, body).
Proof.
  intros ah body Hla Hoa Hlb Hob. unfold nep2_unframe, nep2_frame.
  rewrite check_roundtrip; try assumption.
  2:{ unfold nep2_header. repeat (apply Forall_app; split); try assumption. repeat constructor; lia. }
  2:{ discriminate. }
  assert (length (nep2_header ++ ah ++ body) = 39%nat) as Hl by (rewrite !app_length, Hla, Hlb; reflexivity).
  rewrite Hl. cbn [Nat.eqb negb].
  replace (firstn 3 (nep2_header ++ ah ++ body)) with nep2_header by reflexivity.
  assert (list_eqb Z.eqb nep2_header nep2_header = true) as -> by reflexivity. cbn [negb].
  replace (skipn 3 (nep2_header ++ ah ++ body)) with (ah ++ body) by reflexivity.
  replace (skipn 7 (nep2_header ++ ah ++ body)) with (skipn 4 (ah ++ body)) by reflexivity.
  rewrite <- Hla, firstn_length_app, skipn_length_app. reflexivity.
Qed.

(* whatever the decrypting side accepts as a frame is the frame of its two parts: 39 bytes, 01 42 e0, 4 + 32 *)
Theorem nep2_unframe_sound : forall s ah body, unframe s = Some (ah, body) ->
  length ah = 4%nat /\ length body = 32%nat /\ bytes_ok ah /\ bytes_ok body /\ frame ah body = s.
Proof.
  intros s ah body H. unfold nep2_unframe in H.
  destruct (check_decode checksum s) as [b|] eqn:Ec; [|discriminate].
  destruct (length b =? 39)%nat eqn:El; cbn [negb] in H; [|discriminate].
  destruct (list_eqb Z.eqb (firstn 3 b) nep2_header) eqn:Eh; cbn [negb] in H; [|discriminate].
  injection H as <- <-. apply Nat.eqb_eq in El. apply zlist_eqb_eq in Eh.
  pose proof (check_decode_ok checksum checksum_len checksum_ok s b Ec) as [Hok _].
  assert (b = nep2_header ++ firstn 4 (skipn 3 b) ++ skipn 7 b) as Hb.
  { rewrite <- Eh. assert (skipn 7 b = skipn 4 (skipn 3 b)) as -> by (rewrite skipn_skipn_; reflexivity).
    rewrite firstn_skipn, firstn_skipn. reflexivity. }
  assert (bytes_ok (skipn 3 b)) as Hok3.
  { rewrite <- (firstn_skipn 3 b) in Hok. apply Forall_app in Hok. tauto. }
  change (length (firstn 4 (skipn 3 b)) = 4%nat /\ length (skipn 7 b) = 32%nat /\ bytes_ok (firstn 4 (skipn 3 b)) /\
          bytes_ok (skipn 7 b) /\ frame (firstn 4 (skipn 3 b)) (skipn 7 b) = s).
  split; [|split; [|split; [|split]]].
  - rewrite firstn_length, skipn_length. lia.
  - rewrite skipn_length. lia.
  - rewrite <- (firstn_skipn 4 (skipn 3 b)) in Hok3. apply Forall_app in Hok3. tauto.
  - rewrite <- (firstn_skipn 7 b) in Hok. apply Forall_app in Hok. tauto.
  - unfold nep2_frame. rewrite <- Hb. apply (check_roundtrip_rev checksum checksum_len checksum_ok). assumption.
Qed.

(* ---------------- what decrypting an encrypted key computes ---------------- *)
Lemma dk_parts p s : length (firstn 32 (kdf p s)) = 32%nat /\ length (skipn 32 (kdf p s)) = 32%nat /\
                     bytes_ok (firstn 32 (kdf p s)) /\ bytes_ok (skipn 32 (kdf p s)).
Proof.
  pose proof (kdf_len p s) as Hl. pose proof (kdf_ok p s) as Ho.
  rewrite firstn_length, skipn_length, Hl. repeat split; try reflexivity.
  - rewrite <- (firstn_skipn 32 (kdf p s)) in Ho. apply Forall_app in Ho. tauto.
  - rewrite <- (firstn_skipn 32 (kdf p s)) in Ho. apply Forall_app in Ho. tauto.
Qed.

Definition body_of (n_enc : list Z -> list Z) (k pass : list Z) : list Z :=
  let dk := kdf (n_enc pass) (addr_hash k) in enc (skipn 32 dk) (xor_bytes k (firstn 32 dk)).

Lemma body_of_props n_enc k pass : wf k -> length (body_of n_enc k pass) = 32%nat /\ bytes_ok (body_of n_enc k pass).
Proof.
  intros (Hl & Ho & _). unfold body_of.
  destruct (dk_parts (n_enc pass) (addr_hash k)) as (L1 & L2 & O1 & O2). split.
  - apply enc_len; [assumption|]. rewrite xor_bytes_length; lia.
  - apply enc_ok; [assumption|]. apply xor_bytes_ok; assumption.
Qed.

(* the decrypting side recovers exactly [recover (kdf (n_dec q) ah) body] and accepts it iff it is a valid key with
   the address hash of the envelope *)
Theorem nep2_decrypt_encrypt_spec : forall n_enc n_dec k p q, wf k ->
  decrypt n_dec (encrypt n_enc k p) q =
    let k' := recover (kdf (n_dec q) (addr_hash k)) (body_of n_enc k p) in
    if negb (key_valid k') then None
    else if list_eqb Z.eqb (addr_hash k') (addr_hash k) then Some k' else None.
Proof.
  intros n_enc n_dec k p q Hwf. destruct (body_of_props n_enc k p Hwf) as [Hl Ho].
  unfold nep2_decrypt, nep2_encrypt. fold (body_of n_enc k p).
  rewrite nep2_unframe_frame by auto. reflexivity.
Qed.

(* same normalised passphrase on both sides: the body decrypts to the key *)
Lemma recover_same n_enc k p : wf k -> recover (kdf (n_enc p) (addr_hash k)) (body_of n_enc k p) = k.
Proof.
  intros (Hl & Ho & _). unfold nep2_recover, body_of.
  destruct (dk_parts (n_enc p) (addr_hash k)) as (L1 & L2 & O1 & O2).
  rewrite dec_enc.
  - apply xor_bytes_invol. lia.
  - assumption.
  - rewrite xor_bytes_length; lia.
  - apply xor_bytes_ok; assumption.
Qed.

(* THE round trip: if the two sides normalise the two passphrases to the same bytes, the key comes back. With
   n_enc = n_dec = NFC this is: q decrypts what p encrypted whenever NFC p = NFC q, in particular q = p. *)
Theorem nep2_roundtrip : forall n_enc n_dec k p q, wf k -> n_enc p = n_dec q ->
  decrypt n_dec (encrypt n_enc k p) q = Some k.
Proof.
  intros n_enc n_dec k p q Hwf E. rewrite nep2_decrypt_encrypt_spec by assumption. cbv zeta.
  rewrite <- E, recover_same by assumption. destruct Hwf as (_ & _ & Hv). rewrite Hv. cbn [negb].
  assert (list_eqb Z.eqb (addr_hash k) (addr_hash k) = true) as -> by (apply zlist_eqb_eq; reflexivity). reflexivity.
Qed.

(* the key comes back exactly when the decrypting side's derived key recovers it *)
Theorem nep2_decrypts_iff_recovers : forall n_enc n_dec k p q, wf k ->
  (decrypt n_dec (encrypt n_enc k p) q = Some k <-> recover (kdf (n_dec q) (addr_hash k)) (body_of n_enc k p) = k).
Proof.
  intros n_enc n_dec k p q Hwf. rewrite nep2_decrypt_encrypt_spec by assumption. cbv zeta.
  set (k' := recover _ _). split.
  - destruct (key_valid k'); cbn [negb]; [|discriminate].
    destruct (list_eqb Z.eqb (addr_hash k') (addr_hash k)); [|discriminate]. congruence.
  - intros ->. destruct Hwf as (_ & _ & Hv). rewrite Hv. cbn [negb].
    assert (list_eqb Z.eqb (addr_hash k) (addr_hash k) = true) as -> by (apply zlist_eqb_eq; reflexivity). reflexivity.
Qed.

(* a passphrase under which the recovered bytes are not a key with the envelope's address hash is refused:
   "password mismatch". (That a different derived key is detected is a property of scrypt, AES and the 4-byte hash
   that holds up to collisions only; it is a premise here, per case, not a law.) *)
Theorem nep2_mismatch_refused : forall n_enc n_dec k p q, wf k ->
  (let k' := recover (kdf (n_dec q) (addr_hash k)) (body_of n_enc k p) in
   key_valid k' = false \/ addr_hash k' <> addr_hash k) ->
  decrypt n_dec (encrypt n_enc k p) q = None.
Proof.
  intros n_enc n_dec k p q Hwf H. rewrite nep2_decrypt_encrypt_spec by assumption. cbv zeta in *.
  set (k' := recover _ _) in *. destruct H as [H|H]; [rewrite H; reflexivity|].
  destruct (key_valid k'); cbn [negb]; [|reflexivity].
  destruct (list_eqb Z.eqb (addr_hash k') (addr_hash k)) eqn:E; [|reflexivity].
  apply zlist_eqb_eq in E. contradiction.
Qed.

(* whatever is returned is a valid key whose address hash is the one in the envelope, and the envelope is well framed *)
Theorem nep2_decrypt_sound : forall n_dec s q k, decrypt n_dec s q = Some k ->
  key_valid k = true /\ exists body, unframe s = Some (addr_hash k, body) /\ length body = 32%nat /\
                                     frame (addr_hash k) body = s /\ k = recover (kdf (n_dec q) (addr_hash k)) body.
Proof.
  intros n_dec s q k H. unfold nep2_decrypt in H.
  destruct (unframe s) as [[ah body]|] eqn:Eu; [|discriminate].
  set (k' := recover _ _) in H.
  destruct (key_valid k') eqn:Ev; cbn [negb] in H; [|discriminate].
  destruct (list_eqb Z.eqb (addr_hash k') ah) eqn:Ea; [|discriminate].
  apply zlist_eqb_eq in Ea. injection H as <-. split; [assumption|]. exists body.
  destruct (nep2_unframe_sound s ah body Eu) as (_ & Hlb & _ & _ & Hf).
  rewrite Ea. split; [reflexivity|]. split; [assumption|]. split; [assumption|]. reflexivity.
Qed.

End Nep2.

(* ---------------- the hypotheses are satisfiable, and the normalisers must agree: a toy instance ---------------- *)
(* sensitive to every byte of the key (a 4-byte hash has collisions; none among the examples below) *)
Definition toy_addr_hash (k : list Z) : list Z := le_bytes 4 (fold_left (fun acc b => acc * 31 + b + 7) k 1).
Definition toy_key_valid (k : list Z) : bool := (length k =? 32)%nat.
Definition toy_kdf (p s : list Z) : list Z :=
  le_bytes 64 ((value_be 256 (1 :: p) * 1000003 + value_be 256 s) * (2 ^ 490 + 2 ^ 301 + 2 ^ 97 + 12345)).
Definition toy_enc (key x : list Z) : list Z := rev x.
Definition toy_dec (key y : list Z) : list Z := rev y.

(* a "normaliser" that folds the ligature U+FB01 (ef ac 81) to "fi", as NFKC does and NFC does not *)
Fixpoint fold_fi (l : list Z) : list Z :=
  match l with
  | 239 :: ((172 :: (129 :: t) as l2) as l1) => 102 :: 105 :: fold_fi t
  | x :: t => x :: fold_fi t
  | [] => []
  end.
Definition no_fold (l : list Z) : list Z := l.

Definition toy_encrypt := nep2_encrypt toy_checksum toy_addr_hash toy_kdf toy_enc.
Definition toy_decrypt := nep2_decrypt toy_checksum toy_addr_hash toy_key_valid toy_kdf toy_dec.
Definition toy_key : list Z := map Z.of_nat (seq 1 32).
Definition pass_lig : list Z := [112; 239; 172; 129; 120].   (* "p" U+FB01 "x" *)
Definition pass_fi : list Z := [112; 102; 105; 120].         (* "pfix" *)

Lemma toy_key_wf : key_wf toy_key_valid toy_key.
Proof. split; [reflexivity|]. split; [|reflexivity]. unfold toy_key. simpl. repeat constructor; lia. Qed.

Example nep2_toy_examples :
  (* one normaliser on both sides: the right passphrase works, the folded spelling does not *)
  toy_decrypt no_fold (toy_encrypt no_fold toy_key pass_lig) pass_lig = Some toy_key /\
  toy_decrypt no_fold (toy_encrypt no_fold toy_key pass_lig) pass_fi = None /\
  (* the decrypting side folds, the encrypting side does not: the RIGHT passphrase is refused *)
  toy_decrypt fold_fi (toy_encrypt no_fold toy_key pass_lig) pass_lig = None /\
  (* the encrypting side folds, the decrypting side does not: refused again, and the folded spelling decrypts *)
  toy_decrypt no_fold (toy_encrypt fold_fi toy_key pass_lig) pass_lig = None /\
  toy_decrypt no_fold (toy_encrypt fold_fi toy_key pass_lig) pass_fi = Some toy_key /\
  (* a damaged envelope (flag byte) is not a frame *)
  nep2_unframe toy_checksum (check_encode toy_checksum ([1; 66; 225] ++ repeat 5 36)) = None /\
  nep2_unframe toy_checksum (check_encode toy_checksum ([1; 66; 224] ++ repeat 5 35)) = None /\
  nep2_unframe toy_checksum (check_encode toy_checksum ([1; 66; 224] ++ repeat 5 36)) = Some (repeat 5 4, repeat 5 32).
Proof. vm_compute. repeat split. Qed.

(* the statement "the key comes back whatever the two sides do to the passphrase" *)
Definition nep2_roundtrip_any_normalisers : Prop :=
  forall (checksum addr_hash : list Z -> list Z) (key_valid : list Z -> bool) (kdf enc dec : list Z -> list Z -> list Z),
    (forall b, length (checksum b) = 4%nat) -> (forall b, bytes_ok (checksum b)) ->
    (forall k, length (addr_hash k) = 4%nat) -> (forall k, bytes_ok (addr_hash k)) ->
    (forall p s, length (kdf p s) = 64%nat) -> (forall p s, bytes_ok (kdf p s)) ->
    (forall key x, length key = 32%nat -> length x = 32%nat -> length (enc key x) = 32%nat) ->
    (forall key x, bytes_ok key -> bytes_ok x -> bytes_ok (enc key x)) ->
    (forall key x, length key = 32%nat -> length x = 32%nat -> bytes_ok x -> dec key (enc key x) = x) ->
    forall (n_enc n_dec : list Z -> list Z) k p, key_wf key_valid k ->
      nep2_decrypt checksum addr_hash key_valid kdf dec n_dec (nep2_encrypt checksum addr_hash kdf enc n_enc k p) p = Some k.

Theorem nep2_roundtrip_any_normalisers_refuted : ~ nep2_roundtrip_any_normalisers.
Proof.
  intros H.
  specialize (H toy_checksum toy_addr_hash toy_key_valid toy_kdf toy_enc toy_dec
                toy_checksum_len toy_checksum_ok
                (fun k => le_bytes_length 4 _) (fun k => le_bytes_ok 4 _)
                (fun p s => le_bytes_length 64 _) (fun p s => le_bytes_ok 64 _)).
  assert (forall key x : list Z, length key = 32%nat -> length x = 32%nat -> length (toy_enc key x) = 32%nat) as H1
    by (intros; unfold toy_enc; rewrite rev_length; assumption).
  assert (forall key x : list Z, bytes_ok key -> bytes_ok x -> bytes_ok (toy_enc key x)) as H2
    by (intros; unfold toy_enc; apply Forall_rev; assumption).
  assert (forall key x : list Z, length key = 32%nat -> length x = 32%nat -> bytes_ok x -> toy_dec key (toy_enc key x) = x) as H3
    by (intros; unfold toy_dec, toy_enc; apply rev_involutive).
  specialize (H H1 H2 H3 no_fold fold_fi toy_key pass_lig toy_key_wf).
  pose proof nep2_toy_examples as (_ & _ & E & _). unfold toy_decrypt, toy_encrypt in E. congruence.
Qed.

(* and with agreeing normalisers the toy instance is an instance of the round trip (non-vacuity of its hypotheses) *)
Theorem nep2_toy_roundtrip : forall n k p q, key_wf toy_key_valid k -> n p = n q ->
  toy_decrypt n (toy_encrypt n k p) q = Some k.
Proof.
  intros n k p q Hwf E. unfold toy_decrypt, toy_encrypt.
  apply (nep2_roundtrip toy_checksum toy_checksum_len toy_checksum_ok toy_addr_hash
           (fun k => le_bytes_length 4 _) (fun k => le_bytes_ok 4 _) toy_key_valid toy_kdf
           (fun p s => le_bytes_length 64 _) (fun p s => le_bytes_ok 64 _) toy_enc toy_dec); try assumption.
  - intros; unfold toy_enc; rewrite rev_length; assumption.
  - intros; unfold toy_enc; apply Forall_rev; assumption.
  - intros; unfold toy_dec, toy_enc; apply rev_involutive.
Qed.
