(* Model of vm.CheckMultisigPar (pkg/vm/vm.go), the parallel m-of-n signature check behind
   System.Crypto.CheckMultisig (pkg/core/interop/crypto/ecdsa.go guarantees 1 <= len(sigs) <= len(pkeys)).

   Definitions only; everything here computes by vm_compute.  Proofs are in MultisigProofs.v.

   - [matching] / [index_matching]: the specification (signatures can be matched to keys in order).
   - [seq_match]: the sequential one-pass reference algorithm.
   - [pstate], [loop_body], [deliver]: the Go main loop as a nondeterministic interleaving system.  The three worker
     goroutines are represented by the multiset [inflight] of tasks that have been sent on `tasks` and whose result
     has not yet been received from `results`; the ONLY nondeterminism of the Go program is which of these results
     the main loop receives next, and [deliver j] is "the result of the j-th in-flight task is received next".
     [loop_body] is one iteration of `for r := range results {...}` with the same case split, the same variables
     (k1 k2 s1 s2 sigok taskCount) and the same direction test `r.signum == s2` as the Go code.
   - [run] / [steps]: termination with an answer / reachability under arbitrary interleavings.
   - [par_check]: executable driver over an explicit schedule, for the harness.

   ASSUMPTION of the model: [verify] is a total function of (key, signature).  In Go a key is decoded by
   bytesToPublicKey when its task is SENT (main goroutine), and that panics on a malformed encoding; which keys
   are ever sent depends on the schedule (keys [A; BAD; B; C] with valid signatures [sA; sB; sC]: if the
   forward result arrives first the loop sends key #1 and panics, if the backward result arrives first it returns
   true without ever touching key #1).  Malformed key encodings are outside this model. *)
From NG Require Import Common.Tactics.
From Coq Require Import Sorted.

Section Multisig.
Variables (K Sg : Type).   (* keys, signatures (Sg: [S] is the successor of nat) *)
Variable verify : K -> Sg -> bool.

(* ---------- specification ---------- *)

(* an order-preserving injective matching of all signatures to keys *)
Inductive matching : list K -> list Sg -> Prop :=
| m_nil ks : matching ks []
| m_use k ks s ss : verify k s = true -> matching ks ss -> matching (k :: ks) (s :: ss)
| m_skip k ks ss : matching ks ss -> matching (k :: ks) ss.

(* the same with an explicit position function: f lists, for each signature in order, the position of the key
   it is matched to; positions strictly increase (so the map is injective and order preserving) *)
Definition index_matching (keys : list K) (sigs : list Sg) : Prop :=
  exists f : list nat,
    length f = length sigs /\
    StronglySorted lt f /\
    forall i s, nth_error sigs i = Some s ->
      exists p k, nth_error f i = Some p /\ nth_error keys p = Some k /\ verify k s = true.

(* ---------- sequential reference algorithm ---------- *)

(* one pass: a signature index and a key index; the signature advances on success, the key always advances *)
Fixpoint seq_match (keys : list K) (sigs : list Sg) {struct keys} : bool :=
  match sigs with
  | [] => true
  | s :: ss =>
      match keys with
      | [] => false
      | k :: ks => if verify k s then seq_match ks ss else seq_match ks sigs
      end
  end.

(* ---------- the parallel checker ---------- *)

(* a task sent on the `tasks` channel: (index of the key, signum) *)
Definition task := (nat * nat)%type.

Record pstate := mk_pstate {
  k1 : nat; k2 : nat; s1 : nat; s2 : nat;
  sigok : bool;
  taskCount : nat;
  inflight : list task        (* sent, result not yet received by the main loop *)
}.

Inductive outcome :=
| Running (st : pstate)       (* `continue`, or fell through to the next `for r := range results` *)
| Done (b : bool)             (* `break loop`; return sigok *)
| Crash.                      (* index out of range (Go run-time panic) *)

(* worker goroutine: result{signum: t.signum, ok: pkeys[k].Verify(sigs[t.signum])} *)
Definition worker (keys : list K) (sigs : list Sg) (t : task) : option (nat * bool) :=
  match nth_error keys (fst t), nth_error sigs (snd t) with
  | Some k, Some s => Some (snd t, verify k s)
  | _, _ => None
  end.

Fixpoint remove_nth {A : Type} (j : nat) (l : list A) : list A :=
  match l with
  | [] => []
  | x :: t => match j with O => t | S j' => x :: remove_nth j' t end
  end.

(* tail of the loop body: advance the key of the direction concerned and send the next task *)
Definition send_next (ak1 ak2 as1 as2 : nat) (ok : bool) (tc : nat) (rest : list task) (goingForward : bool)
  : pstate :=
  if goingForward
  then mk_pstate (ak1 + 1) ak2 as1 as2 ok (tc + 1) (rest ++ [(ak1 + 1, as1)])
  else mk_pstate ak1 (ak2 - 1) as1 as2 ok (tc + 1) (rest ++ [(ak2 - 1, as2)]).

(* one iteration of the main loop on the received result r = (signum, ok); [rest] = the other in-flight tasks.
   Integer subtraction is truncated here; MultisigProofs.inv shows that k2, s2 and taskCount are positive
   whenever they are decremented, so truncation never happens. *)
Definition loop_body (st : pstate) (rest : list task) (signum : nat) (ok : bool) : outcome :=
  let tc := taskCount st - 1 in                                   (* taskCount-- *)
  let goingForward := negb (signum =? s2 st) in                   (* if r.signum == s2 { goingForward = false } *)
  if k1 st + 1 =? k2 st then
    let so := ok && (s1 st + 1 =? s2 st) in                       (* sigok = r.ok && s1+1 == s2 *)
    if negb (tc =? 0) && so
    then Running (mk_pstate (k1 st) (k2 st) (s1 st) (s2 st) so tc rest)      (* continue *)
    else Done so                                                              (* break loop *)
  else if ok then
    if s1 st + 1 =? s2 st then
      if negb (tc =? 0) && sigok st
      then Running (mk_pstate (k1 st) (k2 st) (s1 st) (s2 st) (sigok st) tc rest)   (* continue *)
      else Done (sigok st)                                                           (* break loop *)
    else if goingForward
      then Running (send_next (k1 st) (k2 st) (s1 st + 1) (s2 st) (sigok st) tc rest goingForward)   (* s1++ *)
      else Running (send_next (k1 st) (k2 st) (s1 st) (s2 st - 1) (sigok st) tc rest goingForward)   (* s2-- *)
  else Running (send_next (k1 st) (k2 st) (s1 st) (s2 st) (sigok st) tc rest goingForward).

(* the main loop receives the result of the j-th in-flight task; None = not enabled (no such task) *)
Definition deliver (keys : list K) (sigs : list Sg) (j : nat) (st : pstate) : option outcome :=
  match nth_error (inflight st) j with
  | None => None
  | Some t =>
      match worker keys sigs t with
      | None => Some Crash
      | Some (signum, ok) => Some (loop_body st (remove_nth j (inflight st)) signum ok)
      end
  end.

(* All interleavings.  [run st b]: the main loop can terminate with answer b, i.e. SOME sequence of enabled
   deliveries leads to `break loop` with sigok = b.  (A theorem "forall b, run st b -> ..." therefore speaks
   about EVERY interleaving of the workers.) *)
Inductive run (keys : list K) (sigs : list Sg) : pstate -> bool -> Prop :=
| run_done st j b : deliver keys sigs j st = Some (Done b) -> run keys sigs st b
| run_step st j st' b :
    deliver keys sigs j st = Some (Running st') -> run keys sigs st' b -> run keys sigs st b.

(* [steps c st st']: st' is reached from st by exactly c deliveries, the loop still running *)
Inductive steps (keys : list K) (sigs : list Sg) : nat -> pstate -> pstate -> Prop :=
| steps_0 st : steps keys sigs 0 st st
| steps_S c st j st' st'' :
    steps keys sigs c st st' -> deliver keys sigs j st' = Some (Running st'') -> steps keys sigs (S c) st st''.

(* state after the two initial sends (len(sigs) >= 2) *)
Definition init (keys : list K) (sigs : list Sg) : pstate :=
  mk_pstate 0 (length keys - 1) 0 (length sigs - 1) true 2 [(0, 0); (length keys - 1, length sigs - 1)].

(* strictly decreases (by exactly one) with every delivery that does not terminate the loop *)
Definition measure (st : pstate) : nat := (k2 st - k1 st) + taskCount st.

(* run under an explicit schedule: at each step the next number of [sched] modulo the number of in-flight tasks
   (0 when exhausted) selects the result that is received. None = out of fuel, deadlock or crash. *)
Fixpoint run_sched (keys : list K) (sigs : list Sg) (fuel : nat) (sched : list nat) (st : pstate) : option bool :=
  match fuel with
  | O => None
  | S fuel' =>
      let j := match sched with [] => 0 | x :: _ => x mod (length (inflight st)) end in
      match deliver keys sigs j st with
      | Some (Running st') => run_sched keys sigs fuel' (tl sched) st'
      | Some (Done b) => Some b
      | Some Crash => None
      | None => None
      end
  end.

(* len(sigs) == 1: slices.ContainsFunc(pkeys, verify sigs[0]), no goroutines *)
Definition one_sig (keys : list K) (s : Sg) : bool := existsb (fun k => verify k s) keys.

(* CheckMultisigPar under schedule [sched]. (No signature at all: the first worker indexes sigs[-1] and panics;
   the interop never calls it like that.) *)
Definition par_check (sched : list nat) (keys : list K) (sigs : list Sg) : option bool :=
  match sigs with
  | [] => None
  | [s] => Some (one_sig keys s)
  | _ => run_sched keys sigs (2 * length keys + 4) sched (init keys sigs)
  end.

(* the (key index, signum) pairs whose verification result the main loop consumed, in order: for examples *)
Fixpoint trace_sched (keys : list K) (sigs : list Sg) (fuel : nat) (sched : list nat) (st : pstate) : list task :=
  match fuel with
  | O => []
  | S fuel' =>
      let j := match sched with [] => 0 | x :: _ => x mod (length (inflight st)) end in
      match nth_error (inflight st) j with
      | None => []
      | Some t =>
          t :: match deliver keys sigs j st with
               | Some (Running st') => trace_sched keys sigs fuel' (tl sched) st'
               | _ => []
               end
      end
  end.

End Multisig.

Arguments matching {K Sg} verify keys sigs.
Arguments m_nil {K Sg verify} ks.
Arguments m_use {K Sg verify} k ks s ss _ _.
Arguments m_skip {K Sg verify} k ks ss _.
Arguments index_matching {K Sg} verify keys sigs.
Arguments seq_match {K Sg} verify keys sigs.
Arguments worker {K Sg} verify keys sigs t.
Arguments deliver {K Sg} verify keys sigs j st.
Arguments run {K Sg} verify keys sigs _ _.
Arguments steps {K Sg} verify keys sigs _ _ _.
Arguments init {K Sg} keys sigs.
Arguments run_sched {K Sg} verify keys sigs fuel sched st.
Arguments one_sig {K Sg} verify keys s.
Arguments par_check {K Sg} verify sched keys sigs.
Arguments trace_sched {K Sg} verify keys sigs fuel sched st.
