(* Proofs about Codec/Base58.v: Base58 is a bijection between non-empty byte strings and non-empty
   alphabet strings (leading zero bytes <-> leading '1's), Base58Check and address forms round-trip. *)
From NG Require Import Common.Tactics Common.HarnessLib Codec.Bigint Codec.BigintProofs
  Codec.Radix Codec.RadixProofs Codec.Base58.
Open Scope Z_scope.

(* ---------------- alphabet ---------------- *)
Lemma index_of_spec l : forall c i d, index_of c l i = Some d ->
  i <= d < i + Z.of_nat (length l) /\ nth (Z.to_nat (d - i)) l 49 = c.
Proof.
  induction l as [|x t IH]; intros c i d H; cbn [index_of] in H; [discriminate|].
  destruct (x =? c) eqn:E.
  - inv H. split; [cbn [length]; lia|]. replace (d - d) with 0 by lia. simpl. lia.
  - apply IH in H. destruct H as [Hr Hn]. split; [cbn [length]; lia|].
    replace (Z.to_nat (d - i)) with (S (Z.to_nat (d - (i + 1)))) by lia. exact Hn.
Qed.

Lemma digit_char c d : digit_of_char c = Some d -> 0 <= d < 58 /\ char_of_digit d = c.
Proof.
  intros H. apply index_of_spec in H. destruct H as [Hr Hn].
  change (Z.of_nat (length alphabet)) with 58 in Hr. split; [lia|].
  unfold char_of_digit. now replace (d - 0) with d in Hn by lia.
Qed.

Lemma char_digit d : 0 <= d < 58 -> digit_of_char (char_of_digit d) = Some d.
Proof.
  intros Hd.
  assert (forallb (fun n => match digit_of_char (char_of_digit (Z.of_nat n)) with
                            | Some x => x =? Z.of_nat n
                            | None => false
                            end) (seq 0 58) = true) as H by (vm_compute; reflexivity).
  rewrite forallb_forall in H. specialize (H (Z.to_nat d)).
  rewrite Z2Nat.id in H by lia.
  assert (In (Z.to_nat d) (seq 0 58)) as Hin by (apply in_seq; lia).
  specialize (H Hin). destruct (digit_of_char (char_of_digit d)) as [x|]; [|discriminate].
  f_equal. lia.
Qed.

Example digit_of_char_ex :
  digit_of_char 49 = Some 0 /\ digit_of_char 122 = Some 57 /\ digit_of_char 48 = None /\
  digit_of_char 73 = None /\ digit_of_char 79 = None /\ digit_of_char 108 = None /\
  digit_of_char 200 = None /\ digit_of_char (-1) = None.
Proof. vm_compute. repeat split. Qed.

Lemma map_repeat_ {A B} (f : A -> B) x n : map f (repeat x n) = repeat (f x) n.
Proof. induction n; simpl; congruence. Qed.

Lemma b58_decode_cons c s :
  b58_decode (c :: s) =
  match map_option digit_of_char (c :: s) with
  | None => None
  | Some ds => Some (repeat 0 (count_leading 0 ds) ++ digits_be 256 (value_be 58 (strip_leading 0 ds)))
  end.
Proof. reflexivity. Qed.

Lemma bytes_ok_digits_ok l : bytes_ok l <-> digits_ok 256 l.
Proof. reflexivity. Qed.

(* ---------------- Encode then Decode ---------------- *)
Theorem base58_roundtrip : forall bs, bytes_ok bs -> bs <> [] -> b58_decode (b58_encode bs) = Some bs.
Proof.
  intros bs Hok Hne.
  pose proof (leading_split 0 bs) as Hsplit.
  pose proof (strip_no_lead 0 bs) as Hnl.
  pose proof (strip_leading_Forall _ 0 bs Hok) as Hrok.
  unfold b58_encode.
  set (k := count_leading 0 bs) in *. set (rest := strip_leading 0 bs) in *.
  assert (canon_be 256 rest) as Hcr by (split; assumption).
  pose proof (value_be_nonneg 256 ltac:(lia) rest Hrok) as HN.
  set (N := value_be 256 rest) in *.
  pose proof (digits_be_canon 58 ltac:(lia) N HN) as [Hdok Hdnl].
  assert (digits_be 256 N = rest) as Hback by (apply digits_value_be; [lia|assumption]).
  set (ds := digits_be 58 N) in *.
  change 49 with (char_of_digit 0). rewrite <- map_repeat_, <- map_app.
  assert (repeat 0 k ++ ds <> []) as Hne'.
  { intros E. apply app_eq_nil in E. destruct E as [Ek Ed].
    apply digits_be_nil_iff in Ed; [|lia|assumption].
    rewrite Ed in Hback. change (digits_be 256 0) with (@nil Z) in Hback.
    rewrite <- Hback, Ek in Hsplit. simpl in Hsplit. congruence. }
  destruct (map char_of_digit (repeat 0 k ++ ds)) as [|c s] eqn:Es.
  { apply map_eq_nil in Es. congruence. }
  rewrite b58_decode_cons, <- Es.
  rewrite (map_option_map digit_of_char char_of_digit (fun d => 0 <= d < 58) char_digit).
  2:{ apply Forall_app. split; [apply Forall_repeat; lia|exact Hdok]. }
  rewrite count_leading_app, strip_leading_app by assumption.
  subst ds. rewrite value_digits_be by lia. rewrite Hback. now rewrite <- Hsplit.
Qed.

Example base58_roundtrip_ex :
  bytes_ok [0;0;1;2] /\ [0;0;1;2] <> [] /\
  b58_encode [0;0;1;2] = [49;49;53;84] /\ b58_decode [49;49;53;84] = Some [0;0;1;2] /\
  b58_encode [0;0;0] = [49;49;49] /\ b58_decode [49;49;49] = Some [0;0;0] /\
  b58_encode [] = [] /\ b58_decode [] = None.
Proof.
  split; [repeat constructor; lia|]. split; [discriminate|]. vm_compute. repeat split.
Qed.

(* ---------------- Decode then Encode: every valid string is canonical ---------------- *)
Theorem base58_roundtrip_rev : forall s bs, b58_decode s = Some bs -> b58_encode bs = s /\ bytes_ok bs.
Proof.
  intros s bs H. destruct s as [|c s0]; [discriminate|]. rewrite b58_decode_cons in H.
  set (s := c :: s0) in *.
  destruct (map_option digit_of_char s) as [ds|] eqn:Em; [|discriminate]. inv H.
  pose proof (map_option_Forall digit_of_char (fun d => 0 <= d < 58)
                (fun x y Hxy => proj1 (digit_char x y Hxy)) s ds Em) as Hds.
  pose proof (map_option_inv digit_of_char char_of_digit
                (fun x y Hxy => proj2 (digit_char x y Hxy)) s ds Em) as Hinv.
  pose proof (leading_split 0 ds) as Hsplit.
  pose proof (strip_no_lead 0 ds) as Hnl.
  pose proof (strip_leading_Forall _ 0 ds Hds) as Hrok.
  set (k := count_leading 0 ds) in *. set (r := strip_leading 0 ds) in *.
  assert (canon_be 58 r) as Hcr by (split; assumption).
  pose proof (value_be_nonneg 58 ltac:(lia) r Hrok) as HM.
  set (M := value_be 58 r) in *.
  pose proof (digits_be_canon 256 ltac:(lia) M HM) as [Hbok Hbnl].
  split.
  - unfold b58_encode. rewrite count_leading_app, strip_leading_app by assumption.
    rewrite value_digits_be by lia. subst M. rewrite digits_value_be by (lia || assumption).
    change 49 with (char_of_digit 0). rewrite <- map_repeat_, <- map_app, <- Hsplit. exact Hinv.
  - apply Forall_app. split; [apply Forall_repeat; lia|exact Hbok].
Qed.

Example base58_roundtrip_rev_ex :
  b58_decode [49;49;53;82] = Some [0;0;1;0] /\ b58_encode [0;0;1;0] = [49;49;53;82].
Proof. vm_compute. split; reflexivity. Qed.

Theorem b58_decode_none_iff : forall s,
  b58_decode s = None <-> s = [] \/ exists c, In c s /\ digit_of_char c = None.
Proof.
  intros s. destruct s as [|c s0].
  - split; [intros _; left; reflexivity|reflexivity].
  - rewrite b58_decode_cons. rewrite <- map_option_none.
    destruct (map_option digit_of_char (c :: s0)) as [ds|].
    + split; [discriminate|]. intros [E|E]; discriminate.
    + split; [intros _; right; reflexivity|reflexivity].
Qed.

Example b58_decode_none_ex :
  b58_decode [49;48;50] = None /\ In 48 [49;48;50] /\ digit_of_char 48 = None /\
  b58_decode [50;300] = None /\ b58_decode [108] = None.
Proof. vm_compute. repeat split. right; left; reflexivity. Qed.

Corollary b58_encode_inj : forall a b, bytes_ok a -> bytes_ok b -> b58_encode a = b58_encode b -> a = b.
Proof.
  intros a b Ha Hb E.
  destruct a as [|x a']; destruct b as [|y b'].
  - reflexivity.
  - pose proof (base58_roundtrip (y :: b') Hb ltac:(discriminate)) as H. rewrite <- E in H. discriminate H.
  - pose proof (base58_roundtrip (x :: a') Ha ltac:(discriminate)) as H. rewrite E in H. discriminate H.
  - pose proof (base58_roundtrip (x :: a') Ha ltac:(discriminate)) as H1.
    pose proof (base58_roundtrip (y :: b') Hb ltac:(discriminate)) as H2. rewrite E in H1. congruence.
Qed.

(* ---------------- Base58Check and addresses ---------------- *)
Lemma firstn_length_app {A} (a c : list A) : firstn (length a) (a ++ c) = a.
Proof. induction a; simpl; congruence. Qed.

Lemma skipn_length_app {A} (a c : list A) : skipn (length a) (a ++ c) = c.
Proof. induction a; simpl; congruence. Qed.

Lemma zlist_eqb_eq a b : list_eqb Z.eqb a b = true <-> a = b.
Proof. apply list_eqb_eq. intros x y. apply Z.eqb_eq. Qed.

Section Check.
Variable checksum : list Z -> list Z.
Hypothesis checksum_len : forall b, length (checksum b) = 4%nat.
Hypothesis checksum_ok : forall b, bytes_ok (checksum b).

Theorem check_roundtrip : forall b, bytes_ok b -> b <> [] ->
  check_decode checksum (check_encode checksum b) = Some b.
Proof.
  intros b Hok Hne. unfold check_decode, check_encode.
  rewrite base58_roundtrip.
  2:{ apply Forall_app. split; [assumption|apply checksum_ok]. }
  2:{ intros E. apply app_eq_nil in E. tauto. }
  rewrite app_length, checksum_len.
  assert (0 < length b)%nat by (destruct b; [congruence|simpl; lia]).
  replace (length b + 4 <? 5)%nat with false by lia.
  replace (length b + 4 - 4)%nat with (length b) by lia.
  rewrite firstn_length_app, skipn_length_app.
  assert (list_eqb Z.eqb (checksum b) (checksum b) = true) as -> by (apply zlist_eqb_eq; reflexivity).
  reflexivity.
Qed.

Lemma check_decode_inv s b : check_decode checksum s = Some b ->
  b58_decode s = Some (b ++ checksum b) /\ b <> [].
Proof.
  unfold check_decode. intros H.
  destruct (b58_decode s) as [full|] eqn:Ed; [|discriminate].
  destruct (length full <? 5)%nat eqn:El; [discriminate|].
  destruct (list_eqb Z.eqb (checksum (firstn (length full - 4) full)) (skipn (length full - 4) full)) eqn:Ec;
    [|discriminate].
  inv H. apply zlist_eqb_eq in Ec. rewrite Ec, firstn_skipn. split; [reflexivity|].
  intros E. apply (f_equal (@length Z)) in E. rewrite firstn_length in E. simpl in E. lia.
Qed.

Theorem check_roundtrip_rev : forall s b, check_decode checksum s = Some b -> check_encode checksum b = s.
Proof.
  intros s b H. apply check_decode_inv in H. destruct H as [H _].
  unfold check_encode. apply base58_roundtrip_rev in H. tauto.
Qed.

Lemma check_decode_ok s b : check_decode checksum s = Some b -> bytes_ok b /\ b <> [].
Proof.
  intros H. apply check_decode_inv in H. destruct H as [H Hne]. split; [|assumption].
  apply base58_roundtrip_rev in H. destruct H as [_ H]. apply Forall_app in H. tauto.
Qed.

Theorem addr_roundtrip : forall prefix u, bytes_ok (prefix :: u) -> length u = 20%nat ->
  addr_decode checksum prefix (addr_encode checksum prefix u) = Some u.
Proof.
  intros prefix u Hok Hlen. unfold addr_decode, addr_encode.
  rewrite check_roundtrip by (assumption || discriminate).
  rewrite Z.eqb_refl. cbn [negb]. rewrite Hlen. reflexivity.
Qed.

Theorem addr_decode_sound : forall p s u, addr_decode checksum p s = Some u ->
  length u = 20%nat /\ addr_encode checksum p u = s.
Proof.
  intros p s u H. unfold addr_decode in H.
  destruct (check_decode checksum s) as [[|q v]|] eqn:Ec; try discriminate.
  destruct (q =? p) eqn:Eq; cbn [negb] in H; [|discriminate].
  destruct (length v =? 20)%nat eqn:El; [|discriminate]. inv H.
  assert (q = p) by lia. subst q. split; [lia|].
  unfold addr_encode. apply check_roundtrip_rev. assumption.
Qed.

End Check.

(* ---------------- the section hypotheses are satisfiable: a toy checksum ---------------- *)
Definition toy_checksum (b : list Z) : list Z := le_bytes 4 (31 * value_be 256 b + Z.of_nat (length b)).

Lemma toy_checksum_len b : length (toy_checksum b) = 4%nat.
Proof. apply le_bytes_length. Qed.

Lemma toy_checksum_ok b : bytes_ok (toy_checksum b).
Proof. apply le_bytes_ok. Qed.

Definition ex_hash : list Z := [0;17;34;51;68;85;102;119;136;153;170;187;204;221;238;255;1;2;3;0].

Example check_roundtrip_ex :
  bytes_ok [0;0;7;200] /\ [0;0;7;200] <> [] /\
  check_decode toy_checksum (check_encode toy_checksum [0;0;7;200]) = Some [0;0;7;200].
Proof. split; [repeat constructor; lia|]. split; [discriminate|]. vm_compute. reflexivity. Qed.

Example check_roundtrip_rev_ex :
  let s := check_encode toy_checksum [0;9;9] in
  check_decode toy_checksum s = Some [0;9;9] /\ check_encode toy_checksum [0;9;9] = s /\
  (* a damaged string and a too short payload are rejected *)
  check_decode toy_checksum (s ++ [50]) = None /\ check_decode toy_checksum [50;51;52] = None.
Proof. vm_compute. repeat split. Qed.

Example addr_roundtrip_ex :
  bytes_ok (53 :: ex_hash) /\ length ex_hash = 20%nat /\
  addr_decode toy_checksum 53 (addr_encode toy_checksum 53 ex_hash) = Some ex_hash /\
  (* wrong prefix *)
  addr_decode toy_checksum 23 (addr_encode toy_checksum 53 ex_hash) = None.
Proof. split; [repeat constructor; lia|]. vm_compute. repeat split. Qed.

(* F15: a well-formed Base58Check string whose payload is not prefix + 20 bytes is not an address *)
Example addr_decode_sound_ex :
  addr_decode toy_checksum 53 (addr_encode toy_checksum 53 ex_hash) = Some ex_hash /\
  check_decode toy_checksum (check_encode toy_checksum (53 :: ex_hash ++ [1])) = Some (53 :: ex_hash ++ [1]) /\
  addr_decode toy_checksum 53 (check_encode toy_checksum (53 :: ex_hash ++ [1])) = None /\
  addr_decode toy_checksum 53 (check_encode toy_checksum [53;1;2]) = None.
Proof. vm_compute. repeat split. Qed.

(* instantiated forms (what Properties/*.v can [exact]) *)
Definition toy_check_roundtrip := check_roundtrip toy_checksum toy_checksum_len toy_checksum_ok.
