(* NEP-2 (passphrase-protected private keys): the ENVELOPE of pkg/crypto/keys/nep2.go. Definitions only
   (proofs: Nep2Proofs.v).

   Go code followed:
     NEP2Encrypt: addrHash = hash.Checksum(address of the key); phraseNorm = normalise(passphrase);
                  derived = scrypt(phraseNorm, addrHash) (64 bytes); body = AES-ECB(derived[32:], key XOR derived[:32]);
                  base58.CheckEncode(01 42 e0 ++ addrHash ++ body)
     NEP2Decrypt: base58.CheckDecode; validateNEP2Format (39 bytes, 01 42 e0); addrHash = b[3:7];
                  derived = scrypt(normalise(passphrase), addrHash); key = AES-ECB^-1(derived[32:], b[7:]) XOR derived[:32];
                  NewPrivateKeyFromBytes(key); compareAddressHash, else "password mismatch"

   NOT modelled (Section variables, with the laws they are assumed to obey): scrypt ([kdf]), AES-256-ECB
   ([enc]/[dec]), the map key -> 4-byte address hash ([addr_hash]: elliptic-curve point, verification script, Hash160,
   Base58Check address, double SHA-256), the validity of a scalar ([key_valid]), the Base58Check checksum, and the
   Unicode normalisation: [n_enc] is what the encrypting side applies to the passphrase, [n_dec] what the decrypting
   side applies. NEP-2 requires both to be NFC. *)
From NG Require Export Common.Tactics Common.HarnessLib Codec.Bigint Codec.Base58.
Open Scope Z_scope.

(* xor of nep2.go (the Go function panics on unequal lengths; every call here is on 32 and 32 bytes) *)
Fixpoint xor_bytes (a b : list Z) : list Z :=
  match a, b with
  | x :: a', y :: b' => Z.lxor x y :: xor_bytes a' b'
  | _, _ => []
  end.

(* nepHeader ++ nepFlag *)
Definition nep2_header : list Z := [1; 66; 224].

Section Nep2.
Variable checksum : list Z -> list Z.
Variable addr_hash : list Z -> list Z.           (* private key bytes -> hash.Checksum(address) *)
Variable key_valid : list Z -> bool.             (* NewPrivateKeyFromBytes accepts *)
Variable kdf : list Z -> list Z -> list Z.       (* scrypt passphrase-bytes salt, 64 bytes *)
Variable enc dec : list Z -> list Z -> list Z.   (* aesEncrypt / aesDecrypt: key, data *)

(* the framing: what is Base58Check-encoded, and validateNEP2Format with the split into address hash and body *)
Definition nep2_frame (ah body : list Z) : list Z := check_encode checksum (nep2_header ++ ah ++ body).

Definition nep2_unframe (s : list Z) : option (list Z * list Z) :=
  match check_decode checksum s with
  | None => None
  | Some b =>
      if negb (length b =? 39)%nat then None
      else if negb (list_eqb Z.eqb (firstn 3 b) nep2_header) then None
      else Some (firstn 4 (skipn 3 b), skipn 7 b)
  end.

(* the key recovered from a body under a derived key *)
Definition nep2_recover (dk body : list Z) : list Z := xor_bytes (dec (skipn 32 dk) body) (firstn 32 dk).

Definition nep2_encrypt (n_enc : list Z -> list Z) (k pass : list Z) : list Z :=
  let ah := addr_hash k in
  let dk := kdf (n_enc pass) ah in
  nep2_frame ah (enc (skipn 32 dk) (xor_bytes k (firstn 32 dk))).

Definition nep2_decrypt (n_dec : list Z -> list Z) (s pass : list Z) : option (list Z) :=
  match nep2_unframe s with
  | None => None
  | Some (ah, body) =>
      let k := nep2_recover (kdf (n_dec pass) ah) body in
      if negb (key_valid k) then None
      else if list_eqb Z.eqb (addr_hash k) ah then Some k else None
  end.

(* a private key as NEP2Encrypt receives it *)
Definition key_wf (k : list Z) : Prop := length k = 32%nat /\ bytes_ok k /\ key_valid k = true.

End Nep2.
