(* Proofs about Codec/Merkle.v.  Nothing is assumed about the pair hash H: every theorem below is, after the
   section closes, universally quantified over (hash, H, zero). *)
From NG Require Import Common.Tactics Codec.Merkle.

(* ---------- generic list facts ---------- *)

(* induction two elements at a time *)
Lemma pair_ind {A} (P : list A -> Prop) :
  P [] -> (forall a, P [a]) -> (forall a b t, P t -> P (a :: b :: t)) -> forall l, P l.
Proof.
  intros Hnil Hone Hstep l.
  assert (Hboth : P l /\ forall x, P (x :: l)).
  { induction l as [|y l IH]; [split; [exact Hnil|exact Hone]|].
    destruct IH as [IH1 IH2]. split; [apply IH2|]. intros x. apply Hstep. exact IH1. }
  exact (proj1 Hboth).
Qed.

Lemma nth_firstn_lt {A} (l : list A) p j d : j < p -> nth j (firstn p l) d = nth j l d.
Proof.
  revert p j; induction l as [|x l IH]; intros p j Hj.
  - now rewrite firstn_nil.
  - destruct p as [|p]; [lia|]. destruct j as [|j]; [reflexivity|].
    cbn [firstn nth]. apply IH. lia.
Qed.

Lemma double_S i : 2 * S i = S (S (2 * i)).
Proof. lia. Qed.

Lemma double_S1 i : 2 * S i + 1 = S (S (2 * i + 1)).
Proof. lia. Qed.

Section MerkleProofs.
Variable hash : Type.
Variable H : hash -> hash -> hash.
Variable zero : hash.

Local Notation pair_level := (pair_level hash H).
Local Notation merkle_root_fuel := (merkle_root_fuel hash H zero).
Local Notation merkle_root := (merkle_root hash H zero).
Local Notation upd := (upd hash).
Local Notation inplace_step := (inplace_step hash H zero).
Local Notation inplace_loop := (inplace_loop hash H zero).
Local Notation calc_merkle_root_fuel := (calc_merkle_root_fuel hash H zero).
Local Notation calc_merkle_root := (calc_merkle_root hash H zero).
Local Notation mtree := (mtree hash).
Local Notation mk_parent := (mk_parent hash H zero).
Local Notation build_loop := (build_loop hash H zero).
Local Notation build_level := (build_level hash H zero).
Local Notation build_tree_fuel := (build_tree_fuel hash H zero).
Local Notation new_merkle_tree := (new_merkle_tree hash H zero).
Local Notation tree_wf := (tree_wf hash H).
Local Notation sub_root := (sub_root hash H zero).

(* what slot j of the next level must hold, in terms of the current level [l] of length [n] *)
Definition pair_at (n : nat) (l : list hash) (j : nat) : hash :=
  H (nth (2 * j) l zero)
    (if Nat.eqb (2 * j + 1) n then nth (2 * j) l zero else nth (2 * j + 1) l zero).

(* ---------- pair_level ---------- *)

Lemma pair_level_length l : length (pair_level l) = (length l + 1) / 2.
Proof.
  induction l as [| a | a b t IH] using pair_ind; [reflexivity|reflexivity|].
  cbn [Merkle.pair_level length]. rewrite IH. lia.
Qed.

Lemma pair_level_nth l : forall j, j < (length l + 1) / 2 ->
  nth j (pair_level l) zero = pair_at (length l) l j.
Proof.
  induction l as [| a | a b t IH] using pair_ind; intros j Hj.
  - cbn [length] in Hj. lia.
  - cbn [length] in Hj. assert (j = 0) by lia. subst j. reflexivity.
  - cbn [length] in Hj. destruct j as [|j].
    + reflexivity.
    + cbn [Merkle.pair_level nth]. rewrite IH by lia.
      unfold pair_at. rewrite double_S1, double_S. cbn [nth length].
      replace (Nat.eqb (S (S (2 * j + 1))) (S (S (length t)))) with (Nat.eqb (2 * j + 1) (length t))
        by (destruct (Nat.eqb_spec (2 * j + 1) (length t)); destruct (Nat.eqb_spec (S (S (2 * j + 1))) (S (S (length t)))); lia || reflexivity).
      reflexivity.
Qed.

Lemma pair_level_nonnil l : l <> [] -> pair_level l <> [].
Proof. destruct l as [|a [|b t]]; cbn; congruence. Qed.

(* ---------- fuel independence of the specification ---------- *)

Lemma merkle_fuel_any f1 : forall f2 l, length l <= f1 -> length l <= f2 ->
  merkle_root_fuel f1 l = merkle_root_fuel f2 l.
Proof.
  induction f1 as [|f1 IH]; intros f2 l H1 H2.
  - destruct l as [|a [|b t]]; [destruct f2; reflexivity|destruct f2; reflexivity|cbn [length] in H1; lia].
  - destruct l as [|a [|b t]]; [destruct f2; reflexivity|destruct f2; reflexivity|].
    destruct f2 as [|f2]; [cbn [length] in H2; lia|].
    cbn [Merkle.merkle_root_fuel].
    pose proof (pair_level_length (a :: b :: t)) as Hl. cbn [length] in Hl, H1, H2.
    apply IH; cbn [length]; lia.
Qed.

Theorem merkle_fuel_indep fuel l : length l <= fuel -> merkle_root_fuel fuel l = merkle_root l.
Proof. intros Hf. unfold Merkle.merkle_root. apply merkle_fuel_any; lia. Qed.

Lemma merkle_root_nil : merkle_root [] = zero.
Proof. reflexivity. Qed.

Lemma merkle_root_one h : merkle_root [h] = h.
Proof. reflexivity. Qed.

Lemma merkle_root_step l : 2 <= length l -> merkle_root l = merkle_root (pair_level l).
Proof.
  intros Hl. destruct l as [|a [|b t]]; cbn [length] in Hl; try lia.
  change (merkle_root (a :: b :: t)) with (merkle_root_fuel (S (length t)) (pair_level (a :: b :: t))).
  apply merkle_fuel_indep.
  pose proof (pair_level_length (a :: b :: t)) as Hp. cbn [length] in Hp. lia.
Qed.

(* ---------- mechanism A: the in-place loop ---------- *)

Lemma upd_length a : forall i v, length (upd a i v) = length a.
Proof.
  induction a as [|x a IH]; intros i v; [reflexivity|].
  destruct i as [|i]; cbn [Merkle.upd length]; [reflexivity|]. now rewrite IH.
Qed.

Lemma upd_nth_same a : forall i v, i < length a -> nth i (upd a i v) zero = v.
Proof.
  induction a as [|x a IH]; intros i v Hi; cbn [length] in Hi; [lia|].
  destruct i as [|i]; cbn [Merkle.upd nth]; [reflexivity|]. apply IH. lia.
Qed.

Lemma upd_nth_other a : forall i j v, i <> j -> nth j (upd a i v) zero = nth j a zero.
Proof.
  induction a as [|x a IH]; intros i j v Hij; [reflexivity|].
  destruct i as [|i]; destruct j as [|j]; cbn [Merkle.upd nth]; try reflexivity; try lia.
  apply IH. lia.
Qed.

Lemma inplace_step_length n i a : length (inplace_step n i a) = length a.
Proof. unfold Merkle.inplace_step. apply upd_length. Qed.

Lemma inplace_loop_length n cnt : forall i a, length (inplace_loop n cnt i a) = length a.
Proof.
  induction cnt as [|cnt IH]; intros i a; [reflexivity|].
  cbn [Merkle.inplace_loop]. now rewrite IH, inplace_step_length.
Qed.

(* slots outside [i, i+cnt) are untouched *)
Lemma inplace_loop_untouched n cnt : forall i a j, j < i \/ i + cnt <= j ->
  nth j (inplace_loop n cnt i a) zero = nth j a zero.
Proof.
  induction cnt as [|cnt IH]; intros i a j Hj; [reflexivity|].
  cbn [Merkle.inplace_loop]. rewrite IH by lia.
  unfold Merkle.inplace_step. apply upd_nth_other. lia.
Qed.

(* The invariant of the loop: slot j in [i, i+cnt) ends up holding the pair hash of the ORIGINAL slots 2j and
   2j+1: the slots written before iteration j are i..j-1, all below 2j, so no unread slot is destroyed. *)
Lemma inplace_loop_written n cnt : forall i a j, i <= j < i + cnt -> i + cnt <= length a ->
  nth j (inplace_loop n cnt i a) zero = pair_at n a j.
Proof.
  induction cnt as [|cnt IH]; intros i a j Hj Hlen; [lia|].
  cbn [Merkle.inplace_loop].
  destruct (Nat.eq_dec j i) as [->|Hne].
  - rewrite inplace_loop_untouched by lia.
    unfold Merkle.inplace_step. rewrite upd_nth_same by lia.
    unfold pair_at. reflexivity.
  - rewrite IH; [|lia|rewrite inplace_step_length; lia].
    unfold pair_at, Merkle.inplace_step.
    rewrite !upd_nth_other by lia. reflexivity.
Qed.

Theorem inplace_level_correct a : 2 <= length a ->
  firstn ((length a + 1) / 2) (inplace_loop (length a) ((length a + 1) / 2) 0 a) = pair_level a.
Proof.
  intros Hlen.
  set (n := length a). set (p := (n + 1) / 2).
  assert (Hp : p <= n) by (subst p; lia).
  apply nth_ext with (d := zero) (d' := zero).
  - rewrite firstn_length, inplace_loop_length, pair_level_length. fold n. fold p. lia.
  - intros j Hj. rewrite firstn_length, inplace_loop_length in Hj. fold n in Hj.
    rewrite nth_firstn_lt by lia.
    rewrite inplace_loop_written by (fold n; lia).
    symmetry. apply pair_level_nth. fold n. fold p. lia.
Qed.

Lemma calc_fuel_eq_recursive fuel : forall a, calc_merkle_root_fuel fuel a = merkle_root_fuel fuel a.
Proof.
  induction fuel as [|fuel IH]; intros a.
  - destruct a as [|x [|y t]]; reflexivity.
  - destruct a as [|x [|y t]]; [reflexivity|reflexivity|].
    cbn [Merkle.calc_merkle_root_fuel Merkle.merkle_root_fuel].
    rewrite inplace_level_correct by (cbn [length]; lia).
    apply IH.
Qed.

Theorem merkle_inplace_eq_recursive l : calc_merkle_root l = merkle_root l.
Proof. apply calc_fuel_eq_recursive. Qed.

(* ---------- mechanism B: the node structure ---------- *)

Lemma build_loop_length n cnt : forall i ts, length (build_loop n cnt i ts) = cnt.
Proof.
  induction cnt as [|cnt IH]; intros i ts; [reflexivity|].
  cbn [Merkle.build_loop length]. now rewrite IH.
Qed.

Lemma build_loop_nth n cnt : forall i ts j d, j < cnt ->
  nth j (build_loop n cnt i ts) d = mk_parent n ts (i + j).
Proof.
  induction cnt as [|cnt IH]; intros i ts j d Hj; [lia|].
  cbn [Merkle.build_loop]. destruct j as [|j]; cbn [nth].
  - now rewrite Nat.add_0_r.
  - rewrite IH by lia. f_equal. lia.
Qed.

Lemma nth_map_node_hash (ts : list mtree) k :
  nth k (map node_hash ts) zero = node_hash (nth k ts (MLeaf zero)).
Proof. exact (map_nth node_hash ts (MLeaf zero) k). Qed.

Lemma mk_parent_hash (ts : list mtree) j :
  node_hash (mk_parent (length ts) ts j) = pair_at (length ts) (map node_hash ts) j.
Proof.
  unfold Merkle.mk_parent, pair_at. cbn [node_hash].
  rewrite !nth_map_node_hash. now destruct (Nat.eqb (2 * j + 1) (length ts)).
Qed.

Lemma build_level_length ts : length (build_level ts) = (length ts + 1) / 2.
Proof. unfold Merkle.build_level. apply build_loop_length. Qed.

(* a freshly built level carries exactly the pair_level hashes *)
Theorem build_level_hashes ts : map node_hash (build_level ts) = pair_level (map node_hash ts).
Proof.
  apply nth_ext with (d := zero) (d' := zero).
  - now rewrite map_length, build_level_length, pair_level_length, map_length.
  - intros j Hj. rewrite map_length, build_level_length in Hj.
    rewrite nth_map_node_hash. unfold Merkle.build_level.
    rewrite build_loop_nth by exact Hj. cbn [Nat.add].
    rewrite mk_parent_hash.
    rewrite pair_level_nth by (rewrite map_length; exact Hj).
    now rewrite map_length.
Qed.

Lemma nth_Forall {A} (P : A -> Prop) l d k : Forall P l -> P d -> P (nth k l d).
Proof.
  intros Hl Hd. revert k. induction Hl as [|x l Hx Hl IH]; intros k; destruct k; cbn [nth]; auto.
Qed.

Lemma mk_parent_wf n ts j : Forall tree_wf ts -> tree_wf (mk_parent n ts j).
Proof.
  intros Hts. unfold Merkle.mk_parent. cbn [Merkle.tree_wf].
  assert (Hnth : forall k, tree_wf (nth k ts (MLeaf zero))).
  { intros k. apply nth_Forall; [exact Hts|exact I]. }
  split; [reflexivity|]. split; [apply Hnth|].
  destruct (Nat.eqb (2 * j + 1) n); apply Hnth.
Qed.

Lemma build_loop_wf n cnt : forall i ts, Forall tree_wf ts -> Forall tree_wf (build_loop n cnt i ts).
Proof.
  induction cnt as [|cnt IH]; intros i ts Hts; cbn [Merkle.build_loop]; constructor.
  - now apply mk_parent_wf.
  - now apply IH.
Qed.

Lemma build_level_wf ts : Forall tree_wf ts -> Forall tree_wf (build_level ts).
Proof. apply build_loop_wf. Qed.

Lemma build_tree_fuel_correct fuel : forall ts, ts <> [] -> length ts <= fuel ->
  exists t, build_tree_fuel fuel ts = Some t
            /\ node_hash t = merkle_root_fuel fuel (map node_hash ts)
            /\ (Forall tree_wf ts -> tree_wf t).
Proof.
  induction fuel as [|fuel IH]; intros ts Hne Hlen.
  - destruct ts as [|x ts]; [congruence|cbn [length] in Hlen; lia].
  - destruct ts as [|x [|y ts]]; [congruence| |].
    + exists x. split; [reflexivity|]. split; [reflexivity|]. intros Hwf. now inv Hwf.
    + set (lv := x :: y :: ts) in *.
      assert (Hlv : 2 <= length lv) by (subst lv; cbn [length]; lia).
      destruct (IH (build_level lv)) as [t [Hb [Hh Hw]]].
      * intros Hnil. pose proof (build_level_length lv) as Hl. rewrite Hnil in Hl. cbn [length] in Hl. lia.
      * rewrite build_level_length. lia.
      * exists t. split; [exact Hb|]. split.
        -- rewrite Hh, build_level_hashes. reflexivity.
        -- intros Hwf. apply Hw. now apply build_level_wf.
Qed.

Lemma new_merkle_tree_correct l : l <> [] ->
  exists t, new_merkle_tree l = Some t /\ tree_root t = merkle_root l /\ tree_wf t.
Proof.
  intros Hne.
  destruct (build_tree_fuel_correct (length l) (map MLeaf l)) as [t [Hb [Hh Hw]]].
  - destruct l; [congruence|discriminate].
  - now rewrite map_length.
  - exists t. split; [|split].
    + destruct l; [congruence|exact Hb].
    + unfold tree_root. rewrite Hh, map_map. cbn [node_hash]. now rewrite map_id.
    + apply Hw. apply Forall_forall. intros x Hx. apply in_map_iff in Hx.
      destruct Hx as [h [<- _]]. exact I.
Qed.

Theorem merkle_tree_eq_recursive l : l <> [] ->
  option_map tree_root (new_merkle_tree l) = Some (merkle_root l).
Proof.
  intros Hne. destruct (new_merkle_tree_correct l Hne) as [t [Ht [Hr _]]].
  rewrite Ht. cbn [option_map]. now rewrite Hr.
Qed.

Theorem merkle_tree_nil : new_merkle_tree [] = None.
Proof. reflexivity. Qed.

Theorem merkle_tree_some l : l <> [] -> new_merkle_tree l <> None.
Proof.
  intros Hne. destruct (new_merkle_tree_correct l Hne) as [t [Ht _]]. rewrite Ht. discriminate.
Qed.

Theorem merkle_tree_wf l t : new_merkle_tree l = Some t -> tree_wf t.
Proof.
  intros Ht. destruct l as [|x l]; [discriminate|].
  destruct (new_merkle_tree_correct (x :: l)) as [t' [Ht' [_ Hw]]]; [discriminate|].
  rewrite Ht in Ht'. inv Ht'. exact Hw.
Qed.

(* ---------- tree-shaped characterisation ---------- *)

Lemma pair_level_firstn l : forall k, pair_level (firstn (2 * k) l) = firstn k (pair_level l).
Proof.
  induction l as [| a | a b t IH] using pair_ind; intros k.
  - now rewrite !firstn_nil.
  - destruct k as [|k]; [reflexivity|]. rewrite double_S. cbn [firstn Merkle.pair_level].
    now rewrite !firstn_nil.
  - destruct k as [|k]; [reflexivity|]. rewrite double_S. cbn [firstn Merkle.pair_level].
    now rewrite IH.
Qed.

Lemma pair_level_skipn l : forall k, pair_level (skipn (2 * k) l) = skipn k (pair_level l).
Proof.
  induction l as [| a | a b t IH] using pair_ind; intros k.
  - now rewrite !skipn_nil.
  - destruct k as [|k]; [reflexivity|]. rewrite double_S. cbn [skipn Merkle.pair_level].
    now rewrite !skipn_nil.
  - destruct k as [|k]; [reflexivity|]. rewrite double_S. cbn [skipn Merkle.pair_level].
    now apply IH.
Qed.

Lemma pow2_pos d : 1 <= 2 ^ d.
Proof. pose proof (Nat.pow_nonzero 2 d). lia. Qed.

Lemma length_nonnil {A} (l : list A) : l <> [] <-> 1 <= length l.
Proof. destruct l; cbn [length]; split; intros; try congruence; lia. Qed.

(* descending one level in the tree = pairing the leaves once *)
Lemma sub_root_pair_level d : forall l, l <> [] -> length l <= 2 ^ S d ->
  sub_root (S d) l = sub_root d (pair_level l).
Proof.
  induction d as [|d IH]; intros l Hne Hlen.
  - destruct l as [|a [|b [|c t]]]; [congruence|reflexivity|reflexivity|].
    cbn [length] in Hlen. change (2 ^ 1) with 2 in Hlen. lia.
  - pose proof (pair_level_length l) as Hpl.
    pose proof (pow2_pos d) as Hpos.
    apply length_nonnil in Hne.
    rewrite Nat.pow_succ_r' in Hlen.
    change (sub_root (S (S d)) l) with
      (if length l <=? 2 ^ S d
       then let x := sub_root (S d) l in H x x
       else H (sub_root (S d) (firstn (2 ^ S d) l)) (sub_root (S d) (skipn (2 ^ S d) l))).
    change (sub_root (S d) (pair_level l)) with
      (if length (pair_level l) <=? 2 ^ d
       then let x := sub_root d (pair_level l) in H x x
       else H (sub_root d (firstn (2 ^ d) (pair_level l))) (sub_root d (skipn (2 ^ d) (pair_level l)))).
    rewrite Hpl. rewrite (Nat.pow_succ_r' 2 d) in *.
    remember (2 ^ d) as p eqn:Ep.
    destruct (Nat.leb_spec (length l) (2 * p)) as [Hle|Hgt].
    + destruct (Nat.leb_spec ((length l + 1) / 2) p) as [_|Hbad]; [|lia].
      cbv zeta. rewrite IH; [reflexivity|apply length_nonnil; lia|].
      lia.
    + destruct (Nat.leb_spec ((length l + 1) / 2) p) as [Hbad|_]; [lia|].
      rewrite <- pair_level_firstn, <- pair_level_skipn.
      rewrite !IH; [reflexivity| | | | ].
      * apply length_nonnil. rewrite skipn_length. lia.
      * rewrite skipn_length. lia.
      * apply length_nonnil. rewrite firstn_length. lia.
      * rewrite firstn_length. lia.
Qed.

(* The level-wise root is the root of the binary tree of minimal depth d over the leaves. *)
Theorem merkle_root_eq_sub_root d : forall l, l <> [] -> length l <= 2 ^ d ->
  (d = 0 \/ 2 ^ (d - 1) < length l) -> merkle_root l = sub_root d l.
Proof.
  induction d as [|d IH]; intros l Hne Hlen Hmin.
  - destruct l as [|a [|b t]]; [congruence|reflexivity|]. cbn [length] in Hlen. change (2 ^ 0) with 1 in Hlen. lia.
  - destruct Hmin as [Hd|Hmin]; [discriminate|].
    replace (S d - 1) with d in Hmin by lia.
    pose proof (pow2_pos d) as Hpos.
    pose proof (pair_level_length l) as Hpl.
    rewrite Nat.pow_succ_r' in Hlen.
    rewrite merkle_root_step by lia.
    rewrite sub_root_pair_level; [|exact Hne|rewrite Nat.pow_succ_r'; lia].
    apply IH.
    + now apply pair_level_nonnil.
    + lia.
    + destruct d as [|d']; [left; reflexivity|right].
      replace (S d' - 1) with d' by lia.
      rewrite Nat.pow_succ_r' in Hmin. lia.
Qed.

End MerkleProofs.

(* ---------- non-vacuity: a free term algebra for the hashes ---------- *)

Module MerkleExamples.

Inductive tm := L (n : nat) | P (a b : tm).

Definition l5 := [L 1; L 2; L 3; L 4; L 5].
Definition l6 := [L 1; L 2; L 3; L 4; L 5; L 6].

(* 5 leaves: level 1 = [12; 34; 55], level 2 = [(12)(34); (55)(55)] *)
Definition root5 :=
  P (P (P (L 1) (L 2)) (P (L 3) (L 4)))
    (P (P (L 5) (L 5)) (P (L 5) (L 5))).

(* 6 leaves: level 1 = [12; 34; 56], level 2 = [(12)(34); (56)(56)] *)
Definition root6 :=
  P (P (P (L 1) (L 2)) (P (L 3) (L 4)))
    (P (P (L 5) (L 6)) (P (L 5) (L 6))).

Example ex_spec_5 : merkle_root tm P (L 0) l5 = root5.
Proof. vm_compute. reflexivity. Qed.
Example ex_spec_6 : merkle_root tm P (L 0) l6 = root6.
Proof. vm_compute. reflexivity. Qed.

Example ex_inplace_5 : calc_merkle_root tm P (L 0) l5 = root5.
Proof. vm_compute. reflexivity. Qed.
Example ex_inplace_6 : calc_merkle_root tm P (L 0) l6 = root6.
Proof. vm_compute. reflexivity. Qed.

(* the scratch array after the first pass over 5 hashes: slots 0..2 hold the parents, slots 3, 4 are stale *)
Example ex_inplace_loop_5 :
  inplace_loop tm P (L 0) 5 3 0 l5 = [P (L 1) (L 2); P (L 3) (L 4); P (L 5) (L 5); L 4; L 5].
Proof. vm_compute. reflexivity. Qed.

Example ex_tree_5 : option_map tree_root (new_merkle_tree tm P (L 0) l5) = Some root5.
Proof. vm_compute. reflexivity. Qed.
Example ex_tree_6 : option_map tree_root (new_merkle_tree tm P (L 0) l6) = Some root6.
Proof. vm_compute. reflexivity. Qed.

(* the built structure for 3 leaves: the odd level's last parent has rightChild = leftChild *)
Example ex_tree_3 :
  new_merkle_tree tm P (L 0) [L 1; L 2; L 3] =
  Some (MNode (P (P (L 1) (L 2)) (P (L 3) (L 3)))
          (MNode (P (L 1) (L 2)) (MLeaf (L 1)) (MLeaf (L 2)))
          (MNode (P (L 3) (L 3)) (MLeaf (L 3)) (MLeaf (L 3)))).
Proof. vm_compute. reflexivity. Qed.

Example ex_sub_root_5 : sub_root tm P (L 0) 3 l5 = root5.
Proof. vm_compute. reflexivity. Qed.
Example ex_sub_root_6 : sub_root tm P (L 0) 3 l6 = root6.
Proof. vm_compute. reflexivity. Qed.

(* degenerate lengths *)
Example ex_empty : merkle_root tm P (L 0) [] = L 0 /\ calc_merkle_root tm P (L 0) [] = L 0
                   /\ new_merkle_tree tm P (L 0) [] = None.
Proof. vm_compute. auto. Qed.
Example ex_single : merkle_root tm P (L 0) [L 7] = L 7 /\ calc_merkle_root tm P (L 0) [L 7] = L 7
                    /\ option_map tree_root (new_merkle_tree tm P (L 0) [L 7]) = Some (L 7)
                    /\ sub_root tm P (L 0) 0 [L 7] = L 7.
Proof. vm_compute. auto. Qed.

(* the side condition of merkle_root_eq_sub_root matters: a deeper tree than necessary is a different value *)
Example ex_sub_root_too_deep : sub_root tm P (L 0) 1 [L 7] <> merkle_root tm P (L 0) [L 7].
Proof. vm_compute. discriminate. Qed.

End MerkleExamples.
