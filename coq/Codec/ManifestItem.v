(* The STORED (stack-item) form of a contract manifest: Manifest.ToStackItem / FromStackItem and the forms of Group,
   ABI, Method, Param, Event (pkg/smartcontract/manifest) — how ContractManagement stores contracts and how
   manifests reach contracts.  Built on the C16 model of the permission part (coq/Auth/PermStore.v: Permission and
   PermissionDesc <-> item, wildcard <> empty list), which is imported, not modified.  Items are abstracted to the
   shape the code inspects (as in PermStore): Null, a byte string of a given length denoting an abstract number,
   a string, an integer, a boolean, the empty map, arrays and structs. *)
From NG Require Import Common.Tactics Auth.Permission Auth.PermStore.
From Coq Require Import String.
Open Scope Z_scope.

Inductive xitem :=
| XNull
| XBytes (len : N) (v : N)
| XStr (s : string)
| XInt (z : Z)
| XBool (b : bool)
| XEmptyMap
| XArray (l : list xitem)
| XStruct (l : list xitem).

(* embedding of the permission-level items *)
Fixpoint of_sitem (i : sitem) : xitem :=
  match i with
  | SNull => XNull
  | SBytes l v => XBytes l v
  | SStr s => XStr s
  | SArray l => XArray (map of_sitem l)
  | SStruct l => XStruct (map of_sitem l)
  end.
Fixpoint to_sitem (x : xitem) : option sitem :=
  match x with
  | XNull => Some SNull
  | XBytes l v => Some (SBytes l v)
  | XStr s => Some (SStr s)
  | XArray l => match (fix go (l : list xitem) : option (list sitem) :=
                         match l with
                         | [] => Some []
                         | a :: t => match to_sitem a, go t with Some a', Some t' => Some (a' :: t') | _, _ => None end
                         end) l with Some r => Some (SArray r) | None => None end
  | XStruct l => match (fix go (l : list xitem) : option (list sitem) :=
                          match l with
                          | [] => Some []
                          | a :: t => match to_sitem a, go t with Some a', Some t' => Some (a' :: t') | _, _ => None end
                          end) l with Some r => Some (SStruct r) | None => None end
  | _ => None
  end.

Record mparam := MParam { pname : string; ptype : Z }.
Record mmethod := MMethod { mname : string; mparams : list mparam; mret : Z; moffset : Z; msafe : bool }.
Record mevent := MEvent { ename : string; eparams : list mparam }.
Record mgroup := MGroup { gkey : N; gsig : N }.        (* 33-byte compressed key, 64-byte signature *)
Record mmanifest := MManifest { fname : string; fgroups : list mgroup; fstandards : list string;
                                fmethods : list mmethod; fevents : list mevent; fperms : list permission;
                                ftrusts : option (list desc);      (* None = wildcard (Null), Some l = explicit list, possibly empty *)
                                fextra : string }.

(* smartcontract.ConvertToParamType: the valid parameter type codes *)
Definition valid_ptype (t : Z) : bool := existsb (Z.eqb t) [0; 16; 17; 18; 19; 20; 21; 22; 23; 32; 34; 48; 255].

Definition param_to_item (p : mparam) : xitem := XStruct [XStr (pname p); XInt (ptype p)].
Definition param_from_item (x : xitem) : option mparam :=
  match x with
  | XStruct [XStr n; XInt t] => if valid_ptype t then Some (MParam n t) else None
  | _ => None
  end.

Fixpoint all_from {A} (f : xitem -> option A) (l : list xitem) : option (list A) :=
  match l with
  | [] => Some []
  | x :: t => match f x, all_from f t with Some a, Some r => Some (a :: r) | _, _ => None end
  end.

Definition method_to_item (m : mmethod) : xitem :=
  XStruct [XStr (mname m); XArray (map param_to_item (mparams m)); XInt (mret m); XInt (moffset m); XBool (msafe m)].
Definition method_from_item (x : xitem) : option mmethod :=
  match x with
  | XStruct [XStr n; XArray ps; XInt r; XInt o; XBool s] =>
      match all_from param_from_item ps with
      | Some ps' => if valid_ptype r then Some (MMethod n ps' r o s) else None
      | None => None
      end
  | _ => None
  end.

Definition event_to_item (e : mevent) : xitem := XStruct [XStr (ename e); XArray (map param_to_item (eparams e))].
Definition event_from_item (x : xitem) : option mevent :=
  match x with
  | XStruct [XStr n; XArray ps] => match all_from param_from_item ps with Some ps' => Some (MEvent n ps') | None => None end
  | _ => None
  end.

Definition group_to_item (g : mgroup) : xitem := XStruct [XBytes 33 (gkey g); XBytes 64 (gsig g)].
Definition group_from_item (x : xitem) : option mgroup :=
  match x with
  | XStruct [XBytes 33 k; XBytes 64 s] => Some (MGroup k s)
  | _ => None
  end.

Definition str_from_item (x : xitem) : option string := match x with XStr s => Some s | _ => None end.
Definition desc_from_xitem (x : xitem) : option desc := match to_sitem x with Some i => desc_from_item i | None => None end.
Definition perm_from_xitem (x : xitem) : option permission := match to_sitem x with Some i => perm_from_item i | None => None end.

Definition trusts_to_item (t : option (list desc)) : xitem :=
  match t with None => XNull | Some l => XArray (map (fun d => of_sitem (desc_to_item d)) l) end.
Definition trusts_from_item (x : xitem) : option (option (list desc)) :=
  match x with
  | XNull => Some None
  | XArray l => match all_from desc_from_xitem l with Some r => Some (Some r) | None => None end
  | _ => None
  end.

(* Manifest.ToStackItem: name, groups, features (always the empty map), standards, ABI, permissions, trusts, extra *)
Definition manifest_to_item (m : mmanifest) : xitem :=
  XStruct [XStr (fname m); XArray (map group_to_item (fgroups m)); XEmptyMap; XArray (map XStr (fstandards m));
           XStruct [XArray (map method_to_item (fmethods m)); XArray (map event_to_item (fevents m))];
           XArray (map (fun p => of_sitem (perm_to_item p)) (fperms m)); trusts_to_item (ftrusts m); XStr (fextra m)].
Definition manifest_from_item (x : xitem) : option mmanifest :=
  match x with
  | XStruct [XStr n; XArray gs; XEmptyMap; XArray ss; XStruct [XArray ms; XArray es]; XArray ps; tr; XStr ex] =>
      match all_from group_from_item gs, all_from str_from_item ss, all_from method_from_item ms,
            all_from event_from_item es, all_from perm_from_xitem ps, trusts_from_item tr with
      | Some gs', Some ss', Some ms', Some es', Some ps', Some tr' => Some (MManifest n gs' ss' ms' es' ps' tr' ex)
      | _, _, _, _, _, _ => None
      end
  | _ => None
  end.

(* well-formed: every parameter / return type code is one of the valid ones (what FromStackItem insists on) *)
Definition param_wf (p : mparam) : Prop := valid_ptype (ptype p) = true.
Definition method_wf (m : mmethod) : Prop := Forall param_wf (mparams m) /\ valid_ptype (mret m) = true.
Definition event_wf (e : mevent) : Prop := Forall param_wf (eparams e).
Definition manifest_wf (m : mmanifest) : Prop := Forall method_wf (fmethods m) /\ Forall event_wf (fevents m).

(* equality of shapes, for the harness *)
Fixpoint xitem_eqb (a b : xitem) : bool :=
  match a, b with
  | XNull, XNull | XEmptyMap, XEmptyMap => true
  | XBytes l1 v1, XBytes l2 v2 => (l1 =? l2)%N && (v1 =? v2)%N
  | XStr s1, XStr s2 => String.eqb s1 s2
  | XInt z1, XInt z2 => z1 =? z2
  | XBool b1, XBool b2 => Bool.eqb b1 b2
  | XArray l1, XArray l2 | XStruct l1, XStruct l2 =>
      (fix go (x y : list xitem) : bool :=
         match x, y with
         | [], [] => true
         | i :: t, j :: u => xitem_eqb i j && go t u
         | _, _ => false
         end) l1 l2
  | _, _ => false
  end.
