(* Consensus message family: decode (encode m) = m in BOTH configurations, for the top-level message and for the
   PrepareRequest nested in a recovery message; and the refutation of a nested decoder run with the default setting. *)
From NG Require Import Common.Tactics Codec.Bigint Codec.BigintProofs Codec.Wire Codec.WireProofs Codec.TxCodecProofs Codec.ConsensusCodec.
Open Scope Z_scope.

Definition u32_ok (v : Z) : Prop := 0 <= v < 2 ^ 32.
Definition u64_ok' (v : Z) : Prop := 0 <= v < 2 ^ 64.

Lemma read_u4 v rest : u32_ok v -> read_u 4 (le_bytes 4 v ++ rest) = Some (v, rest).
Proof. intros H. apply (read_u_write 4). exact H. Qed.
Lemma read_u8 v rest : u64_ok' v -> read_u 8 (le_bytes 8 v ++ rest) = Some (v, rest).
Proof. intros H. apply (read_u_write 8). exact H. Qed.

Lemma hashes_roundtrip max l rest :
  Forall (hash_wf 32) l -> Z.of_nat (length l) <= max -> max <= max_array ->
  read_array (read_bytes 32) max (write_array (fun h => h) l ++ rest) = Some (l, rest).
Proof.
  intros Hf Hm Hmax. apply (array_roundtrip (hash_wf 32)); [apply hash_codec|assumption|assumption|].
  unfold max_array in Hmax. lia.
Qed.

(* ================= prepare request ================= *)
Definition preq_wf (sr : bool) (q : preq) : Prop :=
  u32_ok (q_version q) /\ hash_wf 32 (q_prev q) /\ u64_ok' (q_ts q) /\ u64_ok' (q_nonce q)
  /\ Forall (hash_wf 32) (q_hashes q) /\ Z.of_nat (length (q_hashes q)) <= max_tx_per_block
  /\ (if sr then length (q_root q) = 32%nat else q_root q = zero32).

Theorem preq_decode_encode sr : codec_ok (preq_wf sr) (write_preq sr) (read_preq sr).
Proof.
  intros [v p t n hs root] rest (Hv & [Hp _] & Ht & Hn & Hh & Hl & Hr). cbn [q_version q_prev q_ts q_nonce q_hashes q_root] in *.
  unfold write_preq, read_preq. cbn [q_version q_prev q_ts q_nonce q_hashes q_root]. rewrite <- !app_assoc.
  bstep ltac:(apply read_u4; exact Hv). bstep ltac:(apply read_bytes_app; exact Hp).
  bstep ltac:(apply read_u8; exact Ht). bstep ltac:(apply read_u8; exact Hn).
  bstep ltac:(apply hashes_roundtrip; [exact Hh|exact Hl|unfold max_tx_per_block, max_array; lia]).
  destruct sr.
  - bstep ltac:(apply read_bytes_app; exact Hr). reflexivity.
  - subst root. reflexivity.
Qed.

(* ================= compact forms ================= *)
Definition cvc_wf (c : cv_compact) : Prop := u64_ok' (cvc_ts c) /\ Z.of_nat (length (cvc_inv c)) <= 1024.
Theorem cvc_decode_encode : codec_ok cvc_wf write_cvc read_cvc.
Proof.
  intros [v w t i] rest (Ht & Hi). cbn [cvc_ts cvc_inv] in *. unfold write_cvc, read_cvc.
  cbn [cvc_validator cvc_view cvc_ts cvc_inv]. rewrite <- !app_assoc. cbn [app].
  bstep ltac:(apply read_b_cons). bstep ltac:(apply read_b_cons). bstep ltac:(apply read_u8; exact Ht).
  (erewrite bind_ok; [|apply varbytes_roundtrip; lia]); cbv beta. reflexivity.
Qed.

Definition cc_wf (c : commit_compact) : Prop := length (cc_sig c) = 64%nat /\ Z.of_nat (length (cc_inv c)) <= 1024.
Theorem cc_decode_encode : codec_ok cc_wf write_cc read_cc.
Proof.
  intros [w v s i] rest (Hs & Hi). cbn [cc_sig cc_inv] in *. unfold write_cc, read_cc.
  cbn [cc_view cc_validator cc_sig cc_inv]. rewrite <- !app_assoc. cbn [app].
  bstep ltac:(apply read_b_cons). bstep ltac:(apply read_b_cons). bstep ltac:(apply read_bytes_app; exact Hs).
  (erewrite bind_ok; [|apply varbytes_roundtrip; lia]); cbv beta. reflexivity.
Qed.

Definition pc_wf (c : prep_compact) : Prop := Z.of_nat (length (pc_inv c)) <= 1024.
Theorem pc_decode_encode : codec_ok pc_wf write_pc read_pc.
Proof.
  intros [v i] rest Hi. unfold pc_wf in Hi. cbn [pc_inv] in *. unfold write_pc, read_pc. cbn [pc_validator pc_inv]. cbn [app].
  bstep ltac:(apply read_b_cons). (erewrite bind_ok; [|apply varbytes_roundtrip; lia]); cbv beta. reflexivity.
Qed.

(* ================= the embedded PrepareRequest message ================= *)
Definition emb_wf (sr : bool) (e : emb) : Prop := u32_ok (e_index e) /\ preq_wf sr (e_req e).

Theorem emb_decode_encode sr : codec_ok (emb_wf sr) (write_emb sr) (read_emb sr).
Proof.
  intros [i v w q] rest (Hi & Hq). cbn [e_index e_req] in *. unfold write_emb, read_emb, write_head.
  cbn [e_index e_validator e_view e_req]. rewrite <- !app_assoc. cbn [app].
  bstep ltac:(apply read_b_cons). bstep ltac:(apply read_u4; exact Hi).
  bstep ltac:(apply read_b_cons). bstep ltac:(apply read_b_cons). cbn [Z.eqb Pos.eqb].
  bstep ltac:(apply preq_decode_encode; exact Hq). reflexivity.
Qed.

(* ================= recovery message ================= *)
Definition recovery_wf (sr : bool) (r : recovery) : Prop :=
  Forall cvc_wf (r_cvs r) /\ Z.of_nat (length (r_cvs r)) <= max_array
  /\ Forall pc_wf (r_preps r) /\ Z.of_nat (length (r_preps r)) <= max_array
  /\ Forall cc_wf (r_commits r) /\ Z.of_nat (length (r_commits r)) <= max_array
  /\ match r_req r, r_hash r with
     | Some e, None => emb_wf sr e
     | Some _, Some _ => False          (* the writer drops the hash when the request is there *)
     | None, Some h => length h = 32%nat
     | None, None => True
     end.

(* the decoder hands the setting [sr] to the message it creates *)
Theorem recovery_decode_encode sr : codec_ok (recovery_wf sr) (write_recovery sr) (read_recovery sr).
Proof.
  intros [cvs req h ps cs] rest (Hcv & Lcv & Hp & Lp & Hc & Lc & Hr). cbn [r_cvs r_req r_hash r_preps r_commits] in *.
  unfold write_recovery, read_recovery. cbn [r_cvs r_req r_hash r_preps r_commits]. rewrite <- !app_assoc.
  assert (forall n : nat, Z.of_nat n <= max_array -> Z.of_nat n < 2 ^ 64) as Hlt by (unfold max_array; lia).
  bstep ltac:(apply (array_roundtrip cvc_wf); [apply cvc_decode_encode|exact Hcv|exact Lcv|auto]).
  destruct req as [e|].
  - destruct h; [contradiction|]. cbn [app]. bstep ltac:(apply (read_bool_lax_write true)).
    rewrite <- ?app_assoc.
    bstep ltac:(erewrite bind_ok by (apply emb_decode_encode; exact Hr); reflexivity). cbn [fst snd].
    bstep ltac:(apply (array_roundtrip pc_wf); [apply pc_decode_encode|exact Hp|exact Lp|auto]).
    bstep ltac:(apply (array_roundtrip cc_wf); [apply cc_decode_encode|exact Hc|exact Lc|auto]).
    reflexivity.
  - cbn [app]. bstep ltac:(apply (read_bool_lax_write false)). destruct h as [h|].
    + rewrite <- ?app_assoc.
      bstep ltac:(erewrite bind_ok by (apply varuint_roundtrip; unfold u64_ok; lia); cbn [Z.eqb Pos.eqb];
                  erewrite bind_ok by (apply read_bytes_app; exact Hr); reflexivity). cbn [fst snd].
      bstep ltac:(apply (array_roundtrip pc_wf); [apply pc_decode_encode|exact Hp|exact Lp|auto]).
      bstep ltac:(apply (array_roundtrip cc_wf); [apply cc_decode_encode|exact Hc|exact Lc|auto]).
      reflexivity.
    + bstep ltac:(erewrite bind_ok by (apply varuint_roundtrip; unfold u64_ok; lia); reflexivity). cbn [fst snd].
      bstep ltac:(apply (array_roundtrip pc_wf); [apply pc_decode_encode|exact Hp|exact Lp|auto]).
      bstep ltac:(apply (array_roundtrip cc_wf); [apply cc_decode_encode|exact Hc|exact Lc|auto]).
      reflexivity.
Qed.

(* ================= the message ================= *)
Definition body_wf (sr : bool) (b : body) : Prop :=
  match b with
  | BChangeView ts reason rej =>
      u64_ok' ts /\ (if carries_hashes reason then Forall (hash_wf 32) rej /\ Z.of_nat (length rej) <= max_array else rej = [])
  | BPrepareRequest q => preq_wf sr q
  | BPrepareResponse h => length h = 32%nat
  | BCommit s => length s = 64%nat
  | BRecoveryRequest ts => u64_ok' ts
  | BRecovery r => recovery_wf sr r
  end.
Definition cmessage_wf (sr : bool) (m : cmessage) : Prop := u32_ok (g_index m) /\ body_wf sr (g_body m).

Lemma body_decode_encode sr b rest : body_wf sr b ->
  read_body (fun s => s) sr (body_type b) (write_body sr b ++ rest) = Some (b, rest).
Proof.
  intros Hb.
  destruct b as [ts reason rej|q|h|s|ts|r]; cbn [body_type write_body body_wf] in *; unfold read_body; cbn [Z.eqb Pos.eqb].
  - destruct Hb as (Ht & Hrej). rewrite <- !app_assoc. cbn [app].
    bstep ltac:(apply read_u8; exact Ht). bstep ltac:(apply read_b_cons).
    destruct (carries_hashes reason).
    + destruct Hrej as (Hf & Hl). bstep ltac:(apply hashes_roundtrip; [exact Hf|exact Hl|lia]). reflexivity.
    + subst rej. reflexivity.
  - bstep ltac:(apply preq_decode_encode; exact Hb). reflexivity.
  - bstep ltac:(apply read_bytes_app; exact Hb). reflexivity.
  - bstep ltac:(apply read_bytes_app; exact Hb). reflexivity.
  - bstep ltac:(apply read_u8; exact Hb). reflexivity.
  - bstep ltac:(apply recovery_decode_encode; exact Hb). reflexivity.
Qed.

Theorem cmessage_decode_encode sr : codec_ok (cmessage_wf sr) (write_cmessage sr) (read_cmessage sr).
Proof.
  intros [i v w b] rest (Hi & Hb). cbn [g_index g_body] in *.
  unfold write_cmessage, read_cmessage, read_cmessage_gen, write_head. cbn [g_index g_validator g_view g_body].
  rewrite <- !app_assoc. cbn [app].
  bstep ltac:(apply read_b_cons). bstep ltac:(apply read_u4; exact Hi).
  bstep ltac:(apply read_b_cons). bstep ltac:(apply read_b_cons).
  bstep ltac:(apply body_decode_encode; exact Hb). reflexivity.
Qed.

(* the statement per configuration value, as the property's sentence has it *)
Corollary cmessage_roundtrip_both : forall sr m rest, cmessage_wf sr m ->
  read_cmessage sr (write_cmessage sr m ++ rest) = Some (m, rest).
Proof. intros sr m rest H. apply cmessage_decode_encode. exact H. Qed.

(* without the setting the two decoders are the same function: the default-nested decoder is wrong only with sr = true *)
Lemma default_nested_same_without_sr : forall bs, read_cmessage_default_nested false bs = read_cmessage false bs.
Proof. reflexivity. Qed.

(* ================= a nested decoder run with the default setting ================= *)
Definition ex_hash32 (k : Z) : list Z := map (fun i => (Z.of_nat i * 7 + k) mod 256) (seq 0 32).
Definition ex_preq (root : list Z) : preq := PReq 0 (ex_hash32 1) 1700000000000 42 [ex_hash32 2] root.
Definition ex_recovery (root : list Z) : cmessage :=
  CMessage 100 3 0 (BRecovery (Recovery [] (Some (Emb 100 1 0 (ex_preq root))) None
                                        [PC 1 (repeat 9 66); PC 2 (repeat 8 66)] [CC 0 2 (repeat 5 64) (repeat 6 66)])).

Lemma ex_hash32_wf k : hash_wf 32 (ex_hash32 k).
Proof.
  split; [unfold ex_hash32; now rewrite map_length, seq_length|].
  unfold ex_hash32. apply Forall_forall. intros x Hx. apply in_map_iff in Hx as (i & <- & _). apply Z.mod_pos_bound. lia.
Qed.

Lemma ex_recovery_wf root : length root = 32%nat -> cmessage_wf true (ex_recovery root).
Proof.
  intros Hr. unfold cmessage_wf, ex_recovery. cbn [g_index g_body body_wf]. split; [unfold u32_ok; lia|].
  unfold recovery_wf. cbn [r_cvs r_req r_hash r_preps r_commits]. unfold max_array.
  split; [constructor|]. split; [cbn; lia|].
  split; [constructor; [unfold pc_wf; cbn; lia|constructor; [unfold pc_wf; cbn; lia|constructor]]|]. split; [cbn; lia|].
  split; [constructor; [unfold cc_wf; cbn; split; [reflexivity|lia]|constructor]|]. split; [cbn; lia|].
  unfold emb_wf. cbn [e_index e_req]. split; [unfold u32_ok; lia|].
  unfold preq_wf, ex_preq. cbn [q_version q_prev q_ts q_nonce q_hashes q_root].
  split; [unfold u32_ok; lia|]. split; [apply ex_hash32_wf|]. split; [unfold u64_ok'; lia|]. split; [unfold u64_ok'; lia|].
  split; [constructor; [apply ex_hash32_wf|constructor]|]. split; [unfold max_tx_per_block; cbn; lia|]. exact Hr.
Qed.

(* with a NON-ZERO root the payload the node has just encoded is refused; with the ZERO root it is accepted as
   another message: every preparation and commit is gone (30 bytes of the root and the whole lists are left unread: trailing bytes are not an error for Payload.decodeData) *)
Example default_nested_examples :
  read_cmessage true (write_cmessage true (ex_recovery (ex_hash32 3))) = Some (ex_recovery (ex_hash32 3), [])
  /\ read_cmessage_default_nested true (write_cmessage true (ex_recovery (ex_hash32 3))) = None
  /\ read_cmessage true (write_cmessage true (ex_recovery zero32)) = Some (ex_recovery zero32, [])
  /\ (exists rest, read_cmessage_default_nested true (write_cmessage true (ex_recovery zero32))
        = Some (CMessage 100 3 0 (BRecovery (Recovery [] (Some (Emb 100 1 0 (ex_preq zero32))) None [] [])), rest)
        /\ length rest = 301%nat).
Proof.
  split; [vm_compute; reflexivity|]. split; [vm_compute; reflexivity|]. split; [vm_compute; reflexivity|].
  eexists. split; [vm_compute; reflexivity|]. reflexivity.
Qed.

Theorem default_nested_refuted :
  ~ (forall sr, codec_ok (cmessage_wf sr) (write_cmessage sr) (read_cmessage_default_nested sr)).
Proof.
  intros H. specialize (H true (ex_recovery (ex_hash32 3)) [] (ex_recovery_wf (ex_hash32 3) (proj1 (ex_hash32_wf 3)))).
  rewrite app_nil_r in H. pose proof default_nested_examples as (_ & E & _). rewrite E in H. discriminate.
Qed.
