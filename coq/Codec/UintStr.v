(* Textual and byte forms of util.Uint160 / util.Uint256 (pkg/util/uint160.go, uint256.go) over a byte
   list of length n (20 or 32), and encoding/hex as they use it. Definitions first (all compute under
   vm_compute), proofs below.

   A Uint value u is the list of its array elements u[0..n-1] (= BytesBE). Strings are lists of ASCII
   codes; bytes are Z in [0,256).
   hex_decode models hex.DecodeString as far as the callers observe it: Some bytes, or None for any
   error (odd length or a character outside 0-9a-fA-F). The JSON form is the content of the JSON
   string ("0x" ++ StringLE()); JSON quoting itself (encoding/json) is not modelled. Decoding trims
   ONE leading "0x" (strings.TrimPrefix). *)
From NG Require Import Common.Tactics Codec.Bigint.
Open Scope Z_scope.

(* hextable = "0123456789abcdef" *)
Definition hex_digit (d : Z) : Z := if d <? 10 then 48 + d else 87 + d.

(* hex.EncodeToString *)
Fixpoint hex_encode (bs : list Z) : list Z :=
  match bs with
  | [] => []
  | b :: t => hex_digit (b / 16) :: hex_digit (b mod 16) :: hex_encode t
  end.

(* fromHexChar *)
Definition hex_val (c : Z) : option Z :=
  if (48 <=? c) && (c <=? 57) then Some (c - 48)
  else if (97 <=? c) && (c <=? 102) then Some (c - 87)
  else if (65 <=? c) && (c <=? 70) then Some (c - 55)
  else None.

(* hex.DecodeString *)
Fixpoint hex_decode (s : list Z) : option (list Z) :=
  match s with
  | [] => Some []
  | [_] => None
  | c1 :: c2 :: t =>
      match hex_val c1, hex_val c2 with
      | Some h, Some l =>
          match hex_decode t with
          | Some r => Some (h * 16 + l :: r)
          | None => None
          end
      | _, _ => None
      end
  end.

(* ASCII lower-casing of a string *)
Definition lower (c : Z) : Z := if (65 <=? c) && (c <=? 90) then c + 32 else c.
Definition lowercase (s : list Z) : list Z := map lower s.

(* --- UintN --- *)
Definition bytes_be (u : list Z) : list Z := u.
Definition bytes_le (u : list Z) : list Z := rev u.
Definition reverse (u : list Z) : list Z := rev u.
Definition string_be (u : list Z) : list Z := hex_encode (bytes_be u).
Definition string_le (u : list Z) : list Z := hex_encode (bytes_le u).

Definition decode_bytes_be (n : nat) (b : list Z) : option (list Z) :=
  if (length b =? n)%nat then Some b else None.

Definition decode_bytes_le (n : nat) (b : list Z) : option (list Z) :=
  if (length b =? n)%nat then Some (rev b) else None.

Definition decode_string_be (n : nat) (s : list Z) : option (list Z) :=
  if (length s =? 2 * n)%nat then
    match hex_decode s with
    | Some b => decode_bytes_be n b
    | None => None
    end
  else None.

Definition decode_string_le (n : nat) (s : list Z) : option (list Z) :=
  if (length s =? 2 * n)%nat then
    match hex_decode s with
    | Some b => decode_bytes_le n b
    | None => None
    end
  else None.

(* strings.TrimPrefix(js, "0x") *)
Definition trim_prefix_0x (s : list Z) : list Z :=
  match s with
  | c1 :: c2 :: t => if (c1 =? 48) && (c2 =? 120) then t else s
  | _ => s
  end.

(* MarshalJSON / MarshalYAML string content, UnmarshalJSON / UnmarshalYAML *)
Definition json_string (u : list Z) : list Z := 48 :: 120 :: string_le u.
Definition json_decode (n : nat) (s : list Z) : option (list Z) := decode_string_le n (trim_prefix_0x s).

(* ======================= proofs ======================= *)

Lemma list_pair_ind {A} (P : list A -> Prop) :
  P [] -> (forall x, P [x]) -> (forall x y t, P t -> P (x :: y :: t)) -> forall l, P l.
Proof.
  intros H0 H1 H2 l. enough (P l /\ forall x, P (x :: l)) by tauto.
  induction l as [|y t [IH1 IH2]]; [split; [assumption|apply H1]|].
  split; [apply IH2|]. intros x. apply H2. assumption.
Qed.

Lemma hex_decode_cons2 c1 c2 t :
  hex_decode (c1 :: c2 :: t) =
  match hex_val c1, hex_val c2 with
  | Some h, Some l =>
      match hex_decode t with
      | Some r => Some (h * 16 + l :: r)
      | None => None
      end
  | _, _ => None
  end.
Proof. reflexivity. Qed.

Lemma hex_encode_cons b t :
  hex_encode (b :: t) = hex_digit (b / 16) :: hex_digit (b mod 16) :: hex_encode t.
Proof. reflexivity. Qed.

Lemma hex_val_digit d : 0 <= d < 16 -> hex_val (hex_digit d) = Some d.
Proof.
  intros Hd. unfold hex_val, hex_digit. destruct (d <? 10) eqn:E.
  - replace ((48 <=? 48 + d) && (48 + d <=? 57)) with true by lia. f_equal. lia.
  - replace ((48 <=? 87 + d) && (87 + d <=? 57)) with false by lia.
    replace ((97 <=? 87 + d) && (87 + d <=? 102)) with true by lia. f_equal. lia.
Qed.

Lemma hex_digit_val c d : hex_val c = Some d -> 0 <= d < 16 /\ hex_digit d = lower c.
Proof.
  unfold hex_val, hex_digit, lower. intros H.
  destruct ((48 <=? c) && (c <=? 57)) eqn:E1; [inv H; split; [lia|]; repeat case_if; lia|].
  destruct ((97 <=? c) && (c <=? 102)) eqn:E2; [inv H; split; [lia|]; repeat case_if; lia|].
  destruct ((65 <=? c) && (c <=? 70)) eqn:E3; [inv H; split; [lia|]; repeat case_if; lia|].
  discriminate.
Qed.

Lemma hex_encode_length b : length (hex_encode b) = (2 * length b)%nat.
Proof. induction b as [|x t IH]; [reflexivity|]. cbn [hex_encode length]. rewrite IH. lia. Qed.

Lemma hex_encode_app a b : hex_encode (a ++ b) = hex_encode a ++ hex_encode b.
Proof. induction a as [|x t IH]; [reflexivity|]. cbn [app hex_encode]. now rewrite IH. Qed.

Theorem hex_roundtrip : forall b, bytes_ok b -> hex_decode (hex_encode b) = Some b.
Proof.
  induction 1 as [|x t Hx Ht IH]; [reflexivity|]. cbn [hex_encode]. rewrite hex_decode_cons2.
  rewrite !hex_val_digit by lia. rewrite IH. f_equal. f_equal. lia.
Qed.

Example hex_roundtrip_ex :
  bytes_ok [0;10;171;255] /\ hex_encode [0;10;171;255] = [48;48;48;97;97;98;102;102] /\
  hex_decode [48;48;48;97;97;98;102;102] = Some [0;10;171;255].
Proof. split; [repeat constructor; lia|]. vm_compute. split; reflexivity. Qed.

Theorem hex_decode_encode_lower : forall s b, hex_decode s = Some b -> hex_encode b = lowercase s.
Proof.
  intros s. induction s as [| c | c1 c2 t IH] using list_pair_ind; intros b H.
  - inv H. reflexivity.
  - discriminate.
  - rewrite hex_decode_cons2 in H.
    destruct (hex_val c1) as [h|] eqn:E1; [|discriminate].
    destruct (hex_val c2) as [l|] eqn:E2; [|discriminate].
    destruct (hex_decode t) as [r|] eqn:Et; [|discriminate]. injection H as <-.
    apply hex_digit_val in E1. apply hex_digit_val in E2. destruct E1 as [Hh E1]. destruct E2 as [Hl E2].
    rewrite hex_encode_cons. unfold lowercase. rewrite !map_cons.
    replace ((h * 16 + l) / 16) with h by lia. replace ((h * 16 + l) mod 16) with l by lia.
    rewrite E1, E2. f_equal. f_equal. apply IH. reflexivity.
Qed.

Example hex_decode_encode_lower_ex :
  hex_decode [65;98;48;70] = Some [171;15] /\ hex_encode [171;15] = [97;98;48;102] /\
  lowercase [65;98;48;70] = [97;98;48;102] /\
  hex_decode [65;98;48] = None /\ hex_decode [48;103] = None /\ hex_decode [48;120;48;48] = None.
Proof. vm_compute. repeat split. Qed.

Lemma hex_decode_ok : forall s b, hex_decode s = Some b -> bytes_ok b /\ length s = (2 * length b)%nat.
Proof.
  intros s. induction s as [| c | c1 c2 t IH] using list_pair_ind; intros b H.
  - inv H. split; [constructor|reflexivity].
  - discriminate.
  - rewrite hex_decode_cons2 in H.
    destruct (hex_val c1) as [h|] eqn:E1; [|discriminate].
    destruct (hex_val c2) as [l|] eqn:E2; [|discriminate].
    destruct (hex_decode t) as [r|] eqn:Et; [|discriminate]. injection H as <-.
    apply hex_digit_val in E1. apply hex_digit_val in E2.
    destruct (IH r eq_refl) as [Hr Hlen]. split; [constructor; [lia|assumption]|].
    cbn [length]. rewrite Hlen. lia.
Qed.

Lemma bytes_ok_rev u : bytes_ok u -> bytes_ok (rev u).
Proof. apply Forall_rev. Qed.

Section Uint.
Variable n : nat.
Variable u : list Z.
Hypothesis u_ok : bytes_ok u.
Hypothesis u_len : length u = n.

Theorem uint_bytes_be_roundtrip : decode_bytes_be n (bytes_be u) = Some u.
Proof. unfold decode_bytes_be, bytes_be. rewrite u_len, Nat.eqb_refl. reflexivity. Qed.

Theorem uint_bytes_le_roundtrip : decode_bytes_le n (bytes_le u) = Some u.
Proof.
  unfold decode_bytes_le, bytes_le. rewrite rev_length, u_len, Nat.eqb_refl, rev_involutive. reflexivity.
Qed.

Theorem uint_string_be_roundtrip : decode_string_be n (string_be u) = Some u.
Proof.
  unfold decode_string_be, string_be. rewrite hex_encode_length. unfold bytes_be at 1. rewrite u_len, Nat.eqb_refl.
  rewrite hex_roundtrip by assumption. apply uint_bytes_be_roundtrip.
Qed.

Theorem uint_string_le_roundtrip : decode_string_le n (string_le u) = Some u.
Proof.
  unfold decode_string_le, string_le. rewrite hex_encode_length. unfold bytes_le at 1.
  rewrite rev_length, u_len, Nat.eqb_refl.
  rewrite hex_roundtrip by (apply bytes_ok_rev; assumption). apply uint_bytes_le_roundtrip.
Qed.

Theorem uint_reverse_involutive : reverse (reverse u) = u.
Proof. apply rev_involutive. Qed.

Theorem uint_reverse_length : length (reverse u) = n.
Proof. unfold reverse. now rewrite rev_length. Qed.

Theorem uint_le_is_reverse_be : string_le u = string_be (reverse u).
Proof. reflexivity. Qed.

Theorem uint_json_roundtrip : json_decode n (json_string u) = Some u.
Proof.
  unfold json_decode, json_string. cbn [trim_prefix_0x]. change ((48 =? 48) && (120 =? 120)) with true.
  cbv iota. apply uint_string_le_roundtrip.
Qed.

End Uint.

(* what the string decoders accept: exactly 2n hex characters of either case; the value re-prints in
   lower case *)
Theorem uint_decode_string_be_sound : forall n s u, decode_string_be n s = Some u ->
  length u = n /\ bytes_ok u /\ string_be u = lowercase s.
Proof.
  intros n s u H. unfold decode_string_be in H.
  destruct (length s =? 2 * n)%nat eqn:El; [|discriminate].
  destruct (hex_decode s) as [b|] eqn:Ed; [|discriminate]. unfold decode_bytes_be in H.
  destruct (length b =? n)%nat eqn:Eb; [|discriminate]. inv H.
  split; [lia|]. split; [apply (hex_decode_ok _ _ Ed)|]. apply hex_decode_encode_lower. assumption.
Qed.

Theorem uint_decode_string_le_sound : forall n s u, decode_string_le n s = Some u ->
  length u = n /\ bytes_ok u /\ string_le u = lowercase s.
Proof.
  intros n s u H. unfold decode_string_le in H.
  destruct (length s =? 2 * n)%nat eqn:El; [|discriminate].
  destruct (hex_decode s) as [b|] eqn:Ed; [|discriminate]. unfold decode_bytes_le in H.
  destruct (length b =? n)%nat eqn:Eb; [|discriminate]. inv H.
  split; [rewrite rev_length; lia|]. split; [apply bytes_ok_rev; apply (hex_decode_ok _ _ Ed)|].
  unfold string_le, bytes_le. rewrite rev_involutive. apply hex_decode_encode_lower. assumption.
Qed.

(* ---------------- examples: a 20-byte value ---------------- *)
Definition ex_u160 : list Z := [1;35;69;103;137;171;205;239;0;17;34;51;68;85;102;119;136;153;170;255].

Example ex_u160_ok : bytes_ok ex_u160 /\ length ex_u160 = 20%nat.
Proof. split; [repeat constructor; lia|reflexivity]. Qed.

Example uint_string_be_roundtrip_ex :
  string_be ex_u160 = [48;49;50;51;52;53;54;55;56;57;97;98;99;100;101;102;48;48;49;49;50;50;51;51;52;52;53;53;54;54;55;55;56;56;57;57;97;97;102;102] /\
  decode_string_be 20 (string_be ex_u160) = Some ex_u160 /\
  decode_string_be 20 (string_le ex_u160) = Some (reverse ex_u160) /\
  decode_string_be 20 (48 :: 48 :: string_be ex_u160) = None /\
  decode_string_be 32 (string_be ex_u160) = None.
Proof. vm_compute. repeat split. Qed.

Example uint_string_le_roundtrip_ex :
  string_le ex_u160 = [102;102;97;97;57;57;56;56;55;55;54;54;53;53;52;52;51;51;50;50;49;49;48;48;101;102;99;100;97;98;56;57;54;55;52;53;50;51;48;49] /\
  decode_string_le 20 (string_le ex_u160) = Some ex_u160 /\
  string_le ex_u160 = string_be (reverse ex_u160) /\
  reverse (reverse ex_u160) = ex_u160 /\ reverse ex_u160 <> ex_u160.
Proof. vm_compute. repeat split. discriminate. Qed.

Example uint_bytes_le_roundtrip_ex :
  decode_bytes_le 20 (bytes_le ex_u160) = Some ex_u160 /\ bytes_le ex_u160 <> ex_u160 /\
  decode_bytes_le 20 (0 :: bytes_le ex_u160) = None /\ decode_bytes_be 20 (bytes_be ex_u160) = Some ex_u160.
Proof. vm_compute. repeat split. discriminate. Qed.

Example uint_json_roundtrip_ex :
  json_decode 20 (json_string ex_u160) = Some ex_u160 /\
  (* the prefix is optional *)
  json_decode 20 (string_le ex_u160) = Some ex_u160 /\
  (* only one "0x" is trimmed *)
  trim_prefix_0x [48;120;48;120;49;50] = [48;120;49;50] /\
  json_decode 20 (48 :: 120 :: json_string ex_u160) = None /\
  (* upper-case digits are accepted, an upper-case prefix is not *)
  json_decode 1 [48;120;65;66] = Some [171] /\ json_decode 1 [48;88;65;66] = None.
Proof. vm_compute. repeat split. Qed.
