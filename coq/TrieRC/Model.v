(* C11 — trie node storage under reference counting and garbage collection: executable model.

   What is transcribed (pkg/core/mpt/trie.go, pkg/core/stateroot/module.go):
     cachedNode / t.refcount        -> [cnode] / [rcmap]      (per-block delta map, shared by the per-block copies)
     addRef / removeRef             -> [AddRef] / [RemRef]    (trie.go:478-506)
     getFromStore's side effect     -> [Load]                 (trie.go:508-534: an entry already in the map gets
                                                                bytes and the stored counter as [initial])
     getFromStore (package level)   -> [read_store]           (trie.go:426-432: inactive entries are invisible in GC mode)
     updateRefCount                 -> [urc1] / [update_ref_count]   (trie.go:434-476)
     Flush                          -> [flush]                (trie.go:396-420)
     stateroot.Module.GC            -> [gc]                   (module.go:301-333: inactive and stamp <= index => removed)
     Module.AddMPTBatch + commit    -> [EBlock]; computed and dropped -> [EDrop]   (module.go:336-350)

   The trie itself is abstract here: a finite tree of nodes identified by hash with child lists; a node that
   occurs several times (shared by several parents, or the same leaf under many keys) counts several times
   ([occ], structural recursion).  The concrete trie (C10, coq/Trie) instantiates it later.

   Counters are [Z] (Go: int32; overflow beyond 2^31 occurrences of one node is not modelled).
   A table entry is (serialized node, active flag, value) where value = reference counter when active and
   = height at which the entry became unreferenced when inactive (the 4 suffix bytes have both uses in Go).
   ModeAll entries have no suffix: they are modelled as (bytes, true, 0). *)
From NG Require Import Common.Tactics.
Open Scope Z_scope.

Definition hash := N.
Definition bytes := N.        (* token for a serialized node; [nb h] is "the" serialization of the node with hash h *)

(* ---- association lists keyed by N: lookup finds the first binding, upd replaces it (or appends), del removes all ---- *)
Section AL.
  Context {A : Type}.
  Fixpoint lookup (m : list (N * A)) (k : N) : option A :=
    match m with
    | [] => None
    | (k', v) :: t => if N.eqb k k' then Some v else lookup t k
    end.
  Fixpoint upd (m : list (N * A)) (k : N) (v : A) : list (N * A) :=
    match m with
    | [] => [(k, v)]
    | (k', v') :: t => if N.eqb k k' then (k, v) :: t else (k', v') :: upd t k v
    end.
  Fixpoint del (m : list (N * A)) (k : N) : list (N * A) :=
    match m with
    | [] => []
    | (k', v') :: t => if N.eqb k k' then del t k else (k', v') :: del t k
    end.
  Definition set (m : list (N * A)) (k : N) (o : option A) : list (N * A) :=
    match o with Some v => upd m k v | None => del m k end.
End AL.

(* ---- abstract trie ---- *)
Inductive tree := Node (h : hash) (cs : list tree).
Definition trie := option tree.
Definition root_hash (t : tree) : hash := match t with Node h _ => h end.
Definition children (t : tree) : list tree := match t with Node _ cs => cs end.

Fixpoint occ (h : hash) (t : tree) : Z :=
  match t with
  | Node h' cs =>
      (if N.eqb h h' then 1 else 0) +
      (fix occs (l : list tree) : Z := match l with [] => 0 | c :: r => occ h c + occs r end) cs
  end.
Definition occs (h : hash) (l : list tree) : Z := fold_right (fun c a => occ h c + a) 0 l.
Definition occT (h : hash) (T : trie) : Z := match T with None => 0 | Some t => occ h t end.

Fixpoint height (t : tree) : nat :=
  match t with
  | Node _ cs => S ((fix hs (l : list tree) : nat := match l with [] => O | c :: r => Nat.max (height c) (hs r) end) cs)
  end.

(* all node hashes of a tree, with multiplicity (pre-order) *)
Fixpoint nodes (t : tree) : list hash :=
  match t with
  | Node h cs => h :: (fix ns (l : list tree) : list hash := match l with [] => [] | c :: r => nodes c ++ ns r end) cs
  end.

(* ---- modes ---- *)
Inductive mode := MAll | MLatest | MGC.
Definition rcm (m : mode) : bool := match m with MAll => false | _ => true end.     (* TrieMode.RC() *)
Definition gcm (m : mode) : bool := match m with MGC => true | _ => false end.      (* TrieMode.GC() *)

(* ---- persistent node table ---- *)
Record entry := mkE { e_bytes : bytes; e_active : bool; e_val : Z }.
Definition table := list (hash * entry).

(* package-level getFromStore: in GC mode an inactive entry reads as "not found" *)
Definition read_slot (m : mode) (oe : option entry) : option entry :=
  match oe with
  | Some e => if gcm m && negb (e_active e) then None else Some e
  | None => None
  end.
Definition read_store (m : mode) (tbl : table) (h : hash) : option entry := read_slot m (lookup tbl h).
(* historic readers (Module.GetState/FindStates/GetStateProof/SeekStates) clear the GC flag: they see inactive entries *)
Definition read_hist (tbl : table) (h : hash) : option entry := lookup tbl h.

(* ---- per-block delta map ---- *)
Record cnode := mkC { c_bytes : bytes; c_initial : Z; c_delta : Z }.
Definition rcmap := list (hash * cnode).

Inductive refop :=
| AddRef (h : hash) (bs : bytes)
| RemRef (h : hash) (bs : bytes)
| Load (h : hash).           (* Trie.getFromStore h succeeded while processing the block *)

Definition op_hash (o : refop) : hash := match o with AddRef h _ | RemRef h _ | Load h => h end.

(* effect of one operation on the map slot of ITS hash, given the table slot of that hash *)
Definition apply_op1 (m : mode) (oe : option entry) (oc : option cnode) (o : refop) : option cnode :=
  match o with
  | AddRef _ bs =>
      match oc with
      | None => Some (mkC bs 0 1)
      | Some c => Some (mkC (c_bytes c) (c_initial c) (c_delta c + 1))
      end
  | RemRef _ bs =>
      match oc with
      | None => Some (mkC bs 0 (-1))
      | Some c => Some (mkC (c_bytes c) (c_initial c) (c_delta c - 1))
      end
  | Load _ =>
      match read_slot m oe, oc with
      | Some e, Some c => if rcm m then Some (mkC (e_bytes e) (e_val e) (c_delta c)) else oc
      | _, _ => oc
      end
  end.

Definition apply_op (m : mode) (tbl : table) (rc : rcmap) (o : refop) : rcmap :=
  let h := op_hash o in
  set rc h (apply_op1 m (lookup tbl h) (lookup rc h) o).

Definition apply_ops (m : mode) (tbl : table) (rc : rcmap) (ops : list refop) : rcmap :=
  fold_left (apply_op m tbl) ops rc.

(* updateRefCount on one slot: None = panic "negative reference count"; otherwise the new table slot and the counter *)
Definition urc1 (m : mode) (idx : Z) (c : cnode) (oe : option entry) : option (option entry * Z) :=
  let '(found, cnt0) :=
    if c_initial c =? 0 then
      match read_slot m oe with Some e => (Some e, e_val e) | None => (None, 0) end
    else (None, c_initial c) in
  let bs := match found with Some e => e_bytes e | None => c_bytes c end in
  let cnt := cnt0 + c_delta c in
  if cnt <? 0 then None
  else if cnt =? 0 then
    Some (if gcm m then Some (mkE bs false idx) else None, 0)
  else Some (Some (mkE bs true cnt), cnt).

Definition update_ref_count (m : mode) (idx : Z) (h : hash) (c : cnode) (tbl : table) : option (table * Z) :=
  match urc1 m idx c (lookup tbl h) with
  | None => None
  | Some (oe', cnt) => Some (set tbl h oe', cnt)
  end.

(* Flush on one (map slot, table slot) pair: None = panic; otherwise the new pair *)
Definition flush1 (m : mode) (idx : Z) (oc : option cnode) (oe : option entry) : option (option cnode * option entry) :=
  match oc with
  | None => Some (None, oe)
  | Some c =>
      if c_delta c =? 0 then Some (None, oe)
      else if rcm m then
        match urc1 m idx c oe with
        | None => None
        | Some (oe', cnt) => Some (if cnt =? 0 then None else Some (mkC (c_bytes c) cnt 0), oe')
        end
      else Some (Some (mkC (c_bytes c) (c_initial c) 0),
                 if 0 <? c_delta c then Some (mkE (c_bytes c) true 0) else oe)
  end.

(* Flush: one pass over the entries of the map (Go map iteration order is unspecified; every entry touches only
   its own key, see TrieRC/Proofs.v flush_lookup for order independence) *)
Fixpoint flush_go (m : mode) (idx : Z) (todo : rcmap) (rc : rcmap) (tbl : table) : option (rcmap * table) :=
  match todo with
  | [] => Some (rc, tbl)
  | (h, _) :: r =>
      match flush1 m idx (lookup rc h) (lookup tbl h) with
      | None => None
      | Some (oc', oe') => flush_go m idx r (set rc h oc') (set tbl h oe')
      end
  end.
Definition flush (m : mode) (idx : Z) (rc : rcmap) (tbl : table) : option (rcmap * table) :=
  flush_go m idx rc rc tbl.

(* stateroot.Module.GC(index): inactive entries stamped <= index are removed *)
Definition gc_keep (G : Z) (e : entry) : bool := e_active e || (G <? e_val e).
Fixpoint gc (G : Z) (tbl : table) : table :=
  match tbl with
  | [] => []
  | (h, e) :: t => if gc_keep G e then (h, e) :: gc G t else gc G t
  end.

(* ---- the stateroot module across blocks ---- *)
Record st := mkSt {
  s_tbl : table;       (* persistent node table (committed) *)
  s_rc  : rcmap;       (* the refcount map shared by the module's trie and its per-block copies *)
  s_mem : trie;        (* what the module's in-memory trie denotes (the base the next block's changes are computed from) *)
  s_com : trie;        (* the committed (latest) trie *)
  s_n   : nat          (* number of committed blocks; block number k (k = 1, 2, ...) flushes with index k *)
}.

Inductive event :=
| EBlock (T' : trie) (ops : list refop)      (* block computed (PutBatch = ops, Flush) and committed; new trie T' *)
| EDrop  (T' : trie) (ops : list refop)      (* block computed on the copy, then dropped (storeBlock's error returns) *)
| EGC    (G : nat)                           (* Module.GC(G) *)
| ECollapse.                                 (* Trie.Collapse after a flushed block: clears the refcount map (trie.go:536-544) *)

Definition init : st := mkSt [] [] None None 0.

(* [reset]: what happens to the shared pieces when a computed block is dropped.
   true  = the code as it stands (since /repo commit cb1c052, finding F30): AddMPTBatch notices that its previous result
           was never passed to UpdateCurrentLocal and re-reads the module's trie from the committed root (fresh map,
           committed trie) before computing the next block;
   false = the code before that commit: the struct copy shares the refcount map and the interior nodes with the
           module's trie, both stay as the dropped computation left them. *)
Definition step (reset : bool) (m : mode) (s : st) (e : event) : option st :=
  match e with
  | EBlock T' ops =>
      let idx := Z.of_nat (S (s_n s)) in
      match flush m idx (apply_ops m (s_tbl s) (s_rc s) ops) (s_tbl s) with
      | None => None
      | Some (rc', tbl') => Some (mkSt tbl' rc' T' T' (S (s_n s)))
      end
  | EDrop T' ops =>
      let idx := Z.of_nat (S (s_n s)) in
      match flush m idx (apply_ops m (s_tbl s) (s_rc s) ops) (s_tbl s) with
      | None => None
      | Some (rc', _) =>
          if reset then Some (mkSt (s_tbl s) [] (s_com s) (s_com s) (s_n s))
          else Some (mkSt (s_tbl s) rc' T' (s_com s) (s_n s))
      end
  | EGC G => Some (mkSt (gc (Z.of_nat G) (s_tbl s)) (s_rc s) (s_mem s) (s_com s) (s_n s))
  | ECollapse => Some (mkSt (s_tbl s) [] (s_mem s) (s_com s) (s_n s))
  end.

Fixpoint run (reset : bool) (m : mode) (s : st) (evs : list event) : option st :=
  match evs with
  | [] => Some s
  | e :: r => match step reset m s e with None => None | Some s' => run reset m s' r end
  end.

(* ---- reading a whole trie back from the table ---- *)
Section Load.
  Variable dec : bytes -> list hash.          (* child hashes named by a serialized node *)
  Variable rd : hash -> option entry.         (* the reader: read_store m tbl or read_hist tbl *)
  Fixpoint load (fuel : nat) (h : hash) : option tree :=
    match fuel with
    | O => None
    | S f =>
        match rd h with
        | None => None
        | Some e =>
            match (fix go (l : list hash) : option (list tree) :=
                     match l with
                     | [] => Some []
                     | k :: r => match load f k, go r with
                                 | Some t, Some ts => Some (t :: ts)
                                 | _, _ => None
                                 end
                     end) (dec (e_bytes e)) with
            | Some cs => Some (Node h cs)
            | None => None
            end
        end
    end.
End Load.
