(* C11: reading a trie back from the node table — what is retained is readable, what was collected fails cleanly. *)
From NG Require Import Common.Tactics TrieRC.Model TrieRC.AList TrieRC.Pointwise TrieRC.Slots TrieRC.Proofs.
Open Scope Z_scope.

Fixpoint load_list (f : hash -> option tree) (l : list hash) : option (list tree) :=
  match l with
  | [] => Some []
  | k :: r => match f k, load_list f r with
              | Some t, Some ts => Some (t :: ts)
              | _, _ => None
              end
  end.

Definition heights (cs : list tree) : nat := fold_right (fun c a => Nat.max (height c) a) O cs.
Lemma height_node h cs : height (Node h cs) = S (heights cs).
Proof. reflexivity. Qed.

Lemma occ_child h c cs : In c cs -> occ h c <= occs h cs.
Proof.
  induction cs as [|a r IH]; simpl; [tauto|]. intros [->|HI].
  - pose proof (occs_nonneg h r). unfold occs in *. lia.
  - specialize (IH HI). pose proof (occ_nonneg h a). unfold occs in *. lia.
Qed.
Lemma height_child c cs : In c cs -> (height c <= heights cs)%nat.
Proof.
  induction cs as [|a r IH]; simpl; [tauto|]. intros [->|HI]; [apply Nat.le_max_l|].
  specialize (IH HI). eapply Nat.le_trans; [exact IH|apply Nat.le_max_r].
Qed.

Section Read.
  Variable nb : hash -> bytes.
  Variable dec : bytes -> list hash.         (* the child hashes a serialized node names (DecodeBinary) *)

  (* a tree whose every node's serialization names exactly its children: what hashing guarantees when the
     hash identifies the content *)
  Inductive wf : tree -> Prop :=
  | wf_node h cs : dec (nb h) = map root_hash cs -> Forall wf cs -> wf (Node h cs).
  Definition wfT (T : trie) : Prop := match T with Some t => wf t | None => True end.

  Section Reader.
    Variable rd : hash -> option entry.
    Hypothesis rd_sound : forall h e, rd h = Some e -> e_bytes e = nb h.

    Lemma load_S fuel h :
      load dec rd (S fuel) h =
        match rd h with
        | None => None
        | Some e => match load_list (load dec rd fuel) (dec (e_bytes e)) with
                    | Some cs => Some (Node h cs)
                    | None => None
                    end
        end.
    Proof.
      simpl. destruct (rd h) as [e|]; [|reflexivity].
      match goal with |- match ?a with _ => _ end = match ?b with _ => _ end => assert (E : a = b) end.
      { generalize (dec (e_bytes e)) as l. induction l as [|k r IH]; simpl; [reflexivity|]. rewrite IH. reflexivity. }
      rewrite E. reflexivity.
    Qed.

    Lemma load_sound : forall fuel h t, load dec rd fuel h = Some t -> root_hash t = h /\ wf t.
    Proof.
      induction fuel as [|f IH]; intros h t L; [discriminate|]. rewrite load_S in L.
      destruct (rd h) as [e|] eqn:R; [|discriminate]. rewrite (rd_sound _ _ R) in L.
      destruct (load_list (load dec rd f) (dec (nb h))) as [cs|] eqn:LL; [|discriminate]. inv L.
      split; [reflexivity|]. constructor.
      - revert cs LL. generalize (dec (nb h)) as l. induction l as [|k r IHl]; intros cs LL; simpl in LL.
        + inv LL. reflexivity.
        + destruct (load dec rd f k) as [t|] eqn:Lk; [|discriminate].
          destruct (load_list (load dec rd f) r) as [ts|] eqn:Lr; [|discriminate]. inv LL.
          simpl. rewrite <- (IHl _ eq_refl). destruct (IH _ _ Lk) as [-> _]. reflexivity.
      - revert cs LL. generalize (dec (nb h)) as l. induction l as [|k r IHl]; intros cs LL; simpl in LL.
        + inv LL. constructor.
        + destruct (load dec rd f k) as [t|] eqn:Lk; [|discriminate].
          destruct (load_list (load dec rd f) r) as [ts|] eqn:Lr; [|discriminate]. inv LL.
          constructor; [apply (IH _ _ Lk)|apply IHl; reflexivity].
    Qed.

    Lemma load_list_complete f cs :
      Forall (fun c => load dec rd f (root_hash c) = Some c) cs ->
      load_list (load dec rd f) (map root_hash cs) = Some cs.
    Proof. induction 1 as [|c r Hc Hr IHr]; simpl; [reflexivity|]. rewrite Hc, IHr. reflexivity. Qed.

    Lemma load_complete : forall t fuel,
      wf t -> (forall k, 0 < occ k t -> rd k <> None) -> (height t <= fuel)%nat ->
      load dec rd fuel (root_hash t) = Some t.
    Proof.
      induction t as [h cs IH] using tree_ind'. intros fuel W P Hf.
      rewrite height_node in Hf. destruct fuel as [|f]; [lia|]. rewrite load_S. simpl.
      destruct (rd h) as [e|] eqn:R.
      2:{ exfalso. apply (P h); [|assumption]. rewrite occ_node, N.eqb_refl. pose proof (occs_nonneg h cs). lia. }
      rewrite (rd_sound _ _ R). inv W. rewrite H1.
      assert (LL : load_list (load dec rd f) (map root_hash cs) = Some cs).
      { apply load_list_complete. rewrite Forall_forall in *. intros c HI. apply IH; [assumption|auto| |].
        - intros k Hk. apply P. rewrite occ_node. pose proof (occ_child k c cs HI).
          destruct (N.eqb k h); lia.
        - pose proof (height_child c cs HI). lia. }
      rewrite LL. reflexivity.
    Qed.
  End Reader.

  Lemma wf_unique : forall t1 t2, wf t1 -> wf t2 -> root_hash t1 = root_hash t2 -> t1 = t2.
  Proof.
    induction t1 as [h cs IH] using tree_ind'. intros [h2 cs2] W1 W2 E. simpl in E. subst h2.
    inversion W1 as [? ? D1 F1]; subst. inversion W2 as [? ? D2 F2]; subst.
    f_equal. rewrite D1 in D2. clear D1 W1 W2.
    revert cs2 D2 F2. induction cs as [|c r IHr]; intros [|c2 r2] M F2; simpl in M; try discriminate; [reflexivity|].
    injection M as M1 M2.
    inversion IH as [|? ? IHc IHr0]; subst. inversion F1 as [|? ? Wc Wr]; subst. inversion F2 as [|? ? Wc2 Wr2]; subst.
    f_equal; [apply IHc; assumption|apply IHr; assumption].
  Qed.

  (* a reader over a table in which every entry carries the bytes of the node its key names returns, for a root
     hash r, either nothing or THE tree r names — never another one *)
  Theorem read_clean (rd : hash -> option entry) t0 fuel :
    (forall h e, rd h = Some e -> e_bytes e = nb h) -> wf t0 ->
    load dec rd fuel (root_hash t0) = None \/ load dec rd fuel (root_hash t0) = Some t0.
  Proof.
    intros S W. destruct (load dec rd fuel (root_hash t0)) as [t|] eqn:L; [right|left; reflexivity].
    destruct (load_sound rd S _ _ _ L) as [E W1]. f_equal. apply wf_unique; assumption.
  Qed.

  Lemma inv_table_sound m H g s : Inv nb m H g s -> forall h e, lookup (s_tbl s) h = Some e -> e_bytes e = nb h.
  Proof.
    intros I h e L. pose proof (TI_sound nb _ _ _ _ _ _ (inv_tbl _ _ _ _ _ I h)) as S. rewrite L in S. exact S.
  Qed.

  (* retained_readable *)
  Theorem retained_readable m H g s j t fuel :
    Inv nb m H g s -> retained m g (s_n s) j -> trie_at H j = Some t -> wf t -> (height t <= fuel)%nat ->
    load dec (read_hist (s_tbl s)) fuel (root_hash t) = Some t /\
    (j = s_n s -> load dec (read_store m (s_tbl s)) fuel (root_hash t) = Some t).
  Proof.
    intros I R E W Hf. split.
    - apply load_complete; try assumption.
      + apply (inv_table_sound _ _ _ _ I).
      + intros k Hk. destruct (inv_present nb m H g s j k I R) as [e [L _]]; [rewrite E; exact Hk|].
        unfold read_hist. rewrite L. discriminate.
    - intros ->. apply load_complete; try assumption.
      + intros h e Rd. unfold read_store in Rd. apply read_slot_some in Rd. apply (inv_table_sound _ _ _ _ I _ _ Rd).
      + intros k Hk. destruct (inv_present nb m H g s _ k I R) as [e [L [_ A]]]; [rewrite E; exact Hk|].
        unfold read_store. rewrite L. simpl. destruct m; simpl; try discriminate.
        rewrite A by (auto; discriminate). simpl. discriminate.
  Qed.
End Read.
