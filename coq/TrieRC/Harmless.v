(* C11: blocks computed and dropped; ModeAll completeness; concrete witnesses. *)
From NG Require Import Common.Tactics TrieRC.Model TrieRC.AList TrieRC.Pointwise TrieRC.Slots TrieRC.Proofs.
Open Scope Z_scope.

Lemma hist_remove_drops evs : hist (remove_drops evs) = hist evs.
Proof. induction evs as [|[T ops|T ops|G|] r IH]; simpl; congruence. Qed.
Lemma gmax_remove_drops evs : gmax (remove_drops evs) = gmax evs.
Proof. induction evs as [|[T ops|T ops|G|] r IH]; simpl; congruence. Qed.

Section Harmless.
  Variable nb : hash -> bytes.

  (* the invariant determines the content of the table *)
  Lemma TI_unique m h g n o oe oe' :
    (g <= n)%nat -> TI nb m h g n o oe -> TI nb m h g n o oe' -> oe = oe'.
  Proof.
    intros GN T1 T2. destruct m; simpl in *.
    - destruct oe as [e|], oe' as [e'|].
      + destruct T1 as [-> _], T2 as [-> _]. reflexivity.
      + destruct T1 as [_ [j [Hj P]]]. specialize (T2 j Hj). lia.
      + destruct T2 as [_ [j [Hj P]]]. specialize (T1 j Hj). lia.
      + reflexivity.
    - congruence.
    - destruct oe as [e|], oe' as [e'|].
      + destruct T1 as [B1 T1], T2 as [B2 T2]. destruct e as [b1 a1 v1], e' as [b2 a2 v2]. simpl in *. subst b1 b2.
        destruct a1, a2.
        * destruct T1 as [_ ->], T2 as [_ ->]. reflexivity.
        * destruct T1 as [P ->]. destruct T2 as [s [_ [H1 [_ [_ H4]]]]]. specialize (H4 n). lia.
        * destruct T2 as [P ->]. destruct T1 as [s [_ [H1 [_ [_ H4]]]]]. specialize (H4 n). lia.
        * destruct T1 as [s1 [V1 [A1 [A2 [A3 A4]]]]], T2 as [s2 [V2 [C1 [C2 [C3 C4]]]]].
          assert (s1 = s2).
          { destruct (lt_eq_lt_dec s1 s2) as [[Lt|Eq]|Gt]; [|assumption|].
            - specialize (A4 (s2 - 1)%nat). lia.
            - specialize (C4 (s1 - 1)%nat). lia. }
          subst. reflexivity.
      + exfalso. destruct T1 as [_ T1]. destruct (e_active e).
        * destruct T1 as [P V]. specialize (T2 n). lia.
        * destruct T1 as [s [_ [A1 [A2 [A3 _]]]]]. specialize (T2 (s - 1)%nat). lia.
      + exfalso. destruct T2 as [_ T2]. destruct (e_active e').
        * destruct T2 as [P V]. specialize (T1 n). lia.
        * destruct T2 as [s [_ [A1 [A2 [A3 _]]]]]. specialize (T1 (s - 1)%nat). lia.
      + reflexivity.
  Qed.

  Lemma evs_ok_remove_drops : forall evs com n,
    evs_ok nb true com com n evs -> evs_ok nb true com com n (remove_drops evs).
  Proof.
    induction evs as [|[T ops|T ops|G|] r IH]; intros com n OK; simpl in *; auto.
    - destruct OK as [O1 [O2 O3]]. auto.
    - destruct OK as [_ [_ O3]]. auto.
    - destruct OK as [O1 O2]. auto.
  Qed.

  (* uncommitted_harmless, in the form that holds: when the module's trie is re-read from the committed root after
     a dropped block (fresh refcount map, committed trie), the run with the dropped blocks and the run without
     them never panic and end in tables with the same content, for every mode and every history *)
  Theorem uncommitted_harmless m evs :
    evs_ok nb true None None 0 evs ->
    exists s s', run true m init evs = Some s /\ run true m init (remove_drops evs) = Some s' /\
                 s_com s = s_com s' /\ s_n s = s_n s' /\
                 forall h, lookup (s_tbl s) h = lookup (s_tbl s') h.
  Proof.
    intros OK. destruct (run_inv_init nb m evs OK) as [s [R I]].
    destruct (run_inv_init nb m _ (evs_ok_remove_drops _ _ _ OK)) as [s' [R' I']].
    rewrite hist_remove_drops, gmax_remove_drops in I'.
    exists s, s'. split; [exact R|]. split; [exact R'|].
    assert (En : s_n s = s_n s') by (rewrite (inv_n _ _ _ _ _ I), (inv_n _ _ _ _ _ I'); reflexivity).
    split; [rewrite (inv_com _ _ _ _ _ I), (inv_com _ _ _ _ _ I'), En; reflexivity|]. split; [exact En|].
    intros h. eapply TI_unique; [apply (inv_g _ _ _ _ _ I)|apply (inv_tbl _ _ _ _ _ I)|].
    rewrite En. apply (inv_tbl _ _ _ _ _ I').
  Qed.

  (* ModeAll: every node of every trie ever committed stays in the table *)
  Theorem all_mode_complete evs :
    evs_ok nb true None None 0 evs ->
    exists s, run true MAll init evs = Some s /\
      forall j h, (j <= s_n s)%nat -> 0 < occT h (trie_at (hist evs) j) -> lookup (s_tbl s) h = Some (mkE (nb h) true 0).
  Proof.
    intros OK. destruct (run_inv_init nb MAll evs OK) as [s [R I]]. exists s. split; [exact R|].
    intros j h Hj P. pose proof (inv_tbl _ _ _ _ _ I h) as T. simpl in T.
    destruct (lookup (s_tbl s) h) as [e|]; [destruct T as [-> _]; reflexivity|]. specialize (T j Hj). lia.
  Qed.
End Harmless.

(* ---- the statement at full strength, for the code as it stands (the struct copy shares the refcount map and the
        interior nodes: [reset = false]), and its refutation ---- *)
Definition uncommitted_harmless_statement (nb : hash -> bytes) : Prop :=
  forall evs, evs_ok nb false None None 0 evs ->
    exists s, run false MLatest init evs = Some s /\
      forall h, lookup (s_tbl s) h =
                if 0 <? occT h (s_com s) then Some (mkE (nb h) true (occT h (s_com s))) else None.

(* witness: block 1 builds  1 -> 2 ;  the dropped block turns it into  3 -> {2, 4} ;  block 2, computed from the
   trie the dropped block left in memory, builds  5 -> {2, 4, 6}.  Node 4 was only ever written to the dropped
   cache: the committed table lacks a node of the committed trie, and still holds node 1. *)
Open Scope N_scope.
Definition leaf (h : hash) : tree := Node h [].
Definition w_T1 : trie := Some (Node 1 [leaf 2]).
Definition w_T2 : trie := Some (Node 3 [leaf 2; leaf 4]).
Definition w_T3 : trie := Some (Node 5 [leaf 2; leaf 4; leaf 6]).
Definition w_evs : list event :=
  [ EBlock w_T1 [AddRef 2 2; AddRef 1 1];
    EDrop  w_T2 [RemRef 1 1; AddRef 4 4; AddRef 3 3];
    EBlock w_T3 [RemRef 3 3; AddRef 6 6; AddRef 5 5] ].
Close Scope N_scope.

Ltac ne h k := destruct (N.eqb_spec h k); [exfalso; subst; simpl in *; intuition congruence|].

Lemma net_witness_ok : evs_ok (fun h => h) false None None 0 w_evs.
Proof.
  assert (K : forall (f g : N -> Z) (l : list N), (forall h, In h l -> f h = g h) ->
              (forall h, ~ In h l -> f h = g h) -> forall h, f h = g h).
  { intros f g l A B h. destruct (in_dec N.eq_dec h l); auto. }
  simpl. repeat split; try (repeat constructor; fail).
  - apply (K _ _ [1;2]%N).
    + intros h [<-|[<-|[]]]; reflexivity.
    + intros h NI. simpl in NI. unfold net, net1, occT, w_T1, leaf. simpl.
      ne h 1%N. ne h 2%N. reflexivity.
  - apply (K _ _ [1;2;3;4]%N).
    + intros h [<-|[<-|[<-|[<-|[]]]]]; reflexivity.
    + intros h NI. simpl in NI. unfold net, net1, occT, w_T1, w_T2, leaf. simpl.
      ne h 1%N. ne h 2%N.
      ne h 3%N. ne h 4%N. reflexivity.
  - apply (K _ _ [2;3;4;5;6]%N).
    + intros h [<-|[<-|[<-|[<-|[<-|[]]]]]]; reflexivity.
    + intros h NI. simpl in NI. unfold net, net1, occT, w_T3, w_T2, leaf. simpl.
      ne h 2%N. ne h 3%N.
      ne h 4%N. ne h 5%N. ne h 6%N.
      reflexivity.
Qed.

Theorem uncommitted_harmless_refuted : ~ uncommitted_harmless_statement (fun h => h).
Proof.
  intros S. destruct (S w_evs net_witness_ok) as [s [R E]].
  vm_compute in R. inv R. specialize (E 4%N). vm_compute in E. discriminate.
Qed.

