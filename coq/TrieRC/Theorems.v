(* C11: the statements of Properties/C11.v, composed from the invariant (Proofs.v), the reader (Read.v) and the
   dropped-block results (Harmless.v), each for every event sequence from the empty store. *)
From NG Require Import Common.Tactics TrieRC.Model TrieRC.AList TrieRC.Pointwise TrieRC.Slots TrieRC.Proofs
  TrieRC.Read TrieRC.Harmless.
Open Scope Z_scope.

Section Theorems.
  Variable nb : hash -> bytes.
  Variable dec : bytes -> list hash.

  Theorem retained_readable_run m evs :
    evs_ok nb true None None 0 evs ->
    exists s, run true m init evs = Some s /\
      forall j t fuel,
        retained m (gmax evs) (s_n s) j -> trie_at (hist evs) j = Some t -> wf nb dec t -> (height t <= fuel)%nat ->
        load dec (read_hist (s_tbl s)) fuel (root_hash t) = Some t /\
        (j = s_n s -> load dec (read_store m (s_tbl s)) fuel (root_hash t) = Some t).
  Proof.
    intros OK. destruct (run_inv_init nb m evs OK) as [s [R I]]. exists s. split; [exact R|].
    intros j t fuel. apply (retained_readable nb dec m _ _ s j t fuel I).
  Qed.

  Theorem gc_safe_run m evs (G : nat) :
    evs_ok nb true None None 0 evs ->
    exists s, run true m init evs = Some s /\
      ((G <= s_n s)%nat ->
       forall j h, retained m (gmax evs) (s_n s) j -> (G <= j)%nat -> 0 < occT h (trie_at (hist evs) j) ->
         lookup (gc (Z.of_nat G) (s_tbl s)) h = lookup (s_tbl s) h /\ lookup (s_tbl s) h <> None).
  Proof.
    intros OK. destruct (run_inv_init nb m evs OK) as [s [R I]]. exists s. split; [exact R|].
    intros GN. apply (gc_safe nb m _ _ s G I GN).
  Qed.

  Theorem stale_root_fails_cleanly m evs :
    evs_ok nb true None None 0 evs ->
    exists s, run true m init evs = Some s /\
      forall t0 fuel, wf nb dec t0 ->
        (load dec (read_hist (s_tbl s)) fuel (root_hash t0) = None \/
         load dec (read_hist (s_tbl s)) fuel (root_hash t0) = Some t0) /\
        (load dec (read_store m (s_tbl s)) fuel (root_hash t0) = None \/
         load dec (read_store m (s_tbl s)) fuel (root_hash t0) = Some t0).
  Proof.
    intros OK. destruct (run_inv_init nb m evs OK) as [s [R I]]. exists s. split; [exact R|].
    intros t0 fuel W. split; apply (read_clean nb dec); try assumption.
    - apply (inv_table_sound nb m _ _ s I).
    - intros h e Rd. unfold read_store in Rd. apply read_slot_some in Rd. apply (inv_table_sound nb m _ _ s I _ _ Rd).
  Qed.

  (* on histories without dropped blocks the code as it stands ([reset = false]) is the same function *)
  Theorem as_is_without_drops m evs :
    no_drop evs -> evs_ok nb false None None 0 evs ->
    run false m init evs = run true m init evs /\ evs_ok nb true None None 0 evs.
  Proof. intros ND OK. split; [apply run_no_drop; assumption|apply evs_ok_no_drop; assumption]. Qed.
End Theorems.

(* ---- non-vacuity: a history with a node that occurs twice, leaves, and is collected ---- *)
Open Scope N_scope.
Definition ex_T1 : trie := Some (Node 1 [leaf 2; leaf 2]).
Definition ex_T2 : trie := Some (Node 3 [leaf 2]).
Definition ex_evs : list event :=
  [ EBlock ex_T1 [AddRef 2 2; AddRef 2 2; AddRef 1 1];
    EBlock ex_T2 [RemRef 1 1; Load 2; RemRef 2 2; AddRef 3 3];
    EGC 1%nat; ECollapse;
    EDrop (Some (leaf 9)) [RemRef 3 3; RemRef 2 2; AddRef 9 9];
    EGC 2%nat ].
Close Scope N_scope.

Lemma net_by_cases (f g : N -> Z) (l : list N) :
  (forall h, In h l -> f h = g h) -> (forall h, ~ In h l -> f h = g h) -> forall h, f h = g h.
Proof. intros A B h. destruct (in_dec N.eq_dec h l); auto. Qed.

Ltac net_solve l :=
  apply (net_by_cases _ _ l);
  [ let h := fresh "h" in let HI := fresh "HI" in
    intros h HI; simpl in HI; repeat (destruct HI as [<-|HI]; [reflexivity|]); destruct HI
  | let h := fresh "h" in let NI := fresh "NI" in
    intros h NI; unfold net, net1, occT, leaf; simpl;
    repeat (match goal with |- context [N.eqb h ?k] => ne h k end); reflexivity ].

Lemma ex_evs_ok : evs_ok (fun h => h) true None None 0 ex_evs.
Proof.
  unfold ex_evs. cbn [evs_ok].
  split; [repeat constructor|]. split; [net_solve [1;2]%N|].
  split; [repeat constructor|]. split; [net_solve [1;2;3]%N|].
  split; [lia|].
  split; [repeat constructor|]. split; [net_solve [2;3;9]%N|].
  split; [lia|exact I].
Qed.

Lemma ex_run_gc :
  option_map s_tbl (run true MGC init (firstn 3 ex_evs)) =
    Some [(2%N, mkE 2%N true 1); (1%N, mkE 1%N false 2); (3%N, mkE 3%N true 1)] /\
  option_map s_tbl (run true MGC init ex_evs) = Some [(2%N, mkE 2%N true 1); (3%N, mkE 3%N true 1)] /\
  option_map s_tbl (run true MLatest init ex_evs) = Some [(2%N, mkE 2%N true 1); (3%N, mkE 3%N true 1)].
Proof. repeat split; vm_compute; reflexivity. Qed.
