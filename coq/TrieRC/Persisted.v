(* C11 — WHICH height the garbage collector is run for.
   stateroot.Module.GC deletes from the PERSISTENT store; newer blocks may live in the write cache only.  The persistent
   store holds the node table after the p persisted blocks; after a crash the node restarts at height p and the states
   traceable for it are those of heights p - MTB < j <= p.  Blockchain.tryRunGC (blockchain.go:1378-1412) takes the target
   from the persisted height: tgt = ((p - MTB) / period) * period. *)
From NG Require Import Common.Tactics TrieRC.Model TrieRC.AList TrieRC.Pointwise TrieRC.Slots TrieRC.Proofs.
Open Scope Z_scope.

(* the target tryRunGC computes from a height (truncated subtraction, rounded down to the GC period) *)
Definition gc_target (height mtb period : nat) : nat := ((height - mtb) / period * period)%nat.

Lemma gc_target_le height mtb period : (gc_target height mtb period <= height - mtb)%nat.
Proof.
  unfold gc_target. destruct period as [|q]; [simpl; lia|].
  pose proof (Nat.div_mod (height - mtb) (S q) ltac:(lia)). nia.
Qed.

Section Persisted.
  Variable nb : hash -> bytes.

  (* gc_safe_wrt_persisted: [s] is the PERSISTED state (table after p = s_n s blocks, any earlier GC passes); a GC pass
     at the target derived from the persisted height removes no entry that a state traceable for the persisted chain
     (p - MTB <= j <= p, not collected before) needs, and leaves a table satisfying the invariant again, so that all
     those states still read back (C11_retained_readable) on the running node and on a node restarted from the store *)
  Theorem gc_safe_wrt_persisted H g s mtb period :
    Inv nb MGC H g s ->
    let p := s_n s in
    let G := gc_target p mtb period in
    (forall j h, (p - mtb <= j <= p)%nat -> (g <= j)%nat -> 0 < occT h (trie_at H j) ->
       lookup (gc (Z.of_nat G) (s_tbl s)) h = lookup (s_tbl s) h /\ lookup (s_tbl s) h <> None) /\
    exists s', step true MGC s (EGC G) = Some s' /\ Inv nb MGC H (Nat.max g G) s'.
  Proof.
    intros I p G. pose proof (gc_target_le p mtb period) as LE. fold G in LE. split.
    - intros j h Hj Gj P. subst p. assert (GP : (G <= s_n s)%nat) by lia.
      apply (gc_safe nb MGC H g s G I GP j h); [simpl; lia|lia|exact P].
    - destruct (step_inv nb MGC H g s (EGC G) I) as [s' [S I']].
      + simpl. subst p. split; [lia|exact Logic.I].
      + exists s'. split; [exact S|]. simpl in I'. rewrite app_nil_r in I'. exact I'.
  Qed.
End Persisted.

(* the same claim with the target derived from the height of the chain IN MEMORY (p + k blocks accepted, k of them only
   in the write cache) is false *)
Definition gc_from_memory_height_statement (nb : hash -> bytes) : Prop :=
  forall H g s mtb period (k : nat),
    Inv nb MGC H g s ->
    let p := s_n s in
    let G := gc_target (p + k) mtb period in
    forall j h, (p - mtb < j <= p)%nat -> (g <= j)%nat -> 0 < occT h (trie_at H j) ->
      lookup (gc (Z.of_nat G) (s_tbl s)) h <> None.

(* witness: MTB 2, period 1; node 1 is in the tries of heights 1..3 and leaves at block 4; 4 blocks persisted, 2 more in
   the write cache: the target from the memory height is 4 and removes node 1, which the state of height 3 (traceable
   for the persisted chain: 4 - 2 < 3 <= 4) needs; the target from the persisted height is 2 and keeps it *)
Open Scope N_scope.
Definition pw_T : trie := Some (Node 1 [Node 2 []]).
Definition pw_T4 : trie := Some (Node 2 []).
Definition pw_evs : list event :=
  [ EBlock pw_T [AddRef 2 2; AddRef 1 1]; EBlock pw_T []; EBlock pw_T []; EBlock pw_T4 [RemRef 1 1] ].
Close Scope N_scope.

Lemma pw_ok : evs_ok (fun h => h) true None None 0 pw_evs.
Proof.
  assert (K : forall (f g : N -> Z) (l : list N), (forall h, In h l -> f h = g h) ->
              (forall h, ~ In h l -> f h = g h) -> forall h, f h = g h).
  { intros f g l A B h. destruct (in_dec N.eq_dec h l); auto. }
  unfold pw_evs. cbn [evs_ok].
  assert (Z0 : forall h, net h [] = occT h pw_T - occT h pw_T) by (intros h; cbn [net fold_right]; lia).
  split; [repeat constructor|]. split.
  - apply (K _ _ [1;2]%N).
    + intros h [<-|[<-|[]]]; reflexivity.
    + intros h NI. unfold net, net1, occT, pw_T. simpl.
      destruct (N.eqb_spec h 2); [exfalso; apply NI; subst; simpl; auto|].
      destruct (N.eqb_spec h 1); [exfalso; apply NI; subst; simpl; auto|]. reflexivity.
  - split; [constructor|]. split; [exact Z0|]. split; [constructor|]. split; [exact Z0|].
    split; [repeat constructor|]. split; [|exact I].
    apply (K _ _ [1;2]%N).
    + intros h [<-|[<-|[]]]; reflexivity.
    + intros h NI. unfold net, net1, occT, pw_T, pw_T4. simpl.
      destruct (N.eqb_spec h 1); [exfalso; apply NI; subst; simpl; auto|].
      destruct (N.eqb_spec h 2); [exfalso; apply NI; subst; simpl; auto|]. reflexivity.
Qed.

Theorem gc_from_memory_height_refuted : ~ gc_from_memory_height_statement (fun h => h).
Proof.
  intros S. destruct (run_inv_init (fun h => h) MGC pw_evs pw_ok) as [s [R I]].
  assert (E : s_n s = 4%nat /\ lookup (gc 4 (s_tbl s)) 1%N = None /\ lookup (gc 2 (s_tbl s)) 1%N <> None).
  { vm_compute in R. inv R. vm_compute. repeat split; discriminate. }
  destruct E as [En [E4 _]].
  specialize (S _ _ s 2%nat 1%nat 2%nat I). cbv zeta in S. rewrite En in S.
  apply (S 3%nat 1%N); [lia|simpl; lia|vm_compute; reflexivity|]. exact E4.
Qed.

(* ---------- the window length as a function of the height: the hard-fork boundary ----------
   Blockchain.GetMaxTraceableBlocks (blockchain.go): the configuration value while the chain stands below the Echidna
   height E, the value the native Policy contract holds from E on ([pol h]: the genesis setting at first, only ever
   lowered by the committee).  It is never 0. *)
Definition mtb_at (E cfg : nat) (pol : nat -> nat) (h : nat) : nat := if (h <? E)%nat then cfg else pol h.

Lemma mtb_at_pos E cfg pol h : (0 < cfg)%nat -> (forall x, 0 < pol x)%nat -> (0 < mtb_at E cfg pol h)%nat.
Proof. intros C P. unfold mtb_at. destruct (h <? E)%nat; auto. Qed.

Lemma gc_target_mono height m m' period : (m <= m')%nat -> (gc_target height m' period <= gc_target height m period)%nat.
Proof.
  intros L. unfold gc_target. destruct period as [|q]; [simpl; lia|].
  apply Nat.mul_le_mono_r. apply Nat.div_le_mono; lia.
Qed.

Section Boundary.
  Variable nb : hash -> bytes.

  (* for EVERY height p of the persisted chain — below, at and above the hard-fork height — a collection whose window
     length m' is at least the length in force at p keeps every state of p's traceable window [p - mtb_at p, p] and
     re-establishes the invariant; with the getter evaluated at the persisted height itself m' = mtb_at p *)
  Theorem gc_safe_at_every_height H g s E cfg pol period m' :
    Inv nb MGC H g s ->
    let p := s_n s in
    let w := mtb_at E cfg pol p in
    (w <= m')%nat ->
    let G := gc_target p m' period in
    (forall j h, (p - w <= j <= p)%nat -> (g <= j)%nat -> 0 < occT h (trie_at H j) ->
       lookup (gc (Z.of_nat G) (s_tbl s)) h = lookup (s_tbl s) h /\ lookup (s_tbl s) h <> None) /\
    exists s', step true MGC s (EGC G) = Some s' /\ Inv nb MGC H (Nat.max g G) s'.
  Proof.
    intros I p w L G.
    pose proof (gc_safe_wrt_persisted nb H g s m' period I) as AB. cbv zeta in AB. destruct AB as [A B].
    split; [|exact B]. intros j h Hj Gj P. subst p w G. apply (A j h); [lia|exact Gj|exact P].
  Qed.
End Boundary.

(* a getter that yields 0 at the last height before the hard fork (the Policy value read before the contract has
   initialised it): the collection at that height is NOT safe for the window the configuration promises *)
Definition gc_with_zero_window_statement (nb : hash -> bytes) : Prop :=
  forall H g s cfg period,
    Inv nb MGC H g s -> (0 < cfg)%nat ->
    let p := s_n s in
    let G := gc_target p 0 period in
    forall j h, (p - cfg < j <= p)%nat -> (g <= j)%nat -> 0 < occT h (trie_at H j) ->
      lookup (gc (Z.of_nat G) (s_tbl s)) h <> None.

Theorem gc_with_zero_window_refuted : ~ gc_with_zero_window_statement (fun h => h).
Proof.
  intros S. destruct (run_inv_init (fun h => h) MGC pw_evs pw_ok) as [s [R I]].
  assert (E : s_n s = 4%nat /\ lookup (gc 4 (s_tbl s)) 1%N = None).
  { vm_compute in R. inv R. vm_compute. split; reflexivity. }
  destruct E as [En E4].
  specialize (S _ _ s 2%nat 1%nat I ltac:(lia)). cbv zeta in S. rewrite En in S.
  apply (S 3%nat 1%N); [lia|simpl; lia|vm_compute; reflexivity|]. exact E4.
Qed.

(* ---------- MaxTraceableBlocks lowered by a block that is not persisted yet ----------
   tryRunGC reads GetMaxTraceableBlocks() of the CURRENT height and subtracts it from the PERSISTED height.  The value is
   only ever lowered, so the length m' read there can be smaller than the length w in force on the persisted chain
   (hypothesis w <= m' of gc_safe_at_every_height fails).  "Any positive length not above the persisted one will do" is
   false: a node restarted from the store promises (p - w, p] and has lost a state of it (finding F61). *)
Definition gc_with_lowered_window_statement (nb : hash -> bytes) : Prop :=
  forall H g s w m' period,
    Inv nb MGC H g s -> (0 < m' <= w)%nat ->
    let p := s_n s in
    let G := gc_target p m' period in
    forall j h, (p - w < j <= p)%nat -> (g <= j)%nat -> 0 < occT h (trie_at H j) ->
      lookup (gc (Z.of_nat G) (s_tbl s)) h <> None.

Definition pw5_evs : list event := pw_evs ++ [EBlock pw_T4 []].

Lemma pw5_ok : evs_ok (fun h => h) true None None 0 pw5_evs.
Proof.
  assert (K : forall (f g : N -> Z) (l : list N), (forall h, In h l -> f h = g h) ->
              (forall h, ~ In h l -> f h = g h) -> forall h, f h = g h).
  { intros f g l A B h. destruct (in_dec N.eq_dec h l); auto. }
  unfold pw5_evs, pw_evs. cbn [app evs_ok].
  assert (Z0 : forall h, net h [] = occT h pw_T - occT h pw_T) by (intros h; cbn [net fold_right]; lia).
  assert (Z4 : forall h, net h [] = occT h pw_T4 - occT h pw_T4) by (intros h; cbn [net fold_right]; lia).
  split; [repeat constructor|]. split.
  - apply (K _ _ [1;2]%N).
    + intros h [<-|[<-|[]]]; reflexivity.
    + intros h NI. unfold net, net1, occT, pw_T. simpl.
      destruct (N.eqb_spec h 2); [exfalso; apply NI; subst; simpl; auto|].
      destruct (N.eqb_spec h 1); [exfalso; apply NI; subst; simpl; auto|]. reflexivity.
  - split; [constructor|]. split; [exact Z0|]. split; [constructor|]. split; [exact Z0|].
    split; [repeat constructor|]. split.
    + apply (K _ _ [1;2]%N).
      * intros h [<-|[<-|[]]]; reflexivity.
      * intros h NI. unfold net, net1, occT, pw_T, pw_T4. simpl.
        destruct (N.eqb_spec h 1); [exfalso; apply NI; subst; simpl; auto|].
        destruct (N.eqb_spec h 2); [exfalso; apply NI; subst; simpl; auto|]. reflexivity.
    + split; [constructor|]. split; [exact Z4|exact I].
Qed.

Theorem gc_with_lowered_window_refuted : ~ gc_with_lowered_window_statement (fun h => h).
Proof.
  intros S. destruct (run_inv_init (fun h => h) MGC pw5_evs pw5_ok) as [s [R I]].
  assert (E : s_n s = 5%nat /\ lookup (gc 4 (s_tbl s)) 1%N = None).
  { vm_compute in R. inv R. vm_compute. split; reflexivity. }
  destruct E as [En E4].
  specialize (S _ _ s 3%nat 1%nat 1%nat I ltac:(lia)). cbv zeta in S. rewrite En in S.
  apply (S 3%nat 1%N); [lia|simpl; lia|vm_compute; reflexivity|]. exact E4.
Qed.
