(* C11: invariants of the node table over arbitrary sequences of blocks, dropped blocks and GC passes. *)
From NG Require Import Common.Tactics TrieRC.Model TrieRC.AList TrieRC.Pointwise TrieRC.Slots.
Open Scope Z_scope.

(* committed tries of an event sequence, oldest first; [trie_at H j] = trie after j committed blocks *)
Fixpoint hist (evs : list event) : list trie :=
  match evs with
  | [] => []
  | EBlock T' _ :: r => T' :: hist r
  | _ :: r => hist r
  end.
Fixpoint gmax (evs : list event) : nat :=
  match evs with
  | [] => O
  | EGC G :: r => Nat.max G (gmax r)
  | _ :: r => gmax r
  end.
Definition trie_at (H : list trie) (j : nat) : trie := match j with O => None | S k => nth k H None end.

Lemma trie_at_app_old H T j : (j <= length H)%nat -> trie_at (H ++ [T]) j = trie_at H j.
Proof. destruct j; simpl; [reflexivity|]. intros L. apply app_nth1. lia. Qed.
Lemma trie_at_app_new H T : trie_at (H ++ [T]) (S (length H)) = T.
Proof. simpl. rewrite app_nth2 by lia. rewrite Nat.sub_diag. reflexivity. Qed.
Lemma trie_at_app_l H H' j : (j <= length H)%nat -> trie_at (H ++ H') j = trie_at H j.
Proof. destruct j; simpl; [reflexivity|]. intros L. apply app_nth1. lia. Qed.

Definition no_drop (evs : list event) : Prop :=
  Forall (fun e => match e with EDrop _ _ => False | _ => True end) evs.
Fixpoint remove_drops (evs : list event) : list event :=
  match evs with
  | [] => []
  | EDrop _ _ :: r => remove_drops r
  | e :: r => e :: remove_drops r
  end.

Section Proofs.
  Variable nb : hash -> bytes.

  (* Hypotheses on an event sequence.  The second clause of a block is the INTERFACE HYPOTHESIS on the concrete
     trie (discharged by the C10 development, coq/Trie: the addRef/removeRef calls of Put/Delete/PutBatch net, for
     every hash, to the difference of occurrences between the trie the module holds in memory and the new trie). *)
  Fixpoint evs_ok (reset : bool) (mem com : trie) (n : nat) (evs : list event) : Prop :=
    match evs with
    | [] => True
    | EBlock T' ops :: r =>
        Forall (op_ok nb) ops /\ (forall h, net h ops = occT h T' - occT h mem) /\ evs_ok reset T' T' (S n) r
    | EDrop T' ops :: r =>
        Forall (op_ok nb) ops /\ (forall h, net h ops = occT h T' - occT h mem) /\
        evs_ok reset (if reset then com else T') com n r
    | EGC G :: r => (G <= n)%nat /\ evs_ok reset mem com n r
    | ECollapse :: r => evs_ok reset mem com n r
    end.

  Record Inv (m : mode) (H : list trie) (g : nat) (s : st) : Prop := mkInv {
    inv_n : s_n s = length H;
    inv_g : (g <= s_n s)%nat;
    inv_mem : s_mem s = trie_at H (s_n s);
    inv_com : s_com s = trie_at H (s_n s);
    inv_nd_tbl : NoDup (keys (s_tbl s));
    inv_nd_rc : NoDup (keys (s_rc s));
    inv_tbl : forall h, TI nb m h g (s_n s) (fun j => occT h (trie_at H j)) (lookup (s_tbl s) h);
    inv_rc : forall h, rcslot nb m h (lookup (s_tbl s) h) (lookup (s_rc s) h)
  }.

  Lemma inv_init m : Inv m [] 0 init.
  Proof.
    constructor; simpl; try (constructor; fail); try lia; try reflexivity.
    - intros h. destruct m; simpl; auto; intros j Hj; destruct j as [|[|j]]; reflexivity.
    - intros h. split; simpl; auto.
  Qed.

  (* the computation of one block from a state satisfying the invariant: never panics, and every slot is what
     [slot_result] says *)
  Lemma block_compute m H g s T' ops :
    Inv m H g s -> Forall (op_ok nb) ops -> (forall h, net h ops = occT h T' - occT h (s_mem s)) ->
    exists rc' tbl',
      flush m (Z.of_nat (S (s_n s))) (apply_ops m (s_tbl s) (s_rc s) ops) (s_tbl s) = Some (rc', tbl') /\
      NoDup (keys rc') /\ NoDup (keys tbl') /\
      (forall h, TI nb m h g (S (s_n s)) (fun j => occT h (trie_at (H ++ [T']) j)) (lookup tbl' h)) /\
      (forall h, rcslot nb m h (lookup tbl' h) (lookup rc' h)).
  Proof.
    intros I OK NET. destruct I as [In Ig Im Ic N1 N2 It Ir].
    set (idx := Z.of_nat (S (s_n s))).
    set (rc1 := apply_ops m (s_tbl s) (s_rc s) ops).
    assert (ND1 : NoDup (keys rc1)) by (apply nodup_apply_ops; assumption).
    (* per-hash facts *)
    assert (SL : forall h,
      let o := fun j => occT h (trie_at (H ++ [T']) j) in
      let oe := lookup (s_tbl s) h in
      TI nb m h g (s_n s) o oe /\ sound nb h oe /\
      ccons nb m h oe (lookup rc1 h) /\ dl (lookup rc1 h) = o (S (s_n s)) - o (s_n s)).
    { intros h o oe. assert (T0 : TI nb m h g (s_n s) o oe).
      { eapply TI_ext; [|apply It]. intros j Hj. unfold o. rewrite trie_at_app_old by lia. reflexivity. }
      split; [assumption|]. assert (S0 : sound nb h oe) by (eapply TI_sound; eassumption).
      split; [assumption|]. destruct (Ir h) as [C0 D0].
      unfold rc1. rewrite lookup_apply_ops. fold oe.
      destruct (slot_ops_spec nb m h oe ops _ S0 C0 OK) as [C1 D1]. split; [assumption|].
      rewrite D1, D0, NET, Im. unfold o. rewrite In, trie_at_app_new.
      rewrite trie_at_app_old by lia. lia. }
    assert (F1 : forall h, exists oc' oe',
      flush1 m idx (lookup rc1 h) (lookup (s_tbl s) h) = Some (oc', oe') /\
      TI nb m h g (S (s_n s)) (fun j => occT h (trie_at (H ++ [T']) j)) oe' /\ rcslot nb m h oe' oc').
    { intros h. destruct (SL h) as [T0 [S0 [C1 D1]]]. destruct (rcm m) eqn:RC.
      - rewrite (flush1_rc nb m idx h _ _ RC S0 C1).
        eapply slot_step; try eassumption; try reflexivity.
        intros j. apply occT_nonneg.
      - destruct m; try discriminate. rewrite (flush1_all nb idx h _ _ C1).
        pose proof (slot_step_all nb h g (s_n s) _ _ _ (fun j => occT_nonneg h _) T0 D1) as T1.
        cbv zeta in T1. destruct (dl (lookup rc1 h) =? 0) eqn:E0.
        + exists None, (lookup (s_tbl s) h). split; [reflexivity|]. split; [assumption|]. split; simpl; auto.
        + eexists _, _. split; [reflexivity|]. split; [exact T1|]. split; simpl; auto. }
    destruct (flush_total m idx rc1 (s_tbl s) ND1) as [rc' [tbl' F]].
    { intros h. destruct (F1 h) as [oc' [oe' [E _]]]. rewrite E. discriminate. }
    exists rc', tbl'. split; [exact F|].
    destruct (flush_nodup m idx _ _ _ _ ND1 N1 F) as [N3 N4]. split; [assumption|]. split; [assumption|].
    split; intros h; destruct (F1 h) as [oc' [oe' [E [T1 R1]]]];
      pose proof (flush_lookup m idx _ _ _ _ ND1 F h) as L; rewrite E in L; inv L; assumption.
  Qed.

  Definition hist1 (e : event) : list trie := match e with EBlock T' _ => [T'] | _ => [] end.
  Definition g1 (e : event) : nat := match e with EGC G => G | _ => O end.

  Lemma step_inv m H g s e :
    Inv m H g s -> evs_ok true (s_mem s) (s_com s) (s_n s) [e] ->
    exists s', step true m s e = Some s' /\ Inv m (H ++ hist1 e) (Nat.max g (g1 e)) s'.
  Proof.
    intros I OK. destruct e as [T' ops|T' ops|G|]; simpl in OK.
    - destruct OK as [O1 [O2 _]].
      destruct (block_compute m H g s T' ops I O1 O2) as [rc' [tbl' [F [N3 [N4 [T1 R1]]]]]].
      cbn [step]. rewrite F. eexists. split; [reflexivity|]. destruct I as [In Ig Im Ic N1 N2 It Ir].
      rewrite Nat.max_0_r. constructor; cbn [s_n s_tbl s_rc s_mem s_com hist1]; try assumption.
      + rewrite app_length. simpl. lia.
      + lia.
      + rewrite In, trie_at_app_new. reflexivity.
      + rewrite In, trie_at_app_new. reflexivity.
    - destruct OK as [O1 [O2 _]].
      destruct (block_compute m H g s T' ops I O1 O2) as [rc' [tbl' [F _]]].
      cbn [step]. rewrite F. eexists. split; [reflexivity|]. destruct I as [In Ig Im Ic N1 N2 It Ir].
      rewrite app_nil_r, Nat.max_0_r. constructor; cbn [s_n s_tbl s_rc s_mem s_com hist1]; try assumption.
      + constructor.
      + intros h. split; simpl; auto.
    - destruct OK as [GN _]. simpl. eexists. split; [reflexivity|].
      destruct I as [In Ig Im Ic N1 N2 It Ir]. rewrite app_nil_r. constructor; cbn [s_n s_tbl s_rc s_mem s_com hist1 g1]; try assumption.
      + lia.
      + apply nodup_gc. assumption.
      + intros h. rewrite lookup_gc by assumption.
        destruct (slot_gc nb m h g (s_n s) _ _ G GN (It h)) as [T1 _]. exact T1.
      + intros h. rewrite lookup_gc by assumption.
        destruct (slot_gc nb m h g (s_n s) _ _ G GN (It h)) as [_ S1].
        destruct (Ir h) as [C D]. split; [|assumption].
        unfold ccons in *. destruct (lookup (s_rc s) h) as [c|]; [|auto].
        fold (gc_slot (Z.of_nat G) (lookup (s_tbl s) h)). rewrite S1. assumption.
    - simpl. eexists. split; [reflexivity|].
      destruct I as [In Ig Im Ic N1 N2 It Ir]. rewrite app_nil_r, Nat.max_0_r.
      constructor; cbn [s_n s_tbl s_rc s_mem s_com]; try assumption.
      + constructor.
      + intros h. split; simpl; auto.
  Qed.

  Lemma evs_ok_cons reset mem com n e r :
    evs_ok reset mem com n (e :: r) ->
    evs_ok reset mem com n [e] /\
    evs_ok reset (match e with EBlock T' _ => T' | EDrop T' _ => if reset then com else T' | _ => mem end)
                 (match e with EBlock T' _ => T' | _ => com end)
                 (match e with EBlock _ _ => S n | _ => n end) r.
  Proof. destruct e; simpl; tauto. Qed.

  Lemma hist_cons e r : hist (e :: r) = hist1 e ++ hist r.
  Proof. destruct e; reflexivity. Qed.
  Lemma gmax_cons e r : gmax (e :: r) = Nat.max (g1 e) (gmax r).
  Proof. destruct e; simpl; lia. Qed.

  Theorem run_inv m : forall evs H g s,
    Inv m H g s -> evs_ok true (s_mem s) (s_com s) (s_n s) evs ->
    exists s', run true m s evs = Some s' /\ Inv m (H ++ hist evs) (Nat.max g (gmax evs)) s'.
  Proof.
    induction evs as [|e r IH]; intros H g s I OK.
    - exists s. simpl. rewrite app_nil_r, Nat.max_0_r. auto.
    - apply evs_ok_cons in OK. destruct OK as [O1 O2].
      destruct (step_inv m H g s e I O1) as [s1 [S1 I1]].
      assert (O3 : evs_ok true (s_mem s1) (s_com s1) (s_n s1) r).
      { destruct e; simpl in S1.
        - destruct (flush _ _ _ _) as [[? ?]|]; inv S1. exact O2.
        - destruct (flush _ _ _ _) as [[? ?]|]; inv S1. exact O2.
        - inv S1. exact O2.
        - inv S1. exact O2. }
      destruct (IH _ _ _ I1 O3) as [s' [R I']]. exists s'. cbn [run]. rewrite S1. split; [exact R|].
      rewrite hist_cons, gmax_cons, app_assoc, Nat.max_assoc. exact I'.
  Qed.

  Corollary run_inv_init m evs :
    evs_ok true None None 0 evs ->
    exists s, run true m init evs = Some s /\ Inv m (hist evs) (gmax evs) s.
  Proof. intros OK. destruct (run_inv m evs [] 0%nat init (inv_init m) OK) as [s [R I]]. exists s. auto. Qed.

  (* the code as it stands and the code with the reset agree on histories without dropped blocks *)
  Lemma run_no_drop m : forall evs s, no_drop evs -> run false m s evs = run true m s evs.
  Proof.
    induction evs as [|e r IH]; intros s ND; [reflexivity|]. inv ND.
    destruct e as [T' ops|T' ops|G|]; [|contradiction| |].
    - cbn [run step]. destruct (flush _ _ _ _) as [[rc' tbl']|]; [apply IH; assumption|reflexivity].
    - cbn [run step]. apply IH; assumption.
    - cbn [run step]. apply IH; assumption.
  Qed.
  Lemma evs_ok_no_drop : forall evs mem com n, no_drop evs -> evs_ok false mem com n evs -> evs_ok true mem com n evs.
  Proof.
    induction evs as [|e r IH]; intros mem com n ND OK; [exact I|]. inv ND.
    destruct e; [|contradiction| |]; simpl in *; intuition.
  Qed.

  (* ================= the property theorems ================= *)

  (* latest_exact *)
  Theorem latest_exact evs :
    evs_ok true None None 0 evs ->
    exists s, run true MLatest init evs = Some s /\
      forall h, lookup (s_tbl s) h =
                if 0 <? occT h (s_com s) then Some (mkE (nb h) true (occT h (s_com s))) else None.
  Proof.
    intros OK. destruct (run_inv_init MLatest evs OK) as [s [R I]]. exists s. split; [exact R|].
    intros h. pose proof (inv_tbl _ _ _ _ I h) as T. simpl in T. rewrite (inv_com _ _ _ _ I). exact T.
  Qed.

  (* gc_mode_exact *)
  Definition gc_exact (H : list trie) (g n : nat) (tbl : table) : Prop :=
    forall h,
      let o := fun j => occT h (trie_at H j) in
      (* active entries carry the occurrences in the latest trie; unreferenced nodes are never active *)
      (forall e, lookup tbl h = Some e -> e_active e = true -> e = mkE (nb h) true (o n) /\ 0 < o n) /\
      (0 < o n -> lookup tbl h = Some (mkE (nb h) true (o n))) /\
      (* an entry that left the latest trie at block b (and has not come back, and is not yet collected) is inactive with stamp b *)
      (forall b, (1 <= b <= n)%nat -> (g < b)%nat -> 0 < o (b - 1)%nat -> (forall j, (b <= j <= n)%nat -> o j = 0) ->
                 lookup tbl h = Some (mkE (nb h) false (Z.of_nat b))) /\
      (* nothing else: every inactive entry is of that kind, and an absent node occurs in no retained trie *)
      (forall e, lookup tbl h = Some e -> e_active e = false ->
                 exists b, e = mkE (nb h) false (Z.of_nat b) /\ (1 <= b <= n)%nat /\ (g < b)%nat /\
                           0 < o (b - 1)%nat /\ forall j, (b <= j <= n)%nat -> o j = 0) /\
      (lookup tbl h = None -> forall j, (g <= j <= n)%nat -> o j = 0).

  Lemma TI_gc_exact H g n tbl :
    (g <= n)%nat ->
    (forall h, TI nb MGC h g n (fun j => occT h (trie_at H j)) (lookup tbl h)) -> gc_exact H g n tbl.
  Proof.
    intros GN T h o. subst o. cbv beta. specialize (T h). simpl in T.
    assert (NN : forall j, 0 <= occT h (trie_at H j)) by (intros j; apply occT_nonneg).
    destruct (lookup tbl h) as [e|] eqn:L.
    - destruct T as [B T]. destruct e as [bs a v]. simpl in *. subst bs. destruct a.
      + destruct T as [P V]. subst v. split; [|split; [|split; [|split]]].
        * intros e0 E _. inv E. split; [reflexivity|assumption].
        * intros _. reflexivity.
        * intros b Hb Gb Ob Z. specialize (Z n). lia.
        * intros e0 E A. inv E. discriminate.
        * discriminate.
      + destruct T as [s [V [H1 [H2 [H3 H4]]]]]. subst v. assert (Zn : occT h (trie_at H n) = 0) by (apply H4; lia).
        split; [|split; [|split; [|split]]].
        * intros e0 E A. inv E. discriminate.
        * lia.
        * intros b Hb Gb Ob Z.
          assert (s = b).
          { destruct (lt_eq_lt_dec s b) as [[Lt|Eq]|Gt]; [|assumption|].
            - specialize (H4 (b - 1)%nat). lia.
            - specialize (Z (s - 1)%nat). lia. }
          subst s. reflexivity.
        * intros e0 E A. inv E. exists s. repeat split; try assumption; lia.
        * discriminate.
    - split; [|split; [|split; [|split]]]; try discriminate.
      + intros P. specialize (T n). lia.
      + intros b Hb Gb Ob Z. specialize (T (b - 1)%nat). lia.
      + intros _. exact T.
  Qed.

  Theorem gc_mode_exact evs :
    evs_ok true None None 0 evs ->
    exists s, run true MGC init evs = Some s /\
      s_n s = length (hist evs) /\ s_com s = trie_at (hist evs) (s_n s) /\
      gc_exact (hist evs) (gmax evs) (s_n s) (s_tbl s).
  Proof.
    intros OK. destruct (run_inv_init MGC evs OK) as [s [R I]]. exists s. split; [exact R|].
    split; [apply (inv_n _ _ _ _ I)|]. split; [apply (inv_com _ _ _ _ I)|].
    apply TI_gc_exact; [apply (inv_g _ _ _ _ I)|apply (inv_tbl _ _ _ _ I)].
  Qed.

  (* presence of every node of every retained trie, with its own bytes: the table part of retained_readable *)
  Definition retained (m : mode) (g n j : nat) : Prop :=
    match m with
    | MAll => (j <= n)%nat
    | MLatest => j = n
    | MGC => (g <= j <= n)%nat
    end.

  Lemma inv_present m H g s j h :
    Inv m H g s -> retained m g (s_n s) j -> 0 < occT h (trie_at H j) ->
    exists e, lookup (s_tbl s) h = Some e /\ e_bytes e = nb h /\ (j = s_n s -> m <> MAll -> e_active e = true).
  Proof.
    intros I R P. pose proof (inv_tbl _ _ _ _ I h) as T. destruct m; simpl in *.
    - destruct (lookup (s_tbl s) h) as [e|].
      + destruct T as [-> _]. eexists. split; [reflexivity|]. split; [reflexivity|]. congruence.
      + specialize (T j R). lia.
    - subst j. rewrite T. destruct (0 <? occT h (trie_at H (s_n s))) eqn:E; [|lia].
      eexists. split; [reflexivity|]. simpl. auto.
    - destruct (lookup (s_tbl s) h) as [e|].
      + destruct T as [B T]. exists e. split; [reflexivity|]. split; [assumption|].
        intros -> _. destruct (e_active e); [reflexivity|].
        destruct T as [b [_ [H1 [_ [_ H4]]]]]. specialize (H4 (s_n s)). lia.
      + specialize (T j R). lia.
  Qed.

  (* gc_safe: a GC pass up to G keeps every entry that the trie of a retained height >= G needs *)
  Theorem gc_safe m H g s (G : nat) :
    Inv m H g s -> (G <= s_n s)%nat ->
    forall j h, retained m g (s_n s) j -> (G <= j)%nat -> 0 < occT h (trie_at H j) ->
      lookup (gc (Z.of_nat G) (s_tbl s)) h = lookup (s_tbl s) h /\ lookup (s_tbl s) h <> None.
  Proof.
    intros I GN j h R Gj P. rewrite lookup_gc by apply (inv_nd_tbl _ _ _ _ I).
    pose proof (inv_tbl _ _ _ _ I h) as T. destruct m; simpl in T, R.
    - destruct (lookup (s_tbl s) h) as [e|].
      + destruct T as [-> _]. simpl. split; [reflexivity|discriminate].
      + specialize (T j). lia.
    - subst j. rewrite T. destruct (0 <? occT h (trie_at H (s_n s))) eqn:E; [|lia].
      simpl. split; [reflexivity|discriminate].
    - destruct (lookup (s_tbl s) h) as [e|].
      + destruct T as [B T]. unfold gc_keep. destruct (e_active e); simpl; [split; [reflexivity|discriminate]|].
        destruct T as [b [V [H1 [H2 [H3 H4]]]]].
        destruct (Z.of_nat G <? e_val e) eqn:E; [split; [reflexivity|discriminate]|].
        specialize (H4 j). lia.
      + specialize (T j). lia.
  Qed.
End Proofs.
