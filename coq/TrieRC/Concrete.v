(* C11 — the interface hypothesis of TrieRC/Proofs.v ([evs_ok], clause 2: the addRef/removeRef calls of a block net, for
   every hash, to the change of occurrences) stated and proved against the CONCRETE trie of C10 (coq/Trie/Model.v) for
   Trie.Put and Trie.Delete with the REAL placement of addRef/removeRef in trie.go:

     putIntoEmpty/newSubTrie (trie.go:232-247), putIntoLeaf (166-180), putIntoBranch (184-196),
     putIntoExtension (200-229), deleteFromNode/Leaf (383-391), deleteFromBranch (282-331), deleteFromExtension (333-360)

   [put_trace t p v] / [delete_trace t p] list the calls in the order the Go code makes them (the node a call names is
   given by the hash of the model node at that moment); [nodes t] is the multiset of (hashes of) the nodes a trie stores;
   theorems [put_trace_net] / [delete_trace_net]:  net h trace = count h (nodes new) - count h (nodes old)  for every h
   ("path copying": exactly the rebuilt nodes along the path are removed, exactly the new ones added, everything off
   the path is shared and not touched).  [abs] maps a concrete trie to the abstract tree of TrieRC/Model.v with the same
   occurrence counts, so the hypotheses of the C11 theorems hold for every history of blocks made of Put/Delete calls.

   NOT carried here: the placements inside PutBatch (batch.go: mergeExtension, stripBranch, addToBranch,
   newSubTrieMany) — for batches the hypothesis stays a run-time check of the harness (hook + independent recount). *)
From NG Require Import Common.Tactics TrieRC.Model TrieRC.AList TrieRC.Pointwise TrieRC.Slots TrieRC.Proofs.
From NG Require Trie.Model Trie.Lemmas Trie.PutDelete Trie.Batch.
Open Scope Z_scope.

Module T := NG.Trie.Model.

Fixpoint cnt (h : N) (l : list N) : Z :=
  match l with [] => 0 | x :: r => (if N.eqb h x then 1 else 0) + cnt h r end.
Lemma cnt_app h a b : cnt h (a ++ b) = cnt h a + cnt h b.
Proof. induction a as [|x a IH]; simpl; [reflexivity|]. rewrite IH. lia. Qed.

Lemma net_app h a b : net h (a ++ b) = net h a + net h b.
Proof. unfold net. induction a as [|x a IH]; simpl; [reflexivity|]. rewrite IH. lia. Qed.
Lemma net_cons h o a : net h (o :: a) = net1 h o + net h a.
Proof. reflexivity. Qed.

Section Concrete.
  Variable H : T.bytes -> T.bytes.

  (* a node's identity in the node table: its hash, as a number *)
  Definition hnum (h : T.bytes) : N := fold_right (fun b a => (b + 256 * a)%N) 0%N h.
  Definition nid (t : T.node) : N := hnum (T.hash H t).

  (* the stored nodes of a trie, with multiplicity (Empty and collapsed sub-tries store nothing) *)
  Fixpoint nodes (t : T.node) : list N :=
    match t with
    | T.Empty | T.HashRef _ => []
    | T.Leaf _ => [nid t]
    | T.Ext _ n => nid t :: nodes n
    | T.Branch cs vc =>
        nid t :: (fix go (l : list T.node) : list N := match l with [] => [] | c :: r => nodes c ++ go r end) cs ++ nodes vc
    end.
  Definition lnodes (cs : list T.node) : list N := flat_map nodes cs.
  Lemma nodes_branch cs vc : nodes (T.Branch cs vc) = nid (T.Branch cs vc) :: lnodes cs ++ nodes vc.
  Proof. reflexivity. Qed.

  Definition cn (h : N) (t : T.node) : Z := cnt h (nodes t).

  Lemma cn_branch h cs vc : cn h (T.Branch cs vc) = cnt h [nid (T.Branch cs vc)] + cnt h (lnodes cs) + cn h vc.
  Proof. unfold cn. rewrite nodes_branch. cbn [cnt]. rewrite cnt_app. lia. Qed.
  Lemma cn_ext h k n : cn h (T.Ext k n) = cnt h [nid (T.Ext k n)] + cn h n.
  Proof. unfold cn. cbn [nodes cnt]. lia. Qed.
  Lemma cn_leaf h v : cn h (T.Leaf v) = cnt h [nid (T.Leaf v)].
  Proof. reflexivity. Qed.
  Lemma cn_empty h : cn h T.Empty = 0.
  Proof. reflexivity. Qed.

  Lemma cnt_lnodes_upd h x : forall l i, (i < length l)%nat ->
    cnt h (lnodes (T.upd i x l)) = cnt h (lnodes l) - cn h (nth i l T.Empty) + cn h x.
  Proof.
    unfold cn, lnodes. induction l as [|c l IH]; intros i Hi; simpl in Hi; [lia|].
    destruct i as [|i]; simpl; rewrite !cnt_app; [lia|]. rewrite IH by lia. lia.
  Qed.
  Lemma lnodes_empties : lnodes T.empties = [].
  Proof. reflexivity. Qed.

  Definition addn (t : T.node) : refop := AddRef (nid t) (nid t).
  Definition remn (t : T.node) : refop := RemRef (nid t) (nid t).
  Lemma net_addn h t : net1 h (addn t) = cnt h [nid t].
  Proof. simpl. destruct (N.eqb h (nid t)); reflexivity. Qed.
  Lemma net_remn h t : net1 h (remn t) = - cnt h [nid t].
  Proof. simpl. destruct (N.eqb h (nid t)); reflexivity. Qed.

  (* newSubTrie(path, val, newVal) *)
  Definition new_sub_trace (p : T.path) (n : T.node) (newval : bool) : list refop :=
    (if newval then [addn n] else []) ++ match p with [] => [] | _ => [addn (T.Ext p n)] end.

  Lemma nodes_new_sub p n : nodes (T.new_sub p n) = match p with [] => [] | _ => [nid (T.Ext p n)] end ++ nodes n.
  Proof. destruct p; reflexivity. Qed.

  Lemma net_new_sub_leaf h p v : net h (new_sub_trace p (T.Leaf v) true) = cn h (T.new_sub p (T.Leaf v)).
  Proof.
    unfold cn. rewrite nodes_new_sub. unfold new_sub_trace. destruct p; simpl; destruct (N.eqb h _); try destruct (N.eqb h _); lia.
  Qed.
  Lemma net_new_sub_old h p n : net h (new_sub_trace p n false) = cn h (T.new_sub p n) - cn h n.
  Proof.
    unfold cn. rewrite nodes_new_sub, cnt_app. unfold new_sub_trace. destruct p; simpl; [lia|]. destruct (N.eqb h _); lia.
  Qed.

  (* ---------- Put ---------- *)
  Fixpoint put_trace (t : T.node) (p : T.path) (v : T.bytes) {struct t} : list refop :=
    match t with
    | T.Empty => new_sub_trace p (T.Leaf v) true                                   (* putIntoEmpty *)
    | T.Leaf w =>                                                                  (* putIntoLeaf *)
        match p with
        | [] => [remn t; addn (T.Leaf v)]
        | i :: r => new_sub_trace r (T.Leaf v) true ++ [addn (T.put t p v)]
        end
    | T.Ext k n =>                                                                 (* putIntoExtension *)
        match T.common k p with
        | (_, [], r) => remn t :: put_trace n r v ++ [addn (T.put t p v)]
        | (pref, a :: kt, pt) =>
            let b0 := T.upd a (T.new_sub kt n) T.empties in
            let b := match pt with
                     | [] => T.Branch b0 (T.Leaf v)
                     | i :: r => T.Branch (T.upd i (T.new_sub r (T.Leaf v)) b0) T.Empty
                     end in
            remn t :: new_sub_trace kt n false ++
            match pt with [] => new_sub_trace [] (T.Leaf v) true | _ :: r => new_sub_trace r (T.Leaf v) true end ++
            [addn b] ++ match pref with [] => [] | _ => [addn (T.Ext pref b)] end
        end
    | T.Branch cs vc =>                                                            (* putIntoBranch *)
        match p with
        | [] => remn t :: put_trace vc [] v ++ [addn (T.put t p v)]
        | i :: r =>
            remn t ::
            (fix go (l : list T.node) (j : nat) {struct l} : list refop :=
               match l with
               | [] => []
               | c :: l' => match j with O => put_trace c r v | S j' => go l' j' end
               end) cs i ++ [addn (T.put t p v)]
        end
    | T.HashRef _ => []
    end.

  (* extension keys are nibbles (part of the normal form) *)
  Fixpoint keys_ok (t : T.node) : Prop :=
    match t with
    | T.Ext k n => T.path_ok k /\ keys_ok n
    | T.Branch cs vc => (fix all (l : list T.node) : Prop := match l with [] => True | c :: r => keys_ok c /\ all r end) cs /\ keys_ok vc
    | _ => True
    end.
  Lemma keys_ok_branch cs vc : keys_ok (T.Branch cs vc) <-> Forall keys_ok cs /\ keys_ok vc.
  Proof.
    simpl. split; intros [A B]; split; auto.
    - induction cs as [|c r IH]; [constructor|]. destruct A. constructor; auto.
    - induction A; simpl; auto.
  Qed.

  Lemma common_parts k p c kt pt : T.common k p = (c, kt, pt) -> k = c ++ kt /\ p = c ++ pt.
  Proof.
    revert p c kt pt. induction k as [|x k IH]; intros p c kt pt E; simpl in E.
    - inv E. auto.
    - destruct p as [|y p]; [inv E; auto|]. destruct (Nat.eqb_spec x y) as [->|NE]; [|inv E; auto].
      destruct (T.common k p) as [[c' kt'] pt'] eqn:E'. inv E. destruct (IH _ _ _ _ E') as [-> ->]. auto.
  Qed.

  Lemma common_heads k p c a kt i r : T.common k p = (c, a :: kt, i :: r) -> a <> i.
  Proof.
    revert p c. induction k as [|x k IH]; intros p c E; simpl in E; [inv E|].
    destruct p as [|y p]; [inv E|]. destruct (Nat.eqb_spec x y) as [->|NE]; [|inv E; exact NE].
    destruct (T.common k p) as [[c' kt'] pt'] eqn:E'. inv E. eapply IH. exact E'.
  Qed.

  Lemma net_wrap h pref bb :
    net h ([addn bb] ++ match pref with [] => [] | _ :: _ => [addn (T.Ext pref bb)] end) =
    cn h (match pref with [] => bb | _ :: _ => T.Ext pref bb end) - cn h bb + cnt h [nid bb].
  Proof. destruct pref; cbn [app net fold_right]; rewrite !net_addn; unfold cn; simpl; lia. Qed.

  Lemma go_put_trace (f : T.node -> list refop) : forall cs i,
    (fix go (l : list T.node) (j : nat) {struct l} : list refop :=
       match l with [] => [] | c :: l' => match j with O => f c | S j' => go l' j' end end) cs i =
    if (i <? length cs)%nat then f (nth i cs T.Empty) else [].
  Proof.
    induction cs as [|c cs IH]; intros i; [reflexivity|]. destruct i as [|i]; [reflexivity|].
    rewrite IH. simpl length. destruct (Nat.ltb_spec i (length cs)), (Nat.ltb_spec (S i) (S (length cs))); try lia; reflexivity.
  Qed.

  Theorem put_trace_net : forall t p v, keys_ok t -> T.path_ok p ->
    forall h, net h (put_trace t p v) = cn h (T.put t p v) - cn h t.
  Proof.
    induction t as [|w|k n IH|cs vc IHcs IHvc|hh] using T.node_ind2; intros p v KO PO h.
    - (* Empty *) cbn [put_trace T.put]. rewrite net_new_sub_leaf. replace (cn h T.Empty) with 0 by reflexivity. lia.
    - (* Leaf *) destruct p as [|i r].
      + simpl. unfold cn. simpl. destruct (N.eqb h _), (N.eqb h _); lia.
      + cbn [put_trace]. rewrite net_app, net_new_sub_leaf. cbn [net fold_right]. rewrite net_addn.
        cbn [T.put]. unfold cn at 2. rewrite nodes_branch. cbn [cnt]. rewrite cnt_app.
        apply Trie.Lemmas.path_ok_cons in PO. destruct PO as [Li _].
        rewrite cnt_lnodes_upd by (rewrite Trie.Lemmas.length_empties; lia).
        rewrite lnodes_empties, Trie.Lemmas.nth_empties. unfold cn. simpl. lia.
    - (* Ext *) destruct KO as [KO1 KO2]. cbn [put_trace T.put].
      destruct (T.common k p) as [[pref kt] pt] eqn:EC. destruct (common_parts _ _ _ _ _ EC) as [Ek Ep].
      destruct kt as [|a kt].
      + rewrite net_cons, net_app, net_remn. cbn [net fold_right]. rewrite net_addn.
        rewrite IH; [|exact KO2|subst p; apply Trie.Lemmas.path_ok_app in PO; apply PO].
        unfold cn. simpl. lia.
      + assert (La : (a < 16)%nat).
        { subst k. apply Trie.Lemmas.path_ok_app in KO1. destruct KO1 as [_ K2].
          apply Trie.Lemmas.path_ok_cons in K2. apply K2. }
        cbv zeta. rewrite net_cons, !net_app, net_remn, net_new_sub_old.
        set (b0 := T.upd a (T.new_sub kt n) T.empties).
        assert (Cb0 : cnt h (lnodes b0) = cn h (T.new_sub kt n)).
        { unfold b0. rewrite cnt_lnodes_upd by (rewrite Trie.Lemmas.length_empties; lia).
          rewrite lnodes_empties, Trie.Lemmas.nth_empties. unfold cn. simpl. lia. }
        destruct pt as [|i r].
        * rewrite net_new_sub_leaf, <- net_app, net_wrap. cbn [T.new_sub].
          rewrite cn_branch, Cb0, cn_ext, !cn_leaf. lia.
        * assert (Li : (i < 16)%nat).
          { subst p. apply Trie.Lemmas.path_ok_app in PO. destruct PO as [_ P2]. apply Trie.Lemmas.path_ok_cons in P2. apply P2. }
          pose proof (common_heads _ _ _ _ _ _ _ EC) as Ia.
          rewrite net_new_sub_leaf, <- net_app, net_wrap.
          rewrite cn_branch, cn_ext, cn_empty.
          rewrite cnt_lnodes_upd by (unfold b0; rewrite Trie.Lemmas.length_upd, Trie.Lemmas.length_empties; lia).
          assert (Ni : nth i b0 T.Empty = T.Empty).
          { unfold b0. rewrite Trie.Lemmas.nth_upd_other by exact Ia. apply Trie.Lemmas.nth_empties. }
          rewrite Ni, Cb0, cn_empty. lia.
    - (* Branch *) apply keys_ok_branch in KO. destruct KO as [KOc KOv]. destruct p as [|i r].
      + cbn [put_trace]. rewrite net_cons, net_app, net_remn. cbn [net fold_right]. rewrite net_addn.
        rewrite IHvc by (assumption || constructor). rewrite Trie.Lemmas.put_branch_nil.
        unfold cn. rewrite !nodes_branch. cbn [cnt]. rewrite !cnt_app. lia.
      + cbn [put_trace]. rewrite go_put_trace, net_cons, net_app, net_remn. cbn [net fold_right]. rewrite net_addn.
        rewrite Trie.Lemmas.put_branch_cons. apply Trie.Lemmas.path_ok_cons in PO. destruct PO as [_ Pr].
        destruct (Nat.ltb_spec i (length cs)) as [Lt|Ge].
        * rewrite Forall_forall in IHcs. rewrite (IHcs (nth i cs T.Empty)); [|apply nth_In; exact Lt| |exact Pr].
          2:{ rewrite Forall_forall in KOc. apply KOc, nth_In. exact Lt. }
          unfold cn. rewrite !nodes_branch. cbn [cnt]. rewrite !cnt_app, cnt_lnodes_upd by exact Lt. unfold cn. lia.
        * rewrite Trie.Lemmas.upd_out by exact Ge. simpl. lia.
    - (* HashRef *) simpl. unfold cn. simpl. lia.
  Qed.

  (* ---------- Delete ---------- *)
  (* the tail of deleteFromBranch (trie.go:299-330) on the children after the recursive call *)
  Definition after_trace (cs : list T.node) (vc : T.node) : list refop :=
    match T.ne_from 0 (cs ++ [vc]) with
    | [] => [addn (T.Ext [0%nat] T.Empty)]
    | [(j, c)] =>
        if Nat.eqb j 16 then []
        else match c with
             | T.Ext k n => [remn c; addn (T.Ext (j :: k) n)]
             | _ => [addn (T.Ext [j] c)]
             end
    | _ => [addn (T.Branch cs vc)]
    end.

  Fixpoint delete_trace (t : T.node) (p : T.path) {struct t} : list refop :=
    match t with
    | T.Empty | T.HashRef _ => []
    | T.Leaf _ => match p with [] => [remn t] | _ => [] end
    | T.Ext k n =>                                                               (* deleteFromExtension *)
        match T.strip k p with
        | None => []
        | Some r =>
            delete_trace n r ++ [remn t] ++
            match T.delete n r with
            | T.Ext k' n' => [remn (T.Ext k' n'); addn (T.Ext (k ++ k') n')]
            | T.Empty => []
            | n' => [addn (T.Ext k n')]
            end
        end
    | T.Branch cs vc =>                                                          (* deleteFromBranch *)
        match p with
        | [] => delete_trace vc [] ++ [remn t] ++ after_trace cs (T.delete vc [])
        | i :: r =>
            (fix go (l : list T.node) (j : nat) {struct l} : list refop :=
               match l with
               | [] => []
               | c :: l' => match j with O => delete_trace c r | S j' => go l' j' end
               end) cs i ++ [remn t] ++ after_trace (T.upd i (T.delete (nth i cs T.Empty) r) cs) vc
        end
    end.

  Fixpoint zsum (l : list Z) : Z := match l with [] => 0 | x :: r => x + zsum r end.
  Lemma lnodes_ne h : forall l j, cnt h (lnodes l) = zsum (map (fun jc : nat * T.node => cn h (snd jc)) (T.ne_from j l)).
  Proof.
    unfold lnodes. induction l as [|c l IH]; intros j; [reflexivity|]. cbn [flat_map T.ne_from]. rewrite cnt_app, (IH (S j)).
    destruct c; simpl; unfold cn; simpl; lia.
  Qed.
  Lemma lnodes_app a b : lnodes (a ++ b) = lnodes a ++ lnodes b.
  Proof. apply flat_map_app. Qed.

  Lemma after_trace_net h cs vc :
    net h (after_trace cs vc) = cn h (T.after_delete cs vc) - (cnt h (lnodes cs) + cn h vc).
  Proof.
    assert (E : cnt h (lnodes cs) + cn h vc = zsum (map (fun jc : nat * T.node => cn h (snd jc)) (T.ne_from 0 (cs ++ [vc])))).
    { rewrite <- lnodes_ne, lnodes_app, cnt_app. unfold lnodes at 2. simpl. rewrite app_nil_r. reflexivity. }
    rewrite E. unfold after_trace, T.after_delete.
    destruct (T.ne_from 0 (cs ++ [vc])) as [|[j c] [|x l]] eqn:NE.
    - cbn [net fold_right map zsum]. rewrite net_addn, cn_ext, cn_empty. lia.
    - cbn [map zsum snd]. destruct (Nat.eqb j 16); [cbn [net fold_right]; lia|].
      destruct c; cbn [net fold_right]; rewrite ?net_addn, ?net_remn, ?cn_ext, ?cn_leaf, ?cn_empty; lia.
    - first [rewrite <- E|rewrite <- NE, <- E]. cbn [net fold_right]. rewrite net_addn, cn_branch. lia.
  Qed.

  Theorem delete_trace_net : forall t p, forall h, net h (delete_trace t p) = cn h (T.delete t p) - cn h t.
  Proof.
    induction t as [|w|k n IH|cs vc IHcs IHvc|hh] using T.node_ind2; intros p h.
    - reflexivity.
    - destruct p; cbn [delete_trace T.delete net fold_right]; rewrite ?net_remn, ?cn_empty, ?cn_leaf; lia.
    - cbn [delete_trace T.delete]. destruct (T.strip k p) as [r|]; [|cbn [net fold_right]; lia].
      rewrite !net_app, IH. cbn [net fold_right]. rewrite net_remn.
      destruct (T.delete n r) eqn:D; cbn [net fold_right]; rewrite ?net_addn, ?net_remn, ?cn_ext, ?cn_leaf, ?cn_empty; lia.
    - destruct p as [|i r].
      + cbn [delete_trace]. rewrite Trie.Lemmas.delete_branch_nil, !net_app, IHvc, after_trace_net.
        cbn [net fold_right]. rewrite net_remn, cn_branch. lia.
      + cbn [delete_trace]. rewrite go_put_trace, Trie.Lemmas.delete_branch_cons, !net_app, after_trace_net.
        cbn [net fold_right]. rewrite net_remn, cn_branch.
        destruct (Nat.ltb_spec i (length cs)) as [Lt|Ge].
        * rewrite Forall_forall in IHcs. rewrite (IHcs (nth i cs T.Empty)) by (apply nth_In; exact Lt).
          rewrite cnt_lnodes_upd by exact Lt. lia.
        * rewrite Trie.Lemmas.upd_out by exact Ge. cbn [net fold_right]. lia.
    - reflexivity.
  Qed.

  (* ---------- PutBatch (batch.go) ---------- *)
  (* mergeExtension(prefix, sub) *)
  Definition merge_trace (prefix : T.path) (sub : T.node) : list refop :=
    match sub with
    | T.Ext k n => [remn sub; addn (T.Ext (prefix ++ k) n)]
    | T.Empty => []
    | _ => match prefix with [] => [] | _ => [addn (T.Ext prefix sub)] end
    end.
  Lemma merge_trace_net h prefix sub : net h (merge_trace prefix sub) = cn h (T.merge_ext prefix sub) - cn h sub.
  Proof.
    destruct sub; cbn [merge_trace T.merge_ext]; try (destruct prefix); cbn [net fold_right];
      rewrite ?net_addn, ?net_remn, ?cn_ext, ?cn_leaf, ?cn_empty; lia.
  Qed.

  (* stripBranch(b) *)
  Definition strip_trace (cs : list T.node) (vc : T.node) : list refop :=
    match T.ne_from 0 (cs ++ [vc]) with
    | [] => []
    | [(j, c)] => if Nat.eqb j 16 then [] else merge_trace [j] c
    | _ => [addn (T.Branch cs vc)]
    end.
  Lemma strip_trace_net h cs vc :
    net h (strip_trace cs vc) = cn h (T.strip_branch cs vc) - (cnt h (lnodes cs) + cn h vc).
  Proof.
    assert (E : cnt h (lnodes cs) + cn h vc = zsum (map (fun jc : nat * T.node => cn h (snd jc)) (T.ne_from 0 (cs ++ [vc])))).
    { rewrite <- lnodes_ne, lnodes_app, cnt_app. unfold lnodes at 2. simpl. rewrite app_nil_r. reflexivity. }
    rewrite E. unfold strip_trace, T.strip_branch.
    destruct (T.ne_from 0 (cs ++ [vc])) as [|[j c] [|x l]] eqn:NE.
    - cbn [net fold_right map zsum]. rewrite cn_empty. lia.
    - cbn [map zsum snd]. destruct (Nat.eqb j 16); [cbn [net fold_right]; lia|]. rewrite merge_trace_net. lia.
    - first [rewrite <- E|rewrite <- NE, <- E]. cbn [net fold_right]. rewrite net_addn, cn_branch. lia.
  Qed.

  Section BatchLevel.
    Variable rec : T.node -> T.kvs -> T.node.           (* putBatchIntoNode one level down: result *)
    Variable rtr : T.node -> T.kvs -> list refop.       (* ... and its reference operations *)

    Definition on_kv_tr (kv : T.kvs) (c : T.node) : list refop := match kv with [] => [] | _ => rtr c kv end.
    Fixpoint kids_tr (j : nat) (kv : T.kvs) (l : list T.node) : list refop :=
      match l with [] => [] | c :: l' => on_kv_tr (T.sub_kv j kv) c ++ kids_tr (S j) kv l' end.

    (* addToBranch(b, kv, inTrie) *)
    Definition atb_trace (inTrie : bool) (cs : list T.node) (vc : T.node) (kv : T.kvs) : list refop :=
      (if inTrie then [remn (T.Branch cs vc)] else []) ++ kids_tr 0 kv cs ++ on_kv_tr (T.emp_kv kv) vc ++
      strip_trace (T.mapi 0 (fun c child => T.on_kv rec (T.sub_kv c kv) child) cs) (T.on_kv rec (T.emp_kv kv) vc).

    (* newSubTrieMany(prefix, kv, value) *)
    Definition nsm_trace (prefix : T.path) (kv : T.kvs) (value : option T.bytes) : list refop :=
      let go (kv : T.kvs) (value : option T.bytes) :=
        let vc := match value with Some w => T.Leaf w | None => T.Empty end in
        match value with Some w => [addn (T.Leaf w)] | None => [] end ++
        atb_trace false T.empties vc kv ++ merge_trace prefix (T.add_to_branch rec T.empties vc kv) in
      match kv with
      | ([], None) :: [] => []
      | ([], None) :: kv' => go kv' None
      | ([], Some w) :: [] => new_sub_trace prefix (T.Leaf w) true
      | ([], Some w) :: _ => go kv (Some w)
      | _ => go kv value
      end.

    (* putBatchIntoExtensionNoPrefix(key, next, kv) *)
    Definition enp_trace (key : T.path) (next : T.node) (kv : T.kvs) : list refop :=
      match key with
      | [] => []
      | a :: kt => new_sub_trace kt next false ++ atb_trace false (T.upd a (T.new_sub kt next) T.empties) T.Empty kv
      end.

    Variable h : N.
    Hypothesis rec_net : forall c kv, keys_ok c -> net h (rtr c kv) = cn h (rec c kv) - cn h c.

    Lemma on_kv_net kv c : keys_ok c -> net h (on_kv_tr kv c) = cn h (T.on_kv rec kv c) - cn h c.
    Proof. intros K. destruct kv; cbn [on_kv_tr T.on_kv]; [cbn [net fold_right]; lia|apply rec_net, K]. Qed.

    Lemma kids_net kv : forall l j, Forall keys_ok l ->
      net h (kids_tr j kv l) =
      cnt h (lnodes (T.mapi j (fun c child => T.on_kv rec (T.sub_kv c kv) child) l)) - cnt h (lnodes l).
    Proof.
      induction l as [|c l IH]; intros j F; [reflexivity|]. inv F.
      cbn [kids_tr T.mapi]. unfold lnodes in *. cbn [flat_map]. rewrite net_app, !cnt_app, on_kv_net, IH by assumption.
      unfold cn. lia.
    Qed.

    Lemma atb_net inTrie cs vc kv : Forall keys_ok cs -> keys_ok vc ->
      net h (atb_trace inTrie cs vc kv) =
      cn h (T.add_to_branch rec cs vc kv) - (if inTrie then cn h (T.Branch cs vc) else cnt h (lnodes cs) + cn h vc).
    Proof.
      intros F K. unfold atb_trace, T.add_to_branch. rewrite !net_app, kids_net, on_kv_net, strip_trace_net by assumption.
      destruct inTrie; cbn [net fold_right]; rewrite ?net_remn, ?cn_branch; lia.
    Qed.

    Lemma keys_ok_empties : Forall keys_ok T.empties.
    Proof. unfold T.empties. apply Forall_forall. intros x HI. apply repeat_spec in HI. subst. exact I. Qed.

    Lemma nsm_net prefix kv value : net h (nsm_trace prefix kv value) = cn h (T.new_sub_many rec prefix kv value).
    Proof.
      assert (G : forall kv' value',
        net h (match value' with Some w => [addn (T.Leaf w)] | None => [] end ++
               atb_trace false T.empties (match value' with Some w => T.Leaf w | None => T.Empty end) kv' ++
               merge_trace prefix (T.add_to_branch rec T.empties (match value' with Some w => T.Leaf w | None => T.Empty end) kv')) =
        cn h (T.merge_ext prefix (T.add_to_branch rec T.empties (match value' with Some w => T.Leaf w | None => T.Empty end) kv'))).
      { intros kv' value'. rewrite !net_app, merge_trace_net, atb_net; [|apply keys_ok_empties|destruct value'; exact I].
        rewrite lnodes_empties. destruct value'; cbn [net fold_right cnt]; rewrite ?net_addn, ?cn_leaf, ?cn_empty; lia. }
      unfold nsm_trace, T.new_sub_many. cbv zeta.
      destruct kv as [|[[|x k] [w|]] [|e kv']];
        first [apply net_new_sub_leaf | reflexivity | apply (G _ value) | apply (G _ None) | apply (G _ (Some w))].
    Qed.

    Lemma enp_net key next kv : T.path_ok key -> keys_ok next ->
      net h (enp_trace key next kv) = cn h (T.put_batch_ext_noprefix rec key next kv) - cn h next.
    Proof.
      intros PO K. destruct key as [|a kt]; cbn [enp_trace T.put_batch_ext_noprefix]; [cbn [net fold_right]; lia|].
      apply Trie.Lemmas.path_ok_cons in PO. destruct PO as [La Pk].
      rewrite net_app, net_new_sub_old, atb_net.
      - rewrite cnt_lnodes_upd by (rewrite Trie.Lemmas.length_empties; lia).
        rewrite lnodes_empties, Trie.Lemmas.nth_empties, !cn_empty. cbn [cnt]. lia.
      - apply Trie.Lemmas.Forall_upd; [apply keys_ok_empties|]. destruct kt; [exact K|]. split; assumption.
      - exact I.
    Qed.
  End BatchLevel.

  (* putBatchIntoNode with the fuel of the model *)
  Fixpoint pb_trace (fuel : nat) (t : T.node) (kv : T.kvs) : list refop :=
    match fuel with
    | O => []
    | S f =>
        let rec := T.put_batch_node f in
        let rtr := pb_trace f in
        match t with
        | T.Leaf w => remn t :: nsm_trace rec rtr [] kv (Some w)                        (* putBatchIntoLeaf *)
        | T.Branch cs vc => atb_trace rec rtr true cs vc kv                             (* putBatchIntoBranch *)
        | T.Ext k n =>                                                                  (* putBatchIntoExtension *)
            let pref := T.lcp (T.lcp_many kv) k in
            remn t ::
            if Nat.eqb (length pref) (length k) then
              rtr n (T.strip_prefix (length k) kv) ++ merge_trace pref (rec n (T.strip_prefix (length k) kv))
            else
              match pref with
              | [] => enp_trace rec rtr k n kv
              | _ => enp_trace rec rtr (skipn (length pref) k) n (T.strip_prefix (length pref) kv) ++
                     merge_trace pref (T.put_batch_ext_noprefix rec (skipn (length pref) k) n (T.strip_prefix (length pref) kv))
              end
        | T.Empty =>                                                                    (* putBatchIntoEmpty *)
            let c := T.lcp_many kv in
            nsm_trace rec rtr c (T.strip_prefix (length c) kv) None
        | T.HashRef _ => []
        end
    end.
  Definition put_batch_trace (t : T.node) (kv : T.kvs) : list refop :=
    match kv with [] => [] | _ => pb_trace (T.maxlen kv + 2) t kv end.

  Lemma path_ok_skipn n k : T.path_ok k -> T.path_ok (skipn n k).
  Proof.
    unfold T.path_ok. revert k. induction n as [|n IH]; intros k F; [exact F|]. destruct k; [constructor|]. inv F. apply IH. assumption.
  Qed.

  Theorem pb_trace_net h : forall fuel t kv, keys_ok t ->
    net h (pb_trace fuel t kv) = cn h (T.put_batch_node fuel t kv) - cn h t.
  Proof.
    induction fuel as [|f IH]; intros t kv K; [cbn [pb_trace T.put_batch_node net fold_right]; lia|].
    assert (RN : forall c kv', keys_ok c -> net h (pb_trace f c kv') = cn h (T.put_batch_node f c kv') - cn h c)
      by (intros; apply IH; assumption).
    destruct t as [|w|k n|cs vc|hh]; cbn [pb_trace T.put_batch_node].
    - rewrite nsm_net by exact RN. rewrite cn_empty. lia.
    - rewrite net_cons, net_remn, nsm_net by exact RN. rewrite cn_leaf. lia.
    - destruct K as [Pk Kn]. cbv zeta. rewrite net_cons, net_remn, cn_ext.
      destruct (Nat.eqb (length (T.lcp (T.lcp_many kv) k)) (length k)).
      + rewrite net_app, merge_trace_net, RN by exact Kn. lia.
      + destruct (T.lcp (T.lcp_many kv) k) as [|x pref] eqn:EP.
        * rewrite (enp_net _ _ h RN) by assumption. lia.
        * rewrite net_app, merge_trace_net, (enp_net _ _ h RN) by (try apply path_ok_skipn; assumption). lia.
    - apply keys_ok_branch in K. destruct K as [Kc Kv]. rewrite (atb_net _ _ h RN) by assumption. lia.
    - cbn [net fold_right]. lia.
  Qed.

  Theorem put_batch_trace_net t kv : keys_ok t ->
    forall h, net h (put_batch_trace t kv) = cn h (T.put_batch t kv) - cn h t.
  Proof.
    intros K h. unfold put_batch_trace, T.put_batch. destruct kv; [cbn [net fold_right]; lia|]. apply pb_trace_net. exact K.
  Qed.

  (* ---------- the abstract tree of TrieRC/Model.v that a concrete trie denotes ---------- *)
  Fixpoint abs_l (t : T.node) : list tree :=
    match t with
    | T.Empty | T.HashRef _ => []
    | T.Leaf _ => [Node (nid t) []]
    | T.Ext _ n => [Node (nid t) (abs_l n)]
    | T.Branch cs vc =>
        [Node (nid t) ((fix go (l : list T.node) : list tree := match l with [] => [] | c :: r => abs_l c ++ go r end) cs ++ abs_l vc)]
    end.
  Definition abs (t : T.node) : trie := match abs_l t with [x] => Some x | _ => None end.

  Lemma occs_app h a b : occs h (a ++ b) = occs h a + occs h b.
  Proof. unfold occs. induction a as [|x a IH]; simpl; [reflexivity|]. rewrite IH. lia. Qed.

  Lemma occs_abs h : forall t, occs h (abs_l t) = cn h t.
  Proof.
    induction t as [|w|k n IH|cs vc IHcs IHvc|hh] using T.node_ind2.
    - reflexivity.
    - cbn [abs_l]. unfold occs. cbn [fold_right]. rewrite occ_node, cn_leaf. cbn [cnt occs fold_right]. lia.
    - cbn [abs_l]. unfold occs at 1. cbn [fold_right]. rewrite occ_node, IH, cn_ext. cbn [cnt]. lia.
    - cbn [abs_l]. unfold occs at 1. cbn [fold_right]. rewrite occ_node, occs_app, IHvc, cn_branch. cbn [cnt].
      assert (E : occs h ((fix go (l : list T.node) : list tree := match l with [] => [] | c :: r => abs_l c ++ go r end) cs) =
                  cnt h (lnodes cs)).
      { unfold lnodes. induction IHcs as [|c r Hc Hr IHr]; [reflexivity|]. cbn [flat_map]. rewrite occs_app, cnt_app, Hc, IHr.
        unfold cn. reflexivity. }
      rewrite E. lia.
    - reflexivity.
  Qed.

  Theorem occ_abs h t : occT h (abs t) = cn h t.
  Proof.
    rewrite <- occs_abs. unfold abs. destruct t; try reflexivity; cbn [abs_l occT occs fold_right]; lia.
  Qed.

  (* ---------- histories of blocks over the concrete trie ---------- *)
  Inductive cop :=
  | CPut (p : T.path) (v : T.bytes)            (* Trie.Put *)
  | CDel (p : T.path)                          (* Trie.Delete *)
  | CBatch (kv : T.kvs).                       (* Trie.PutBatch (what a block of the node does) *)
  Definition cop_ok (o : cop) : Prop :=
    match o with CPut p _ => T.path_ok p | CDel _ => True | CBatch kv => Trie.Batch.kv_ok kv end.
  Definition capply1 (t : T.node) (o : cop) : T.node :=
    match o with CPut p v => T.put t p v | CDel p => T.delete t p | CBatch kv => T.put_batch t kv end.
  Definition ctrace1 (t : T.node) (o : cop) : list refop :=
    match o with CPut p v => put_trace t p v | CDel p => delete_trace t p | CBatch kv => put_batch_trace t kv end.
  Fixpoint cfold (t : T.node) (ops : list cop) : T.node :=
    match ops with [] => t | o :: r => cfold (capply1 t o) r end.
  Fixpoint ctrace (t : T.node) (ops : list cop) : list refop :=
    match ops with [] => [] | o :: r => ctrace1 t o ++ ctrace (capply1 t o) r end.

  Lemma NF_keys_ok : forall t, T.NF t -> keys_ok t.
  Proof.
    induction t as [|w|k n IH|cs vc IHcs IHvc|hh] using T.node_ind2; intros N; try exact I.
    - destruct N as [N|N]; [discriminate|]. inv N. split; [assumption|]. apply IH. right. assumption.
    - destruct N as [N|N]; [discriminate|]. inv N. apply keys_ok_branch. split.
      + rewrite Forall_forall in *. intros c HI. apply IHcs; [exact HI|]. destruct (H3 c HI) as [->|Hc]; [left; reflexivity|right; exact Hc].
      + destruct vc; try contradiction; exact I.
  Qed.

  Lemma capply1_NF t o : T.NF t -> cop_ok o -> T.NF (capply1 t o).
  Proof.
    intros N K. destruct o; simpl in *.
    - apply Trie.PutDelete.put_NF; assumption.
    - apply Trie.PutDelete.delete_NF; assumption.
    - apply (Trie.Batch.put_batch_spec t kv N K).
  Qed.

  Lemma ctrace1_net t o : T.NF t -> cop_ok o -> forall h, net h (ctrace1 t o) = cn h (capply1 t o) - cn h t.
  Proof.
    intros N K h. pose proof (NF_keys_ok t N) as KO. destruct o; simpl in *.
    - apply put_trace_net; assumption.
    - apply delete_trace_net.
    - apply put_batch_trace_net; assumption.
  Qed.

  Lemma cfold_NF : forall ops t, T.NF t -> Forall cop_ok ops -> T.NF (cfold t ops).
  Proof. induction ops as [|o r IH]; intros t N F; [exact N|]. inv F. apply IH; [apply capply1_NF|]; assumption. Qed.

  (* the interface hypothesis of the C11 theorems, for a whole block *)
  Theorem ctrace_net : forall ops t, T.NF t -> Forall cop_ok ops ->
    forall h, net h (ctrace t ops) = occT h (abs (cfold t ops)) - occT h (abs t).
  Proof.
    intros ops t N F h. rewrite !occ_abs. revert t N F.
    induction ops as [|o r IH]; intros t N F; [cbn [ctrace cfold net fold_right]; lia|]. inv F.
    cbn [ctrace cfold]. rewrite net_app, ctrace1_net, IH by (try apply capply1_NF; assumption). lia.
  Qed.

  (* the reference operations of the traces name a node by its hash and carry that node's own serialization
     (hash identifies content): the byte token of an operation is normalised to the hash it names *)
  Definition norm (o : refop) : refop :=
    match o with AddRef a _ => AddRef a a | RemRef a _ => RemRef a a | Load a => Load a end.
  Lemma norm_op_ok l : Forall (op_ok (fun h => h)) (map norm l).
  Proof. rewrite Forall_map. apply Forall_forall. intros [a b|a b|a] _; reflexivity. Qed.
  Lemma net_norm h l : net h (map norm l) = net h l.
  Proof. unfold net. induction l as [|[a b|a b|a] l IH]; simpl; rewrite ?IH; reflexivity. Qed.

  (* events of the module over the concrete trie *)
  Inductive cevent :=
  | CB (ops : list cop)           (* block computed and committed *)
  | CD (ops : list cop)           (* block computed and dropped *)
  | CG (G : nat)                  (* GC pass *)
  | CC.                           (* Collapse *)
  Fixpoint cevs (t : T.node) (l : list cevent) : list event :=
    match l with
    | [] => []
    | CB ops :: r => EBlock (abs (cfold t ops)) (map norm (ctrace t ops)) :: cevs (cfold t ops) r
    | CD ops :: r => EDrop (abs (cfold t ops)) (map norm (ctrace t ops)) :: cevs t r
    | CG G :: r => EGC G :: cevs t r
    | CC :: r => ECollapse :: cevs t r
    end.
  Fixpoint cfinal (t : T.node) (l : list cevent) : T.node :=
    match l with
    | [] => t
    | CB ops :: r => cfinal (cfold t ops) r
    | _ :: r => cfinal t r
    end.
  Fixpoint cevs_wf (n : nat) (l : list cevent) : Prop :=
    match l with
    | [] => True
    | CB ops :: r => Forall cop_ok ops /\ cevs_wf (S n) r
    | CD ops :: r => Forall cop_ok ops /\ cevs_wf n r
    | CG G :: r => (G <= n)%nat /\ cevs_wf n r
    | CC :: r => cevs_wf n r
    end.

  (* the hypotheses of every C11 theorem hold for every history over the concrete trie: no interface hypothesis left *)
  Theorem cevs_ok : forall l t n, T.NF t -> cevs_wf n l ->
    evs_ok (fun h => h) true (abs t) (abs t) n (cevs t l).
  Proof.
    induction l as [|e l IH]; intros t n N W; [exact I|].
    destruct e as [ops|ops|G|]; cbn [cevs evs_ok cevs_wf] in *.
    - destruct W as [F W]. split; [apply norm_op_ok|]. split.
      + intros h. rewrite net_norm. apply ctrace_net; assumption.
      + apply IH; [apply cfold_NF; assumption|exact W].
    - destruct W as [F W]. split; [apply norm_op_ok|]. split.
      + intros h. rewrite net_norm. apply ctrace_net; assumption.
      + apply IH; assumption.
    - destruct W as [G1 W]. split; [exact G1|]. apply IH; assumption.
    - apply IH; assumption.
  Qed.

  Lemma cevs_com : forall l t s0, s_com s0 = abs t ->
    forall m s, run true m s0 (cevs t l) = Some s -> s_com s = abs (cfinal t l).
  Proof.
    induction l as [|e l IH]; intros t s0 E m s R; [inv R; exact E|].
    destruct e as [ops|ops|G|]; cbn [cevs run cfinal] in R |- *; cbn [step] in R.
    - destruct (flush _ _ _ _) as [[rc' tbl']|]; [|discriminate]. eapply (IH (cfold t ops)); [|exact R]. reflexivity.
    - destruct (flush _ _ _ _) as [[rc' tbl']|]; [|discriminate]. eapply (IH t); [|exact R]. exact E.
    - eapply (IH t); [|exact R]. exact E.
    - eapply (IH t); [|exact R]. exact E.
  Qed.

  (* latest_exact over the concrete trie, no hypotheses on the operations beyond well-formed arguments *)
  Theorem latest_exact_concrete l : cevs_wf 0 l ->
    exists s, run true MLatest init (cevs T.Empty l) = Some s /\
      forall h, lookup (s_tbl s) h =
                if 0 <? cn h (cfinal T.Empty l) then Some (mkE h true (cn h (cfinal T.Empty l))) else None.
  Proof.
    intros W. pose proof (cevs_ok l T.Empty 0%nat (or_introl eq_refl) W) as OK.
    destruct (latest_exact (fun h => h) _ OK) as [s [R L]]. exists s. split; [exact R|].
    intros h. rewrite (L h), (cevs_com l T.Empty init eq_refl MLatest s R), occ_abs. reflexivity.
  Qed.

  Theorem gc_mode_exact_concrete l : cevs_wf 0 l ->
    exists s, run true MGC init (cevs T.Empty l) = Some s /\
      s_com s = abs (cfinal T.Empty l) /\
      gc_exact (fun h => h) (hist (cevs T.Empty l)) (gmax (cevs T.Empty l)) (s_n s) (s_tbl s).
  Proof.
    intros W. pose proof (cevs_ok l T.Empty 0%nat (or_introl eq_refl) W) as OK.
    destruct (gc_mode_exact (fun h => h) _ OK) as [s [R [_ [_ G]]]]. exists s. split; [exact R|]. split; [|exact G].
    apply (cevs_com l T.Empty init eq_refl MGC s R).
  Qed.
End Concrete.

(* ---------- non-vacuity: a history over the concrete trie with a batch, single puts, a delete that collapses a branch,
              a dropped block and a GC pass, under a toy hash function ---------- *)
Definition xH (x : T.bytes) : T.bytes := firstn 32 (map (fun b => (b + 1)%N) x ++ repeat 0%N 32).
Definition x_hist : list cevent :=
  [ CB [CBatch [([1;2;3;4]%nat, Some [7%N]); ([1;2;3;5]%nat, Some [7%N]); ([1;3]%nat, Some [9%N])]];
    CB [CPut [1;2]%nat [8%N]; CDel [1;3]%nat];
    CD [CPut [4]%nat [1%N]];
    CG 1%nat;
    CB [CDel [1;2;3;4]%nat; CBatch [([1;2]%nat, None); ([1;2;3;5]%nat, Some [7%N])]] ].

Ltac x_pok := unfold T.path_ok; repeat (apply Forall_cons; [lia|]); apply Forall_nil.
Ltac x_kvok :=
  split;
  [ repeat (first [apply Sorted.SSorted_nil | apply Forall_nil | apply Sorted.SSorted_cons | apply Forall_cons; [reflexivity|]])
  | repeat (apply Forall_cons; [cbn [fst]; x_pok|]); apply Forall_nil ].

Lemma x_hist_wf : cevs_wf 0 x_hist.
Proof.
  unfold x_hist. cbn [cevs_wf].
  split; [apply Forall_cons; [cbn [cop_ok]; x_kvok|apply Forall_nil]|].
  split; [apply Forall_cons; [cbn [cop_ok]; x_pok|apply Forall_cons; [exact I|apply Forall_nil]]|].
  split; [apply Forall_cons; [cbn [cop_ok]; x_pok|apply Forall_nil]|].
  split; [lia|].
  split; [apply Forall_cons; [exact I|apply Forall_cons; [cbn [cop_ok]; x_kvok|apply Forall_nil]]|exact I].
Qed.

Lemma x_hist_run :
  cfinal T.Empty x_hist = T.Ext [1;2;3;5]%nat (T.Leaf [7%N]) /\
  match run true MGC init (cevs xH T.Empty x_hist) with
  | Some s => length (s_tbl s) = 10%nat /\ length (filter (fun e => e_active (snd e)) (s_tbl s)) = 2%nat
  | None => False
  end.
Proof. vm_compute. auto. Qed.
