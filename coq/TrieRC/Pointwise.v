(* The block step seen from one hash: applying the block's reference operations and Flush act on every hash
   independently ([slot_ops], [flush1]); Flush does not depend on the iteration order of the map and panics
   exactly when some slot does. *)
From NG Require Import Common.Tactics TrieRC.Model TrieRC.AList.
Open Scope Z_scope.

(* ---- reference operations ---- *)
Definition slot_op (m : mode) (h : hash) (oe : option entry) (oc : option cnode) (o : refop) : option cnode :=
  if N.eqb h (op_hash o) then apply_op1 m oe oc o else oc.
Definition slot_ops (m : mode) (h : hash) (oe : option entry) (oc : option cnode) (ops : list refop) : option cnode :=
  fold_left (slot_op m h oe) ops oc.

Lemma lookup_apply_op m tbl rc o h :
  lookup (apply_op m tbl rc o) h = slot_op m h (lookup tbl h) (lookup rc h) o.
Proof.
  unfold apply_op, slot_op. rewrite lookup_set.
  destruct (N.eqb h (op_hash o)) eqn:E; [apply N.eqb_eq in E; subst h|]; reflexivity.
Qed.

Lemma lookup_apply_ops m tbl ops : forall rc h,
  lookup (apply_ops m tbl rc ops) h = slot_ops m h (lookup tbl h) (lookup rc h) ops.
Proof.
  unfold apply_ops, slot_ops. induction ops as [|o r IH]; intros rc h; simpl; [reflexivity|].
  rewrite IH, lookup_apply_op. reflexivity.
Qed.

Lemma nodup_apply_ops m tbl ops : forall rc, NoDup (keys rc) -> NoDup (keys (apply_ops m tbl rc ops)).
Proof.
  unfold apply_ops. induction ops as [|o r IH]; intros rc H; simpl; auto.
  apply IH. unfold apply_op. apply nodup_set, H.
Qed.

(* ---- Flush ---- *)
Lemma flush_go_spec m idx : forall todo rc tbl rc' tbl',
  NoDup (keys todo) ->
  flush_go m idx todo rc tbl = Some (rc', tbl') ->
  forall h,
    (~ In h (keys todo) -> lookup rc' h = lookup rc h /\ lookup tbl' h = lookup tbl h) /\
    (In h (keys todo) -> flush1 m idx (lookup rc h) (lookup tbl h) = Some (lookup rc' h, lookup tbl' h)).
Proof.
  induction todo as [|[h0 c0] r IH]; intros rc tbl rc' tbl' ND F h; simpl in *.
  - inv F. split; [auto|tauto].
  - inv ND. destruct (flush1 m idx (lookup rc h0) (lookup tbl h0)) as [[oc' oe']|] eqn:F1; [|discriminate].
    specialize (IH _ _ _ _ H2 F h). destruct IH as [IHa IHb]. split.
    + intros NI. destruct IHa as [E1 E2]; [tauto|].
      rewrite E1, E2. rewrite !lookup_set_other by (intros ->; tauto). auto.
    + intros [->|HI].
      * destruct IHa as [E1 E2]; [assumption|]. rewrite E1, E2, !lookup_set_same. assumption.
      * assert (h <> h0) by (intros ->; tauto).
        rewrite <- IHb by assumption. rewrite !lookup_set_other by assumption. reflexivity.
Qed.

Lemma flush_lookup m idx rc tbl rc' tbl' :
  NoDup (keys rc) -> flush m idx rc tbl = Some (rc', tbl') ->
  forall h, flush1 m idx (lookup rc h) (lookup tbl h) = Some (lookup rc' h, lookup tbl' h).
Proof.
  intros ND F h. destruct (flush_go_spec m idx rc rc tbl rc' tbl' ND F h) as [Ha Hb].
  destruct (in_dec N.eq_dec h (keys rc)) as [HI|HI]; [auto|].
  destruct (Ha HI) as [E1 E2]. rewrite E1, E2.
  apply lookup_none_notin in HI. rewrite HI. reflexivity.
Qed.

Lemma flush_go_total m idx : forall todo rc tbl,
  NoDup (keys todo) ->
  (forall h, In h (keys todo) -> flush1 m idx (lookup rc h) (lookup tbl h) <> None) ->
  exists rc' tbl', flush_go m idx todo rc tbl = Some (rc', tbl').
Proof.
  induction todo as [|[h0 c0] r IH]; intros rc tbl ND OK; simpl.
  - eauto.
  - inv ND. destruct (flush1 m idx (lookup rc h0) (lookup tbl h0)) as [[oc' oe']|] eqn:F1.
    + apply IH; auto. intros h HI. assert (h <> h0) by (intros ->; tauto).
      rewrite !lookup_set_other by assumption. apply OK. simpl. auto.
    + exfalso. apply (OK h0); simpl; auto.
Qed.

Lemma flush_total m idx rc tbl :
  NoDup (keys rc) ->
  (forall h, flush1 m idx (lookup rc h) (lookup tbl h) <> None) ->
  exists rc' tbl', flush m idx rc tbl = Some (rc', tbl').
Proof. intros ND OK. apply flush_go_total; auto. Qed.

(* a panic of Flush is a panic of some slot (so "no slot panics" is also necessary) *)
Lemma flush_go_none m idx : forall todo rc tbl,
  NoDup (keys todo) -> flush_go m idx todo rc tbl = None ->
  exists h, In h (keys todo) /\ flush1 m idx (lookup rc h) (lookup tbl h) = None.
Proof.
  induction todo as [|[h0 c0] r IH]; intros rc tbl ND F; simpl in *; [discriminate|].
  inv ND. destruct (flush1 m idx (lookup rc h0) (lookup tbl h0)) as [[oc' oe']|] eqn:F1.
  - destruct (IH _ _ H2 F) as [h [HI Hn]]. exists h. split; [auto|].
    assert (h <> h0) by (intros ->; tauto).
    rewrite !lookup_set_other in Hn by assumption. assumption.
  - exists h0. auto.
Qed.

Lemma flush_go_nodup m idx : forall todo rc tbl rc' tbl',
  NoDup (keys rc) -> NoDup (keys tbl) -> flush_go m idx todo rc tbl = Some (rc', tbl') ->
  NoDup (keys rc') /\ NoDup (keys tbl').
Proof.
  induction todo as [|[h0 c0] r IH]; intros rc tbl rc' tbl' N1 N2 F; simpl in *.
  - inv F. auto.
  - destruct (flush1 m idx (lookup rc h0) (lookup tbl h0)) as [[oc' oe']|]; [|discriminate].
    eapply IH; [| |exact F]; apply nodup_set; assumption.
Qed.

Lemma flush_nodup m idx rc tbl rc' tbl' :
  NoDup (keys rc) -> NoDup (keys tbl) -> flush m idx rc tbl = Some (rc', tbl') ->
  NoDup (keys rc') /\ NoDup (keys tbl').
Proof. apply flush_go_nodup. Qed.

(* Order independence: any two enumerations of the same map give tables and maps with the same content. *)
Lemma flush_order_irrelevant m idx todo1 todo2 rc tbl r1 t1 r2 t2 :
  NoDup (keys todo1) -> NoDup (keys todo2) -> (forall h, In h (keys todo1) <-> In h (keys todo2)) ->
  flush_go m idx todo1 rc tbl = Some (r1, t1) -> flush_go m idx todo2 rc tbl = Some (r2, t2) ->
  forall h, lookup r1 h = lookup r2 h /\ lookup t1 h = lookup t2 h.
Proof.
  intros N1 N2 EQ F1 F2 h.
  destruct (flush_go_spec m idx _ _ _ _ _ N1 F1 h) as [A1 B1].
  destruct (flush_go_spec m idx _ _ _ _ _ N2 F2 h) as [A2 B2].
  destruct (in_dec N.eq_dec h (keys todo1)) as [HI|HI].
  - specialize (B1 HI). apply EQ in HI. specialize (B2 HI). rewrite B1 in B2. inv B2. auto.
  - destruct (A1 HI) as [E1 E2]. rewrite EQ in HI. destruct (A2 HI) as [E3 E4]. split; congruence.
Qed.
