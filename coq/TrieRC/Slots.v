(* C11: what one block / one GC pass does to the slot of one hash, and the per-slot invariants of the three modes. *)
From NG Require Import Common.Tactics TrieRC.Model TrieRC.AList TrieRC.Pointwise.
Open Scope Z_scope.

Lemma occ_node h h' cs : occ h (Node h' cs) = (if N.eqb h h' then 1 else 0) + occs h cs.
Proof. reflexivity. Qed.

Lemma tree_ind' (P : tree -> Prop) :
  (forall h cs, Forall P cs -> P (Node h cs)) -> forall t, P t.
Proof.
  intros H. fix IH 1. intros [h cs]. apply H.
  induction cs as [|c r IHr]; constructor; [apply IH|apply IHr].
Qed.

Lemma occ_nonneg h t : 0 <= occ h t.
Proof.
  induction t as [h' cs IH] using tree_ind'. rewrite occ_node.
  assert (0 <= occs h cs). { induction IH; simpl; lia. }
  destruct (N.eqb h h'); lia.
Qed.
Lemma occs_nonneg h cs : 0 <= occs h cs.
Proof. induction cs; simpl; [lia|]. pose proof (occ_nonneg h a). lia. Qed.
Lemma occT_nonneg h T : 0 <= occT h T.
Proof. destruct T; simpl; [apply occ_nonneg|lia]. Qed.

Section Slots.
  Variable nb : hash -> bytes.      (* hash identifies content: the serialization of the node with hash h *)

  Definition dl (oc : option cnode) : Z := match oc with Some c => c_delta c | None => 0 end.
  (* the counter updateRefCount reads from the store *)
  Definition stored (m : mode) (oe : option entry) : Z :=
    match read_slot m oe with Some e => e_val e | None => 0 end.
  Definition sound (h : hash) (oe : option entry) : Prop :=
    match oe with Some e => e_bytes e = nb h | None => True end.
  (* a map slot is consistent with the table slot: known bytes are the node's, a cached counter is the stored one *)
  Definition ccons (m : mode) (h : hash) (oe : option entry) (oc : option cnode) : Prop :=
    match oc with
    | None => True
    | Some c => c_bytes c = nb h /\ (c_initial c = 0 \/ (rcm m = true /\ c_initial c = stored m oe))
    end.
  Definition rcslot (m : mode) (h : hash) (oe : option entry) (oc : option cnode) : Prop :=
    ccons m h oe oc /\ dl oc = 0.

  Definition op_ok (o : refop) : Prop :=
    match o with AddRef h bs | RemRef h bs => bs = nb h | Load _ => True end.
  Definition net1 (h : hash) (o : refop) : Z :=
    match o with
    | AddRef k _ => if N.eqb h k then 1 else 0
    | RemRef k _ => if N.eqb h k then -1 else 0
    | Load _ => 0
    end.
  Definition net (h : hash) (ops : list refop) : Z := fold_right (fun o a => net1 h o + a) 0 ops.

  Lemma read_slot_some m oe e : read_slot m oe = Some e -> oe = Some e.
  Proof. destruct oe as [e0|]; simpl; [|discriminate]. destruct (gcm m && negb (e_active e0)); congruence. Qed.

  Lemma slot_op_spec m h oe oc o :
    sound h oe -> ccons m h oe oc -> op_ok o ->
    ccons m h oe (slot_op m h oe oc o) /\ dl (slot_op m h oe oc o) = dl oc + net1 h o.
  Proof.
    intros S C OK. unfold slot_op. destruct (N.eqb h (op_hash o)) eqn:E.
    - apply N.eqb_eq in E. destruct o as [k bs|k bs|k]; simpl in *; subst k.
      + rewrite N.eqb_refl. destruct oc as [c|]; simpl in *; [split; [tauto|lia]|].
        split; [split; [assumption|left; reflexivity]|reflexivity].
      + rewrite N.eqb_refl. destruct oc as [c|]; simpl in *; [split; [tauto|lia]|].
        split; [split; [assumption|left; reflexivity]|reflexivity].
      + destruct (read_slot m oe) as [e|] eqn:R; [|split; [assumption|lia]].
        destruct oc as [c|]; [|split; [assumption|lia]].
        destruct (rcm m) eqn:RC; [|split; [assumption|lia]].
        simpl. split; [|lia]. split.
        * apply read_slot_some in R. subst oe. exact S.
        * right. split; [first [exact RC|reflexivity]|]. unfold stored. rewrite R. reflexivity.
    - split; [assumption|]. destruct o as [k bs|k bs|k]; simpl in *; rewrite ?E; lia.
  Qed.

  Lemma slot_ops_spec m h oe : forall ops oc,
    sound h oe -> ccons m h oe oc -> Forall op_ok ops ->
    ccons m h oe (slot_ops m h oe oc ops) /\ dl (slot_ops m h oe oc ops) = dl oc + net h ops.
  Proof.
    unfold slot_ops. induction ops as [|o r IH]; intros oc S C OK; simpl.
    - split; [assumption|lia].
    - inv OK. destruct (slot_op_spec m h oe oc o S C H1) as [C1 D1].
      destruct (IH _ S C1 H2) as [C2 D2]. split; [assumption|]. rewrite D2, D1. lia.
  Qed.

  (* updateRefCount on a consistent slot depends only on the stored counter and the pending delta *)
  Lemma urc1_spec m idx h c oe :
    sound h oe -> ccons m h oe (Some c) ->
    urc1 m idx c oe =
      let cnt := stored m oe + c_delta c in
      if cnt <? 0 then None
      else if cnt =? 0 then Some (if gcm m then Some (mkE (nb h) false idx) else None, 0)
      else Some (Some (mkE (nb h) true cnt), cnt).
  Proof.
    intros S [B I]. unfold urc1, stored.
    destruct (c_initial c =? 0) eqn:E0.
    - destruct (read_slot m oe) as [e|] eqn:R.
      + apply read_slot_some in R. subst oe. simpl in S. rewrite S. reflexivity.
      + rewrite B. reflexivity.
    - destruct I as [I|[_ I]]; [lia|]. unfold stored in I. rewrite B, I. reflexivity.
  Qed.

  (* the slot after the block in the reference-counting modes, as a function of the stored counter and the net change *)
  Definition slot_result (m : mode) (idx : Z) (h : hash) (oe : option entry) (d : Z)
    : option (option cnode * option entry) :=
    if d =? 0 then Some (None, oe)
    else
      let cnt := stored m oe + d in
      if cnt <? 0 then None
      else if cnt =? 0 then Some (None, if gcm m then Some (mkE (nb h) false idx) else None)
      else Some (Some (mkC (nb h) cnt 0), Some (mkE (nb h) true cnt)).

  Lemma flush1_rc m idx h oc oe :
    rcm m = true -> sound h oe -> ccons m h oe oc ->
    flush1 m idx oc oe = slot_result m idx h oe (dl oc).
  Proof.
    intros RC S C. unfold flush1, slot_result. destruct oc as [c|]; simpl; [|reflexivity].
    destruct (c_delta c =? 0) eqn:E; [reflexivity|]. rewrite RC.
    rewrite (urc1_spec m idx h c oe S C). cbv zeta. destruct C as [B _].
    destruct (stored m oe + c_delta c <? 0); [reflexivity|].
    destruct (stored m oe + c_delta c =? 0) eqn:E1; [reflexivity|].
    rewrite E1, B. reflexivity.
  Qed.

  Lemma flush1_all idx h oc oe :
    ccons MAll h oe oc ->
    flush1 MAll idx oc oe =
      if dl oc =? 0 then Some (None, oe)
      else Some (Some (mkC (nb h) 0 0), if 0 <? dl oc then Some (mkE (nb h) true 0) else oe).
  Proof.
    intros C. unfold flush1. destruct oc as [c|]; simpl; [|reflexivity].
    destruct (c_delta c =? 0); [reflexivity|]. simpl. destruct C as [B [I|[I _]]]; [|discriminate].
    rewrite B, I. reflexivity.
  Qed.

  (* ---- per-slot table invariants; [o j] = occurrences of the node in the trie after j blocks (o 0 is the empty trie) ---- *)
  Definition TI (m : mode) (h : hash) (g n : nat) (o : nat -> Z) (oe : option entry) : Prop :=
    match m with
    | MLatest => oe = if 0 <? o n then Some (mkE (nb h) true (o n)) else None
    | MGC =>
        match oe with
        | Some e =>
            e_bytes e = nb h /\
            if e_active e then 0 < e_val e /\ e_val e = o n
            else exists s : nat, e_val e = Z.of_nat s /\ (1 <= s <= n)%nat /\ (g < s)%nat /\
                                  0 < o (s - 1)%nat /\ forall j, (s <= j <= n)%nat -> o j = 0
        | None => forall j, (g <= j <= n)%nat -> o j = 0
        end
    | MAll =>
        match oe with
        | Some e => e = mkE (nb h) true 0 /\ exists j, (j <= n)%nat /\ 0 < o j
        | None => forall j, (j <= n)%nat -> o j = 0
        end
    end.

  Lemma TI_ext m h g n o o' oe : (forall j, (j <= n)%nat -> o j = o' j) -> TI m h g n o oe -> TI m h g n o' oe.
  Proof.
    intros E. destruct m; simpl.
    - destruct oe as [e|].
      + intros [H [j [Hj Ho]]]. split; [assumption|]. exists j. rewrite <- E; auto.
      + intros H j Hj. rewrite <- E; auto.
    - rewrite (E n) by lia. auto.
    - destruct oe as [e|].
      + intros [B H]. split; [assumption|]. destruct (e_active e).
        * rewrite <- E; auto.
        * destruct H as [s [H1 [H2 [H3 [H4 H5]]]]]. exists s. repeat split; try assumption; try lia.
          -- rewrite <- E; [assumption|lia].
          -- intros j Hj. rewrite <- E; [auto|lia].
      + intros H j Hj. rewrite <- E; [auto|lia].
  Qed.

  Lemma TI_sound m h g n o oe : TI m h g n o oe -> sound h oe.
  Proof.
    destruct m; simpl.
    - destruct oe as [e|]; simpl; [|auto]. intros [-> _]. reflexivity.
    - intros ->. destruct (0 <? o n); simpl; auto.
    - destruct oe as [e|]; simpl; [|auto]. tauto.
  Qed.

  Ltac rcs := split; simpl; auto; try (split; [reflexivity|right; split; reflexivity]).

  (* one committed block, reference-counting modes *)
  Lemma slot_step m h g n o oe d idx :
    rcm m = true -> (forall j, 0 <= o j) -> (g <= n)%nat ->
    TI m h g n o oe -> d = o (S n) - o n -> idx = Z.of_nat (S n) ->
    exists oc' oe', slot_result m idx h oe d = Some (oc', oe') /\ TI m h g (S n) o oe' /\ rcslot m h oe' oc'.
  Proof.
    intros RC NN GN T D I. unfold slot_result. pose proof (NN n) as N0. pose proof (NN (S n)) as N1.
    destruct m; [discriminate| |].
    - (* ModeLatest *)
      simpl in T. assert (ST : stored MLatest oe = o n).
      { subst oe. unfold stored. destruct (0 <? o n) eqn:E; simpl; lia. }
      rewrite ST. destruct (d =? 0) eqn:E0.
      + exists None, oe. split; [reflexivity|]. split; [|rcs].
        simpl. replace (o (S n)) with (o n) by lia. assumption.
      + replace (o n + d) with (o (S n)) by lia. destruct (o (S n) <? 0) eqn:E1; [lia|].
        destruct (o (S n) =? 0) eqn:E2.
        * exists None, None. split; [reflexivity|]. split; [|rcs].
          simpl. destruct (0 <? o (S n)) eqn:E3; [lia|reflexivity].
        * eexists _, _. split; [reflexivity|]. split; [|rcs].
          -- simpl. destruct (0 <? o (S n)) eqn:E3; [reflexivity|lia].
    - (* ModeGC *)
      simpl in T. destruct oe as [e|].
      + destruct T as [B T]. destruct (e_active e) eqn:A.
        * destruct T as [P V]. assert (ST : stored MGC (Some e) = o n).
          { unfold stored. simpl. rewrite A. simpl. assumption. }
          rewrite ST. destruct (d =? 0) eqn:E0.
          -- exists None, (Some e). split; [reflexivity|]. split; [|rcs].
             simpl. rewrite A. split; [assumption|]. split; [assumption|lia].
          -- replace (o n + d) with (o (S n)) by lia. destruct (o (S n) <? 0) eqn:E1; [lia|].
             destruct (o (S n) =? 0) eqn:E2.
             ++ eexists _, _. split; [reflexivity|]. split; [|rcs].
                simpl. split; [reflexivity|]. exists (S n). repeat split; try lia.
                ** replace (S n - 1)%nat with n by lia. lia.
                ** intros j Hj. replace j with (S n) by lia. lia.
             ++ eexists _, _. split; [reflexivity|]. split; [|rcs].
                ** simpl. split; [reflexivity|]. split; lia.
        * destruct T as [s [H1 [H2 [H3 [H4 H5]]]]]. assert (Z0 : o n = 0) by (apply H5; lia).
          assert (ST : stored MGC (Some e) = 0). { unfold stored. simpl. rewrite A. reflexivity. }
          rewrite ST. destruct (d =? 0) eqn:E0.
          -- exists None, (Some e). split; [reflexivity|]. split; [|rcs].
             simpl. rewrite A. split; [assumption|]. exists s. repeat split; try assumption; try lia.
             intros j Hj. destruct (Nat.eq_dec j (S n)) as [->|]; [lia|apply H5; lia].
          -- replace (0 + d) with (o (S n)) by lia. destruct (o (S n) <? 0) eqn:E1; [lia|].
             destruct (o (S n) =? 0) eqn:E2; [lia|].
             eexists _, _. split; [reflexivity|]. split; [|rcs].
             ** simpl. split; [reflexivity|]. split; lia.
      + assert (Z0 : o n = 0) by (apply T; lia).
        assert (ST : stored MGC None = 0) by reflexivity. rewrite ST. destruct (d =? 0) eqn:E0.
        * exists None, None. split; [reflexivity|]. split; [|rcs].
          simpl. intros j Hj. destruct (Nat.eq_dec j (S n)) as [->|]; [lia|apply T; lia].
        * replace (0 + d) with (o (S n)) by lia. destruct (o (S n) <? 0) eqn:E1; [lia|].
          destruct (o (S n) =? 0) eqn:E2; [lia|].
          eexists _, _. split; [reflexivity|]. split; [|rcs].
          -- simpl. split; [reflexivity|]. split; lia.
  Qed.

  (* one committed block, ModeAll *)
  Lemma slot_step_all h g n o oe d :
    (forall j, 0 <= o j) -> TI MAll h g n o oe -> d = o (S n) - o n ->
    let oe' := if d =? 0 then oe else if 0 <? d then Some (mkE (nb h) true 0) else oe in
    TI MAll h g (S n) o oe'.
  Proof.
    intros NN T D. pose proof (NN n) as N0. pose proof (NN (S n)) as N1. simpl in *.
    assert (K : forall oe0, oe0 = oe -> TI MAll h g (S n) o oe0 \/ 0 < d) .
    { intros oe0 ->. destruct oe as [e|]; simpl.
      - left. destruct T as [E [j [Hj Ho]]]. split; [assumption|]. exists j. split; [lia|assumption].
      - assert (o n = 0) by (apply T; lia). destruct (Z_lt_dec 0 d); [right; assumption|left].
        intros j Hj. destruct (Nat.eq_dec j (S n)) as [->|]; [lia|apply T; lia]. }
    destruct (d =? 0) eqn:E0.
    - destruct (K oe eq_refl) as [H|H]; [assumption|lia].
    - destruct (0 <? d) eqn:E1.
      + simpl. split; [reflexivity|]. exists (S n). split; lia.
      + destruct (K oe eq_refl) as [H|H]; [assumption|lia].
  Qed.

  (* one GC pass *)
  Definition gc_slot (G : Z) (oe : option entry) : option entry :=
    match oe with Some e => if gc_keep G e then Some e else None | None => None end.

  Lemma slot_gc m h g n o oe (G : nat) :
    (G <= n)%nat -> TI m h g n o oe ->
    TI m h (Nat.max g G) n o (gc_slot (Z.of_nat G) oe) /\ stored m (gc_slot (Z.of_nat G) oe) = stored m oe.
  Proof.
    intros GN T. destruct m; simpl in *.
    - destruct oe as [e|]; simpl; [|auto]. destruct T as [-> T]. simpl. auto.
    - subst oe. destruct (0 <? o n); simpl; auto.
    - destruct oe as [e|]; simpl.
      + destruct T as [B T]. unfold gc_keep. destruct (e_active e) eqn:A; simpl.
        * rewrite A. auto.
        * destruct T as [s [H1 [H2 [H3 [H4 H5]]]]]. destruct (Z.of_nat G <? e_val e) eqn:E.
          -- simpl. rewrite A. split; [|reflexivity]. split; [assumption|].
             exists s. repeat split; try assumption; lia.
          -- split; [|unfold stored; simpl; rewrite A; reflexivity].
             intros j Hj. apply H5. lia.
      + split; [|reflexivity]. intros j Hj. apply T. lia.
  Qed.
End Slots.
