(* Association-list facts used by the C11 proofs: everything is stated through [lookup]. *)
From NG Require Import Common.Tactics TrieRC.Model.
Open Scope Z_scope.

Section AL.
  Context {A : Type}.
  Implicit Types m : list (N * A).

  Definition keys m : list N := map fst m.

  Lemma lookup_upd m k v k' : lookup (upd m k v) k' = if N.eqb k' k then Some v else lookup m k'.
  Proof.
    induction m as [|[k0 v0] t IH]; simpl.
    - destruct (N.eqb k' k); reflexivity.
    - destruct (N.eqb k k0) eqn:E; simpl.
      + apply N.eqb_eq in E; subst k0. destruct (N.eqb k' k); reflexivity.
      + rewrite IH. destruct (N.eqb k' k0) eqn:E1; destruct (N.eqb k' k) eqn:E2; try reflexivity.
        apply N.eqb_eq in E1, E2. subst. rewrite N.eqb_refl in E. discriminate.
  Qed.

  Lemma lookup_del m k k' : lookup (del m k) k' = if N.eqb k' k then None else lookup m k'.
  Proof.
    induction m as [|[k0 v0] t IH]; simpl.
    - destruct (N.eqb k' k); reflexivity.
    - destruct (N.eqb k k0) eqn:E; simpl.
      + apply N.eqb_eq in E; subst k0. rewrite IH. destruct (N.eqb k' k); reflexivity.
      + rewrite IH. destruct (N.eqb k' k0) eqn:E1; destruct (N.eqb k' k) eqn:E2; try reflexivity.
        apply N.eqb_eq in E1, E2. subst. rewrite N.eqb_refl in E. discriminate.
  Qed.

  Lemma lookup_set m k o k' : lookup (set m k o) k' = if N.eqb k' k then o else lookup m k'.
  Proof. destruct o; simpl; [apply lookup_upd|apply lookup_del]. Qed.

  Lemma lookup_set_same m k o : lookup (set m k o) k = o.
  Proof. rewrite lookup_set, N.eqb_refl. reflexivity. Qed.

  Lemma lookup_set_other m k o k' : k' <> k -> lookup (set m k o) k' = lookup m k'.
  Proof. intros H. rewrite lookup_set. apply N.eqb_neq in H. rewrite H. reflexivity. Qed.

  Lemma lookup_none_notin m k : lookup m k = None <-> ~ In k (keys m).
  Proof.
    induction m as [|[k0 v0] t IH]; simpl.
    - tauto.
    - destruct (N.eqb k k0) eqn:E.
      + apply N.eqb_eq in E. subst. split; [discriminate|intros H; exfalso; apply H; auto].
      + apply N.eqb_neq in E. rewrite IH. split; [intros H [H1|H1]; [congruence|tauto]|tauto].
  Qed.

  Lemma in_keys_upd m k v x : In x (keys (upd m k v)) <-> x = k \/ In x (keys m).
  Proof.
    induction m as [|[k0 v0] t IH]; simpl.
    - intuition congruence.
    - destruct (N.eqb k k0) eqn:E; simpl.
      + apply N.eqb_eq in E. subst k0. intuition congruence.
      + rewrite IH. intuition congruence.
  Qed.

  Lemma in_keys_del m k x : In x (keys (del m k)) <-> x <> k /\ In x (keys m).
  Proof.
    induction m as [|[k0 v0] t IH]; simpl.
    - tauto.
    - destruct (N.eqb k k0) eqn:E; simpl.
      + apply N.eqb_eq in E. subst k0. rewrite IH. split; [tauto|intros [H [H1|H1]]; [congruence|tauto]].
      + apply N.eqb_neq in E. rewrite IH. split; [intros [H|H]; [subst; split; [congruence|auto]|tauto]|tauto].
  Qed.

  Lemma nodup_upd m k v : NoDup (keys m) -> NoDup (keys (upd m k v)).
  Proof.
    induction m as [|[k0 v0] t IH]; simpl; intros H.
    - constructor; [simpl; tauto|constructor].
    - inv H. destruct (N.eqb k k0) eqn:E; simpl.
      + apply N.eqb_eq in E. subst k0. constructor; auto.
      + apply N.eqb_neq in E. constructor; auto. rewrite in_keys_upd. intros [H|H]; [congruence|tauto].
  Qed.

  Lemma nodup_del m k : NoDup (keys m) -> NoDup (keys (del m k)).
  Proof.
    induction m as [|[k0 v0] t IH]; simpl; intros H.
    - constructor.
    - inv H. destruct (N.eqb k k0) eqn:E; simpl; auto.
      constructor; auto. rewrite in_keys_del. tauto.
  Qed.

  Lemma nodup_set m k o : NoDup (keys m) -> NoDup (keys (set m k o)).
  Proof. destruct o; simpl; [apply nodup_upd|apply nodup_del]. Qed.
End AL.

(* garbage collection through lookup *)
Lemma in_keys_gc G tbl x : In x (keys (gc G tbl)) -> In x (keys tbl).
Proof.
  induction tbl as [|[h e] t IH]; simpl; auto.
  destruct (gc_keep G e); simpl; tauto.
Qed.

Lemma nodup_gc G tbl : NoDup (keys tbl) -> NoDup (keys (gc G tbl)).
Proof.
  induction tbl as [|[h e] t IH]; simpl; intros H; [constructor|].
  inv H. destruct (gc_keep G e); simpl; auto.
  constructor; auto. intros H. apply in_keys_gc in H. tauto.
Qed.

Lemma lookup_gc G tbl h : NoDup (keys tbl) ->
  lookup (gc G tbl) h = match lookup tbl h with
                        | Some e => if gc_keep G e then Some e else None
                        | None => None
                        end.
Proof.
  induction tbl as [|[h0 e0] t IH]; simpl; intros H; [reflexivity|].
  inv H. destruct (N.eqb h h0) eqn:E.
  - apply N.eqb_eq in E. subst h0. destruct (gc_keep G e0); simpl.
    + rewrite N.eqb_refl. reflexivity.
    + apply lookup_none_notin. intros H. apply in_keys_gc in H. tauto.
  - destruct (gc_keep G e0); simpl; [rewrite E|]; auto.
Qed.
