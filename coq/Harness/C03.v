(* Correspondence cases for C03.
   CBatch: one block's change set (storage keys WITH the 0x70 prefix, value or deletion, in a shuffled order) and the
           batch the real mpt.MapToMPTBatch built from the Go map holding it (nibble paths, in processing order).
           Mechanism: StateRoot.Model.to_batch.  Specification: the batch is strictly sorted by path and holds exactly
           the changes, prefix stripped, as nibbles.
   CHistory: the storage dump at genesis and, per block, the block's change set (keys without the prefix) and the live
           dump of all contract storage after the block.  Model = specification: dump_h = map_apply changes_h dump_(h-1)
           (the recurrence [storage_after] of the theorems), every dump strictly sorted.
   CSeek: the content of a trie (full keys), one range, and what the real mpt.TrieStore.Seek returned (keys with the
           seek prefix cut).  Model = specification: [sm_range] (the range query C09 proves for every store of the
           node: forwards suffix >= start, backwards suffix <= start or extending it). *)
From NG Require Import Common.Tactics Common.HarnessLib StateRoot.Model.
Open Scope N_scope.

Inductive case :=
| CBatch (changes impl : list change)
| CHistory (genesis : smap) (blocks : list (list change * smap))
| CSeek (content : smap) (prefix start : bytes) (bw : bool) (impl : smap).

Definition bytes_eqb : bytes -> bytes -> bool := list_eqb N.eqb.
Definition change_eqb (a b : change) : bool :=
  bytes_eqb (fst a) (fst b) && option_eqb bytes_eqb (snd a) (snd b).
Definition kv_eqb (a b : bytes * val) : bool := bytes_eqb (fst a) (fst b) && bytes_eqb (snd a) (snd b).

Fixpoint strictly_sorted {A} (l : list (bytes * A)) : bool :=
  match l with
  | x :: ((y :: _) as t) => match bcmp (fst x) (fst y) with Lt => strictly_sorted t | _ => false end
  | _ => true
  end.

Definition nibbles_ok (k : bytes) : bool := forallb (fun n => n <? 16) k.

Definition batch_spec (changes impl : list change) : bool :=
  strictly_sorted impl && (length impl =? length changes)%nat &&
  forallb (fun c => nibbles_ok (fst c)) impl &&
  forallb (fun c => existsb (change_eqb (to_nibbles (strip (fst c)), snd c)) impl) changes.

Fixpoint history_ok (prev : smap) (blocks : list (list change * smap)) : bool :=
  match blocks with
  | [] => true
  | (ch, dump) :: r =>
      strictly_sorted dump && list_eqb kv_eqb (map_apply ch prev) dump && history_ok dump r
  end.

Definition check_case (c : case) : N :=
  match c with
  | CBatch changes impl =>
      let m := list_eqb change_eqb (to_batch changes) impl in
      code_of m (batch_spec changes impl)
  | CHistory genesis blocks =>
      if strictly_sorted genesis then
        let ok := history_ok genesis blocks in code_of ok ok
      else 3
  | CSeek content prefix start bw impl =>
      if strictly_sorted content then
        let want := map (fun p : bytes * val => (skipn (length prefix) (fst p), snd p)) (sm_range prefix start bw content) in
        let ok := list_eqb kv_eqb want impl in code_of ok ok
      else 3
  end.
