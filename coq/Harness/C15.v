(* Correspondence cases for C15: what CheckHashedWitness / WitnessCondition.Match returned, compared with the model
   (Auth/Witness.v) and with the declarative specification, over a fixed universe of call contexts. *)
From NG Require Import Common.Tactics Common.HarnessLib.
From NG Require Export Auth.Witness.
Open Scope N_scope.

(* contracts 1,2,3,10 (groups {1}, {1,2}, {}, {2}), a native-like contract 7 without groups; 9 = the entry script,
   8 = a dynamic script (neither is a contract); group keys 1,2.  Calling and current contract thus differ in group
   membership in every way: caller only / current only / both / neither, and groups 1 / 2 split between them (1 vs 10). *)
Definition universe : list (N * list N) := [(1, [1]); (2, [1; 2]); (3, []); (10, [2]); (7, [])].

(* every call context of the universe, in the order the Go harness enumerates them:
   the entry script itself; then, called by entry (by_entry) and deeper (not by_entry):
   current in {1,2,3,10} x calling in {0,1,2,3,10,9} x ReadStates in {yes,no} *)
Definition ctxs_at (be : bool) : list wctx :=
  flat_map (fun cur => flat_map (fun cal => map (fun rs => mk_wctx cal cur be rs universe) [true; false]) [0; 1; 2; 3; 10; 9]) [1; 2; 3; 10].
Definition all_ctx : list wctx :=
  map (fun rs => mk_wctx 0 9 true rs universe) [true; false] ++ ctxs_at true ++ ctxs_at false.

Definition rcode (r : res) : N := match r with Ok false => 0 | Ok true => 1 | Err => 2 end.

Inductive case :=
(* WitnessCondition.Match of the real condition object against a stub MatchContext, for every context of [all_ctx] *)
| CCond (c : cond) (impl : list N)
(* runtime.CheckHashedWitness on a VM whose invocation stack was built to give each context of [all_ctx] *)
| CScope (signers : list signer) (h : N) (impl : list N)
(* System.Runtime.CheckWitness executed inside deployed contracts on a live chain, in the given context *)
| CLive (signers : list signer) (h : N) (cal cur : N) (be rs : bool) (impl : N)
(* the same with an explicit contract table: the state of ContractManagement AT THE MOMENT OF THE CHECK (a contract
   that updated itself earlier in the invocation has its new groups, one that destroyed itself is absent) *)
| CLiveT (table : list (N * list N)) (signers : list signer) (h : N) (cal cur : N) (be rs : bool) (impl : N).

(* The specification is only evaluated when the observation differs from the mechanism model: where they agree the
   specification is met by theorem (WitnessProofs: check_hashed_witness_specb / cmatch_holdsb give the Ok answers,
   witness_error_only / cmatch_err the faults), so agreement is code 0. *)
Definition code3 (model : bool) (spec : unit -> bool) : N := if model then 0 else if spec tt then 1 else 2.

(* the specification on one observation: granted exactly where the declarative predicate holds; an error (the system
   call faults) is only acceptable where the code cannot read states, or for an empty signer list *)
Definition obs_ok (specv : bool) (may_err : bool) (impl : N) : bool :=
  match impl with
  | 0 => negb specv
  | 1 => specv
  | 2 => may_err
  | _ => false
  end.

Fixpoint all2 {A B} (f : A -> B -> bool) (l1 : list A) (l2 : list B) : bool :=
  match l1, l2 with
  | [], [] => true
  | a :: t1, b :: t2 => f a b && all2 f t1 t2
  | _, _ => false
  end.

Definition check_case (cs : case) : N :=
  match cs with
  | CCond c impl =>
      if negb (length impl =? length all_ctx)%nat then 3 else
      let model := list_eqb N.eqb impl (map (fun x => rcode (cmatch x c)) all_ctx) in
      let spec := fun _ : unit => all2 (fun x i => obs_ok (holdsb x c) (negb (read_states x)) i) all_ctx impl in
      code3 model spec
  | CScope signers h impl =>
      if negb (length impl =? length all_ctx)%nat then 3 else
      let model := list_eqb N.eqb impl (map (fun x => rcode (check_hashed_witness x signers h)) all_ctx) in
      let spec := fun _ : unit => all2 (fun x i => obs_ok (witness_specb x signers h)
                                          (negb (read_states x) || match signers with [] => true | _ => false end) i) all_ctx impl in
      code3 model spec
  | CLiveT table signers h cal cur be rs impl =>
      let x := mk_wctx cal cur be rs table in
      let model := impl =? rcode (check_hashed_witness x signers h) in
      code3 model (fun _ => obs_ok (witness_specb x signers h) (negb rs || match signers with [] => true | _ => false end) impl)
  | CLive signers h cal cur be rs impl =>
      let x := mk_wctx cal cur be rs universe in
      let model := impl =? rcode (check_hashed_witness x signers h) in
      code3 model (fun _ => obs_ok (witness_specb x signers h) (negb rs || match signers with [] => true | _ => false end) impl)
  end.
