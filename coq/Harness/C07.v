(* Correspondence cases for C07: fee calculator vs VM cost per signer shape, the fee boundary, the
   admission decision on transactions valid / invalid in chosen respects, and block packing. *)
From NG Require Import Common.Tactics Common.HarnessLib.
From NG Require Export Admission.Fee Admission.Admit Admission.Conflicts Admission.Refresh Admission.RefreshBal Admission.Attrs Mempool.Model Mempool.Spec.
From NG Require VM.Model Admission.VMScripts.
From Coq Require String Ascii.
Open Scope N_scope.

(* a witness as the harness made it: signer shape, verification script hashes to the signer, signatures good *)
Definition hwit := (shape * bool * bool)%type.

Inductive case :=
| CShape (base : N) (s : shape) (inv ver : list N) (verif_len : N)
         (calc_fee_impl calc_size_impl vm_gas wit_size : N)
    (* fee.Calculate's two results, Blockchain.VerifyWitness gas, encoded witness size, opcodes of both scripts *)
| CScript (base m : N) (keys sigs : list (list N)) (ver inv : list N) (vm_gas : N)
    (* the real witness of a signer: public keys parsed from its verification script (m = 0: signature account),
       signatures from its invocation script, both scripts as bytes, Blockchain.VerifyWitness gas (Datoshi) *)
| CBuilder (m : N) (keys_hex ver_hex : list String.string)
    (* smartcontract.CreateMultiSigRedeemScript m keys = ver, for key counts beyond what can be verified on chain;
       keys_hex = the 33-byte keys one after another in the order the builder wrote them, both in hexadecimal,
       cut into pieces of an even number of characters *)
| CBoundary (base maxgas : N) (shapes : list shape) (delta : Z) (accepted : bool)
    (* network fee = size*feePerByte + attribute fees + sum of fee.Calculate + delta; VerifyTx accepted? *)
| CAdmit (base : N) (c : chainfacts) (t : txfacts) (ws : list hwit) (pre : list tx) (x : tx)
         (bal : list (payer * N)) (impl : option N)
    (* facts known by construction; [pre] = transactions already in the (private) pool; impl: None = pooled, Some class *)
| CHist (base : N) (c : chainfacts) (mtb : N) (events : list (N * list N * list N)) (h : N) (signers : list N)
        (t : txfacts) (ws : list hwit) (x : tx) (bal : list (payer * N)) (impl : option N)
    (* on-chain transactions (block index, signers, hashes named in Conflicts) in chain order; then the transaction
       with hash h and these signers is submitted at height c_height; its conflict-on-chain fact comes from the
       record table model, everything else about it is in order *)
| CRefresh (vub : N) (heights : list N) (wits : list (N * list bool)) (ops : list (bool * bool))
    (* one transaction over a run of chain states 0, 1, ...: heights.[k]; per witness its kind (0 standard,
       1 own non-standard script, 2 deployed contract) and whether it verifies in state k (known by construction);
       ops in order: (true, _) = a block was accepted (next state), (false, _) = the transaction was submitted;
       second component: is it in the pool afterwards *)
| CPack (maxtx : nat) (maxsize maxsysfee hdr real_hdr : N) (pool : list tx) (bal : list (payer * N)) (k : nat)
| CRefreshBal (before : list tx) (blk : list N) (bal' : list (payer * N)) (fpb : N) (after : list N)
    (* the pool before a block (as in CPack), the ids the block took, every payer's GAS balance AFTER the block,
       the fee per byte in force, and the ids GetVerifiedTransactions lists after the block was added *)
| CFeeValue (base : N) (s : shape) (calc_fee_impl : N)
| CAttrs (height : N) (committee notary oracle reserved : bool) (onchain : list N) (nsigners : nat)
         (attrs : list attr) (accepted : bool).
    (* a transaction in order in every other respect, with this attribute list (Conflicts hashes as small numbers,
       [onchain] = those of them that name a transaction on chain), sent as BYTES: decoded and pooled? *)
    (* fee.Calculate(base, standard verification script of this shape) as a value, at a governed factor *)
    (* GetVerifiedTransactions (ids = positions, signers = account numbers, Conflicts = position of the named
       pooled transaction or a foreign id) with the senders' GAS balances on chain; ApplyPolicyToTxSet kept the
       first k; hdr = expected size without transactions, real_hdr = encoded block size minus the transactions *)

Definition nlist_eqb := list_eqb N.eqb.

(* observable error classes *)
Definition class_of (e : aerr) : N :=
  match e with
  | APolicySysFee | APolicy => 0
  | AInvalidScript => 1 | AExpired => 2 | ANotYetValid => 3 | ATooBig => 4 | ASmallNetFee => 5
  | AAlreadyExists => 6 | AHasConflicts => 7 | AWitness => 8 | AInvalidAttr => 9
  | APool EDup => 10 | APool EInsufficient => 11 | APool EConflict => 12
  | APool EConflictsAttr => 13 | APool EOracle => 14 | APool EOOM => 15
  end.

Definition bal_of (l : list (payer * N)) (p : payer) : N :=
  match mget payer_eqb p l with Some b => b | None => 0 end.

Definition wit_facts (base : N) (ws : list hwit) : list (N * bool) :=
  map (fun w : hwit => let '(s, hash_ok, sig_ok) := w in
                  ((if hash_ok then witness_cost base s else 0), hash_ok && sig_ok)) ws.

Definition with_witnesses (t : txfacts) (w : list (N * bool)) : txfacts :=
  mkFacts (f_script_ok t) (f_vub t) (f_size t) (f_sysfee t) (f_netfee t) (f_attr_fee t) (f_policy_ok t)
          (f_on_chain t) (f_conflict_on_chain t) w (f_attrs_ok t).

Definition admissibleb (c : chainfacts) (t : txfacts) : bool :=
  (f_sysfee t <=? c_max_block_sysfee c) && f_script_ok t
  && (c_height c <? f_vub t) && (f_vub t <=? c_height c + c_max_vub_inc c)
  && f_policy_ok t && (f_size t <=? max_transaction_size)
  && negb (f_on_chain t) && negb (f_conflict_on_chain t) && f_attrs_ok t
  && (f_size t * c_fee_per_byte c + f_attr_fee t <=? f_netfee t)
  && verify_loop (c_max_verif_gas c) (f_netfee t - (f_size t * c_fee_per_byte c + f_attr_fee t)) (f_witnesses t).

(* the premise of C07_pack_inherits_pool_invariant, evaluated on the real pool: C08's invariant as far as a
   packed prefix needs it (no duplicates, no two in conflict, every payer can pay for all its pooled transactions) *)
Fixpoint nodupN (l : list N) : bool :=
  match l with [] => true | x :: r => negb (existsb (N.eqb x) r) && nodupN r end.
Definition pool_premise (l : list tx) (bal : payer -> N) : bool :=
  nodupN (map tid l)
  && forallb (fun a => forallb (fun b => negb (existsb (N.eqb (tid a)) (confl b))) l) l
  && forallb (fun e => sum_fees (payer_of e) l <=? bal (payer_of e)) l.

Definition with_conflict (t : txfacts) (b : bool) : txfacts :=
  mkFacts (f_script_ok t) (f_vub t) (f_size t) (f_sysfee t) (f_netfee t) (f_attr_fee t) (f_policy_ok t)
          (f_on_chain t) b (f_witnesses t) (f_attrs_ok t).

Definition check_accept (base : N) (ch : chainfacts) (t : txfacts) (ws : list hwit) (pre : list tx) (x : tx)
           (bal : list (payer * N)) (impl : option N) : N :=
      let t' := with_witnesses t (wit_facts base ws) in
      let s0 := fold_left (fun s y => snd (add fixed_cfg (bal_of bal) s y)) pre (new_pool 50) in
      let r := fst (accept_tx ch t' (bal_of bal) s0 x) in
      let model := match r with inr _ => None | inl e => Some (class_of e) end in
      let accepted := match impl with None => true | Some _ => false end in
      let spec := admissibleb ch t' && match fst (add fixed_cfg (bal_of bal) s0 x) with ROk => true | _ => false end in
      code_of (option_eqb N.eqb model impl) (Bool.eqb spec accepted).

Definition kind_of (k : N) : wkind := if k =? 0 then WStandard else if k =? 1 then WScript else WContract.
Definition mk_ptx (vub : N) (wits : list (N * list bool)) : ptx nat :=
  mkPtx nat vub (map (fun w : N * list bool => mkWit nat (kind_of (fst w)) (fun k => nth k (snd w) false)) wits) (fun _ => true).

Fixpoint refresh_run (hs : list N) (t : ptx nat) (c : nat * list (ptx nat)) (ops : list (bool * bool)) : bool * bool :=
  (* (model agrees, specification holds) *)
  match ops with
  | [] => (true, true)
  | (is_block, pooled) :: r =>
      let h := fun k => nth k hs 0 in
      let was := match snd c with [] => false | _ => true end in
      let c' := if is_block then pstep nat h true c (PBlock nat (S (fst c)))
                else if was then c else pstep nat h true c (PSubmit nat t) in
      let now := match snd c' with [] => false | _ => true end in
      let valid := wits_ok nat (fst c') t in
      let spec := (negb pooled || valid)                                        (* a pooled transaction's witnesses verify *)
                  && (is_block || was || Bool.eqb pooled (admissible_in nat h (fst c') t)) in   (* submitted: in iff valid *)
      let '(m, s) := refresh_run hs t c' r in
      (Bool.eqb now pooled && m, spec && s)
  end.

Definition hexval (c : Ascii.ascii) : Z :=
  let n := Z.of_N (Ascii.N_of_ascii c) in
  if ((48 <=? n) && (n <=? 57))%Z then (n - 48)%Z else if ((97 <=? n) && (n <=? 102))%Z then (n - 87)%Z else 0%Z.
Fixpoint hex_bytes (s : String.string) : list Z :=
  match s with
  | String.String a s' =>
      match s' with String.String b r => (16 * hexval a + hexval b)%Z :: hex_bytes r | String.EmptyString => [] end
  | String.EmptyString => []
  end.
Fixpoint chunks (fuel k : nat) (l : list Z) : list (list Z) :=
  match fuel with
  | O => []
  | S f => match l with [] => [] | _ => firstn k l :: chunks f k (skipn k l) end
  end.

(* bytes of the builders' model, and the NeoVM model run on bytes (unlimited gas, every signature accepted) *)
Definition zbytes (l : list N) : list Z := map Z.of_N l.
Definition model_scripts (m : N) (keys sigs : list (list N)) : list Z * list Z :=
  let zk := map zbytes keys in let zs := map zbytes sigs in
  if m =? 0 then (VMScripts.sig_verification (hd [] zk), VMScripts.sig_invocation (hd [] zs))
  else (VMScripts.multisig_verification (Z.of_N m) zk, VMScripts.multisig_invocation zs).
Definition zlist_eqb := list_eqb Z.eqb.
Definition vm_run_ok (base : N) (ver inv : list Z) (fuel : nat) (vm_gas : N) : bool :=
  match VMScripts.run_with (fun _ _ => true) (Z.of_N ecdsa_verify_price) fuel
          (VMScripts.witness_state inv ver (Z.of_N base) (-1)%Z) with
  | Model.Halted s =>
      match Model.final_stack s with
      | [Items.IBool true] => pico_to_datoshi (Z.to_N (Model.s_gas s)) =? vm_gas
      | _ => false
      end
  | _ => false
  end.

Definition check_case (c : case) : N :=
  match c with
  | CShape base s inv ver verif_len calc_fee_impl calc_size_impl vm_gas wit_size =>
      let m := nlist_eqb (inv_ops s) inv && nlist_eqb (ver_ops s) ver
               && (calc_fee base s =? calc_fee_impl) && (calc_size s verif_len =? calc_size_impl)
               && (pico_to_datoshi (witness_cost base s) =? vm_gas) in
      (* specification: the calculator's fee is what verifying the witness costs, its size is the witness's size *)
      code_of m ((calc_fee_impl =? vm_gas) && (calc_size_impl =? wit_size))
  | CScript base m keys sigs ver inv vm_gas =>
      let '(mv, mi) := model_scripts m keys sigs in
      let fuel := (length keys + length sigs + 8)%nat in
      let same := zlist_eqb mv (zbytes ver) && zlist_eqb mi (zbytes inv) in
      (* specification: the NeoVM model run on the REAL bytes halts with true at the real VM's gas, which is fee.Calculate *)
      let s := vm_run_ok base (zbytes ver) (zbytes inv) fuel vm_gas
               && (calc_fee base (m, N.of_nat (length keys)) =? vm_gas) in
      code_of (same && s) s
  | CBuilder m keys_hex ver_hex =>
      let kb := List.concat (map hex_bytes keys_hex) in
      let keys := chunks (List.length kb) 33 kb in
      let ok := zlist_eqb (VMScripts.multisig_verification (Z.of_N m) keys) (List.concat (map hex_bytes ver_hex)) in
      code_of ok ok
  | CBoundary base maxgas shapes delta accepted =>
      let need := fold_right (fun s a => calc_fee base s + a) 0 shapes in
      let ws := map (fun s => (witness_cost base s, true)) shapes in
      let model := (0 <=? delta)%Z && verify_loop maxgas (Z.to_N (Z.of_N need + delta)) ws in
      let within := forallb (fun s => calc_fee base s <=? maxgas) shapes in
      (* specification: when every witness fits the verification gas limit, accepted exactly from the calculated fee on *)
      code_of (Bool.eqb model accepted) (if within then Bool.eqb accepted (0 <=? delta)%Z else negb accepted)
  | CAdmit base ch t ws pre x bal impl => check_accept base ch t ws pre x bal impl
  | CHist base ch mtb events h signers t ws x bal impl =>
      let es := map (fun e : N * list N * list N => let '(i, sg, hs) := e in mkEvent i sg hs) events in
      let m := has_conflict (build es) h signers (c_height ch) mtb in
      if Bool.eqb m (conflict_spec es h signers (c_height ch) mtb) then
        check_accept base ch (with_conflict t m) ws [] x bal impl
      else 3
  | CRefresh vub heights wits ops =>
      let '(m, sp) := refresh_run heights (mk_ptx vub wits) (O, []) ops in
      code_of m sp
  | CPack maxtx maxsize maxsysfee hdr real_hdr l bal k =>
      let b := apply_policy maxtx maxsize maxsysfee (fun _ => hdr) l in
      let sel := firstn k l in
      let spec := ((maxtx =? 0)%nat || (k <=? maxtx)%nat)
                  && ((k =? 0)%nat || (real_hdr + total_size sel <=? maxsize))
                  && (total_sysfee sel <=? maxsysfee) && (k <=? length l)%nat
                  && pool_premise l (bal_of bal) && pool_premise sel (bal_of bal) in
      code_of ((length b =? k)%nat) spec
  | CRefreshBal before blk bal' fpb after =>
      let isok := fun t : tx => negb (existsb (N.eqb (tid t)) blk) in
      let s' := remove_stale (bal_of bal') fpb isok (pool_of_list before (length before) 0) in
      let by_id := fun h => find (fun t : tx => tid t =? h) before in
      let after_txs := flat_map (fun h => match by_id h with Some t => [t] | None => [] end) after in
      (* specification: what is pooled after the block was pooled before and not taken by the block, is in the
         same order, and every payer can pay for all of it with what the block left *)
      let spec := (length after_txs =? length after)%nat
                  && forallb (fun h => negb (existsb (N.eqb h) blk)) after
                  && nlist_eqb after (filter (fun h => existsb (N.eqb h) after) (map tid before))
                  && pool_premise after_txs (bal_of bal') in
      code_of (nlist_eqb (map tid (vtxs s')) after) spec
  | CFeeValue base s calc_fee_impl =>
      let ok := calc_fee base s =? calc_fee_impl in
      code_of ok ok
  | CAttrs height committee notary oracle reserved onchain nsigners attrs accepted =>
      let c := mkActx height committee notary oracle reserved (fun h => existsb (N.eqb h) onchain) nsigners in
      let ok := Bool.eqb (attrs_ok c attrs) accepted in
      code_of ok ok
  end.

(* the generated case files write hexadecimal strings: make the string notation available to them *)
From Coq Require Export String.
