(* Correspondence cases for C13: a script run on the real VM (vm.New, price getter fee.Opcode(base, op),
   gas limit) against the model.  The model is the executable specification, so a disagreement is code 2. *)
From NG Require Import Common.Tactics Common.HarnessLib VM.Model.
From NG Require Export VM.Obs.
Open Scope Z_scope.

Inductive case :=
| CRun (prog : list Z) (base limit_pico : Z) (fuel : positive) (impl : outcome)
(* script A runs [pause] instructions, then script B is loaded on top of it (vm.LoadScript: sid = A's, rv = -1;
   vm.LoadScriptWithHash: another sid, rv = 1) and the VM runs to the end *)
| CLoad (progA : list Z) (pause : nat) (progB : list Z) (sidB : N) (rv : Z) (base limit_pico : Z) (fuel : positive) (impl : outcome).

Definition check_case (c : case) : N :=
  match c with
  | CRun prog base limit fuel impl =>
      if negb (bytes_okb prog) then 3%N else
      match outcome_of (runp fuel (init_state prog 1%N base limit)) with
      | None => 2%N      (* the model is still running after the budget the implementation needed *)
      | Some o => if outcome_eqb o impl then 0%N else 2%N
      end
  | CLoad progA pause progB sidB rv base limit fuel impl =>
      if negb (bytes_okb progA) || negb (bytes_okb progB) then 3%N else
      match run pause (init_state progA 1%N base limit) with
      | Running s1 =>
          match outcome_of (runp fuel (load_script s1 progB sidB rv)) with
          | None => 2%N
          | Some o => if outcome_eqb o impl then 0%N else 2%N
          end
      | _ => 2%N         (* the implementation was still running script A at the pause *)
      end
  end.

(* for debugging a disagreement *)
Definition model_outcome (c : case) : option outcome :=
  match c with
  | CRun prog base limit fuel _ => outcome_of (runp fuel (init_state prog 1%N base limit))
  | CLoad progA pause progB sidB rv base limit fuel _ =>
      match run pause (init_state progA 1%N base limit) with
      | Running s1 => outcome_of (runp fuel (load_script s1 progB sidB rv))
      | _ => None
      end
  end.
