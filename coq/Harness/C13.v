(* Correspondence cases for C13: a script run on the real VM (vm.New, price getter fee.Opcode(base, op),
   gas limit) against the model.  The model is the executable specification, so a disagreement is code 2. *)
From NG Require Import Common.Tactics Common.HarnessLib VM.Model VM.Obs.
Open Scope Z_scope.

Inductive outcome :=
| OHalt (gas_datoshi : Z) (stack : list Z)     (* GasConsumed(), serialised Estack (VM/Obs.v) *)
| OFault (gas_datoshi : Z).

Inductive case :=
| CRun (prog : list Z) (base limit_pico : Z) (fuel : positive) (impl : outcome).

Definition outcome_of (r : result) : option outcome :=
  match r with
  | Halted s => Some (OHalt (datoshi (s_gas s)) (ser_stack (s_heap s) (final_stack s)))
  | Faulted g => Some (OFault (datoshi g))
  | Running _ => None
  end.

Definition outcome_eqb (a b : outcome) : bool :=
  match a, b with
  | OHalt g s, OHalt g' s' => (g =? g') && zlist_eqb s s'
  | OFault g, OFault g' => g =? g'
  | _, _ => false
  end.

Definition check_case (c : case) : N :=
  match c with
  | CRun prog base limit fuel impl =>
      if negb (bytes_okb prog) then 3%N else
      match outcome_of (runp fuel (init_state prog 1%N base limit)) with
      | None => 3%N
      | Some o => if outcome_eqb o impl then 0%N else 2%N
      end
  end.

(* for debugging a disagreement *)
Definition model_outcome (c : case) : option outcome :=
  match c with CRun prog base limit fuel _ => outcome_of (runp fuel (init_state prog 1%N base limit)) end.
