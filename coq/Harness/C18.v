(* Correspondence cases for C18: what the implementation returned, compared with the model. *)
From NG Require Export Common.Tactics Common.HarnessLib Codec.Bigint.
From NG Require Import Common.Sha256 Codec.Base58 Codec.Fixed Codec.UintStr Codec.Merkle Codec.Multisig Codec.Nep2 Codec.EmitInt.
Open Scope Z_scope.

Definition zlist_eqb := list_eqb Z.eqb.
Definition ozl_eqb := option_eqb zlist_eqb.
Definition oz_eqb := option_eqb Z.eqb.

(* SHA-256 over Z bytes (Common/Sha256.v works on N) *)
Definition sha256dZ (bs : list Z) : list Z := map Z.of_N (sha256d (map Z.to_N bs)).
(* hash.Checksum: first four bytes of the double SHA-256 *)
Definition checksumZ (bs : list Z) : list Z := firstn 4 (sha256dZ bs).
(* the Merkle node hash: DoubleSha256(a.BytesBE ++ b.BytesBE) *)
Definition merkleH (a b : list Z) : list Z := sha256dZ (a ++ b).
Definition zero256 : list Z := repeat 0 32.

Inductive case :=
| CBigEnc (z : Z) (impl : list Z)                                (* bigint.ToBytes z = impl *)
| CBigDec (bs : list Z) (impl : Z)                               (* bigint.FromBytes bs = impl *)
| CB58Enc (bs : list Z) (impl : list Z)                          (* base58.Encode *)
| CB58Dec (s : list Z) (impl : option (list Z))                  (* base58.Decode *)
| CCheckEnc (bs : list Z) (impl : list Z)                        (* base58.CheckEncode *)
| CCheckDec (s : list Z) (impl : option (list Z))                (* base58.CheckDecode *)
| CAddrEnc (prefix : Z) (u : list Z) (impl : list Z)             (* address.Uint160ToString *)
| CAddrDec (prefix : Z) (s : list Z) (impl : option (list Z))    (* address.StringToUint160 *)
| CFixedToStr (v : Z) (prec : Z) (impl : list Z)                 (* fixedn.ToString *)
| CFixedFromStr (s : list Z) (prec : Z) (impl : option Z)        (* fixedn.FromString *)
| CFixed8Str (v : Z) (impl : list Z)                             (* Fixed8.String *)
| CFixed8FromStr (s : list Z) (impl : option Z)                  (* Fixed8FromString *)
| CUintStr (u : list Z) (be le js : list Z)                      (* StringBE, StringLE, JSON text without quotes *)
| CUintDec (n : Z) (mode : Z) (s : list Z) (impl : option (list Z)) (* 0 DecodeStringBE, 1 DecodeStringLE, 2 JSON *)
| CMerkle (hs : list (list Z)) (calc : list Z) (tree : option (list Z)) (* CalcMerkleRoot, NewMerkleTree(..).Root() *)
| CMultisig (keys sigs : list Z) (impl : bool)
| CNep2Frame (addr body : list Z) (impl : list Z)                (* NEP2Encrypt returned impl for a key whose address text is addr; body = the 32 encrypted bytes (independent scrypt + AES) *)
| CNep2Unframe (s : list Z) (impl : bool)
| CEmitInt (n : Z) (impl : option (list Z)).                     (* emit.BigInt / emit.Int: the script written, None if refused *)                       (* NEP2Decrypt got past CheckDecode and validateNEP2Format on s *)                  (* CHECKMULTISIG: key ids, signer id of each signature (or -1), every run returned impl *)

Definition check_case (c : case) : N :=
  match c with
  | CBigEnc z impl =>
      let m := zlist_eqb (to_bytes z) impl in
      (* specification: decodes (plain two's complement) to z and is not longer than the minimal form *)
      let s := bytes_okb impl && (from_bytes_spec impl =? z) && (length impl <=? length (to_bytes z))%nat in
      code_of m (m || s)
  | CBigDec bs impl =>
      if bytes_okb bs then
        let m := from_bytes bs =? impl in
        code_of m (from_bytes_spec bs =? impl)
      else 3%N
  | CB58Enc bs impl =>
      if negb (bytes_okb bs) then 3%N else
      let m := zlist_eqb (b58_encode bs) impl in
      (* specification: decodes back to bs (the model's decoder is proved inverse on non-empty input) *)
      code_of m (match bs with [] => m | _ => ozl_eqb (b58_decode impl) (Some bs) end)
  | CB58Dec s impl => let m := ozl_eqb (b58_decode s) impl in code_of m m
  | CCheckEnc bs impl =>
      if negb (bytes_okb bs) then 3%N else
      let m := zlist_eqb (check_encode checksumZ bs) impl in
      code_of m (match bs with [] => m | _ => ozl_eqb (check_decode checksumZ impl) (Some bs) end)
  | CCheckDec s impl => let m := ozl_eqb (check_decode checksumZ s) impl in code_of m m
  | CAddrEnc p u impl =>
      let m := zlist_eqb (addr_encode checksumZ p u) impl in
      code_of m (ozl_eqb (addr_decode checksumZ p impl) (Some u))
  | CAddrDec p s impl => let m := ozl_eqb (addr_decode checksumZ p s) impl in code_of m m
  | CFixedToStr v prec impl =>
      let m := zlist_eqb (to_string v (Z.to_nat prec)) impl in
      (* specification: the string parses back to v *)
      code_of m (oz_eqb (from_string impl (Z.to_nat prec)) (Some v))
  | CFixedFromStr s prec impl => let m := oz_eqb (from_string s (Z.to_nat prec)) impl in code_of m m
  | CFixed8Str v impl =>
      let m := zlist_eqb (fixed8_string v) impl in
      code_of m (oz_eqb (fixed8_from_string impl) (Some v))
  | CFixed8FromStr s impl => let m := oz_eqb (fixed8_from_string s) impl in code_of m m
  | CUintStr u be le js =>
      let m := zlist_eqb (string_be u) be && zlist_eqb (string_le u) le && zlist_eqb (json_string u) js in
      let n := length u in
      code_of m (ozl_eqb (decode_string_be n be) (Some u) && ozl_eqb (decode_string_le n le) (Some u) && ozl_eqb (json_decode n js) (Some u))
  | CUintDec n mode s impl =>
      let r := if mode =? 0 then decode_string_be (Z.to_nat n) s
               else if mode =? 1 then decode_string_le (Z.to_nat n) s else json_decode (Z.to_nat n) s in
      let m := ozl_eqb r impl in code_of m m
  | CMerkle hs calc tree =>
      (* specification = the recursive pairwise definition; both mechanisms are proved equal to it *)
      let spec := merkle_root (list Z) merkleH zero256 hs in
      let m := zlist_eqb (calc_merkle_root (list Z) merkleH zero256 hs) calc
               && ozl_eqb (option_map (@tree_root (list Z)) (new_merkle_tree (list Z) merkleH zero256 hs)) tree in
      code_of m (zlist_eqb spec calc && ozl_eqb (match hs with [] => None | _ => Some spec end) tree)
  | CMultisig keys sigs impl =>
      (* specification = the sequential in-order matcher; mechanism = the parallel checker under three schedules *)
      let spec := seq_match Z.eqb keys sigs in
      let par (sched : list nat) := option_eqb Bool.eqb (par_check Z.eqb sched keys sigs) (Some impl) in
      let m := par [] && par [1; 1; 1; 1; 1; 1; 1; 1]%nat && par [0; 1; 0; 1; 1; 0; 1; 0]%nat in
      code_of m (Bool.eqb spec impl)
  | CNep2Frame addr body impl =>
      if negb (bytes_okb addr && bytes_okb body && (length body =? 32)%nat) then 3%N else
      let ah := checksumZ addr in
      let m := zlist_eqb (nep2_frame checksumZ ah body) impl in
      (* specification: reads back as the frame of this address hash and body *)
      code_of m (option_eqb (fun a b => zlist_eqb (fst a) (fst b) && zlist_eqb (snd a) (snd b)) (nep2_unframe checksumZ impl) (Some (ah, body)))
  | CNep2Unframe s impl =>
      let m := Bool.eqb (match nep2_unframe checksumZ s with Some _ => true | None => false end) impl in code_of m m
  | CEmitInt n impl =>
      (* mechanism: the emitter model (small forms, width choice, sign extension); specification: inside the VM range
         the script is ONE instruction that, by the VM model's decoder and push semantics, pushes n; outside, refused *)
      let m := ozl_eqb (emit_bigint n) impl in
      code_of m (match impl with
                 | Some s => in_int256 n && oz_eqb (decode_pushint s) (Some n)
                 | None => negb (in_int256 n)
                 end)
  end.
