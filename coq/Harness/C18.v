(* Correspondence cases for C18: what the implementation returned, compared with the model. *)
From NG Require Import Common.Tactics Common.HarnessLib Codec.Bigint.
Open Scope Z_scope.

Inductive case :=
| CBigEnc (z : Z) (impl : list Z)          (* bigint.ToBytes z = impl *)
| CBigDec (bs : list Z) (impl : Z).        (* bigint.FromBytes bs = impl *)

Definition zlist_eqb := list_eqb Z.eqb.

Definition check_case (c : case) : N :=
  match c with
  | CBigEnc z impl =>
      let m := zlist_eqb (to_bytes z) impl in
      (* specification: decodes (plain two's complement) to z and is not longer than the minimal form *)
      let s := bytes_okb impl && (from_bytes_spec impl =? z) && (length impl <=? length (to_bytes z))%nat in
      code_of m (m || s)
  | CBigDec bs impl =>
      if bytes_okb bs then
        let m := from_bytes bs =? impl in
        code_of m (from_bytes_spec bs =? impl)
      else 3%N
  end.
