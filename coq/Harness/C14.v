(* Correspondence cases for C14.
   [CObs]: the two renderings (Go toolchain, real VM) of every call of one entry function of a dialect
           program, hashed by the harness; the comparison is the property's own oracle.
   [CFrag]: a program of the MiniGo fragment with the real compiler's bytecode (decoded to the target
           machine), the real method offsets and, per run, what the real VM and the Go toolchain returned.
           The model compiler must produce the same instruction sequence and entry points, the target
           semantics must reproduce the real VM on the real code, the MiniGo semantics must reproduce both. *)
From NG Require Import Common.Tactics Common.HarnessLib.
From NG Require Export Lang.MiniGo Lang.Target Lang.Compile Lang.Assemble.
Open Scope Z_scope.

(* constructors with Z numerals, so that generated terms need no scope annotations *)
Definition V (x : Z) : expr := EVar (Z.to_N x).
Definition Call (f : Z) (args : list expr) : expr := ECall (Z.to_nat f) args.
Definition Decl (x : Z) (e : expr) : stmt := SDecl (Z.to_N x) e.
Definition Asg (x : Z) (e : expr) : stmt := SAssign (Z.to_N x) e.
Definition OpAsg (x : Z) (op : binop) (e : expr) : stmt := SOpAssign (Z.to_N x) op e.
Definition Inc (x : Z) : stmt := SInc (Z.to_N x).
Definition Dec (x : Z) : stmt := SDec (Z.to_N x).
Definition Fn (params : list Z) (nres : Z) (body : stmt) : func :=
  {| f_params := map Z.to_N params; f_nres := Z.to_nat nres; f_body := body |}.
Definition CallS (f : Z) (args : list expr) : stmt := SCall (Z.to_nat f) args.
(* targets of a multiple assignment: a negative number is the blank identifier *)
Definition CallAsg (decl : bool) (xs : list Z) (f : Z) (args : list expr) : stmt :=
  SCallAssign decl (map (fun x => if x <? 0 then None else Some (Z.to_N x)) xs) (Z.to_nat f) args.
(* switch: clauses as (integer comparison?, case expressions, body); the default body last, if any *)
Fixpoint Cases (cs : list (bool * list expr * stmt)) (dflt : option stmt) : stmt :=
  match cs with
  | [] => match dflt with Some b => CDefault b | None => CNil end
  | (num, es, b) :: t => CCase num es b (Cases t dflt)
  end.
Definition Switch (tag : option expr) (cs : list (bool * list expr * stmt)) (dflt : option stmt) : stmt :=
  SSwitch tag (Cases cs dflt).
Fixpoint Seq (l : list stmt) : stmt := match l with [] => SSkip | [s] => s | s :: t => SSeq s (Seq t) end.

Definition LdLoc (n : Z) := ILdLoc (Z.to_nat n).
Definition StLoc (n : Z) := IStLoc (Z.to_nat n).
Definition LdArg (n : Z) := ILdArg (Z.to_nat n).
Definition StArg (n : Z) := IStArg (Z.to_nat n).
Definition InitSlot (l a : Z) := IInitSlot (Z.to_nat l) (Z.to_nat a).
Definition Jmp (t : Z) := IJmp (Z.to_nat t).
Definition JmpIf (t : Z) := IJmpIf (Z.to_nat t).
Definition JmpIfNot (t : Z) := IJmpIfNot (Z.to_nat t).
Definition JmpCmp (c : cmp) (t : Z) := IJmpCmp c (Z.to_nat t).
Definition CallI (t : Z) := ICall (Z.to_nat t).

(* an observed result *)
Inductive obs := RV (v : val) | RF | RX.

Inductive case :=
| CObs (go vm : Z)
| CFrag (p : program) (code : list instr) (entries : list Z) (runs : list (Z * list val * obs * obs))
                                                             (* function, arguments, real VM, Go toolchain *)
        (script : list Z) (long : list bool).                (* the real script bytes; per instruction: long form? *)

Definition val_eqb (a b : val) : bool :=
  match a, b with
  | VInt x, VInt y => x =? y
  | VBool x, VBool y => Bool.eqb x y
  | VNull, VNull => true
  | _, _ => false
  end.

Definition obs_eqb (a b : obs) : bool :=
  match a, b with
  | RV x, RV y => val_eqb x y
  | RF, RF => true
  | _, _ => false          (* RX: something outside the fragment's observables; never equal *)
  end.

Definition obs_of_tres (t : tres) : obs :=
  match t with THalt [v] => RV v | TFault => RF | _ => RX end.

Definition cmp_eqb (a b : cmp) : bool :=
  match a, b with
  | CLt, CLt | CLe, CLe | CGt, CGt | CGe, CGe | CEq, CEq | CNe, CNe => true
  | _, _ => false
  end.

Definition instr_eqb (a b : instr) : bool :=
  match a, b with
  | IPush x, IPush y => x =? y
  | IPushB x, IPushB y => Bool.eqb x y
  | IAdd, IAdd | ISub, ISub | IMul, IMul | IDiv, IDiv | IMod, IMod | INegate, INegate | IInc, IInc | IDec, IDec
  | INot, INot | IRet, IRet | IDrop, IDrop | ISwap, ISwap | IReverse3, IReverse3 | IReverse4, IReverse4
  | IReverseN, IReverseN | INop, INop | IDup, IDup | IEqual, IEqual => true
  | ICmp x, ICmp y => cmp_eqb x y
  | ILdLoc x, ILdLoc y | IStLoc x, IStLoc y | ILdArg x, ILdArg y | IStArg x, IStArg y
  | IJmp x, IJmp y | IJmpIf x, IJmpIf y | IJmpIfNot x, IJmpIfNot y | ICall x, ICall y => Nat.eqb x y
  | IInitSlot a b, IInitSlot c d => Nat.eqb a c && Nat.eqb b d
  | IJmpCmp c x, IJmpCmp d y => cmp_eqb c d && Nat.eqb x y
  | _, _ => false
  end.

Definition src_fuel : nat := N.to_nat 3000.

(* up to 2^k steps of the target machine without building a large unary fuel; same [step] as [run] *)
Fixpoint run_bin (c : code) (k : nat) (s : state) : tres + state :=
  match k with
  | O => match step c s with Next s' => inr s' | Halt st => inl (THalt st) | SFault => inl TFault end
  | S k => match run_bin c k s with inl r => inl r | inr s' => run_bin c k s' end
  end.

Lemma run_bin_sound c k : forall s,
  (forall r, run_bin c k s = inl r -> exists n, run c n s = r) /\
  (forall s', run_bin c k s = inr s' -> forall n r, run c n s' = r -> exists m, run c m s = r).
Proof.
  induction k; intros s; split; simpl.
  - intros r H. destruct (step c s) eqn:E; inv H; exists 1%nat; simpl; rewrite E; reflexivity.
  - intros s' H n r Hr. destruct (step c s) eqn:E; inv H. exists (S n). simpl. rewrite E. reflexivity.
  - intros r H. destruct (IHk s) as [A B]. destruct (run_bin c k s) as [r1|s1].
    + inv H. apply A. reflexivity.
    + destruct (IHk s1) as [A1 _]. destruct (A1 r H) as [n Hn]. apply (B s1 eq_refl n r Hn).
  - intros s' H n r Hr. destruct (IHk s) as [A B]. destruct (run_bin c k s) as [r1|s1]; [discriminate|].
    destruct (IHk s1) as [_ B1]. destruct (B1 s' H n r Hr) as [m Hm]. apply (B s1 eq_refl m r Hm).
Qed.

Definition tgt_steps : nat := 19.   (* 2^19 steps *)
Definition run_tgt_bin (c : code) (entry : nat) (vs : list val) : tres :=
  match run_bin c tgt_steps (init_state entry vs) with inl r => r | inr _ => TTimeout end.

Fixpoint forallb2 (f : bool -> bool -> bool) (a b : list bool) : bool :=
  match a, b with
  | [], [] => true
  | x :: a', y :: b' => f x y && forallb2 f a' b'
  | _, _ => false
  end.

Definition check_case (c : case) : N :=
  match c with
  | CObs go vm => if go =? vm then 0%N else 2%N
  | CFrag p code ents runs script long =>
      let ents' := map Z.to_nat ents in
      let C := compile_program p in
      let seq_ok := list_eqb instr_eqb C code && list_eqb Nat.eqb (entries (nres p) 0%nat p) ents' in
      (* bytes: the assembler, with the jump widths of the real script, gives the real script; and a jump that
         the model of the emitter's shortening keeps long is long in the real script (the place holders the
         real emitter deletes afterwards only lengthen distances: the converse can fail in border cases) *)
      let bytes_ok :=
        match assemble_with long C with
        | Some b => list_eqb Z.eqb b script
        | None => false
        end
        && forallb2 implb (norm_ws (shorten C) C) (norm_ws long C) in
      let per_run := fun (r : Z * list val * obs * obs) =>
        match r with
        | (f, vs, vm, go) =>
            let fi := Z.to_nat f in
            let src := run_src src_fuel p fi vs in
            let defined := match src with Ok _ | Fault => true | _ => false end in
            let src_obs := match src with Ok [v] => RV v | Fault => RF | _ => RX end in
            let tgt := obs_of_tres (run_tgt_bin code (nth fi ents' 0%nat) vs) in
            (* specification: the VM and the Go toolchain agree wherever the run is defined (no overflow) *)
            let spec := negb defined || obs_eqb vm go in
            (* model: the MiniGo semantics gives that value, the target semantics reproduces the VM on the real code *)
            let model := (negb defined || obs_eqb src_obs vm) && obs_eqb tgt vm in
            (spec, model)
        end in
      let rs := map per_run runs in
      let spec_ok := forallb fst rs in
      let model_ok := seq_ok && bytes_ok && forallb snd rs in
      if negb spec_ok then 2%N else if model_ok then 0%N else 1%N
  end.
