(* Correspondence cases for C01 (governance part): the answers of the source node's public getters after every
   block (committee, next block validators, validators computed for the next epoch, blocked accounts, fee settings)
   are compared with the model run on the same transactions; when the tree has both repairs (F7, F23) the model is
   additionally restarted ([reinit]) after the heights the case names and must still give the same answers. *)
From NG Require Import Common.Tactics Common.HarnessLib.
From NG Require Export Tokens.Model.
From NG Require Import Tokens.Inv Tokens.OpProofs Tokens.CfgCheck Node.Gov.
From NG Require Export Auth.Permission Auth.PermStore.
From Coq Require String.
Open Scope Z_scope.


(* the method names the cases speak about (string literals are confined to this module) *)
Module MethodNames.
Import String.
Local Open Scope string_scope.
Definition s_version : string := "version".
Definition s_put : string := "put".
Definition s_del : string := "del".
Definition s_fill : string := "fill".
Definition s_sweep : string := "sweep".
Definition s_fillFail : string := "fillFail".
Definition s_fillS : string := "fillS".
Definition s_peek : string := "peek".
Definition s_keep : string := "keep".
Definition s_keepTwice : string := "keepTwice".
Definition s_natives : string := "natives".
Definition s_peekNatives : string := "peekNatives".
Definition s_take : string := "take".
Definition s_relay : string := "relay".
Definition s_update : string := "update".
Definition s_destroy : string := "destroy".
Definition s_callPut : string := "callPut".
Definition s_callTake : string := "callTake".
Definition s_witnessed : string := "witnessed".
Definition s_getContract : string := "getContract".
Definition s_transfer : string := "transfer".
Definition s_balanceOf : string := "balanceOf".
Definition s_other : string := "other".
End MethodNames.
Export MethodNames.

Record gobs := mkG {
  g_committee : list N;      (* GetCommittee: sorted keys *)
  g_next : list N;           (* GetNextBlockValidators *)
  g_newepoch : list N;       (* ComputeNextBlockValidators *)
  g_blocked : list N;        (* accounts of the universe for which Policy.isBlocked answers true, ascending *)
  g_policy : list Z;         (* FeePerByte, BaseExecFee (pico), StoragePrice (pico), getGasPerBlock, getRegisterPrice, stored gas records *)
  g_whitelist : list (N * Z);(* cached whitelisted fees (Policy.getWhitelistFeeContracts): (deployer account, fee), ascending *)
  g_roles : list (N * Z * list N);   (* RoleManagement.getDesignatedByRole(role, index) = keys, for the queried (role, index) *)
  g_contracts : list (N * (Z * Z));  (* Management.getContract of the storage contract of account a: (id, update counter) *)
  g_manifests : list (N * mshape)    (* ... and the permissions, groups and safe methods of the manifest it serves *)
}.

Record gblock := mkGB { gb_txs : list tx; gb_obs : gobs }.

Inductive case := CGov (cfg : config) (restarts : list Z) (blocks : list gblock).

Definition nlist_eqb := list_eqb N.eqb.
Definition zlist_eqb := list_eqb Z.eqb.

Definition model_obs (cfg : config) (st : state) : gobs :=
  mkG (committee_sorted st) (next_validators cfg st) (compute_next_validators cfg st) (c_blocked (A st))
      ([aget 0 10%N (p_cache (A st));
       (if hf_faun cfg then aget 0 18%N (p_cache (A st)) else aget 0 18%N (p_cache (A st)) * 10000);
       aget 0 19%N (p_cache (A st)) * 10000;
       gas_per_block st (height (A st) + 1);     (* NEO.getGasPerBlock in an invocation on top of the block *)
       c_regprice (A st)]
       ++ flat_map (fun '(i, v) => [i; v]) (rev (s_gpb (A st))))  (* the stored gas-per-block records, ascending *)
      (flat_map (fun a => match whitelisted_fee st a with Some f => [(a, f)] | None => [] end)
                (map N.of_nat (seq 0 32)))
      [] (* role queries are answered per query, see roles_agree *)
      (flat_map (fun a => let c := contract_of st a in if mc_present c then [(a, (mc_id c, mc_counter c))] else [])
                (map N.of_nat (seq 0 32)))
      (flat_map (fun a => let c := contract_of st a in
                          if mc_present c then [(a, mkShape (mc_perms c) (mc_groups c) (mc_safe c))] else [])
                (map N.of_nat (seq 0 32))).

Definition shape_eqb (x y : mshape) : bool :=
  sitem_eqb (perms_to_item (sh_perms x)) (perms_to_item (sh_perms y))
  && list_eqb N.eqb (sh_groups x) (sh_groups y) && list_eqb String.eqb (sh_safe x) (sh_safe y).

Definition roles_agree (st : state) (qs : list (N * Z * list N)) : bool :=
  forallb (fun '(role, idx, ks) => nlist_eqb (snd (designated st role idx)) ks) qs.

Definition gobs_eqb (a b : gobs) : bool :=
  nlist_eqb (g_committee a) (g_committee b) && nlist_eqb (g_next a) (g_next b)
  && nlist_eqb (g_newepoch a) (g_newepoch b) && nlist_eqb (g_blocked a) (g_blocked b)
  && zlist_eqb (g_policy a) (g_policy b)
  && list_eqb (fun x y => N.eqb (fst x) (fst y) && (snd x =? snd y)) (g_whitelist a) (g_whitelist b)
  && list_eqb (fun x y => N.eqb (fst x) (fst y) && (fst (snd x) =? fst (snd y)) && (snd (snd x) =? snd (snd y)))
              (g_contracts a) (g_contracts b)
  && list_eqb (fun x y => N.eqb (fst x) (fst y) && shape_eqb (snd x) (snd y)) (g_manifests a) (g_manifests b).

Fixpoint mem_Z (x : Z) (l : list Z) : bool := match l with [] => false | y :: t => (x =? y) || mem_Z x t end.

(* run the model over the blocks, restarting it after the listed heights *)
Fixpoint run_gov (cfg : config) (restarts : list Z) (st : option state) (bs : list gblock) : bool :=
  match bs with
  | [] => true
  | b :: r =>
      match st with
      | None => false
      | Some s =>
          match run_block cfg s (gb_txs b) with
          | None => false
          | Some s' =>
              let s'' := if mem_Z (height (A s')) restarts then reinit cfg s' else s' in
              gobs_eqb (model_obs cfg s') (gb_obs b) && gobs_eqb (model_obs cfg s'') (gb_obs b)
              && roles_agree s' (g_roles (gb_obs b)) && roles_agree s'' (g_roles (gb_obs b))
              && run_gov cfg restarts (Some s'') r
          end
      end
  end.

Definition hyps_ok (cfg : config) (blocks : list gblock) : bool :=
  cfg_wf_b cfg && forallb (fun b => forallb (fun t => negb (N.eqb (t_wit cfg t) (a_notary cfg))) (gb_txs b)) blocks.

Definition check_case (c : case) : N :=
  match c with
  | CGov cfg restarts blocks =>
      if hyps_ok cfg blocks then
        let plain := run_gov cfg [] (Some (genesis cfg)) blocks in
        let restarted := if fix_block_dirty cfg && fix_gpv_drop cfg && fix_whitelist cfg
                         then run_gov cfg restarts (Some (genesis cfg)) blocks else true in
        (* the model with both repairs is proved restart-transparent; a disagreement with the running node leaves the
           specification (replica equality, evaluated directly on the real replicas) untouched: code 1 *)
        code_of (plain && restarted) true
      else 3%N
  end.
