(* Correspondence cases for C17: what the implementation returned on a case, compared with the model.
   Spec side of every comparison: the properties proved in Properties/C17.v for the model (round trip,
   canonical re-encoding, identity = hash of the re-encoding, size = length of the encoding), evaluated on
   what the implementation returned. *)
From NG Require Export Common.Tactics Common.HarnessLib Codec.Bigint Codec.Wire Codec.TxCodec Codec.ItemCodec Codec.ExecCodec Codec.MptCodec Codec.StateCodec Codec.NetCodec.
From NG Require Export Auth.Permission Auth.PermStore Codec.ManifestItem Codec.ConsensusCodec.
From Coq Require String.
From NG Require Import Common.Sha256.
Open Scope Z_scope.

Definition zl_eqb := list_eqb Z.eqb.
Definition oz_eqb := option_eqb zl_eqb.
Definition sha (bs : list Z) : list Z := map Z.of_N (sha256 (map Z.to_N bs)).

(* what a decoder call returned: None = error; Some (re-encoding of the decoded value, hash (BE bytes) or [], reported size or -1) *)
Definition dimpl := option (list Z * list Z * Z).

Inductive case :=
| CVarW (v : Z) (impl : list Z)                         (* BinWriter.WriteVarUint v *)
| CVarSize (v : Z) (impl : Z)                           (* io.GetVarSize(v) *)
| CVarR (bs : list Z) (impl : option (Z * Z))           (* ReadVarUint: value and number of unread bytes *)
| CVarBytesR (max : Z) (bs : list Z) (impl : option (list Z * Z))
| CTxEnc (t : tx) (impl : list Z) (size : Z) (hash : list Z)
| CTxDec (path : Z) (bs : list Z) (impl : dimpl)        (* 0 NewTransactionFromBytes, 1 DecodeBinary (stream) *)
| CSignerDec (bs : list Z) (impl : dimpl)
| CCondDec (bs : list Z) (impl : dimpl)
| CAttrDec (bs : list Z) (impl : dimpl)
| CWitnessDec (bs : list Z) (impl : dimpl)
| CHeaderDec (sr : bool) (bs : list Z) (impl : dimpl)
| CBlockDec (sr : bool) (bs : list Z) (impl : dimpl)
| CItemEnc (i : item) (impl : option (list Z))          (* stackitem.Serialize *)
| CItemDec (bs : list Z) (impl : option (option (list Z))) (* Deserialize, then Serialize of the result *)
| CMptDec (bs : list Z) (impl : dimpl)                   (* mpt.NodeObject.DecodeBinary; hash = Node.Hash() of branch/extension/leaf *)
| CMptRootDec (bs : list Z) (impl : dimpl)               (* state.MPTRoot *)
| CNefDec (bs : list Z) (impl : dimpl)                   (* nef.FileFromBytes *)
| CPayloadDec (cmd : Z) (bs : list Z) (impl : dimpl)     (* the payload decoder selected by a command byte (no frame) *)
| CNetAddrDec (bs : list Z) (impl : dimpl)               (* payload.AddressAndTime *)
| CFrameDec (bs : list Z) (dz : option (list Z)) (impl : dimpl) (* network.Message.Decode; dz = what decompression of the raw payload gives *)
| CNotifDec (bs : list Z) (impl : dimpl)                 (* state.NotificationEvent *)
| CAerDec (bs : list Z) (impl : dimpl)                   (* state.AppExecResult (stack items in protected mode) *)
| CManifestItem (m : mmanifest) (impl : xitem)
| CConsMsg (sr : bool) (m : cmessage) (impl : list Z)
| CPayloadDecSr (sr : bool) (cmd : Z) (bs : list Z) (impl : dimpl)   (* CPayloadDec under StateRootInHeader = sr *)
| CFrameDecSr (sr : bool) (bs : list Z) (dz : option (list Z)) (impl : dimpl).   (* the data of a consensus payload re-encoded by pkg/consensus FROM ITS FIELDS after decoding the harness's own layout of m under StateRootInHeader = sr *)          (* Manifest.ToStackItem (shape), accepted back by FromStackItem *)

(* decode with [d], re-encode with [w]; identity functions [h] (hashed bytes) and size *)
Definition dec_check {A} (d : dec A) (w : A -> list Z) (hashed : option (A -> list Z)) (whole : bool)
           (bs : list Z) (impl : dimpl) : N :=
  if negb (bytes_okb bs) then 3%N else
  let r := if whole then match decode_all d bs with Some a => Some a | None => None end
           else match d bs with Some (a, _) => Some a | None => None end in
  match r, impl with
  | None, None => 0%N
  | Some a, Some (re, hs, sz) =>
      let enc_ok := zl_eqb (w a) re in
      let hash_ok := match hashed with
                     | Some h => match hs with [] => true | _ => zl_eqb (sha (h a)) hs end
                     | None => true
                     end in
      let size_ok := (sz =? -1) || (sz =? Z.of_nat (length (w a))) in
      (* the model is proved canonical: any disagreement on an accepted input contradicts the specification *)
      if enc_ok && hash_ok && size_ok then 0%N else 2%N
  | _, _ => 2%N         (* accepted by one side only *)
  end.

(* strings of the generated manifest cases are written as lists of byte codes (importing Coq's String module into the
   case files would shadow List.concat / List.length) *)
Definition str (l : list Z) : String.string :=
  fold_right (fun c s => String.String (Ascii.ascii_of_N (Z.to_N c)) s) String.EmptyString l.

Definition sha256dZ (bs : list Z) : list Z := map Z.of_N (sha256d (map Z.to_N bs)).
(* nef checksum: first four bytes of the double SHA-256 of the body, little-endian *)
Definition nef_checksum (body : list Z) : Z := from_le (firstn 4 (sha256dZ body)).

Definition check_case (c : case) : N :=
  match c with
  | CVarW v impl =>
      let m := zl_eqb (write_varuint v) impl in
      (* specification: decodes back to v, and has the length GetVarSize reports for lengths (v < 2^32) *)
      let s := match read_varuint impl with Some (v', []) => v' =? v | _ => false end
               && ((4294967295 <? v) || (varuint_size v =? Z.of_nat (length impl))) in
      code_of m s
  | CVarSize v impl => code_of (varuint_size v =? impl) (Z.of_nat (length (write_varuint v)) =? impl)
  | CVarR bs impl =>
      if negb (bytes_okb bs) then 3%N else
      let m := match read_varuint bs, impl with
               | None, None => true
               | Some (v, r), Some (v', n) => (v =? v') && (Z.of_nat (length r) =? n)
               | _, _ => false
               end in
      code_of m m
  | CVarBytesR max bs impl =>
      if negb (bytes_okb bs) then 3%N else
      let m := match read_varbytes max bs, impl with
               | None, None => true
               | Some (b, r), Some (b', n) => zl_eqb b b' && (Z.of_nat (length r) =? n)
               | _, _ => false
               end in
      code_of m m
  | CTxEnc t impl size hash =>
      let m := zl_eqb (write_tx t) impl && (size =? Z.of_nat (length (write_tx t))) && zl_eqb (sha (tx_hashed_bytes t)) hash in
      (* specification: the bytes decode back to t, the size is their length, the hash is that of the hashable prefix *)
      let s := match tx_from_bytes impl with Some t' => zl_eqb (write_tx t') (write_tx t) | None => false end
               && (size =? Z.of_nat (length impl)) && zl_eqb (sha (tx_hashed_bytes t)) hash in
      code_of m s
  | CTxDec path bs impl => dec_check read_tx write_tx (Some tx_hashed_bytes) (path =? 0) bs impl
  | CSignerDec bs impl => dec_check read_signer write_signer None false bs impl
  | CCondDec bs impl => dec_check (read_cond max_nesting) write_cond None false bs impl
  | CAttrDec bs impl => dec_check read_attr write_attr None false bs impl
  | CWitnessDec bs impl => dec_check read_witness write_witness None false bs impl
  | CHeaderDec sr bs impl => dec_check (read_header sr) (write_header sr) (Some (write_header_hashable sr)) false bs impl
  | CBlockDec sr bs impl => dec_check (read_block sr) (write_block sr) (Some (fun b => write_header_hashable sr (bheader b))) false bs impl
  | CItemEnc i impl =>
      let m := oz_eqb (serialize i) impl in
      let s := match impl with
               | Some bs => match deserialize bs with Some i' => zl_eqb (enc_item i') (enc_item i) | None => false end
               | None => match serialize i with None => true | Some _ => false end
               end in
      code_of m s
  | CItemDec bs impl =>
      if negb (bytes_okb bs) then 3%N else
      match deserialize bs, impl with
      | None, None => 0%N
      | Some i, Some re => if oz_eqb (serialize i) re then 0%N else 2%N
      | _, _ => 2%N
      end
  | CMptDec bs impl =>
      if negb (bytes_okb bs) then 3%N else
      match decode_node bs, impl with
      | None, None => 0%N
      | Some (n, _), Some (re, hs, _) =>
          let hash_ok := match hs with [] => true | _ => zl_eqb (node_hash sha256dZ n) hs end in
          if zl_eqb (write_node sha256dZ n) re && hash_ok then 0%N else 2%N
      | _, _ => 2%N
      end
  | CMptRootDec bs impl => dec_check read_mptroot write_mptroot (Some write_mptroot_unsigned) false bs impl
  | CNefDec bs impl =>
      if negb (bytes_okb bs) then 3%N else
      match nef_from_bytes nef_checksum bs, impl with
      | None, None => 0%N
      | Some f, Some (re, _, _) => if zl_eqb (write_nef f) re then 0%N else 2%N
      | _, _ => 2%N
      end
  | CPayloadDec cmd bs impl =>
      match payload_decoder false cmd with
      | Some d => dec_check d (write_payload false)
                    (if cmd =? 46 then Some (fun p => match p with PExtensible e => write_extensible_unsigned e | _ => [] end) else None) false bs impl
      | None => 3%N
      end
  | CNetAddrDec bs impl => dec_check read_addr write_addr None false bs impl
  | CFrameDec bs dz impl => dec_check (read_frame (fun _ => dz) false) (write_frame false) None false bs impl
  | CNotifDec bs impl =>
      (* the writer is partial (an oversized state array cannot be serialised): the implementation then reports a
         decoded value that cannot be re-encoded, written by the harness as an empty re-encoding *)
      dec_check read_notification (fun n => match write_notification n with Some b => b | None => [] end) None false bs impl
  | CAerDec bs impl => dec_check read_aer (fun a => match write_aer a with Some b => b | None => [] end) None false bs impl
  | CManifestItem m impl =>
      let mo := xitem_eqb (manifest_to_item m) impl in
      (* specification: the stored form read back by the model is a manifest that stores to the same item (the model's
         from/to are proved inverse and injective, so this is "reads back as m") *)
      let sp := match manifest_from_item impl with Some m' => xitem_eqb (manifest_to_item m') (manifest_to_item m) | None => false end in
      code_of mo sp
  | CConsMsg sr m impl =>
      let mo := zl_eqb (write_cmessage sr m) impl in
      (* specification: under the same setting the bytes read back, completely, as a message with the same encoding
         (read and write are proved inverse for both settings, so this is "reads back as m") *)
      let sp := match read_cmessage sr impl with
                | Some (m', []) => zl_eqb (write_cmessage sr m') (write_cmessage sr m)
                | _ => false
                end in
      code_of mo sp
  | CPayloadDecSr sr cmd bs impl =>
      match payload_decoder sr cmd with
      | Some d => dec_check d (write_payload sr)
                    (if cmd =? 46 then Some (fun p => match p with PExtensible e => write_extensible_unsigned e | _ => [] end) else None) false bs impl
      | None => 3%N
      end
  | CFrameDecSr sr bs dz impl => dec_check (read_frame (fun _ => dz) sr) (write_frame sr) None false bs impl
  end.

