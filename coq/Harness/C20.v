(* Correspondence cases for C20: what the real block queue / state-sync module did, compared with the models. *)
From NG Require Import Common.Tactics Common.HarnessLib Sync.Queue Sync.Restore.
From NG Require Sync.Ledger.
Open Scope N_scope.

Notation mkNode := Restore.mkNode.

(* ---- block queue: a serialised schedule ---- *)
Inductive qop :=
| QPut (idx id adv : N)     (* Put; [adv] blocks are added to the chain by someone else between its height reading and its locked region *)
| QExt                      (* another source adds the next block to the chain *)
| QStep (adv : N)           (* let the drainer run to its next call into the chain ([adv]: as above, at its height reading) *)
| QDiscard.

Definition doa (s : Queue.st) (a : action) : Queue.st := match step s a with Some s' => s' | None => s end.
Fixpoint exts (n : nat) (s : Queue.st) : Queue.st := match n with O => s | S n' => exts n' (doa s AExt) end.
(* a parked drainer takes a pending signal at once (or returns, when the channel is closed) *)
Definition norm (s : Queue.st) : Queue.st := match dpc s with Idle => doa s AWake | _ => s end.

Definition qeval (s : Queue.st) (o : qop) : Queue.st :=
  norm match o with
       | QPut i id adv => let hs := height s in doa (exts (N.to_nat adv) s) (APut (mkBlk i id) hs)
       | QExt => doa s AExt
       | QStep adv =>
           match dpc s with
           | Woken => exts (N.to_nat adv) (doa s ARead)
           | ReadH _ => doa (exts (N.to_nat adv) s) APeek
           | Hold _ _ => doa s AAdd
           | Tried _ _ _ => doa s AClear
           | _ => s
           end
       | QDiscard => doa s ADiscard
       end.

Definition snap (s : Queue.st) : N * Z := (lastQ s, (Z.of_N (cap s) - qlen s)%Z).

Fixpoint qrun (s : Queue.st) (ops : list qop) (acc : list (N * Z)) : Queue.st * list (N * Z) :=
  match ops with
  | [] => (s, acc)
  | o :: t => let s' := qeval s o in qrun s' t (snap s' :: acc)
  end.

Definition att_eqb (a b : N * N * bool) : bool :=
  let '(i, k, o) := a in let '(i', k', o') := b in (i =? i') && (k =? k') && Bool.eqb o o'.
Definition snap_eqb (a b : N * Z) : bool := (fst a =? fst b) && (snd a =? snd b)%Z.

(* ---- state sync ---- *)
Inductive sitem :=
| SI (h : N) (il : list N)    (* node h of the trie, children [il] sent inline *)
| SForeign (h : N)            (* decodable node that is not part of the trie *)
| SForeignNC (h : N)          (* the same, in a non-canonical encoding *)
| SBad.                       (* undecodable bytes *)
Inductive sop := SNodes (b : list sitem) | SRestart.
(* after the operation: error returned, panicked, unknown hashes (sorted ids) *)
Definition sobs := (bool * bool * list N)%type.

Fixpoint insert_u (x : N) (l : list N) : list N :=
  match l with
  | [] => [x]
  | y :: t => if x <? y then x :: l else if x =? y then l else y :: insert_u x t
  end.
Definition sort_u (l : list N) : list N := fold_right insert_u [] l.

Definition to_item (T : tree) (i : sitem) : item :=
  match i with
  | SI h il => match lookup T h with Some n => IWire h n il | None => IBad end
  | SForeign h => IWire h (mkNode [] (Some 0)) []
  | SForeignNC h => IWire h (mkNode [] (Some 0)) [h]
  | SBad => IBad
  end.

Definition nlist_eqb := list_eqb N.eqb.

(* run the model with one setting of the two switches against the observations *)
Fixpoint srun (canon skip : bool) (fuel : nat) (T : tree) (root : N) (s : option Restore.st) (ops : list sop) (obs : list sobs) : bool :=
  match ops, obs with
  | [], [] => true
  | o :: ops', (err, pan, unk) :: obs' =>
      match s with
      | None => false
      | Some s0 =>
          match o with
          | SNodes b =>
              let '(s1, e) := add_nodes canon fuel T (map (to_item T) b) s0 in
              negb pan && Bool.eqb e err && nlist_eqb (sort_u (pool_hashes s1)) unk && srun canon skip fuel T root (Some s1) ops' obs'
          | SRestart =>
              match restart skip fuel T root s0 with
              | Some s1 => negb pan && nlist_eqb (sort_u (pool_hashes s1)) unk && srun canon skip fuel T root (Some s1) ops' obs'
              | None => pan && match ops' with [] => true | _ => false end
              end
          end
      end
  | _, _ => false
  end.

Definition delivered_canon (ops : list sop) (h : N) : bool :=
  existsb (fun o => match o with
                    | SNodes b => existsb (fun i => match i with SI h' [] => h' =? h | _ => false end) b
                    | SRestart => false end) ops.

Fixpoint last_unknown (obs : list sobs) : option (list N) :=
  match obs with
  | [] => None
  | [(_, _, u)] => Some u
  | _ :: t => last_unknown t
  end.

Inductive case :=
| CQueue (cap h0 : N) (ops : list qop) (att : list (N * N * bool)) (applied : list N) (lenlog : list Z)
         (snaps : list (N * Z)) (height : N) (stopped : bool)
| CQStress (top height napplied : N)
(* [blks]: blocks offered in the blocks stage under the genuine header: variant (0 genuine, 1 stripped, 2 one transaction
   dropped, 3 reordered, 4 one replaced), transactions of the source block, transactions delivered, accepted *)
| CSync (root : N) (T : tree) (ops : list sop) (obs : list sobs) (blks : list (N * N * N * bool))
(* crash points of one synchronisation over a recording backend: stage in which the last durable batch was written
   (0 start, 1 init, 2 headers, 3 MPT, 4 blocks, 5 jump, 6 blocks after the jump, 7 shutdown) and whether the node restarted
   from that durable state finished the synchronisation with the source's state roots and storage, in lockstep *)
| CCrash (points : list (N * bool))
(* the real ledger under concurrent producers, step by step: lock held by the harness while the callers parked (0 none, 1 the
   addition lock, 2 the state lock), height before, the calls with their results (producer: 0 AddBlock, 1 AddHeaders, 2 the
   queue's drainer; index; 0 added, 1 already exists, 2 invalid index, 3 anything else), post-block callbacks in order *)
| CConc (steps : list (N * N * list (N * N * N) * list N)).

Fixpoint inserts {A} (x : A) (l : list A) : list (list A) :=
  match l with [] => [[x]] | y :: r => (x :: l) :: map (cons y) (inserts x r) end.
Fixpoint perms {A} (l : list A) : list (list A) :=
  match l with [] => [[]] | x :: r => flat_map (inserts x) (perms r) end.

(* Sync/Ledger.v: the calls of the step, executed atomically in the order [p], give exactly the observed results and
   callbacks *)
Definition conc_order_ok (h : N) (ap : list N) (p : list (N * N * N)) : bool :=
  let bl := filter (fun c => negb (fst (fst c) =? 1)) p in
  let '(l, rs) := Ledger.run unit (fun _ _ => tt) (Ledger.mkL unit h tt [] []) (map (fun c => snd (fst c)) bl) in
  nlist_eqb (map Ledger.res_code rs) (map snd bl) && nlist_eqb (rev (Ledger.applied unit l)) ap
  && nlist_eqb (Ledger.events unit l) (Ledger.applied unit l)
  && forallb (fun c => if fst (fst c) =? 1 then snd c =? 0 else true) p.

Fixpoint conc_steps (h : option N) (steps : list (N * N * list (N * N * N) * list N)) : bool :=
  match steps with
  | [] => true
  | (_, h1, calls, ap) :: r =>
      match h with Some x => x =? h1 | None => true end
      && (length calls <=? 5)%nat
      && existsb (conc_order_ok h1 ap) (perms calls)
      && conc_steps (Some (h1 + N.of_nat (length ap))) r
  end.

Definition check_case (c : case) : N :=
  match c with
  | CQueue c h0 ops att app ll snaps hf stopped =>
      if c =? 0 then 3 else
      let '(s1, sn) := qrun (Queue.init c h0) ops [] in
      let s2 := drain (N.to_nat 6000) s1 in
      let sn2 := snap s2 :: sn in
      let m := list_eqb att_eqb (rev (map (fun x => (bidx (fst x), bid (fst x), snd x)) (attempts s2))) att
               && nlist_eqb (rev (applied s2)) app
               && list_eqb Z.eqb (rev (lenlog s2)) ll
               && list_eqb snap_eqb (rev sn2) snaps
               && (Queue.height s2 =? hf)
               && Bool.eqb (match dpc s2 with Stopped => true | _ => false end) stopped in
      (* specification: what the chain accepted is h0+1, h0+2, ... in this order, each once *)
      let s := nlist_eqb app (iota (h0 + 1) (length app)) && (hf =? h0 + N.of_nat (length app)) in
      if m && s then 0 else if s then 1 else 2
  | CQStress top hf napp =>
      if (hf =? top) && (napp =? top) then 0 else 2
  | CConc steps => if conc_steps None steps then 0 else 2
  | CCrash points =>
      (* Sync/Crash.v crash_restart_converges: every prefix of the batches is a durable state the node recovers from *)
      if forallb (fun x => snd x) points then 0 else 2
  | CSync root T ops obs blks =>
      let fuel := S (S (length T)) in
      let go := fun (cf : bool * bool) => srun (fst cf) (snd cf) fuel T root (Some (Restore.init root)) ops obs in
      let m := existsb go [(false, false); (true, false); (false, true); (true, true)] in
      (* specification on the observations alone: no restart fails; the module may report "nothing unknown any more" only
         if every node of the trie was delivered to it in canonical form at least once *)
      let nopanic := forallb (fun o => negb (snd (fst o))) obs in
      let complete_ok :=
        match last_unknown obs with
        | Some [] => forallb (fun hn => delivered_canon ops (fst hn)) T
        | _ => true
        end in
      (* blocks stage (Sync/Blocks.v add_block with the transaction list as its own Merkle commitment): the genuine
         list is accepted, any other list under the genuine header is refused *)
      let blk_ok := forallb (fun x => let '(v, _, _, a) := x in Bool.eqb a (v =? 0)) blks in
      let s := nopanic && complete_ok && blk_ok in
      if m && s then 0 else if s then 1 else 2
  end.
