(* Correspondence cases for C02: the batches the real node issued (abstracted to record classes) and what
   re-opening every prefix gave, compared with the model (Node/Crash.v, Node/Stages.v). *)
From NG Require Import Common.Tactics Common.HarnessLib.
From NG Require Export Node.Crash Node.Stages Node.CrashGC.
From NG Require Node.ResetPages.
Open Scope N_scope.

(* observed values: payloads are opaque *)
Inductive aval := APrefix (p : bool) | ANum (n : N) | AHdr | ABlk | AStage (reset : bool) (s : N) | AAny.
Definition awrite := (key * option aval)%type.
Definition obatch := (bool * list awrite)%type.     (* gc?, writes *)

Inductive rres := ROk (h hh : N) | RBroken | RStuck | RFail.

Inductive case :=
| CPersist (gc : bool) (ntx : list N) (ops : list op) (obs : list obatch) (recov : list rres)
| CReset (keep init : bool) (ntx : list N) (c hh h : N) (p : bool) (obs : list obatch) (recov : list rres)
| CResetOrd (keep init : bool) (ntx : list N) (c hh h : N) (p : bool) (obs : list obatch) (who : list bool)
            (flags : list (bool * bool)) (recov : list rres)
      (* Reset on a slow store: the writes in the order they reached the store; who: issued directly by Reset's
         goroutine?; flags per prefix: (reset marker on disk?, database equal to the pre-reset one?) *)
| CCache (ntx : list N) (snaps : list (list op * list awrite))
      (* stepping the shared write cache: per instant (before every single write to the cache during a block
         addition, and at its end) the model operations completed by then and the content of the cache - what a
         flush starting at that instant would write *)
| CJump (jor : bool) (p top mtb : N) (obs : list obatch) (recov : list rres)
| CStorageSync (race : bool) (obs : list (bool * bool * bool)) (recov : list rres)
      (* contract-storage-based synchronisation: per batch (carries a checkpoint?, contract storage items?, trie
         nodes?); outcome of re-opening + resuming every prefix *)
| CLongGC (ps gcp mtb : N) (fl : list (N * bool)) (obs : list (list (N * N) * list (N * N)))
          (kinds : list N) (recov : list rres)
| CResetPages (ps c h : N) (pages : list N)
      (* Reset(h) of a long chain: the header-hash pages (index of the first hash) the database holds afterwards *)
| CBackend (failed : bool) (eff : N) (applied : list N).
      (* one PutChangeSet on a persistent backend: eff = keys whose value the change set changes; applied = after
         every backend commit seen while it ran (for a call that returned an error: in the state it left behind) how
         many of them hold the new value *)
      (* long chain: per flush (persisted height, with GC?) - which block records the flushed batch deletes and
         which header-hash pages the GC after it deletes; kinds of all batches (0 put, 1 gc, 2 gc of pages);
         outcome of re-opening every prefix *)

(* ---- instantiation: the state after block i is "i" ---- *)
Definition Sx := N. Definition Rx := N.
Definition xexec (_ : Sx) (i : N) : Sx := i.
Definition xroot (s : Sx) : Rx := s.
Definition xntx (l : list N) (i : N) : N := nth (N.to_nat i) l 0.
Definition xPS := 2000.
Definition xgcp := 2. Definition xmtb := 6.
Definition xgcset (_ : N) : list N := [0].

Notation xval := (val Sx Rx).
Notation xbatch := (batch Sx Rx).
Notation xdb := (db Sx Rx).

(* ---- abstraction of model batches ---- *)
Definition abs_key (k : key) : key :=
  match k with KMpt _ => KMpt 0 | KXfer _ => KXfer 0 | _ => k end.
Definition is_class (k : key) : bool :=
  match k with KMpt _ | KXfer _ => true | _ => false end.
Definition abs_val (v : xval) : aval :=
  match v with
  | VPrefix p => APrefix p | VNum n => ANum n | VHdr => AHdr | VBlk => ABlk
  | VStage r s => AStage r s | _ => AAny
  end.
Definition abs_write (w : key * option xval) : awrite := (abs_key (fst w), option_map abs_val (snd w)).

Definition aval_eqb (a b : aval) : bool :=
  match a, b with
  | APrefix p, APrefix q => Bool.eqb p q
  | ANum n, ANum m => n =? m
  | AHdr, AHdr | ABlk, ABlk | AAny, AAny => true
  | AStage r s, AStage r' s' => Bool.eqb r r' && (s =? s')
  | _, _ => false
  end.
Definition awrite_eqb (a b : awrite) : bool :=
  key_eqb (fst a) (fst b) && option_eqb aval_eqb (snd a) (snd b).

(* last write to k in a batch given in writing order; for merged classes a put anywhere wins *)
Fixpoint last_write (l : list awrite) (k : key) (acc : option (option aval)) : option (option aval) :=
  match l with
  | [] => acc
  | (k', v) :: t =>
      if key_eqb k k' then
        last_write t k (if is_class k then
                          match acc, v with
                          | Some (Some x), _ => Some (Some x)
                          | _, _ => Some v
                          end
                        else Some v)
      else last_write t k acc
  end.
Fixpoint dedup_keys (l : list key) : list key :=
  match l with
  | [] => []
  | k :: t => if existsb (key_eqb k) t then dedup_keys t else k :: dedup_keys t
  end.
Definition norm (b : xbatch) : list awrite :=
  let ws := map abs_write b in
  map (fun k => (k, match last_write ws k None with Some v => v | None => None end))
      (dedup_keys (map fst ws)).

Definition subset (a b : list awrite) : bool := forallb (fun w => existsb (awrite_eqb w) b) a.
Definition same (a b : list awrite) : bool := subset a b && subset b a.

Definition is_gc_batch (b : xbatch) : bool :=
  forallb (fun w => is_class (fst w) && match snd w with None => true | _ => false end) b.

(* ---- persist ---- *)
(* walk predicted and observed batches together; predicted GC batches that deleted nothing are not
   observed.  Returns, per observed batch, how many predicted batches are behind it. *)
Fixpoint align (pred : list xbatch) (obs : list obatch) (done : nat) : option (list nat) :=
  match pred with
  | [] => match obs with [] => Some [] | _ => None end
  | p :: ps =>
      match obs with
      | (g, o) :: os =>
          if Bool.eqb g (is_gc_batch p) && same (norm p) o then
            match align ps os (S done) with
            | Some r => Some (S done :: r)
            | None => if is_gc_batch p then align ps obs (S done) else None
            end
          else if is_gc_batch p then align ps obs (S done) else None
      | [] => if is_gc_batch p then align ps obs (S done) else None
      end
  end.

Definition rres_eqb (a b : rres) : bool :=
  match a, b with
  | ROk h hh, ROk h' hh' => (h =? h') && (hh =? hh')
  | RBroken, RBroken | RStuck, RStuck | RFail, RFail => true
  | _, _ => false
  end.

Definition rec_res (r : recovered Sx Rx) : rres :=
  match r with
  | RNode n => ROk (height n) (hheight n)
  | RResume _ _ _ _ => RBroken
  | Crash.RFail => RFail
  end.

Fixpoint mono (l : list rres) (prev : N) : bool :=
  match l with
  | [] => true
  | ROk h hh :: t => (prev <=? h) && (h <=? hh) && mono t h
  | _ => false
  end.

Definition check_persist gc ntx ops (obs : list obatch) (recov : list rres) : N :=
  let '(_, pred) := run Sx Rx xexec xroot (xntx ntx) xPS gc xgcp xmtb xgcset
                        (fresh Sx Rx xroot 0 (xntx ntx)) ops in
  let m :=
    match align pred obs 0 with
    | Some al =>
        list_eqb rres_eqb recov
          (map (fun j => rec_res (recover Sx Rx xroot 0 (xntx ntx) xPS 0 (crash pred j))) (O :: al))
    | None => false
    end in
  code_of m (mono recov 0 && (length recov =? S (length obs))%nat).

(* ---- reset ---- *)
Definition out_res (o : outcome Sx Rx) : rres :=
  match o with
  | Up n => ROk (height n) (hheight n)
  | Broken _ => RBroken
  | Stuck _ => RStuck
  | Fail => RFail
  end.

Definition stage_of (o : list awrite) : option (option aval) := last_write o KStage None.

(* observed batches may merge consecutive logical batches (Reset flushes from a helper goroutine), and the
   SeekGC commit may overtake the flush of the transfersReset stage *)
Definition is_tr32 (x : obatch) : bool :=
  negb (fst x) && match stage_of (snd x) with Some (Some (AStage true 32)) => true | _ => false end.
Fixpoint gc_overtook (obs : list obatch) : bool :=
  match obs with
  | x :: t => match t with y :: _ => (fst x && is_tr32 y) || gc_overtook t | [] => false end
  | [] => false
  end.
(* the logical order in that run: SeekGC commit before the transfersReset batch (they commute) *)
Definition swap45 {A} (l : list A) : list A :=
  match l with
  | a :: b :: c :: d :: e :: f :: t => a :: b :: c :: d :: f :: e :: t
  | _ => l
  end.

(* greedy: merge predicted batches until they equal the observed one *)
Fixpoint eat (fuel : nat) (acc : xbatch) (pred : list xbatch) (o : list awrite) (n : nat)
  : option (list xbatch * nat) :=
  match fuel with
  | O => None
  | S f =>
      match pred with
      | [] => None
      | p :: ps =>
          let acc' := acc ++ p in
          if same (norm acc') o then Some (ps, S n) else eat f acc' ps o (S n)
      end
  end.
Fixpoint coarsen (pred : list xbatch) (obs : list obatch) (done : nat) : option (list nat) :=
  match obs with
  | [] => match pred with [] => Some [] | _ => None end
  | (_, o) :: os =>
      match eat 8 [] pred o done with
      | Some (ps, d) => match coarsen ps os d with Some r => Some (d :: r) | None => None end
      | None => None
      end
  end.

Definition base_db (ntx : list N) (c hh : N) : xdb :=
  let '(n, _) := run Sx Rx xexec xroot (xntx ntx) xPS false xgcp xmtb xgcset
                     (fresh Sx Rx xroot 0 (xntx ntx))
                     (repeat OBlk (N.to_nat c) ++ [OHdr (hh - c); OFlush]) in
  disk n.

Definition xboot (fx : fixes) (ntx : list N) (trusted mtb : N) :=
  boot Sx Rx xroot 0 (xntx ntx) xPS trusted (fun r => r) fx (fun _ _ => true) mtb (fun p => p).

Definition check_reset keep init ntx c hh h (p : bool) (obs : list obatch) (recov : list rres) : N :=
  let fx := mkFixes keep init true in
  let d := base_db ntx c hh in
  let pred0 := reset_batches Sx Rx (xntx ntx) xPS (fun r => r) fx h c hh 1 d in
  let pred := if gc_overtook obs then swap45 pred0 else pred0 in
  let m :=
    match coarsen pred obs 0 with
    | Some al =>
        list_eqb rres_eqb recov
          (map (fun j => out_res (xboot fx ntx 0 xmtb (apply_all d (firstn j pred)))) (O :: al))
    | None => false
    end in
  let spec :=
    match recov with
    | r0 :: rest => rres_eqb r0 (ROk c hh) && forallb (rres_eqb (ROk h h)) rest
    | [] => false
    end in
  code_of m spec.

Fixpoint all2 {A B} (f : A -> B -> bool) (a : list A) (b : list B) : bool :=
  match a, b with
  | [], [] => true
  | x :: a', y :: b' => f x y && all2 f a' b'
  | _, _ => false
  end.

(* ---- the shared write cache between two writes ---- *)
Definition a_blk (i : N) (w : awrite) : bool := match w with (KExec j, Some ABlk) => i =? j | _ => false end.
Definition a_root (i : N) (w : awrite) : bool := match w with (KRoot j, Some _) => i =? j | _ => false end.
Definition a_state (w : awrite) : bool := match w with (KState _, Some _) | (KMpt _, Some _) => true | _ => false end.
Definition a_indices (o : list awrite) : list N :=
  flat_map (fun w : awrite => match fst w with KExec j | KRoot j => [j] | _ => [] end) o.
(* block record i <=> state root i; the tip pointer only with its block; storage / trie nodes only with a block *)
Definition aligned_a (o : list awrite) : bool :=
  forallb (fun i => Bool.eqb (existsb (a_blk i) o) (existsb (a_root i) o)) (a_indices o) &&
  forallb (fun w : awrite => match w with (KCurBlock, Some (ANum j)) => existsb (a_blk j) o | _ => true end) o &&
  (negb (existsb a_state o) || negb (forallb (fun i => negb (existsb (a_blk i) o)) (a_indices o))).
Definition check_cache (ntx : list N) (snaps : list (list op * list awrite)) : N :=
  let m := forallb (fun so : list op * list awrite =>
              let '(n, _) := run Sx Rx xexec xroot (xntx ntx) xPS false xgcp xmtb xgcset
                                 (fresh Sx Rx xroot 0 (xntx ntx)) (fst so) in
              same (norm (cache n)) (snd so)) snaps in
  code_of m (forallb (fun so : list op * list awrite => aligned_a (snd so)) snaps).

(* ---- reset on a slow store: the order of the two writers ---- *)
(* start-up needs the contract storage of the current prefix (native caches are read from it) *)
Definition boot_s (fx : fixes) (ntx : list N) (x : xdb) : rres :=
  match xboot fx ntx 0 xmtb x with
  | Up n => if present (disk n) (KState (cur_prefix (disk n))) then ROk (height n) (hheight n) else RFail
  | o => out_res o
  end.

Fixpoint find_order (pred0 : list xbatch) (obs : list obatch) (js : list nat) : option (nat * list nat) :=
  match js with
  | [] => None
  | j :: t => match coarsen (reset_order pred0 j) obs 0 with
              | Some al => Some (j, al)
              | None => find_order pred0 obs t
              end
  end.

Definition check_reset_ord keep init ntx c hh h (p : bool) (obs : list obatch) (who : list bool)
           (flags : list (bool * bool)) (recov : list rres) : N :=
  let fx := mkFixes keep init true in
  let d := base_db ntx c hh in
  let pred0 := reset_batches Sx Rx (xntx ntx) xPS (fun r => r) fx h c hh 1 d in
  let m :=
    match find_order pred0 obs [5; 4; 3; 2; 1; 0]%nat with
    | Some (j, al) =>
        reset_admissible 0 j &&                                   (* an order the unbuffered hand-over lets_in *)
        all2 (fun (w : bool) (o : obatch) => Bool.eqb w (fst o)) who obs &&   (* the direct write is the collection *)
        list_eqb rres_eqb recov
          (map (fun i => boot_s fx ntx (apply_all d (firstn i (reset_order pred0 j)))) (O :: al))
    | None => false
    end in
  let spec :=
    match recov with
    | r0 :: rest => rres_eqb r0 (ROk c hh) && forallb (rres_eqb (ROk h h)) rest
    | [] => false
    end &&
    (length flags =? S (length obs))%nat &&
    forallb (fun f => fst f || snd f) (removelast flags) in
  code_of m spec.

(* ---- jump ---- *)
(* a light node that has fetched headers (trusted..top], the state of p under the other prefix and the
   blocks (p-mtb, p], and has not jumped yet *)
Definition jump_db (p top mtb trusted : N) : xdb :=
  apply []
    ([(KVersion, Some (VPrefix false)); (KCurBlock, Some (VNum 0)); (KCurHeader, Some (VNum top));
      (KExec 0, Some VBlk); (KRoot 0, Some (VRoot 0)); (KState false, Some (VSt 0));
      (KXfer 0, Some VUnit); (KSyncPoint, Some (VNum p)); (KSyncHeight, Some (VNum p));
      (KState true, Some (VSt p))] ++
     map (fun i => (KExec i, Some VHdr)) (irange trusted top) ++
     map (fun i => (KExec i, Some VBlk)) (irange (p - mtb) p)).

Definition check_jump (jor : bool) p top mtb (obs : list obatch) (recov : list rres) : N :=
  let fx := mkFixes true true jor in
  let trusted := p - 2 * mtb + 2 in
  let d := jump_db p top mtb trusted in
  let pred := jump_batches Sx Rx (fun _ => 0) p mtb p 1 d in
  let m :=
    all2 (fun (a : xbatch) (b : obatch) => negb (fst b) && same (norm a) (snd b)) pred obs &&
    list_eqb rres_eqb recov
      (map (fun j => out_res (xboot fx [] trusted mtb (apply_all d (firstn j pred)))) (seq 0 (S (length pred)))) in
  code_of m (forallb (rres_eqb (ROk p top)) recov).

(* ---- long chains: removal of untraceable blocks and header-hash pages ---- *)
Definition range_eqb (a b : N * N) : bool := (fst a =? fst b) && (snd a =? snd b).
Definition obs_eqb (a b : list (N * N) * list (N * N)) : bool :=
  list_eqb range_eqb (fst a) (fst b) && list_eqb range_eqb (snd a) (snd b).

(* walk the batches: a put batch moves to the next flush height, a page batch removes that flush's pages *)
Fixpoint long_recov (ps : N) (kinds : list N) (fl : list (N * bool)) (plan : list (list (N * N) * list (N * N)))
         (h : N) (cur_pages : list (N * N)) (deleted : option N) : list rres :=
  let res := fun h del =>
    let stored := stored_count ps h in
    match del with
    | Some till => if (ps <=? stored) && (stored - ps <=? till) then RFail else ROk h h
    | None => ROk h h
    end in
  match kinds with
  | [] => []
  | k :: t =>
      if k =? 0 then
        match fl, plan with
        | (new, _) :: fl', (_, pg) :: plan' => res new deleted :: long_recov ps t fl' plan' new pg deleted
        | _, _ => [RBroken]
        end
      else if k =? 2 then
        let del := match rev cur_pages with (p, _) :: _ => Some p | [] => deleted end in
        res h del :: long_recov ps t fl plan h cur_pages del
      else res h deleted :: long_recov ps t fl plan h cur_pages deleted
  end.

Definition check_long ps gcp mtb fl obs kinds (recov : list rres) : N :=
  let agree keep :=
    let plan := gc_plan ps gcp mtb keep fl 0 0 0 [] in
    list_eqb obs_eqb plan obs &&
    list_eqb rres_eqb recov (ROk 0 0 :: long_recov ps kinds fl plan 0 [] None) in
  code_of (agree false || agree true) (forallb (fun r => match r with ROk _ _ => true | _ => false end) recov).

(* ---- contract-storage-based synchronisation ---- *)
(* mechanism: from the first checkpoint on, temporary storage items never travel without the checkpoint of their
   batch; specification: every prefix resumes to a node that is up *)
Fixpoint ss_atomic (seen : bool) (obs : list (bool * bool * bool)) : bool :=
  match obs with
  | [] => true
  | (ck, items, _) :: t => (negb seen || negb items || ck) && ss_atomic (seen || ck) t
  end.
Definition check_storage_sync (obs : list (bool * bool * bool)) (recov : list rres) : N :=
  let m := ss_atomic false obs in
  code_of m (m && forallb (fun r => match r with ROk _ _ => true | _ => false end) recov).

(* Node/Backend.v: an atomic backend shows one durable state per change set, with all of it ([atomic_counts]); a call
   that fails commits nothing *)
Definition check_backend (failed : bool) (eff : N) (applied : list N) : N :=
  let want := if failed then [0] else [eff] in
  let m := list_eqb N.eqb applied want in
  code_of m (forallb (fun a => (a =? 0) || ((a =? eff) && negb failed)) applied).

Definition check_case (c : case) : N :=
  match c with
  | CPersist gc ntx ops obs recov => check_persist gc ntx ops obs recov
  | CReset keep init ntx c hh h p obs recov => check_reset keep init ntx c hh h p obs recov
  | CResetOrd keep init ntx c hh h p obs who flags recov => check_reset_ord keep init ntx c hh h p obs who flags recov
  | CCache ntx snaps => check_cache ntx snaps
  | CJump jor p top mtb obs recov => check_jump jor p top mtb obs recov
  | CLongGC ps gcp mtb fl obs kinds recov => check_long ps gcp mtb fl obs kinds recov
  | CStorageSync _ obs recov => check_storage_sync obs recov
  | CBackend failed eff applied => check_backend failed eff applied
  | CResetPages ps c h pages =>
      let m := list_eqb N.eqb pages (ResetPages.pages_after ps h) in
      code_of m (match ResetPages.previous ps h with Some f => existsb (N.eqb f) pages | None => true end)
  end.
