(* Correspondence cases for C08: an operation sequence run on the real mempool.Pool, with what was
   observed through the public API after every operation; compared with the model (Mempool/Model.v)
   and checked against the specification (the property's own text) evaluated on the observations. *)
From NG Require Import Common.Tactics Common.HarnessLib.
From NG Require Export Mempool.Model Mempool.Spec.
Open Scope N_scope.

Inductive hop :=
| HAdd (i : nat)                      (* Add (universe transaction i) *)
| HRemove (h : N)                     (* Remove (hash) *)
| HVerify (i : nat)                   (* Verify *)
| HHas (i : nat)                      (* HasConflicts (pure probe) *)
| HStale (stale : list N) (bal : list (payer * N)) (fpb : N) (height : N)
    (* RemoveStale with isOK = "not in stale" and new Feer answers, among them the block height *)
| HSetResend (threshold : N).         (* SetResendThreshold with a callback recording what is resent *)

Inductive hres := HOk | HErr (e : err) | HBool (b : bool) | HPanic
| HResent (l : list N).   (* RemoveStale returned; the callback received these transactions, in this order *)

(* one step: operation, result, GetVerifiedTransactions as ids, universe ids for which ContainsKey holds *)
Definition hstep := (hop * hres * list N * list N)%type.

(* an observation made by a reader goroutine in ONE read-lock region between two operations' regions:
   (had the balances of the concurrent RemoveStale come into force?, listed ids, ids in the hash map) *)
Definition hobs := (bool * list N * list N)%type.

Inductive case :=
| CSeq (capacity : nat) (U : list tx) (bal0 : list (payer * N)) (steps : list hstep)
| CConc (capacity : nat) (U : list tx) (bal0 : list (payer * N)) (steps : list hstep)
        (ops : list (hop * hres)) (obs : list hobs) (ids keys : list N).
    (* after the sequential prefix [steps], the operations [ops] were issued by one goroutine each under a forced
       interleaving; each returned what is given; [obs] = what readers queued behind the write regions saw, in
       real-time order; [ids]/[keys] = the getters after all had returned *)

Definition dummy_tx : tx := mkTx 0 [] 0 0 1 false [] None.
Definition utx (U : list tx) (i : nat) : tx := nth i U dummy_tx.
Definition bal_of (l : list (payer * N)) (p : payer) : N :=
  match mget payer_eqb p l with Some b => b | None => 0 end.
Definition isok_of (stale : list N) (t : tx) : bool := negb (existsb (N.eqb (tid t)) stale).
Definition mem (x : N) (l : list N) : bool := existsb (N.eqb x) l.
Definition nlist_eqb := list_eqb N.eqb.

Definition res_eqb (r : res) (h : hres) : bool :=
  match r, h with
  | ROk, HOk => true
  | RErr a, HErr b =>
      match a, b with
      | EDup, EDup | EInsufficient, EInsufficient | EConflict, EConflict
      | EConflictsAttr, EConflictsAttr | EOracle, EOracle | EOOM, EOOM => true
      | _, _ => false
      end
  | RBool a, HBool b => Bool.eqb a b
  | RPanic, HPanic => true
  | _, _ => false
  end.

(* ---------- the mechanism model replayed ---------- *)
Definition obs_ids (s : pool) : list N := map tid (vtxs s).
Definition obs_keys (U : list tx) (s : pool) : list N :=
  map tid (filter (fun t => match mget N.eqb (tid t) (vmap s) with Some _ => true | None => false end) U).

(* replay state: the model's run state (pool, Feer, stamps, threshold) and the current block height *)
Fixpoint replay (c : cfg) (U : list tx) (rs : rstate) (height : N) (steps : list hstep) : bool :=
  match steps with
  | [] => true
  | (o, r, ids, keys) :: rest =>
      let '(mr, resent, rs', height') :=
        match o with
        | HAdd i => let '(x, y) := rstep c rs (RO (OAdd (utx U i)) height) in (fst x, snd x, y, height)
        | HRemove h => let '(x, y) := rstep c rs (RO (ORemove h) height) in (fst x, snd x, y, height)
        | HVerify i => let '(x, y) := rstep c rs (RO (OVerify (utx U i)) height) in (fst x, snd x, y, height)
        | HHas i => (RBool (has_conflicts (st_pool (r_st rs)) (utx U i)), [], rs, height)
        | HStale stale bal fpb h =>
            let '(x, y) := rstep c rs (RO (OStale (isok_of stale) (bal_of bal) fpb) h) in (fst x, snd x, y, h)
        | HSetResend t => let '(x, y) := rstep c rs (RSetResend t) in (fst x, snd x, y, height)
        end in
      match r with
      | HResent l => (match mr with ROk => true | _ => false end) && nlist_eqb (map tid resent) l
      | _ => res_eqb mr r
      end &&
      match r with
      | HPanic => true                  (* the pool is unusable afterwards; nothing more was observed *)
      | _ => nlist_eqb (obs_ids (st_pool (r_st rs'))) ids && nlist_eqb (obs_keys U (st_pool (r_st rs'))) keys
             && replay c U rs' height' rest
      end
  end.

(* one operation on the model; the same as one iteration of [replay] *)
Definition hop_step (c : cfg) (U : list tx) (rs : rstate) (height : N) (o : hop) : res * list tx * rstate * N :=
  match o with
  | HAdd i => let '(x, y) := rstep c rs (RO (OAdd (utx U i)) height) in (fst x, snd x, y, height)
  | HRemove h => let '(x, y) := rstep c rs (RO (ORemove h) height) in (fst x, snd x, y, height)
  | HVerify i => let '(x, y) := rstep c rs (RO (OVerify (utx U i)) height) in (fst x, snd x, y, height)
  | HHas i => (RBool (has_conflicts (st_pool (r_st rs)) (utx U i)), [], rs, height)
  | HStale stale bal fpb h =>
      let '(x, y) := rstep c rs (RO (OStale (isok_of stale) (bal_of bal) fpb) h) in (fst x, snd x, y, h)
  | HSetResend t => let '(x, y) := rstep c rs (RSetResend t) in (fst x, snd x, y, height)
  end.

(* the model state after a sequence of steps (the results are checked by [replay]) *)
Fixpoint replay_state (c : cfg) (U : list tx) (rs : rstate) (height : N) (steps : list hstep) : rstate * N :=
  match steps with
  | [] => (rs, height)
  | (o, _, _, _) :: rest => let '(_, _, rs', height') := hop_step c U rs height o in replay_state c U rs' height' rest
  end.

Definition hres_ok (mr : res) (resent : list tx) (r : hres) : bool :=
  match r with
  | HResent l => (match mr with ROk => true | _ => false end) && nlist_eqb (map tid resent) l
  | _ => res_eqb mr r
  end.

(* the operations one after another in the given order: None if some result differs from what the goroutine got,
   else the model states after each of them *)
Fixpoint lin_run (c : cfg) (U : list tx) (rs : rstate) (height : N) (ops : list (hop * hres)) : option (list rstate) :=
  match ops with
  | [] => Some []
  | (o, r) :: rest =>
      let '(mr, resent, rs', height') := hop_step c U rs height o in
      if hres_ok mr resent r then
        match lin_run c U rs' height' rest with Some l => Some (rs' :: l) | None => None end
      else None
  end.

Definition state_matches (U : list tx) (ids keys : list N) (rs : rstate) : bool :=
  nlist_eqb (obs_ids (st_pool (r_st rs))) ids && nlist_eqb (obs_keys U (st_pool (r_st rs))) keys.

Fixpoint seek_state (m : rstate -> bool) (states : list rstate) : option (list rstate) :=
  match states with
  | [] => None
  | s :: ss => if m s then Some states else seek_state m ss
  end.
(* the observations, in order, are states of the run at non-decreasing positions *)
Fixpoint obs_embed (U : list tx) (states : list rstate) (obs : list hobs) : bool :=
  match obs with
  | [] => true
  | (_, ids, keys) :: r =>
      match seek_state (state_matches U ids keys) states with
      | None => false
      | Some st' => obs_embed U st' r
      end
  end.

Fixpoint insert_all {A} (x : A) (l : list A) : list (list A) :=
  match l with
  | [] => [[x]]
  | y :: r => (x :: l) :: map (cons y) (insert_all x r)
  end.
Fixpoint perms {A} (l : list A) : list (list A) :=
  match l with
  | [] => [[]]
  | x :: r => flat_map (insert_all x) (perms r)
  end.

(* linearizable: for SOME order of the operations the model, run sequentially from the state after the prefix,
   gives every goroutine the result it got, passes through the observed states in order and ends in the final one *)
Definition linearizable (c : cfg) (U : list tx) (rs : rstate) (height : N) (ops : list (hop * hres))
           (obs : list hobs) (ids keys : list N) : bool :=
  existsb (fun order =>
             match lin_run c U rs height order with
             | None => false
             | Some states =>
                 state_matches U ids keys (last states rs) && obs_embed U (rs :: states) obs
             end) (perms ops).

(* F4 and F5 are repaired in /repo (commits 09a5b3f, aaf50e5): only the repaired mechanism is recognised.
   (While they were open the three legacy variants of [cfg] were accepted here as well, so that the harmless
   manifestation of F5 - a wrong refusal after a uint256 underflow - was not reported as model drift.) *)
(* F57 (RemoveStale stores the fee per byte whether it rose or fell) is a second accepted behaviour of the repaired
   code: a case agrees with the model when ONE of the two explains the whole case - every step of it. *)
Definition all_cfgs : list cfg := [fixed_cfg; repaired true].

(* ---------- the specification on the observations ---------- *)
Definition by_id (U : list tx) (h : N) : tx := utx U (N.to_nat h).   (* universe ids are the indices *)

Fixpoint nodupb (l : list N) : bool :=
  match l with [] => true | x :: r => negb (mem x r) && nodupb r end.

Fixpoint sortedb (l : list tx) : bool :=
  match l with
  | [] => true
  | a :: r => forallb (fun b => (0 <=? cmp a b)%Z) r && sortedb r
  end.

(* [sum_fees] is the definition the theorems use (Mempool/Spec.v) *)

Definition conflicts_with (a b : tx) : bool := mem (tid a) (confl b) || mem (tid b) (confl a).
Definition same_oracle (a b : tx) : bool :=
  match oracle a, oracle b with Some x, Some y => x =? y | _, _ => false end.

Fixpoint pairwise (f : tx -> tx -> bool) (l : list tx) : bool :=
  match l with
  | [] => true
  | a :: r => forallb (fun b => f a b) r && pairwise f r
  end.

(* the invariant of the property text, on what the public getters return *)
Definition obs_inv (U : list tx) (capacity : nat) (bal : payer -> N) (ids keys : list N) : bool :=
  let l := map (by_id U) ids in
  forallb (fun h => (N.to_nat h <? length U)%nat) ids
  && nodupb ids
  && forallb (fun k => mem k ids) keys && forallb (fun k => mem k keys) ids && nodupb keys   (* slice and map agree *)
  && (length ids <=? capacity)%nat
  && sortedb l
  && forallb (fun e => sum_fees (payer_of e) l <=? bal (payer_of e)) l
  && pairwise (fun a b => negb (conflicts_with a b)) l
  && pairwise (fun a b => negb (same_oracle a b)) l.

(* HasConflicts as documented *)
Definition has_conflicts_spec (U : list tx) (ids : list N) (t : tx) : bool :=
  mem (tid t) ids
  || existsb (fun h => mem (tid t) (confl (by_id U h))) ids
  || existsb (fun h => mem h ids) (confl t).

Fixpoint sublistb (a b : list N) : bool :=       (* a is a subsequence of b *)
  match a, b with
  | [], _ => true
  | _ :: _, [] => false
  | x :: a', y :: b' => if x =? y then sublistb a' b' else sublistb a b'
  end.

(* a successful Add removes only: transactions in conflict with the newcomer, the oracle response it
   replaces, and at most the lowest-priority entry of a full pool, which the newcomer strictly beats *)
Definition add_ok_spec (U : list tx) (capacity : nat) (t : tx) (prev ids : list N) : bool :=
  mem (tid t) ids
  && forallb (fun h => mem h prev || (h =? tid t)) ids
  && sublistb (filter (fun h => negb (h =? tid t)) ids) prev
  && let gone := filter (fun h => negb (mem h ids)) prev in
     let extra := filter (fun h => negb (conflicts_with (by_id U h) t || same_oracle (by_id U h) t)) gone in
     match extra with
     | [] => true
     | [h] => (length ids =? capacity)%nat                                   (* only a full pool evicts *)
              && (h =? last (filter (fun x => mem x ids || (x =? h)) prev) h)   (* the last = lowest-priority entry *)
              && (0 <? cmp t (by_id U h))%Z                                    (* which the newcomer strictly beats *)
     | _ => false
     end.

(* [height], [stamps] (hash -> height of its last successful Add) and [thr] are what the harness itself set *)
Fixpoint spec_steps (U : list tx) (capacity : nat) (bal : payer -> N) (prev pkeys : list N)
         (height : N) (stamps : list (N * N)) (thr : N) (steps : list hstep) : bool :=
  match steps with
  | [] => true
  | (o, r, ids, keys) :: rest =>
      match r with
      | HPanic => false
      | _ =>
          let bal' := match o with HStale _ b _ _ => bal_of b | _ => bal end in
          let height' := match o with HStale _ _ _ h => h | _ => height end in
          let thr' := match o with HSetResend t => t | _ => thr end in
          let stamps' := match o, r with HAdd i, HOk => mset N.eqb (tid (utx U i)) height stamps | _, _ => stamps end in
          obs_inv U capacity bal' ids keys
          && match o, r with
             | HAdd i, HOk => add_ok_spec U capacity (utx U i) prev ids
             | HAdd i, HErr _ => nlist_eqb ids prev && nlist_eqb keys pkeys       (* a failed addition changes nothing *)
             | HAdd _, _ => false
             | HRemove h, HOk => nlist_eqb ids (filter (fun x => negb (x =? h)) prev)
             | HRemove _, _ => false
             | HVerify _, HBool _ => nlist_eqb ids prev && nlist_eqb keys pkeys
             | HVerify _, _ => false
             | HHas i, HBool b => nlist_eqb ids prev && nlist_eqb keys pkeys && Bool.eqb b (has_conflicts_spec U prev (utx U i))
             | HHas _, _ => false
             | HStale stale _ _ h, HResent l =>
                 sublistb ids prev && forallb (fun x => negb (mem x stale)) ids
                 (* resent: exactly the kept items whose age is threshold * 2^k, in pool order *)
                 && nlist_eqb l (filter (fun x => resend_due thr (h - match mget N.eqb x stamps with Some v => v | None => 0 end)) ids)
             | HStale _ _ _ _, _ => false
             | HSetResend _, HOk => nlist_eqb ids prev && nlist_eqb keys pkeys
             | HSetResend _, _ => false
             end
          && spec_steps U capacity bal' ids keys height' stamps' thr' rest
      end
  end.

(* well-formed case: universe ids are the indices, Conflicts name earlier or foreign ids only *)
Fixpoint wf_universe (i : N) (U : list tx) : bool :=
  match U with
  | [] => true
  | t :: r => (tid t =? i) && forallb (fun h => (h <? i) || (1000 <=? h)) (confl t)
              && nodupb (confl t) && nodupb (signers t) && negb (mem 0 (signers t))
              && match signers t with [] => false | s :: r' => negb (s =? notary) || negb (match r' with [] => true | _ => false end) end
              && negb (size t =? 0)
              && wf_universe (i + 1) r
  end.

Definition check_case (c : case) : N :=
  match c with
  | CSeq capacity U bal0 steps =>
      if wf_universe 0 U && (length U <? 1000)%nat then
        let st0 := mkR (mkState (new_pool capacity) (bal_of bal0)) [] 0 in
        let s := spec_steps U capacity (bal_of bal0) [] [] 0 [] 0 steps in
        let m := existsb (fun c => replay c U st0 0 steps) all_cfgs in
        code_of (m && s) s
      else 3
  | CConc capacity U bal0 steps ops obs ids keys =>
      if wf_universe 0 U && (length U <? 1000)%nat && (length ops <=? 4)%nat then
        let st0 := mkR (mkState (new_pool capacity) (bal_of bal0)) [] 0 in
        let pre_s := spec_steps U capacity (bal_of bal0) [] [] 0 [] 0 steps in
        let pre_m := fun c => replay c U st0 0 steps in
        (* the balances in force before / after the concurrent RemoveStale (if there is one) *)
        let bal_pre := fold_left (fun b st => match st with (HStale _ b' _ _, _, _, _) => bal_of b' | _ => b end) steps (bal_of bal0) in
        let bal_post := fold_left (fun b o => match o with (HStale _ b' _ _, _) => bal_of b' | _ => b end) ops bal_pre in
        let has_stale := existsb (fun o => match o with (HStale _ _ _ _, _) => true | _ => false end) ops in
        (* the property text on every observation: whenever a reader gets the lock, the invariant holds *)
        let s := pre_s
                 && forallb (fun o : hobs => let '(f, i, k) := o in obs_inv U capacity (if f then bal_post else bal_pre) i k) obs
                 && obs_inv U capacity (if has_stale then bal_post else bal_pre) ids keys
                 && forallb (fun o => match o with (_, HPanic) => false | _ => true end) ops in
        let m := existsb (fun c => pre_m c && let '(rs1, h1) := replay_state c U st0 0 steps in
                                               linearizable c U rs1 h1 ops obs ids keys) all_cfgs in
        code_of (m && s) s
      else 3
  end.
