(* Correspondence cases for C10: an operation history on the real mpt.Trie plus ONE observation of it,
   compared with (a) the mechanism model of Trie/Model.v run on the same history and (b) the
   specification evaluated on the plain key/value content of the history (an association list that
   never sees a trie).  Hashes are concrete: H := Common.Sha256.sha256 (itself compared with Go's
   crypto/sha256 by the CSha cases). *)
From NG Require Import Common.Tactics Common.HarnessLib Common.Sha256 Trie.Model Trie.Store.
Open Scope N_scope.

(* one step of a history; Flush / Collapse / reopen-from-store are HNop: they must not be observable *)
Inductive hop :=
| HPut (k v : bytes)
| HDel (k : bytes)
| HBatch (kv : list (bytes * option bytes))      (* in MapToMPTBatch order *)
| HNop.

Inductive case :=
| CRoot (ops : list hop) (errs : list bool) (impl : bytes)
| CGet (ops : list hop) (k : bytes) (impl : option bytes)
| CGets (ops : list hop) (impl : list (bytes * option bytes))   (* every key re-read after flush + collapse/reload, any storage mode *)
| CStore (ops : list hop) (rc : bool) (rootb : bytes) (dump : list (bytes * bytes))
    (* the node store (DataMPT records: hash, value) after the history and a final Flush; rc: reference-counting
       mode, the values carry 5 trailing bytes *)
| CFind (ops : list hop) (prefix from : bytes) (from_nil : bool) (maxn : N) (impl : list (bytes * bytes))
| CSeek (ops : list hop) (prefix start : bytes) (bw : bool) (impl : list (bytes * bytes))
| CProof (ops : list hop) (k : bytes) (impl : option (list bytes))
| CVerify (ops : list hop) (rootidx : N) (rh : bytes) (k : bytes) (proofs : list bytes) (genuine : bool) (impl : option bytes)
| CVerifyRaw (rh : bytes) (k : bytes) (proofs : list bytes) (impl : option bytes)
| CSha (msg : bytes) (impl : bytes).

Definition Hf := sha256.

(* long constant values are written compactly by the harness *)
Definition rep (b n : N) : bytes := repeat b (N.to_nat n).

(* ---------- mechanism model ---------- *)

Definition nib_kv (kv : list (bytes * option bytes)) : kvs := map (fun e => (to_nibbles (fst e), snd e)) kv.

Fixpoint strictly_sorted (l : list path) : bool :=
  match l with
  | a :: ((b :: _) as t) => match lex_cmp a b with Lt => strictly_sorted t | _ => false end
  | _ => true
  end.

Definition step (t : node) (o : hop) : node * bool :=
  match o with
  | HPut k v => match trie_put t k v with Some t' => (t', false) | None => (t, true) end
  | HDel k => match trie_delete t k with Some t' => (t', false) | None => (t, true) end
  | HBatch kv => (put_batch t (nib_kv kv), false)
  | HNop => (t, false)
  end.

Fixpoint exec (t : node) (ops : list hop) : node * list bool :=
  match ops with
  | [] => (t, [])
  | o :: r => let '(t', e) := step t o in let '(t'', es) := exec t' r in (t'', e :: es)
  end.

Definition wf_hop (o : hop) : bool :=
  match o with
  | HBatch kv => strictly_sorted (map fst (nib_kv kv))
  | _ => true
  end.

(* ---------- specification side: the content as a sorted association list ---------- *)

Definition alist := list (path * bytes).

Fixpoint ains (m : alist) (k : path) (v : bytes) : alist :=
  match m with
  | [] => [(k, v)]
  | (k', v') :: r =>
      match lex_cmp k k' with
      | Lt => (k, v) :: m
      | Eq => (k, v) :: r
      | Gt => (k', v') :: ains r k v
      end
  end.
Fixpoint adel (m : alist) (k : path) : alist :=
  match m with
  | [] => []
  | (k', v') :: r => if path_eqb k k' then r else (k', v') :: adel r k
  end.
Fixpoint aget (m : alist) (k : path) : option bytes :=
  match m with
  | [] => None
  | (k', v') :: r => if path_eqb k k' then Some v' else aget r k
  end.

Definition put_args_ok (k v : bytes) : bool :=
  negb (N.of_nat (length k) =? 0) && (N.of_nat (length k) <=? max_key_len) && (N.of_nat (length v) <=? max_value_len).

Definition sstep (m : alist) (o : hop) : alist * bool :=
  match o with
  | HPut k v => if put_args_ok k v then (ains m (to_nibbles k) v, false) else (m, true)
  | HDel k => if N.of_nat (length k) <=? max_key_len then (adel m (to_nibbles k), false) else (m, true)
  | HBatch kv =>
      (fold_left (fun m e => match snd e with Some v => ains m (to_nibbles (fst e)) v | None => adel m (to_nibbles (fst e)) end) kv m, false)
  | HNop => (m, false)
  end.
Fixpoint sexec (m : alist) (ops : list hop) : alist * list bool :=
  match ops with
  | [] => (m, [])
  | o :: r => let '(m', e) := sstep m o in let '(m'', es) := sexec m' r in (m'', e :: es)
  end.

(* the trie of a content: fresh trie, keys inserted in ascending order *)
Definition canon (m : alist) : node := fold_left (fun t e => put t (fst e) (snd e)) m Empty.

(* ---------- comparisons ---------- *)

Definition beqb := list_eqb N.eqb.
Definition obeqb := option_eqb beqb.
Definition kv_eqb (a b : bytes * bytes) : bool := beqb (fst a) (fst b) && beqb (snd a) (snd b).
Definition kvl_eqb := list_eqb kv_eqb.
Definition to_byte_kvs (l : list (path * bytes)) : list (bytes * bytes) := map (fun e => (from_nibbles (fst e), snd e)) l.

Definition path_eqb' := list_eqb Nat.eqb.
Fixpoint node_eqb (a b : node) : bool :=
  match a, b with
  | Empty, Empty => true
  | Leaf v, Leaf w => beqb v w
  | Ext k n, Ext k' n' => path_eqb' k k' && node_eqb n n'
  | Branch cs vc, Branch cs' vc' =>
      (fix go (l l' : list node) {struct l} : bool :=
         match l, l' with
         | [], [] => true
         | x :: r, y :: r' => node_eqb x y && go r r'
         | _, _ => false
         end) cs cs' && node_eqb vc vc'
  | HashRef h, HashRef h' => beqb h h'
  | _, _ => false
  end.

Definition check_case (c : case) : N :=
  match c with
  | CRoot ops errs impl =>
      if forallb wf_hop ops then
        let '(t, es) := exec Empty ops in
        let '(m, ses) := sexec [] ops in
        let me := list_eqb Bool.eqb es errs in
        let se := list_eqb Bool.eqb ses errs in
        code_of (me && beqb (root Hf t) impl) (se && beqb (root Hf (canon m)) impl)
      else 3
  | CGet ops k impl =>
      if forallb wf_hop ops then
        let '(t, _) := exec Empty ops in
        let '(m, _) := sexec [] ops in
        let s := if N.of_nat (length k) <=? max_key_len then aget m (to_nibbles k) else None in
        code_of (obeqb (trie_get t k) impl) (obeqb s impl)
      else 3
  | CGets ops impl =>
      (* the storage mode (All / Latest / GC) is not an input of the model: the answers cannot depend on it *)
      if forallb wf_hop ops then
        let '(t, _) := exec Empty ops in
        let '(m, _) := sexec [] ops in
        let rd (f : bytes -> option bytes) := forallb (fun e => obeqb (f (fst e)) (snd e)) impl in
        code_of (rd (trie_get t))
                (rd (fun k => if N.of_nat (length k) <=? max_key_len then aget m (to_nibbles k) else None))
      else 3
  | CStore ops rc rootb dump =>
      if forallb wf_hop ops then
        let '(t, _) := exec Empty ops in
        let '(m, _) := sexec [] ops in
        let fuel := (height t + 2)%nat in
        let r := match t with Empty => Empty | _ => HashRef rootb end in
        (* mechanism: the real store holds every node of the model trie under its hash with the model's encoding
           (Store.flush), and the model's lazy expansion over the REAL records rebuilds the model trie *)
        let stored_ok := if rc then true
                         else forallb (fun n => obeqb (store_lookup dump (hash Hf n)) (Some (enc Hf n))) (nodes t) in
        let expand_ok := match expand fuel dump r with Some t' => node_eqb t' t | None => false end in
        (* specification: every key of the content is readable through the stored records, nothing else is *)
        let reads_ok := forallb (fun e => obeqb (sget fuel dump r (fst e)) (Some (snd e))) m &&
                        Nat.eqb (length (straverse fuel dump r [] [] false)) (length m) in
        code_of (stored_ok && expand_ok && reads_ok) reads_ok
      else 3
  | CFind ops prefix from from_nil maxn impl =>
      if forallb wf_hop ops then
        let '(t, _) := exec Empty ops in
        let '(m, _) := sexec [] ops in
        let pp := to_nibbles prefix in
        let fp := to_nibbles from in
        let md := to_byte_kvs (trie_find t pp fp from_nil (N.to_nat maxn)) in
        let sel := range_query m pp fp false in
        let sel := if from_nil then sel else filter (fun e => negb (path_eqb (fst e) (pp ++ fp))) sel in
        code_of (kvl_eqb md impl) (kvl_eqb (to_byte_kvs (firstn (N.to_nat maxn) sel)) impl)
      else 3
  | CSeek ops prefix start bw impl =>
      if forallb wf_hop ops then
        let '(t, _) := exec Empty ops in
        let '(m, _) := sexec [] ops in
        let pp := to_nibbles prefix in
        let fp := to_nibbles start in
        code_of (kvl_eqb (to_byte_kvs (seek t pp fp bw)) impl) (kvl_eqb (to_byte_kvs (range_query m pp fp bw)) impl)
      else 3
  | CProof ops k impl =>
      if forallb wf_hop ops then
        let '(t, _) := exec Empty ops in
        let md := get_proof Hf t (to_nibbles k) in
        if option_eqb (list_eqb beqb) md impl then 0
        else
          (* specification: a proof exists exactly for the present keys, and it verifies against the root of the content *)
          let '(m, _) := sexec [] ops in
          match impl, aget m (to_nibbles k) with
          | Some pr, Some v => if obeqb (verify_proof Hf (root Hf (canon m)) (to_nibbles k) pr) (Some v) then 1 else 2
          | None, None => 1
          | _, _ => 2
          end
      else 3
  | CVerify ops rootidx rh k proofs genuine impl =>
      if forallb wf_hop ops then
        let ops' := firstn (N.to_nat rootidx) ops in
        let '(m, _) := sexec [] ops' in
        let md := verify_proof Hf rh (to_nibbles k) proofs in
        (* the root handed to VerifyProof is the root of the content after [rootidx] steps (the mechanism root is the
           business of the CRoot cases); soundness: a returned value is the one stored under that root;
           completeness for the genuine proof *)
        let s := beqb (root Hf (canon m)) rh &&
                 match impl with
                 | Some v => obeqb (aget m (to_nibbles k)) (Some v)
                 | None => negb genuine || match aget m (to_nibbles k) with None => true | Some _ => false end
                 end in
        code_of (obeqb md impl && s) s
      else 3
  | CVerifyRaw rh k proofs impl =>
      let md := verify_proof Hf rh (to_nibbles k) proofs in
      code_of (obeqb md impl) (obeqb md impl)
  | CSha msg impl =>
      let ok := beqb (sha256 msg) impl in code_of ok ok
  end.
