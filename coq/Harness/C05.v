(* Correspondence cases for C05: one case = one block history run on the real chain; after every block the dump of the
   NEO / GAS / Notary / Policy contract storage and the Transfer events are compared with the model run on the same
   transactions, and the property's clauses are evaluated on the dump itself. *)
From NG Require Import Common.Tactics Common.HarnessLib.
From NG Require Export Tokens.Model.
From NG Require Import Tokens.Inv Tokens.OpProofs Tokens.CfgCheck.
Open Scope Z_scope.

Record dump := mkDump {
  d_neo_total : Z; d_gas_total : Z; d_voters : Z;
  d_neo : list (N * (Z * Z * option N * Z));      (* account, (balance, height, vote, last gas per vote) *)
  d_gas : list (N * Z);
  d_cands : list (N * (bool * Z));
  d_gpv : list (N * Z);
  d_deps : list (N * (Z * Z));
  d_committee : list (N * Z);
  d_gpb : list (Z * Z);
  d_regprice : Z;
  d_blocked : list N
}.

(* what the implementation did in one block: the transactions, the Transfer events of the successful executions
   (OnPersist, transactions, PostPersist, in order), the dump at the end *)
Record blockrec := mkB { b_txs : list tx; b_events : list event; b_dump : dump }.

(* CDirect: a history on a chain WITHOUT Echidna (no notification limit; the model is of the Echidna rules): every clause
   was evaluated on the real chain by the harness (co.violation), nothing is left for the model to compare *)
Inductive case := CHist (cfg : config) (blocks : list blockrec) | CDirect (nops : Z).

(* ---------- canonical form of the model state ---------- *)
Fixpoint insert_by {V} (x : N * V) (l : list (N * V)) : list (N * V) :=
  match l with
  | [] => [x]
  | y :: t => if N.leb (fst x) (fst y) then x :: l else y :: insert_by x t
  end.
Definition sort_by {V} (l : list (N * V)) : list (N * V) := fold_right insert_by [] l.

Definition model_dump (st : state) : dump :=
  let l := L st in let a := A st in
  mkDump (l_neo_total l) (l_gas_total l) (l_voters l)
    (sort_by (map (fun '(k, x) => (k, (nbal x, nheight x, nvote x, nlgpv x))) (filter (fun '(_, x) => negb (nbal x =? 0)) (l_neo l))))
    (sort_by (filter (fun '(_, x) => negb (x =? 0)) (l_gas l)))
    (sort_by (map (fun '(k, c) => (k, (creg c, cvotes c))) (filter (fun '(_, c) => cpresent c) (l_cands l))))
    (sort_by (filter (fun '(_, x) => negb (x =? 0)) (s_gpv a)))
    (sort_by (map (fun '(k, d) => (k, (damt d, dtill d))) (filter (fun '(_, d) => dpresent d) (l_deps l))))
    (committee a) (rev (s_gpb a)) (s_regprice a) (s_blocked a).

(* ---------- equality of dumps ---------- *)
Definition opt_N_eqb' (a b : option N) : bool := option_eqb N.eqb a b.
Definition neo_ent_eqb (x y : N * (Z * Z * option N * Z)) : bool :=
  let '(k, (b, h, v, g)) := x in let '(k', (b', h', v', g')) := y in
  N.eqb k k' && (b =? b') && (h =? h') && opt_N_eqb' v v' && (g =? g').
Definition nz_eqb (x y : N * Z) : bool := N.eqb (fst x) (fst y) && (snd x =? snd y).
Definition zz_eqb (x y : Z * Z) : bool := (fst x =? fst y) && (snd x =? snd y).
Definition cand_ent_eqb (x y : N * (bool * Z)) : bool :=
  N.eqb (fst x) (fst y) && Bool.eqb (fst (snd x)) (fst (snd y)) && (snd (snd x) =? snd (snd y)).
Definition dep_ent_eqb (x y : N * (Z * Z)) : bool := N.eqb (fst x) (fst y) && zz_eqb (snd x) (snd y).

Definition dump_eqb (a b : dump) : bool :=
  (d_neo_total a =? d_neo_total b) && (d_gas_total a =? d_gas_total b) && (d_voters a =? d_voters b)
  && list_eqb neo_ent_eqb (d_neo a) (d_neo b)
  && list_eqb nz_eqb (d_gas a) (d_gas b)
  && list_eqb cand_ent_eqb (d_cands a) (d_cands b)
  && list_eqb nz_eqb (d_gpv a) (d_gpv b)
  && list_eqb dep_ent_eqb (d_deps a) (d_deps b)
  && list_eqb nz_eqb (d_committee a) (d_committee b)
  && list_eqb zz_eqb (d_gpb a) (d_gpb b)
  && (d_regprice a =? d_regprice b)
  && list_eqb N.eqb (d_blocked a) (d_blocked b).

Definition event_eqb (a b : event) : bool :=
  tok_eqb (etok a) (etok b) && opt_N_eqb' (efrom a) (efrom b) && opt_N_eqb' (eto a) (eto b) && (eamt a =? eamt b).

(* ---------- the property's clauses on a real dump (specification side) ---------- *)
Definition sumz {A} (f : A -> Z) (l : list A) : Z := fold_right (fun x s => f x + s) 0 l.

Definition dump_inv (cfg : config) (d : dump) : bool :=
  let neo_sum := sumz (fun '(_, (b, _, _, _)) => b) (d_neo d) in
  let gas_sum := sumz snd (d_gas d) in
  let voting := sumz (fun '(_, (b, _, v, _)) => match v with Some _ => b | None => 0 end) (d_neo d) in
  let votes_for k := sumz (fun '(_, (b, _, v, _)) => match v with Some k' => if N.eqb k k' then b else 0 | None => 0 end) (d_neo d) in
  (d_neo_total d =? 100000000) && (neo_sum =? d_neo_total d)
  && (gas_sum =? d_gas_total d)
  && (voting =? d_voters d)
  && forallb (fun '(k, (_, v)) => (v =? votes_for k) && (0 <=? v)) (d_cands d)
  && forallb (fun '(_, (b, _, v, _)) => (0 <=? b) && match v with Some k => existsb (fun c => N.eqb (fst c) k) (d_cands d) | None => true end) (d_neo d)
  && forallb (fun '(_, b) => 0 <=? b) (d_gas d)
  && forallb (fun '(_, (a, _)) => 0 <? a) (d_deps d)
  && (aget 0 (a_notary cfg) (d_gas d) =? sumz (fun '(_, (a, _)) => a) (d_deps d)).

(* events_match_deltas on the real data: balance change of every account over the block = net of the events *)
(* [ev_net] is the definition the theorem C05_events_match_deltas speaks about (Tokens/Inv.v) *)
Definition dump_bal (tk : token) (d : dump) (a : N) : Z :=
  match tk with
  | NEO => match aget (0, 0, None, 0) a (d_neo d) with (b, _, _, _) => b end
  | GAS => aget 0 a (d_gas d)
  end.

Definition accounts_of (d : dump) (evs : list event) : list N :=
  map fst (d_neo d) ++ map fst (d_gas d)
  ++ flat_map (fun e => match efrom e with Some x => [x] | None => [] end ++ match eto e with Some x => [x] | None => [] end) evs.

Definition deltas_ok (prev cur : dump) (evs : list event) : bool :=
  forallb (fun a =>
     (dump_bal NEO cur a - dump_bal NEO prev a =? ev_net NEO a evs)
     && (dump_bal GAS cur a - dump_bal GAS prev a =? ev_net GAS a evs))
    (accounts_of prev evs ++ accounts_of cur evs).

(* ---------- running the model beside the implementation ---------- *)
Definition res_eqb (a b : option bool) : bool := option_eqb Bool.eqb a b.

Definition tx_agrees (cfg : config) (st : state) (t : tx) : bool :=
  match run_op cfg st t with
  | Some (_, r) => i_halt t && (if i_halt t then res_eqb r (i_res t) else true)
  | None => negb (i_halt t)
  end.

(* the model's block with the per-transaction comparison: same pieces as [run_block] *)
Definition run_block_checked (cfg : config) (st : state) (txs : list tx) : option (bool * state) :=
  let st0 := withA st (set_height (A st) (height (A st) + 1)) in
  let st0 := withL st0 (set_events (L st0) []) in
  match natives_on_persist cfg (neo_on_persist cfg st0) txs with
  | None => None
  | Some st1 =>
      let '(okb, st2) := fold_left (fun '(okb, s) t => (okb && tx_agrees cfg s t, exec_tx cfg s t)) txs (true, st1) in
      match neo_post_persist cfg st2 with
      | None => None
      | Some st3 => Some (okb, st3)
      end
  end.

(* (model agrees, specification holds) over the whole history *)
Fixpoint check_blocks (cfg : config) (st : option state) (prev : option dump) (bs : list blockrec) : bool * bool :=
  match bs with
  | [] => (true, true)
  | b :: r =>
      let spec_here := dump_inv cfg (b_dump b)
                       && match prev with Some p => deltas_ok p (b_dump b) (b_events b) | None => true end in
      let '(model_here, st') :=
        match st with
        | None => (false, None)
        | Some s =>
            match run_block_checked cfg s (b_txs b) with
            | None => (false, None)
            | Some (okb, s') =>
                (okb && dump_eqb (model_dump s') (b_dump b)
                 && list_eqb event_eqb (rev (l_events (L s'))) (b_events b), Some s')
            end
        end in
      let '(m, s) := check_blocks cfg st' (Some (b_dump b)) r in
      (model_here && m, spec_here && s)
  end.

(* the hypotheses of the C05 theorems on the case itself: configuration well-formed, no script sees the witness of the
   Notary contract; a case outside them is malformed (code 3) *)
Definition hyps_ok (cfg : config) (blocks : list blockrec) : bool :=
  cfg_wf_b cfg && forallb (fun b => forallb (fun t => negb (N.eqb (t_wit cfg t) (a_notary cfg))) (b_txs b)) blocks.

Definition check_case (c : case) : N :=
  match c with
  | CHist cfg blocks =>
      if hyps_ok cfg blocks then
        let '(m, s) := check_blocks cfg (Some (genesis cfg)) None blocks in
        code_of m s
      else 3%N
  | CDirect _ => 0%N
  end.
