(* Correspondence cases for C16: what the implementation did, compared with the model (Auth/Flags.v over the generated
   tables, Auth/Permission.v) and with the specification (effects only under their flag; CanCall = declarative match). *)
From Coq Require Export String.
From NG Require Import Common.Tactics Common.HarnessLib Auth.Classify.
From NG Require Export Auth.TableTypes Auth.Flags Auth.Permission Auth.PermStore.
From NG Require Import gen.Interops gen.NativeMethods.
Open Scope N_scope.

Inductive case :=
(* a deployed proxy method, called by the entry script with requested flags f (so its frame has exactly f), executes
   system call [name] with working arguments.  gate_ok = the call was not refused for missing flags;
   w/n/c = storage changed / an event or runtime log entry appeared / another script context ran on top of the frame *)
| CSys (name : string) (f : N) (gate_ok w n c : bool)
(* the entry script (all flags) calls native [contract].[method]/arity through System.Contract.Call asking for f *)
| CNat (contract method : string) (arity f : N) (gate_ok w n c : bool)
(* the same as CNat in a given chain state: hf = the hard-forks enabled (table of that hard-fork), wl = fee-whitelist
   state of the called method (0 not whitelisted, 1 whitelisted with fee 0, 2 whitelisted with a positive fee) *)
| CNatSt (hf wl : N) (contract method : string) (arity f : N) (gate_ok w n c : bool)
(* a deployed contract loaded with permissions [loaded] changes itself (update -> [current] = Some new permissions,
   destroy -> None, nothing / deploying another contract -> Some loaded) and then, in the same context, calls method m
   (safe or not) of callee c by System.Contract.Call or CALLT.  ran = the callee's code ran *)
| CSelfCall (domovoi : bool) (loaded : list permission) (current : option (list permission))
            (c : callee) (m : string) (safe : bool) (ran : bool)
(* a callee whose ABI (in manifest order) has overloads of one name; a deployed caller with [perms] calls name/n asking
   for flags f (Contract.Call from a frame with all flags, or CALLT with an All token from a frame with flags f); the
   callee's body tries capability probe (1 Local.Put, 2 Notify, 3 Contract.Call).  ran / eff as observed *)
| COverload (abi : list abi_method) (name : string) (n : N) (perms : list permission) (f probe : N) (ran eff : bool)
(* a call into a contract blocked by Policy: ran = the blocked contract's code ran *)
| CBlocked (ran : bool)
(* a chain of calls: each hop (requested flags, kind) with kind 0 = non-safe forwarding method, 1 = forwarding method
   marked safe, 2 = forwarding through System.Runtime.LoadScript (deployed "load" method with r, then dynamic script
   asked for with r, which the code further restricts to ReadOnly); then the final hop (flags, final) with final 10 = Local.Put, 11 = Notify, 12 = call another contract,
   13 = Local.Put in a method marked safe, 14 = Notify in a method marked safe, 15 = nothing.
   completed = HALT; w/n = storage changed / event emitted; c = the final callee contract ran *)
| CChain (hops : list (N * N)) (final_flags final : N) (completed w n c : bool)
(* a deployed contract whose frame has flags f (called by the entry script asking for f) executes CALLT of a method
   token with call flags tf to the final method (10..15 as for CChain).  completed = HALT; w/n = storage changed /
   event emitted; ran = the token's callee ran; zran = the contract the callee calls on ran (final 12) *)
| CCallT (f tf final : N) (completed w n ran zran : bool)
(* a native method ([ct].[m]/a, called asking for flags f, so its frame has f) reaches a callback into a deployed
   contract (onNEP17Payment / _deploy) whose body tries one capability: probe 0 nothing, 1 Local.Put, 2 Notify,
   3 System.Contract.Call of another contract.  ran = the callback's code ran; cbflags = the call flags of the
   callback's context (read from the VM); completed = HALT; eff = the probed capability took effect *)
| CCallback (ct m : string) (a f probe : N) (ran : bool) (cbflags : N) (completed eff : bool)
(* Permission.IsAllowed *)
| CPerm1 (p : permission) (c : callee) (m : string) (impl : bool)
(* Manifest.CanCall *)
| CPerm (perms : list permission) (c : callee) (m : string) (impl : bool)
(* the real Permission.ToStackItem of p, as a shape *)
| CPermItem (p : permission) (it : sitem)
(* the decision of callInternal (method safe || CanCall) taken on the STORED forms of caller and callee
   (form 1: each Permission/Group/Method through ToStackItem/FromStackItem; 2: whole manifests; 3: whole contract
   states through SerializeConvertible/DeserializeConvertible), for the ORIGINAL permissions [perms] *)
| CPermStored (form : N) (perms : list permission) (c : callee) (m : string) (safe : bool) (permitted : bool)
(* a real cross-contract call from a deployed contract with these permissions to method m (safe or not) of callee c:
   halted = the call went through *)
| CPermCall (perms : list permission) (c : callee) (m : string) (safe : bool) (halted : bool).

Definition imp (a b : bool) : bool := implb a b.
Definition faun_hf : N := 6.

(* 2 whenever the specification is contradicted, even where the mechanism model predicts it (findings F6, F39) *)
Definition code3 (model spec : bool) : N := if spec then (if model then 0 else 1) else 2.

Definition check_case (cs : case) : N :=
  match cs with
  | CSys name f gate_ok w n c =>
      match find_interop name interops with
      | None => 3
      | Some e =>
          let spec := imp w (has f WriteStates) && imp n (has f AllowNotify) && imp c (has f AllowCall) in
          let class := imp (w && negb c) (is_sys_writer name) && imp (n && negb c) (is_sys_notifier name || is_sys_block_trigger name) &&
                       imp c (is_sys_caller name) in
          let model := Bool.eqb gate_ok (syscall_gate f e) && class && imp (negb gate_ok) (negb (w || n || c)) in
          code3 model spec
      end
  | CNat ct m a f gate_ok w n c =>
      match find_native ct m a native_methods with
      | None => 3
      | Some e =>
          let f' := callee_flags AllFlags f (nm_safe e) in
          let spec := imp w (has f' WriteStates) && imp n (has f' AllowNotify) && imp c (has f' AllowCall) &&
                      imp (nm_safe e) (negb (w || n)) in
          let class := imp (w && negb c) (is_native_writer ct m) && imp (n && negb c) (is_native_notifier ct m) &&
                       imp c (is_native_caller ct m || is_native_indirect_caller ct m) in
          let model := Bool.eqb gate_ok (native_gate f' e) && class && imp (negb gate_ok) (negb (w || n || c)) in
          code3 model spec
      end
  | CNatSt hf wl ct m a f gate_ok w n c =>
      match find_native ct m a (table_at hf native_methods_by_hf) with
      | None => 3
      | Some e =>
          let f' := callee_flags AllFlags f (nm_safe e) in
          let req := native_required_at hf e in
          let wlst := match wl with 0 => None | 1 => Some 0 | _ => Some 7 end in
          (* before Faun the historic tables let some methods notify with States only: consensus history, not judged *)
          let strict := faun_hf <=? hf in
          let spec := imp w (has f' WriteStates) && imp (n && strict) (has f' AllowNotify) &&
                      (* before Aspidochelone deploy/update were only asked for States|AllowNotify although they call
                         _deploy: consensus history (repaired by that hard-fork), not judged *)
                      imp (c && negb (is_native_indirect_caller ct m) && (req =? nm_flags e)) (has f' AllowCall) &&
                      imp (nm_safe e) (negb (w || (n && strict))) &&
                      (* a refused flag condition of the table entry means no effect at all *)
                      imp (negb (has f' req)) (negb (w || n || c)) in
          let model := Bool.eqb gate_ok (gate_runs (native_call_gate req f' wlst 0)) &&
                       imp (negb gate_ok) (negb (w || n || c)) in
          code3 model spec
      end
  | CSelfCall domovoi loaded current c m safe ran =>
      let model := Bool.eqb ran (call_gate domovoi safe true loaded current c m) in
      (* specification: from Domovoi on the loaded manifest decides and the check is never skipped; before it the
         current manifest decides; a contract missing from ContractManagement before Domovoi is history, not judged *)
      let spec :=
        if domovoi then Bool.eqb ran (safe || may_callb loaded c m)
        else match current with
             | Some ps => Bool.eqb ran (safe || may_callb ps c m)
             | None => true
             end in
      code3 model spec
  | COverload abi name n perms f probe ran eff =>
      match overload_call abi name n perms (mk_callee 1 []) f, find_method abi name n with
      | Some (permitted, g), Some md =>
          let bit := match probe with 1 => WriteStates | 2 => AllowNotify | _ => N.lor ReadStates AllowCall end in
          let model := Bool.eqb ran permitted && Bool.eqb eff (permitted && has g bit) in
          (* specification keyed on the executed overload (name, n) *)
          let spec := imp ran (md_safe md || may_callb perms (mk_callee 1 []) name) &&
                      imp eff (has g bit) && imp (eff && md_safe md) (negb ((probe =? 1) || (probe =? 2))) in
          code3 model spec
      | _, _ => 3
      end
  | CBlocked ran => if ran then 2 else 0
  | CChain hops ff final completed w n c =>
      let finstr :=
        match final with
        | 10 => Some (false, [ISys "System.Storage.Local.Put"])
        | 11 => Some (false, [ISys "System.Runtime.Notify"])
        | 12 => Some (false, [ICall AllFlags false []])
        | 13 => Some (true, [ISys "System.Storage.Local.Put"])
        | 14 => Some (true, [ISys "System.Runtime.Notify"])
        | 15 => Some (false, [])
        | _ => None
        end in
      match finstr with
      | None => 3
      | Some (fsafe, body) =>
          let fix build (l : list (N * N)) : instr :=
            match l with
            | [] => ICall ff fsafe body
            | (r, k) :: t =>
                if k =? 0 then ICall r false [build t]
                else if k =? 1 then ICall r true [build t]
                else ICall r false [ILoad r [build t]]
            end in
          let '(tr, ok) := exec_now AllFlags (build hops) in
          (* the flags of the last frame, by plain intersection (the specification of "flags only shrink") *)
          let fix spec_hops (l : list (N * N)) : list hop :=
            match l with
            | [] => [(ff, fsafe)]
            | (r, k) :: t => if k =? 2 then (r, false) :: (N.land ReadOnly r, false) :: spec_hops t else (r, k =? 1) :: spec_hops t
            end in
          let g := chain_flags AllFlags (spec_hops hops) in
          let mw := existsb (fun x => match fst x with EWrite => true | _ => false end) tr in
          let mn := existsb (fun x => match fst x with ENotify => true | _ => false end) tr in
          (* the final callee ran iff the innermost call was made: the model trace then has an ECall under flags g *)
          let mc := (final =? 12) && existsb (fun x => match fst x with ECall => snd x =? g | _ => false end) tr && ok in
          let model := Bool.eqb completed ok && Bool.eqb w mw && Bool.eqb n mn && Bool.eqb c mc in
          let spec := imp w (has g WriteStates) && imp n (has g AllowNotify) && imp c (has g AllowCall) &&
                      subflags g AllFlags in
          code3 model spec
      end
  | CCallT f tf final completed w n ran zran =>
      let finstr :=
        match final with
        | 10 => Some (false, [ISys "System.Storage.Local.Put"])
        | 11 => Some (false, [ISys "System.Runtime.Notify"])
        | 12 => Some (false, [ICall AllFlags false []])
        | 13 => Some (true, [ISys "System.Storage.Local.Put"])
        | 14 => Some (true, [ISys "System.Runtime.Notify"])
        | 15 => Some (false, [])
        | _ => None
        end in
      match finstr with
      | None => 3
      | Some (fsafe, body) =>
          let '(tr, ok) := exec_now AllFlags (ICall f false [ICallT tf fsafe body]) in
          let ncalls := List.length (filter (fun x => match fst x with ECall => true | _ => false end) tr) in
          let mw := existsb (fun x => match fst x with EWrite => true | _ => false end) tr in
          let mn := existsb (fun x => match fst x with ENotify => true | _ => false end) tr in
          let model := Bool.eqb completed ok && Bool.eqb w mw && Bool.eqb n mn &&
                       Bool.eqb ran (2 <=? ncalls)%nat && Bool.eqb zran ((final =? 12) && (3 <=? ncalls)%nat) in
          (* specification: the callee runs only if the calling frame has AllowCall; its effects need the bit in
             caller's flags AND the token's flags (and no safe callee) *)
          let g := chain_flags AllFlags [(f, false); (tf, fsafe)] in
          let spec := imp ran (has f AllowCall) && imp w (has g WriteStates) && imp n (has g AllowNotify) &&
                      imp zran (has g AllowCall) in
          code3 model spec
      end
  | CCallback ct m a f probe ran cbflags completed eff =>
      match find_native ct m a native_methods with
      | None => 3
      | Some e =>
          let pbody :=
            match probe with
            | 1 => [ISys "System.Storage.Local.Put"]
            | 2 => [ISys "System.Runtime.Notify"]
            | 3 => [ICall AllFlags false []]
            | _ => []
            end in
          let reached := native_gate f e in
          let g := callback_flags f AllFlags in
          let '(tr, ok) := exec_now f (ICallback false AllFlags pbody) in
          let meff := match probe with
                      | 1 => has_effect EWrite tr
                      | 2 => has_effect ENotify tr
                      | 3 => (2 <=? List.length (filter (fun x => match fst x with ECall => true | _ => false end) tr))%nat
                      | _ => false
                      end in
          let model := Bool.eqb ran reached && imp ran (cbflags =? g) &&
                       Bool.eqb completed (reached && ok) && Bool.eqb eff (reached && meff) in
          (* specification: flags only shrink (callback flags within the native frame's flags), and a capability
             that took effect was in the native frame's flags *)
          let bit := match probe with 1 => WriteStates | 2 => AllowNotify | 3 => AllowCall | _ => 0 end in
          let spec := imp ran (subflags cbflags f) && imp eff (has f bit) && imp eff ran in
          code3 model spec
      end
  | CPerm1 p c m impl =>
      let model := Bool.eqb impl (is_allowed p c m) in
      code3 model (Bool.eqb impl (may_callb [p] c m))
  | CPerm perms c m impl =>
      let model := Bool.eqb impl (can_call perms c m) in
      code3 model (Bool.eqb impl (may_callb perms c m))
  | CPermItem p it =>
      (* specification: the stored item means the original permission *)
      let spec := match perm_from_item it with
                  | Some q => Bool.eqb (is_allowed q (mk_callee 1 [1]) "a") (is_allowed p (mk_callee 1 [1]) "a") &&
                              Bool.eqb (is_allowed q (mk_callee 2 [2]) "b") (is_allowed p (mk_callee 2 [2]) "b") &&
                              Bool.eqb (is_allowed q (mk_callee 3 []) "c") (is_allowed p (mk_callee 3 []) "c") &&
                              sitem_eqb (perm_to_item q) (perm_to_item p)
                  | None => false
                  end in
      code3 (sitem_eqb (perm_to_item p) it) spec
  | CPermStored form perms c m safe permitted =>
      if (form =? 0) || (3 <? form) then 3 else
      let model := Bool.eqb permitted (call_permitted safe true perms c m) in
      code3 model (Bool.eqb permitted (safe || may_callb perms c m))
  | CPermCall perms c m safe halted =>
      let model := Bool.eqb halted (call_permitted safe true perms c m) in
      code3 model (Bool.eqb halted (safe || may_callb perms c m))
  end.

(* the generated case files say [concat cases]; String (exported above for the string literals) also has a [concat] *)
Definition concat {A : Type} (l : list (list A)) : list A := List.concat l.
