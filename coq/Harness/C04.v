(* Correspondence cases for C04: one transaction (a call tree) run on a real chain from an observed pre-state;
   what the chain showed afterwards is compared with the mechanism model (as the code is, and with the candidate
   repair of ContractHasTryBlock) and with the ideal transactional semantics. *)
From NG Require Export Exec.CallTree.
From NG Require Import Common.Tactics Common.HarnessLib Exec.Spec Exec.CallTreeProofs.
Open Scope N_scope.

Definition entry3 := (N * N * N)%type.     (* (contract, key, value) *)

Inductive case :=
| CTree (cls : N)                          (* 0: inside the guards (spec = ideal semantics); 1: outside *)
        (pre : list entry3) (bals : list N) (fee : N)        (* pre-state: storage, GAS of accounts 0..4, fee/byte *)
        (p : prog)
        (halt : bool) (post : list entry3) (bals' : list N) (feeC feeS : N)   (* observed after the block *)
        (evs : list event)                                   (* the transaction's stored notification list *)
| CBlock (pre : list entry3) (bals : list N) (fee : N)        (* several transactions in ONE block, one reused VM *)
         (txs : list (bool * prog * bool * list event))       (* (ran out of gas, tree, observed halt, observed events) *)
         (post : list entry3) (bals' : list N) (feeC feeS : N).

Definition nkeys : N := 6.
Definition naccounts : N := 5.

(* entry script: no storage, no manifest -> only control flow and calls *)
Fixpoint entry_ok (p : prog) : bool :=
  match p with
  | Skip | Throw | Abort | Call _ _ _ => true
  | Seq a b => entry_ok a && entry_ok b
  | Try b c f => entry_ok b && oall entry_ok c && oall entry_ok f && (is_some c || is_some f)
  | _ => false
  end.
(* keys, accounts and values stay inside the observed universe *)
Fixpoint small (p : prog) : bool :=
  match p with
  | Put k v => (k <? nkeys) && (v <? 256)
  | Del k | NotifyVal k => k <? nkeys
  | Move to amt cb => (to <? naccounts) && small cb
  | SetFee v => v <=? 100000000
  | Seq a b => small a && small b
  | Call c fl b => small b
  | Try b c f => small b && oall small c && oall small f
  | _ => true
  end.

Fixpoint bal_entries (i : N) (bs : list N) : store :=
  match bs with
  | [] => []
  | b :: r => (if b =? 0 then [] else [((GASNS, i), Some b)]) ++ bal_entries (N.succ i) r
  end.
Definition base_of (pre : list entry3) (bals : list N) (fee : N) : layer :=
  mkL (map (fun e => let '(c, k, v) := e in ((c, k), Some v)) pre ++ bal_entries 0 bals ++ [((POLNS, 0), Some fee)])
      (Some fee).

Fixpoint find3 (c k : N) (l : list entry3) : option N :=
  match l with
  | [] => None
  | (c', k', v) :: r => if (c =? c') && (k =? k') then Some v else find3 c k r
  end.

Definition range (n : N) : list N := map N.of_nat (seq 0 (N.to_nat n)).
Definition oN_eqb := option_eqb N.eqb.

(* the flat store [st] with setting [feeC]/[feeS] shows exactly the observed post-state *)
Definition state_is (st : store) (feeC' : N) (post : list entry3) (bals' : list N) (feeC feeS : N) : bool :=
  forallb (fun c => forallb (fun k => oN_eqb (lookup (c, k) st) (find3 c k post)) (range nkeys)) (range ncontracts)
  && forallb (fun e => let '(c, k, _) := e in (c <? ncontracts) && (k <? nkeys)) post
  && forallb (fun a => dflt (lookup (GASNS, a) st) =? nth (N.to_nat a) bals' 0) (range naccounts)
  && (length bals' =? N.to_nat naccounts)%nat
  && oN_eqb (lookup (POLNS, 0) st) (Some feeS)
  && (feeC' =? feeC).

Definition event_eqb (a b : event) : bool :=
  match a, b with
  | EvN c e, EvN c' e' => (c =? c') && (e =? e')
  | EvV c k v, EvV c' k' v' => (c =? c') && (k =? k') && oN_eqb v v'
  | EvP c v, EvP c' v' => (c =? c') && (v =? v')
  | EvT f t a, EvT f' t' a' => (f =? f') && (t =? t') && (a =? a')
  | _, _ => false
  end.

Definition mech_ok (m : txout) (halt : bool) post bals' feeC feeS evs : bool :=
  Bool.eqb (halted m) halt && list_eqb event_eqb (events m) evs
  && state_is (lst (after m)) (dflt (lnc (after m))) post bals' feeC feeS.

(* a block against single transactions threaded through the state the halted ones leave.
   A transaction that ran out of gas is not predicted (gas is not modelled): it must have faulted, and counts as absent. *)
Fixpoint block_mech (pol : policy) (base : layer) (txs : list (bool * prog * bool * list event)) : option layer :=
  match txs with
  | [] => Some base
  | (oog, p, halt, evs) :: r =>
      if oog then (if halt then None else block_mech pol base r)
      else
        let o := run_tx pol base p in
        if Bool.eqb (halted o) halt && list_eqb event_eqb (events o) evs then block_mech pol (after o) r else None
  end.
Fixpoint block_ideal (base : layer) (txs : list (bool * prog * bool * list event)) : option layer :=
  match txs with
  | [] => Some base
  | (oog, p, halt, evs) :: r =>
      if oog then (if halt then None else block_ideal base r)
      else
        let i := irun_tx base p in
        if Bool.eqb (ihalted i) halt then
          if halt then
            if list_eqb event_eqb (intf (iafter i)) evs
            then block_ideal (mkL (ist (iafter i)) (Some (ifee (iafter i)))) r else None
          else block_ideal base r
        else None
  end.

Definition check_case (c : case) : N :=
  match c with
  | CBlock pre bals fee txs post bals' feeC feeS =>
      let base := base_of pre bals fee in
      if negb (forallb (fun t => let '(_, p, _, _) := t in entry_ok p && small p && guard Lazy p) txs
               && (length bals =? N.to_nat naccounts)%nat) then 3
      else
        let fin pol := match block_mech pol base txs with
                       | Some b => state_is (lst b) (dflt (lnc b)) post bals' feeC feeS
                       | None => false end in
        let spec_ok := match block_ideal base txs with
                       | Some b => state_is (lst b) (dflt (lnc b)) post bals' feeC feeS
                       | None => false end in
        code_of (fin Lazy || fin Eager) spec_ok
  | CTree cls pre bals fee p halt post bals' feeC feeS evs =>
      let base := base_of pre bals fee in
      if negb (entry_ok p && small p && (length bals =? N.to_nat naccounts)%nat) then 3
      else
        let model_ok := mech_ok (run_tx Lazy base p) halt post bals' feeC feeS evs
                        || mech_ok (run_tx Eager base p) halt post bals' feeC feeS evs in
        let i := irun_tx base p in
        (* the property's own text: a fault changes nothing; a halt applies exactly the ideal effects and shows
           exactly the ideal notification list (the notification record of a faulted transaction is diagnostic) *)
        let spec_ok :=
          Bool.eqb (ihalted i) halt &&
          (if halt then state_is (ist (iafter i)) (ifee (iafter i)) post bals' feeC feeS
                        && list_eqb event_eqb (intf (iafter i)) evs
           else state_is (lst base) fee post bals' feeC feeS) in
        if cls =? 0 then
          if guard Lazy p then code_of model_ok spec_ok else 3
        else
          if spec_ok then (if model_ok then 0 else 1)
          else if model_ok then 2        (* the known mechanism, outside the guards: see notes/C04.md *)
          else 3
  end.
