(* Correspondence cases for C04: transactions (call trees) run on a real chain from an observed pre-state;
   what the chain showed afterwards is compared with the mechanism model (ContractHasTryBlock before and after the
   repair of F13) and with the ideal transactional semantics. *)
From NG Require Export Exec.CallTree.
From NG Require Import Common.Tactics Common.HarnessLib Exec.Spec Exec.CallTreeProofs.
Open Scope N_scope.

Definition entry3 := (N * N * N)%type.     (* (namespace, key, value); absent = 0 *)

Inductive case :=
| CTree (cls : N)                          (* 0: syntactically inside g1 and g2; 1: not *)
        (pre : list entry3) (fee vc : N)   (* pre-state: storage of all namespaces, Policy fee, NEO votesChanged *)
        (sender sfee : N)                  (* who pays, system + network fee *)
        (p : prog)
        (halt : bool) (post : list entry3) (feeC feeS vc' : N)   (* observed after the block *)
        (evs : list event)                                       (* the transaction's stored notification list *)
| CBlock (pre : list entry3) (fee vc : N)                        (* several transactions in ONE block, one reused VM *)
         (txs : list (bool * N * N * prog * bool * list event))  (* (ran out of gas, sender, fee, tree, halt, events) *)
         (post : list entry3) (feeC feeS vc' : N).

Definition nkeys : N := 6.
Definition naccounts : N := 7.             (* 0..2 contracts, 3..4 plain, 5..6 senders *)
Definition nneo : N := 5.                  (* accounts that may hold NEO *)

(* entry script: no storage, no manifest -> only control flow and calls *)
Fixpoint entry_ok (p : prog) : bool :=
  match p with
  | Skip | Throw | Abort | CallV false _ _ _ => true
  | Seq a b => entry_ok a && entry_ok b
  | Try b c f => entry_ok b && oall entry_ok c && oall entry_ok f && (is_some c || is_some f)
  | _ => false
  end.
(* keys, accounts and values stay inside the observed universe *)
Fixpoint small (p : prog) : bool :=
  match p with
  | Put k v => (k <? nkeys) && (v <? 256) && negb (v =? 0)
  | Del k | NotifyVal k => k <? nkeys
  | Move to amt cb => (to <? naccounts) && small cb
  | MoveNeo to amt cb => (to <? nneo) && small cb
  | SetFee v => v <=? 100000000
  | Seq a b => small a && small b
  | CallV _ c fl b => small b
  | Try b c f => small b && oall small c && oall small f
  | _ => true
  end.
Fixpoint has_neo (p : prog) : bool :=
  match p with
  | MoveNeo _ _ _ => true
  | Move _ _ cb => has_neo cb
  | Seq a b => has_neo a || has_neo b
  | CallV _ _ _ b => has_neo b
  | Try b c f => has_neo b || negb (oall (fun x => negb (has_neo x)) c) || negb (oall (fun x => negb (has_neo x)) f)
  | _ => false
  end.

Definition base_of (pre : list entry3) (fee vc : N) : layer :=
  mkL (map (fun e => let '(c, k, v) := e in ((c, k), if v =? 0 then None else Some v)) pre ++ [((POLNS, 0), Some fee)])
      (Some fee) (Some vc).

Fixpoint find3 (c k : N) (l : list entry3) : N :=
  match l with
  | [] => 0
  | (c', k', v) :: r => if (c =? c') && (k =? k') then v else find3 c k r
  end.

Definition range (a n : N) : list N := map (fun i => a + N.of_nat i) (seq 0 (N.to_nat n)).
Definition oN_eqb := option_eqb N.eqb.

(* the observed universe of storage keys (pending GAS claims, keys 10.., are inputs only) *)
Definition universe : list key :=
  flat_map (fun c => map (fun k => (c, k)) (range 0 nkeys)) (range 0 ncontracts)
  ++ map (fun a => (GASNS, a)) (range 0 naccounts)
  ++ map (fun a => (NEONS, a)) (range 0 nneo ++ range 20 nneo ++ [30; 31]).
Definition in_universe (k : key) : bool := existsb (key_eqb k) universe.

(* the flat store [st] with cache values [feeC'] / [vc0] shows exactly the observed post-state *)
Definition state_is (st : store) (feeC' vc0 : N) (post : list entry3) (feeC feeS vc' : N) : bool :=
  forallb (fun k => dflt (lookup k st) =? find3 (fst k) (snd k) post) universe
  && forallb (fun e => let '(c, k, _) := e in in_universe (c, k)) post
  && oN_eqb (lookup (POLNS, 0) st) (Some feeS)
  && (feeC' =? feeC) && (vc0 =? vc').

Definition event_eqb (a b : event) : bool :=
  match a, b with
  | EvN c e, EvN c' e' => (c =? c') && (e =? e')
  | EvV c k v, EvV c' k' v' => (c =? c') && (k =? k') && oN_eqb v v'
  | EvP c v, EvP c' v' => (c =? c') && (v =? v')
  | EvT f t a, EvT f' t' a' => (f =? f') && (t =? t') && (a =? a')
  | EvTN f t a, EvTN f' t' a' => (f =? f') && (t =? t') && (a =? a')
  | _, _ => false
  end.

Definition layer_is (b : layer) post feeC feeS vc' : bool :=
  state_is (lst b) (dflt (lnc b)) (dflt (lvc b)) post feeC feeS vc'.
Definition mech_ok (m : txout) (halt : bool) post feeC feeS vc' evs : bool :=
  Bool.eqb (halted m) halt && list_eqb event_eqb (events m) evs && layer_is (after m) post feeC feeS vc'.

(* a block against single transactions threaded through the state the halted ones leave.
   A transaction that ran out of gas is not predicted (gas is not modelled): it must have faulted, and counts as absent. *)
Definition btx := (bool * N * N * prog * bool * list event)%type.
Fixpoint block_mech (pol : policy) (base : layer) (txs : list btx) : option layer :=
  match txs with
  | [] => Some base
  | (oog, _, _, p, halt, evs) :: r =>
      if oog then (if halt then None else block_mech pol base r)
      else
        let o := run_tx pol base p in
        if Bool.eqb (halted o) halt && list_eqb event_eqb (events o) evs then block_mech pol (after o) r else None
  end.
Fixpoint block_ideal (base : layer) (txs : list btx) : option layer :=
  match txs with
  | [] => Some base
  | (oog, _, _, p, halt, evs) :: r =>
      if oog then (if halt then None else block_ideal base r)
      else
        let i := irun_tx base p in
        if Bool.eqb (ihalted i) halt then
          if halt then
            if list_eqb event_eqb (intf (iafter i)) evs
            then block_ideal (mkL (ist (iafter i)) (Some (ifee (iafter i))) (Some (ivc (iafter i)))) r else None
          else block_ideal base r
        else None
  end.

Definition check_case (c : case) : N :=
  match c with
  | CBlock pre fee vc txs post feeC feeS vc' =>
      (* per-transaction fee accounting: every fee is burnt from its sender before anything runs *)
      let base := charge_all (map (fun t : btx => let '(_, s, f, p, _, _) := t in (s, f, p)) txs) (base_of pre fee vc) in
      if negb (forallb (fun t : btx => let '(_, _, _, p, _, _) := t in
                          entry_ok p && small p && g1 p && g2 p && negb (has_neo p)) txs) then 3
      else
        let fin pol := match block_mech pol base txs with Some b => layer_is b post feeC feeS vc' | None => false end in
        let spec_ok := match block_ideal base txs with Some b => layer_is b post feeC feeS vc' | None => false end in
        code_of (fin Lazy || fin Eager) spec_ok
  | CTree cls pre fee vc sender sfee p halt post feeC feeS vc' evs =>
      let base := charge sender sfee (base_of pre fee vc) in
      if negb (entry_ok p && small p) then 3
      else
        let mE := run_tx Eager base p in
        let okE := mech_ok mE halt post feeC feeS vc' evs in
        (* the pre-repair machine is consulted only when the current one does not match *)
        let mL := if okE then mE else run_tx Lazy base p in
        let okL := if okE then false else mech_ok mL halt post feeC feeS vc' evs in
        let model_ok := okE || okL in
        (* the ghost flag of the model run that matches: did a layered frame / payment callback return while an
           exception was pending? *)
        let flagged := if okE then negb (clean mE) else if okL then negb (clean mL) else false in
        let i := irun_tx base p in
        (* the property's own text: a fault changes nothing but the fee; a halt applies exactly the ideal effects and
           shows exactly the ideal notification list (the notification record of a faulted transaction is diagnostic) *)
        let spec_ok :=
          Bool.eqb (ihalted i) halt &&
          (if halt then state_is (ist (iafter i)) (ifee (iafter i)) (ivc (iafter i)) post feeC feeS vc'
                        && list_eqb event_eqb (intf (iafter i)) evs
           else layer_is base post feeC feeS vc') in
        if cls =? 0 then
          if g1 p && g2 p then code_of model_ok spec_ok else 3
        else
          if spec_ok then (if model_ok then 0 else 1)
          else if model_ok && flagged then 2   (* the known mechanism F40: exactly the model's prediction, ghost flag up *)
          else 3
  end.
