(* Correspondence cases for C06: what AddBlock answered to the valid next block and to every single
   corruption of it, compared with the decision procedure of the model (Node/Accept.v). *)
From NG Require Import Common.Tactics Common.HarnessLib.
From NG Require Import Admission.Conflicts.
From NG Require Export Node.Accept Node.AcceptPool Node.AcceptConflicts.
Open Scope N_scope.

Inductive case :=
| CAdd (srih : bool) (n hh tip_hash tip_ts local_root : N) (known : list N)
       (b_index b_prev : N) (prev_stored : option N) (b_ts b_merkle : N) (b_sr : bool) (b_prevroot b_hash : N)
       (sig_ok : bool) (txs_merkle : N) (txs_ok conflict_free exec_ok next_root_ok : bool)
       (impl : verdict) (n_after hh_after : N)
| CDecodeErr (op : N)                 (* the corrupted encoding does not decode: nothing reaches AddBlock *)
| CRejExec (changed : bool)           (* a block rejected after execution: did the database change? *)
| CStale (fam : N) (verify pooled kept fresh_ok accepted : bool)
| CConfl (mtb a cur : N) (asigners : list N) (tsigners : list N) (pooled kept fresh_ok accepted : bool).
      (* on-chain Conflicts backed by any signer: transaction T (hash 1, signers tsigners, sender first) is offered
         in the block at height cur+1; block a carries a transaction signed by asigners that names T in its
         Conflicts attribute; pooled: T sat in the mempool when block a was stored, kept: and survived the refresh;
         fresh_ok: a node that never pooled T lets_in it at height cur *)
      (* stale-pool family: T pooled (or not) at H, block H+1 without it, block H+2 carrying it offered;
         kept = T still in the mempool after H+1; fresh_ok = a node that never pooled T lets_in it at H+1 *)

(* which variant of the code answers like this?  F23/F24 repaired or not is read off the verdict itself:
   the case agrees with the mechanism model if it agrees with one of the variants; the specification is
   the repaired one *)
Definition mk_state (n tip_hash tip_ts local_root : N) (known : list N) (next_root_ok : bool) : state :=
  mkState n tip_hash tip_ts local_root
          (match known with
           | [] => []
           | k :: t => (k, 0) :: map (fun h => (h, if next_root_ok then 0 else 1)) t
           end) [].

Definition check_add srih n hh tip_hash tip_ts local_root known b_index b_prev prev_stored b_ts b_merkle b_sr
           b_prevroot b_hash sig_ok txs_merkle txs_ok conflict_free exec_ok next_root_ok impl n_after hh_after : N :=
  let cfg := mkConfig srih true in
  let st := mk_state n tip_hash tip_ts local_root known next_root_ok in
  let older := match prev_stored with
               | Some i => if i <? n then Some i else None
               | None => None
               end in
  let b := mkBlock b_index b_prev b_ts b_merkle b_sr b_prevroot b_hash older sig_ok txs_merkle txs_ok
                   conflict_free exec_ok 0 [] in
  let agree fx :=
    let '(v, st') := add_block fx cfg st b in
    verdict_eqb v impl && (s_n st' =? n_after) && (hheight st' =? hh_after) in
  if negb (hh =? hheight st) then 3
  else code_of (agree afix_none || agree afix_all || agree (mkAfix true false) || agree (mkAfix false true))
               (agree afix_all).

Definition check_case (c : case) : N :=
  match c with
  | CAdd srih n hh tip_hash tip_ts local_root known b_index b_prev prev_stored b_ts b_merkle b_sr b_prevroot
         b_hash sig_ok txs_merkle txs_ok conflict_free exec_ok next_root_ok impl n_after hh_after =>
      check_add srih n hh tip_hash tip_ts local_root known b_index b_prev prev_stored b_ts b_merkle b_sr
                b_prevroot b_hash sig_ok txs_merkle txs_ok conflict_free exec_ok next_root_ok impl n_after hh_after
  | CDecodeErr _ => 0
  | CRejExec changed => if changed then 2 else 0
  | CStale _ verify pooled kept fresh_ok accepted =>
      (* mechanism (Node/AcceptPool.v): offered at height 2 with pool = [7] iff kept *)
      let valid := fun (_ t : N) => if t =? 7 then fresh_ok else true in
      let pool := if kept then [7] else [] in
      let mech := Bool.eqb accepted (block_ok valid verify 2 pool [7]) && (implb kept pooled) in
      (* specification: the refresh keeps only what a fresh verification lets_in; acceptance = validity now *)
      let spec := implb kept fresh_ok && implb (verify && accepted) fresh_ok && implb fresh_ok accepted in
      if spec then code_of mech true else 2
  | CConfl mtb a cur asigners tsigners pooled kept fresh_ok accepted =>
      let es := [mkEvent a asigners [1]] in
      let t := mkCtx 1 tsigners [] in
      (* the specification: some on-chain transaction inside the window names T and shares a signer with it *)
      let hit := signer_conflict es cur mtb t in
      let hit_at_a := signer_conflict es a mtb t in
      (* mechanism: the record table asked with all signers (the code); pooled transactions are taken as verified *)
      let table := negb (tx_accepted true mtb es cur t) in
      let mech := Bool.eqb table hit && Bool.eqb fresh_ok (negb table) && implb kept pooled &&
                  Bool.eqb accepted (kept || negb table) in
      let spec := Bool.eqb accepted (negb hit) && implb kept (negb hit_at_a) in
      code_of mech spec
  end.
