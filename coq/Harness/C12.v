(* Correspondence cases for C12: the real VM stepped through a script; before every instruction the harness
   recorded VM.refs (VerifRefs hook).  The model replays the script; compared are the counter before every
   instruction (mechanism), the outcome (state, gas, stack), and - the specification - that the counter the
   implementation showed is never below what an actual walk of the model state finds, and stays within the limit. *)
From NG Require Import Common.Tactics Common.HarnessLib VM.Model VM.Reach VM.Static VM.Loader.
From NG Require Export VM.Obs.
Open Scope Z_scope.

Inductive case :=
| CTrace (prog : list Z) (base limit_pico : Z) (fuel : positive)
         (refs : list Z)            (* VerifRefs before each of the first instructions *)
         (impl : outcome)
         (static : bool)            (* scparser.IsScriptCorrect(script, nil) == nil *)
(* several scripts: SYSCALL k loads scripts[k-1] on top (k odd: vm.LoadScriptWithHash - own id, exactly one result;
   k even: vm.LoadScriptWithFlags - the entry script's id, all results) - the way the node performs contract calls *)
| CMulti (prog : list Z) (scripts : list (list Z)) (base limit_pico : Z) (fuel : positive) (refs : list Z) (impl : outcome)
| CMethods (prog : list Z) (methods : list Z)
           (verdict : bool).        (* every method offset < len(script) and IsScriptCorrect(script, offsets) == nil *)

(* replay: returns (mechanism ok so far, specification ok so far) and the final result *)
Fixpoint replay_with (sys : syshandler) (fuel : nat) (s : state) (refs : list Z) (m sp : bool) : bool * bool * result :=
  match fuel with
  | O => (m, sp, Running s)
  | S f =>
      let '(m, sp, refs') :=
        match refs with
        | [] => (m, sp, [])
        | r :: t => (m && (s_refs s =? r), sp && (reach_count s <=? r) && (r <=? MaxStackSize), t)
        end in
      match step_with sys s with
      | Running s' => replay_with sys f s' refs' m sp
      | r => (m, sp, r)
      end
  end.

Fixpoint replay (fuel : nat) (s : state) (refs : list Z) (m sp : bool) : bool * bool * result :=
  match fuel with
  | O => (m, sp, Running s)
  | S f =>
      let '(m, sp, refs') :=
        match refs with
        | [] => (m, sp, [])
        | r :: t => (m && (s_refs s =? r), sp && (reach_count s <=? r) && (r <=? MaxStackSize), t)
        end in
      match step s with
      | Running s' => replay f s' refs' m sp
      | r => (m, sp, r)
      end
  end.

Definition check_case (c : case) : N :=
  match c with
  | CTrace prog base limit fuel refs impl static =>
      if negb (bytes_okb prog) then 3%N else
      let '(m, sp, r) := replay (Pos.to_nat fuel) (init_state prog 1%N base limit) refs true true in
      match outcome_of r with
      | None => 2%N
      | Some o =>
          let same := outcome_eqb o impl in
          let st := script_correct prog in
          (* the outcome is specified by the model (C13); the counter only has to be sound; the static check may be
             stricter than the model's, never laxer *)
          if same && m && sp && Bool.eqb st static then 0%N
          else if same && sp && (st || negb static) then 1%N else 2%N
      end
  | CMulti prog scripts base limit fuel refs impl =>
      if negb (bytes_okb prog) || negb (forallb bytes_okb scripts) then 3%N else
      let '(m, sp, r) := replay_with (sys_load scripts) (Pos.to_nat fuel) (init_state prog 1%N base limit) refs true true in
      match outcome_of r with
      | None => 2%N
      | Some o => if outcome_eqb o impl && m && sp then 0%N else 2%N
      end
  | CMethods prog methods verdict =>
      if negb (bytes_okb prog) || negb (forallb (fun m => 0 <=? m) methods) then 3%N else
      let st := script_correct_m prog methods in
      if Bool.eqb st verdict then 0%N else if st then 1%N else 2%N
  end.

Definition model_view (c : case) :=
  match c with
  | CTrace prog base limit fuel refs impl static =>
      let '(m, sp, r) := replay (Pos.to_nat fuel) (init_state prog 1%N base limit) refs true true in (m, sp, outcome_of r, script_correct prog)
  | CMulti prog scripts base limit fuel refs impl =>
      let '(m, sp, r) := replay_with (sys_load scripts) (Pos.to_nat fuel) (init_state prog 1%N base limit) refs true true in (m, sp, outcome_of r, true)
  | CMethods prog methods verdict => (true, true, None, script_correct_m prog methods)
  end.
