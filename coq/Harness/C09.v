(* Correspondence cases for C09: an op history on a layered store, one observation at its end,
   what the implementation returned; compared with the mechanism model AND with the ordered-map specification. *)
From NG Require Import Common.Tactics Common.HarnessLib Store.Bytes Store.Model Store.Spec.
Open Scope N_scope.

(* short names for generated terms *)
Definition P := OPut.
Definition D := ODel.
Definition W := OWrap.
Definition F := OPersist.
Definition PP := OPersistPrivate.
Definition X := ODrop.
Definition R := Build_range.

Inductive case :=
| CGet (bk : N) (ops : list op) (k : key) (impl : option val)
    (* Get of k on the top layer after ops *)
| CSeek (bk : N) (ops : list op) (api : N) (id : N) (r : range) (lim : N) (impl : kvs).
    (* api 0 Store.Seek | 1 Store.SeekAsync(cut=false) | 2 Store.SeekAsync(cut=true) | 3 dao.Seek | 4 dao.SeekAsync
       | 5 Storage.Find iterator (prefix kept) | 6 Storage.Find iterator with FindRemovePrefix;
       id: contract id for api >= 3; lim: stop after lim pairs (0 = run to the end) *)

Definition keq : key -> key -> bool := list_eqb N.eqb.
Definition kvs_eqb : kvs -> kvs -> bool := list_eqb (fun a b => keq (fst a) (fst b) && keq (snd a) (snd b)).

Definition backend_of (bk : N) : option backend :=
  match bk with 0 => Some BMem | 1 => Some BBolt | 2 => Some BLevel | _ => None end.

Definition op_ok (o : op) : bool :=
  match o with
  | OPut k v => negb (isnil k) && bytes_okb k && bytes_okb v
  | ODel k => negb (isnil k) && bytes_okb k
  | _ => true
  end.

Definition take (lim : N) (l : kvs) : kvs := if lim =? 0 then l else firstn (N.to_nat lim) l.

Definition model_of (s : stack) (api id : N) (r : range) : kvs :=
  match api with
  | 0 | 1 => store_seek s false r
  | 2 => store_seek s true r
  | 3 => dao_seek s id r
  | 4 | 6 => dao_seek_async s id r
  | _ => find_keep s id r
  end.

Definition spec_of (s : stack) (api id : N) (r : range) : kvs :=
  match api with
  | 0 | 1 => spec_seek s false r
  | 2 => spec_seek s true r
  | 3 | 4 | 6 => spec_dao_seek s id r
  | _ => spec_find_keep s id r
  end.

Definition check_case (c : case) : N :=
  match c with
  | CGet bk ops k impl =>
      match backend_of bk with
      | Some b =>
          if forallb op_ok ops && negb (isnil k) && bytes_okb k then
            let s := run (init b) ops in
            code_of (option_eqb keq (store_get s k) impl) (option_eqb keq (spec_get s k) impl)
          else 3
      | None => 3
      end
  | CSeek bk ops api id r lim impl =>
      match backend_of bk with
      | Some b =>
          if forallb op_ok ops && bytes_okb (rprefix r) && bytes_okb (rstart r) && (api <? 7) && (id <? 4294967296)
             && ((3 <=? api) || negb (isnil (rprefix r))) then
            let s := run (init b) ops in
            code_of (kvs_eqb (take lim (model_of s api id r)) impl) (kvs_eqb (take lim (spec_of s api id r)) impl)
          else 3
      | None => 3
      end
  end.
