(* Correspondence cases for C09: an op history on a layered store, one observation at its end,
   what the implementation returned; compared with the mechanism model AND with the ordered-map specification. *)
From NG Require Import Common.Tactics Common.HarnessLib Store.Bytes Store.Model Store.Model2 Store.Spec Store.Conc Store.Conc2 Store.PersistFail.
Open Scope N_scope.

(* short names for generated terms *)
Definition P := OPut.
Definition D := ODel.
Definition W := OWrap.
Definition F := OPersist.
Definition PP := OPersistPrivate.
Definition X := ODrop.
Definition R := Build_range.
Definition G := Build_gcfun.
Definition GB := OGcBase.
Definition GT := OGcTop.

(* one action of a schedule (Store/Conc.v); the reader's range is given once per case *)
Inductive sact := SW (b : lmap) | SSwap | SLw | SUn | SSnap | SRead.

(* one action of a two-layer schedule (Store/Conc2.v) *)
Inductive sact2 := TW1 (b : lmap) | TW2 (b : lmap) | TSwap | TLw | TUn | TSnap1 | TSnap2 | TRead.

(* a flush that may fail (Store/PersistFail.v): batches into the flushed layer (FB) and into the i-th layer above it (FT),
   the regions of its Persist, FFail = the lower PutChangeSet returns an error *)
Definition FB (b : lmap) : fact := FW (copy_into b []).
Definition FT (i : N) (b : lmap) : fact := FWTop (N.to_nat i) (copy_into b []).
Definition FS : fact := FSwap.
Definition FL : fact := FLw.
Definition FU : fact := FUn.
Definition FX : fact := FFail.
Definition FY : fact := FSync.
Definition FZ : fact := FSyncFail.
Definition FD (b : lmap) : fact := FWLow (copy_into b []).

Inductive case :=
| CFailSeek (bk : N) (nups : N) (acts : list fact) (r : range) (impl : kvs)
    (* Seek through the top of nups shared layers over the flushed layer over a base store, after acts *)
| CFailGet (bk : N) (nups : N) (acts : list fact) (k : key) (impl : option val)
| CSched2 (bk : N) (acts : list sact2) (r : range) (impl : kvs)
    (* two shared layers over a base store: writes into the top (TW1) and the middle layer (TW2), the three regions of
       the MIDDLE layer's Persist, one reader on the top layer in its three steps; any SearchDepth; impl = its answer *)
| CSched (bk : N) (acts : list sact) (r : range) (impl : kvs)
    (* a schedule of lock regions on one shared MemCachedStore over a base store: batch writes, the three regions
       of Persist, and ONE reader (SSnap = SeekAsync returned: snapshot taken and ps captured; SRead = its goroutine
       reads the lower store); impl = what the reader got *)
| CLockGet (bk : N) (acts : list sact) (k : key) (impl : option val)
    (* Get of k on the shared layer of a schedule system while (or after) a Persist is in flight: the schedule acts
       contains no reader step; no lock region of Persist changes the one map, so the expected value is its lookup there *)
| CGet (bk : N) (ops : list op) (k : key) (impl : option val)
    (* Get of k on the top layer after ops *)
| CSeek (bk : N) (ops : list op) (api : N) (id : N) (r : range) (lim : N) (impl : kvs).
    (* api 0 Store.Seek | 1 Store.SeekAsync(cut=false) | 2 Store.SeekAsync(cut=true) | 3 dao.Seek | 4 dao.SeekAsync
       | 5 Storage.Find iterator (prefix kept) | 6 Storage.Find iterator with FindRemovePrefix;
       id: contract id for api >= 3; lim: stop after lim pairs (0 = run to the end) *)

Definition keq : key -> key -> bool := list_eqb N.eqb.
Definition kvs_eqb : kvs -> kvs -> bool := list_eqb (fun a b => keq (fst a) (fst b) && keq (snd a) (snd b)).

Definition backend_of (bk : N) : option backend :=
  match bk with 0 => Some BMem | 1 => Some BBolt | 2 => Some BLevel | _ => None end.

Definition op_ok (o : op) : bool :=
  match o with
  | OPut k v => negb (isnil k) && bytes_okb k && bytes_okb v
  | ODel k => negb (isnil k) && bytes_okb k
  | OGcBase r _ | OGcTop r _ => negb (isnil (rprefix r)) && bytes_okb (rprefix r) && bytes_okb (rstart r)
  | _ => true
  end.

Definition take (lim : N) (l : kvs) : kvs := if lim =? 0 then l else firstn (N.to_nat lim) l.

(* the mechanism model is the two-map one (Store/Model2.v) *)
Definition model_of (s : stack2) (api id : N) (r : range) : kvs :=
  match api with
  | 0 | 1 => store_seek2 s false r
  | 2 => store_seek2 s true r
  | 3 => dao_seek2 s id r
  | 4 | 6 => dao_seek_async2 s id r
  | _ => find_keep2 s id r
  end.

Definition spec_of (s : stack) (api id : N) (r : range) : kvs :=
  match api with
  | 0 | 1 => spec_seek s false r
  | 2 => spec_seek s true r
  | 3 | 4 | 6 => spec_dao_seek s id r
  | _ => spec_find_keep s id r
  end.

Definition to_action (r : range) (a : sact) : action :=
  match a with
  | SW b => AWrite b | SSwap => ASwap | SLw => ALowerWrite | SUn => AUnswap | SSnap => ASnap r | SRead => ARead
  end.

Fixpoint split_at (f : sact -> bool) (l : list sact) : option (list sact * list sact) :=
  match l with
  | [] => None
  | a :: t => if f a then Some ([], t)
              else match split_at f t with Some (p, q) => Some (a :: p, q) | None => None end
  end.

Definition is_snap (a : sact) := match a with SSnap => true | _ => false end.
Definition is_read (a : sact) := match a with SRead => true | _ => false end.
Definition sact_ok (a : sact) : bool :=
  match a with SW b => forallb (fun kv => negb (isnil (fst kv)) && bytes_okb (fst kv)) b | _ => true end.

(* states of the system at the instants between the reader's two steps *)
Fixpoint instants (c : cstate) (mid : list action) : list cstate :=
  c :: match mid with [] => [] | a :: t => instants (cstep c a) t end.

Definition sorted_batch (b : lmap) : lmap := copy_into b [].

Definition check_sched (bk : backend) (acts : list sact) (r : range) (impl : kvs) : N :=
  match split_at is_snap acts with
  | Some (pre, rest1) =>
      match split_at is_read rest1 with
      | Some (mid, post) =>
          if existsb is_snap (pre ++ mid ++ post) || existsb is_read (pre ++ mid ++ post) then 3
          else
            let c0 := {| cbk := bk; cm := []; ctemp := None; cx := []; rsnap := None; rans := None |} in
            let norm := fun a => match a with SW b => SW (sorted_batch b) | x => x end in
            let acts' := fun l => map (fun a => to_action r (norm a)) l in
            let c1 := cstep (crun c0 (acts' pre)) (ASnap r) in
            let c2 := cstep (crun c1 (acts' mid)) ARead in
            let model_ok := option_eqb kvs_eqb (rans c2) (Some impl) in
            let spec_ok := existsb (fun c => kvs_eqb (rq r (cflat c)) impl) (instants c1 (acts' mid)) in
            if spec_ok then (if model_ok then 0 else 1) else 2
      | None => 3
      end
  | None => 3
  end.

Definition to_action2 (r : range) (a : sact2) : action2 :=
  match a with
  | TW1 b => BWrite1 (sorted_batch b) | TW2 b => BSub (AWrite (sorted_batch b))
  | TSwap => BSub ASwap | TLw => BSub ALowerWrite | TUn => BSub AUnswap
  | TSnap1 => BSnap1 r | TSnap2 => BSub (ASnap r) | TRead => BSub ARead
  end.

Fixpoint split_at2 (f : sact2 -> bool) (l : list sact2) : option (list sact2 * list sact2) :=
  match l with
  | [] => None
  | a :: t => if f a then Some ([], t)
              else match split_at2 f t with Some (p, q) => Some (a :: p, q) | None => None end
  end.
Definition is_t (k : N) (a : sact2) : bool :=
  match a, k with TSnap1, 1 => true | TSnap2, 2 => true | TRead, 3 => true | _, _ => false end.
Definition is_reader2 (a : sact2) : bool := match a with TSnap1 | TSnap2 | TRead => true | _ => false end.
Definition sact2_ok (a : sact2) : bool :=
  match a with TW1 b | TW2 b => forallb (fun kv => negb (isnil (fst kv)) && bytes_okb (fst kv)) b | _ => true end.

Fixpoint instants2 (c : c2state) (mid : list action2) : list c2state :=
  c :: match mid with [] => [] | a :: t => instants2 (c2step c a) t end.

(* the reader's steps in order: pre, TSnap1, m1, TSnap2, m2, TRead, post; no other reader step anywhere *)
Definition check_sched2 (bk : backend) (acts : list sact2) (r : range) (impl : kvs) : N :=
  match split_at2 (is_t 1) acts with
  | Some (pre, rest1) =>
      match split_at2 (is_t 2) rest1 with
      | Some (m1, rest2) =>
          match split_at2 (is_t 3) rest2 with
          | Some (m2, post) =>
              if existsb is_reader2 (pre ++ m1 ++ m2 ++ post) then 3
              else
                let c0 := {| top := []; sub := {| cbk := bk; cm := []; ctemp := None; cx := []; rsnap := None; rans := None |};
                             r1 := None; ans2 := None |} in
                let tr := fun l => map (to_action2 r) l in
                let c1 := c2run c0 (tr pre) in
                let window := BSnap1 r :: tr m1 ++ BSub (ASnap r) :: tr m2 in
                let c2 := c2step (c2run c1 window) (BSub ARead) in
                let model_ok := option_eqb kvs_eqb (ans2 c2) (Some impl) in
                let spec_ok := existsb (fun c => kvs_eqb (rq r (flat_depth_layers (rdepth r) (phys c) (cx (sub c)))) impl)
                                       (instants2 c1 window) in
                if spec_ok then (if model_ok then 0 else 1) else 2
          | None => 3
          end
      | None => 3
      end
  | None => 3
  end.

Definition fact_okb (a : fact) : bool :=
  match a with FW b | FWTop _ b | FWLow b => forallb (fun kv => negb (isnil (fst kv)) && bytes_okb (fst kv)) b | _ => true end.
Definition finit (bk : backend) (nups : N) : fstate :=
  {| ups := repeat [] (N.to_nat nups);
     fsub := {| cbk := bk; cm := []; ctemp := None; cx := []; rsnap := None; rans := None |} |}.

Definition check_case (c : case) : N :=
  match c with
  | CFailSeek bk nups acts r impl =>
      match backend_of bk with
      | Some b =>
          if forallb fact_okb acts && bytes_okb (rprefix r) && bytes_okb (rstart r) && negb (isnil (rprefix r)) && (nups <? 8) then
            let s := frun_ (finit b nups) acts in
            let spec := rq r (if rdepth r =? 0 then f_flat s else flat_depth_layers (rdepth r) (f_layers s) (cx (fsub s))) in
            code_of (kvs_eqb (f_seek s r) impl) (kvs_eqb spec impl)
          else 3
      | None => 3
      end
  | CFailGet bk nups acts k impl =>
      match backend_of bk with
      | Some b =>
          if forallb fact_okb acts && negb (isnil k) && bytes_okb k && (nups <? 8) then
            let s := frun_ (finit b nups) acts in
            code_of (option_eqb keq (f_get s k) impl) (option_eqb keq (lookup k (f_flat s)) impl)
          else 3
      | None => 3
      end
  | CSched2 bk acts r impl =>
      match backend_of bk with
      | Some b =>
          if forallb sact2_ok acts && bytes_okb (rprefix r) && bytes_okb (rstart r) && negb (isnil (rprefix r))
          then check_sched2 b acts r impl else 3
      | None => 3
      end
  | CSched bk acts r impl =>
      match backend_of bk with
      | Some b =>
          if forallb sact_ok acts && bytes_okb (rprefix r) && bytes_okb (rstart r) && negb (isnil (rprefix r)) && (rdepth r =? 0)
          then check_sched b acts r impl else 3
      | None => 3
      end
  | CLockGet bk acts k impl =>
      match backend_of bk with
      | Some b =>
          if forallb sact_ok acts && negb (isnil k) && bytes_okb k && negb (existsb is_snap acts) && negb (existsb is_read acts) then
            let c0 := {| cbk := b; cm := []; ctemp := None; cx := []; rsnap := None; rans := None |} in
            let norm := fun a => match a with SW w => SW (sorted_batch w) | x => x end in
            let c := crun c0 (map (fun a => to_action (R [] [] false 0) (norm a)) acts) in
            (* Get is one read-locked region: maps, then s.ps.Get (tempstore's maps, then the base) *)
            let model := match lookup k (cm c) with
                         | Some ov => ov
                         | None => match ctemp c with
                                   | Some (t, _) => match lookup k t with Some ov => ov | None => lookup k (cx c) end
                                   | None => lookup k (cx c)
                                   end
                         end in
            code_of (option_eqb keq model impl) (option_eqb keq (lookup k (cflat c)) impl)
          else 3
      | None => 3
      end
  | CGet bk ops k impl =>
      match backend_of bk with
      | Some b =>
          if forallb op_ok ops && negb (isnil k) && bytes_okb k then
            let s := run (init b) ops in
            let s2 := run2 (init2 b) ops in
            code_of (option_eqb keq (store_get2 s2 k) impl) (option_eqb keq (spec_get s k) impl)
          else 3
      | None => 3
      end
  | CSeek bk ops api id r lim impl =>
      match backend_of bk with
      | Some b =>
          if forallb op_ok ops && bytes_okb (rprefix r) && bytes_okb (rstart r) && (api <? 7) && (id <? 4294967296)
             && ((3 <=? api) || negb (isnil (rprefix r))) then
            let s := run (init b) ops in
            let s2 := run2 (init2 b) ops in
            code_of (kvs_eqb (take lim (model_of s2 api id r)) impl) (kvs_eqb (take lim (spec_of s api id r)) impl)
          else 3
      | None => 3
      end
  end.
