(* Correspondence cases for C19: the trace of an in-process network of real consensus services, checked against the
   guards of the abstract dBFT node (Consensus/Dbft.v) and against agreement.

   Events, in the order they happened:
     ESend i h t v b    validator i broadcast a message for height h: t = 0 PrepareRequest (b = proposal id), 1 PrepareResponse
                        (b = id of the proposal it answers), 2 Commit, 3 ChangeView (v = the view asked for),
                        4 RecoveryRequest, 5 RecoveryMessage; v = view
     EDeliver i k       the message of event number k was handed to validator i (OnPayload)
     EAccept i h v b    validator i's service handed block b (view v) for height h to its ledger
   What a validator "knows" at a moment = the messages handed to it + its own + (through a RecoveryMessage) what the sender of
   that message knew when it sent it — a superset of what its dBFT instance has actually processed, so every guard below is
   necessary for the real library to have acted as the abstract node would. *)
From NG Require Import Common.Tactics Common.HarnessLib Codec.Multisig Consensus.Witness.
Open Scope N_scope.

Inductive event :=
| ESend (i h t v b : N)
| EDeliver (i k : N)
| EAccept (i h v b : N).

Inductive case :=
| CRun (n : N) (evs : list event)
(* a block hand-over in a directed schedule: number of validators, the service's view, its commit table (view of the stored
   Commit of each validator, -1 = none), for each signature of the witness the validator whose key verifies it over the
   block (-1 = nobody), and whether the own and an independent ledger accepted the block *)
| CWitness (n cur : N) (views : list Z) (signers : list Z) (own_ok other_ok : bool)
(* a crafted PrepareRequest handed to a real backup: the facts the glue checks (previous hash, version, state root, number
   of hashes, timestamp, block size, system fee) and per transaction 0 = known and valid, 1 = unknown and not obtainable,
   2 = obtained but invalid, 3 = repetition; what the backup did *)
| CProposal (prev_ok ver_ok sr_ok cnt_ok ts_ok size_ok fee_ok : bool) (txs : list N) (responded change_view requested : bool)
(* loss, then synchrony, through the recovery glue at target view w: for every payload a receiver rebuilt from a
   RecoveryMessage (kind 0 PrepareRequest 1 PrepareResponse 2 Commit 3 ChangeView, the view it carries, the view of the
   recovery message, the view of the payload it copies (-1: none), equal field by field, witness verifies); the number of
   synchronous rounds until every live service produced the block; decided, same block, ledgers accept, chain goes on *)
| CRecovery (n w : N) (items : list (N * N * N * Z * bool * bool)) (rounds : N)
            (decided same_block accepted after_ok : bool)
(* full blocks: every pool holds [total] valid transactions, the binding limit allows [cap] per block; transactions carried
   by the successive blocks, and hashes in the successive proposals of the real primaries *)
| CFull (total cap : N) (blocks : list N) (proposed : list N)
(* one block, several valid witnesses, on fresh ledgers: mode 0 = header from A then block from B, 2 = two headers from A
   then two blocks from B (must be accepted); 1 = block from A then block from B (already known: refused, nothing changes);
   3 = header from A then B's block with M-1 signatures, 4 = with a signature over another block (must be refused) *)
| CCross (items : list (N * bool)).

Definition sendrec := (N * N * N * N * N * N)%type.   (* index, sender, height, type, view, b *)

Fixpoint insert_u (x : N) (l : list N) : list N :=
  match l with
  | [] => [x]
  | y :: t => if x <? y then x :: l else if x =? y then l else y :: insert_u x t
  end.
Definition union_u (a b : list N) : list N := fold_right insert_u b a.
Definition mem_n (x : N) (l : list N) : bool := existsb (N.eqb x) l.

Fixpoint get {A} (d : A) (l : list (N * A)) (k : N) : A :=
  match l with [] => d | (k', x) :: t => if k' =? k then x else get d t k end.
Definition put {A} (l : list (N * A)) (k : N) (x : A) : list (N * A) := (k, x) :: l.

Record cst := mkC {
  idx : N;                          (* number of events seen *)
  sends : list sendrec;             (* all send events so far *)
  know : list (N * list N);         (* validator -> send indices it knows (own included) *)
  snaps : list (N * list N);        (* recovery message index -> what its sender knew *)
  accepted : list (N * N * N);      (* (height, validator, block) *)
  okg : bool;                       (* all guards so far *)
}.

Definition prim (n h v : N) : N := ((h mod n) + n - (v mod n)) mod n.
Definition quorum (n : N) : N := n - (n - 1) / 3.

Definition known_sends (c : cst) (i : N) : list sendrec :=
  let k := get [] (know c) i in filter (fun r => let '(x, _, _, _, _, _) := r in mem_n x k) (sends c).

Definition distinct_senders (l : list sendrec) : N :=
  N.of_nat (length (fold_right insert_u [] (map (fun r => let '(_, j, _, _, _, _) := r in j) l))).

(* own earlier sends of validator i at height h *)
Definition own (c : cst) (i h : N) : list sendrec :=
  filter (fun r => let '(_, j, h', _, _, _) := r in (j =? i) && (h' =? h)) (sends c).

Definition committed_view (c : cst) (i h : N) : option N :=
  match filter (fun r => let '(_, _, _, t, _, _) := r in t =? 2) (own c i h) with
  | (_, _, _, _, v, _) :: _ => Some v
  | [] => None
  end.

Definition max_view (c : cst) (i h : N) : N :=
  fold_right (fun r m => let '(_, _, _, t, v, _) := r in if (t <? 3) && (m <? v) then v else m) 0 (own c i h).

Definition guard_send (n : N) (c : cst) (i h t v b : N) : bool :=
  let ks := known_sends c i in
  let lockok := match committed_view c i h with Some cv => (t =? 4) || (t =? 5) || ((t <? 3) && (v =? cv)) | None => true end in
  (* moving to a higher view needs M ChangeViews for at least that view *)
  let viewok :=
    if (t <? 3) && (max_view c i h <? v) && negb (v =? 0) then
      quorum n <=? distinct_senders (filter (fun r => let '(_, _, h', t', v', _) := r in (h' =? h) && (t' =? 3) && (v <=? v')) ks)
    else true in
  let own_ok :=
    match t with
    | 0 => (i =? prim n h v)
           && forallb (fun r => let '(_, _, h', t', v', b') := r in negb ((h' =? h) && (t' =? 0) && (v' =? v)) || (b' =? b)) (sends c)
    | 1 => negb (i =? prim n h v)
           && existsb (fun r => let '(_, j, h', t', v', b') := r in (h' =? h) && (t' =? 0) && (v' =? v) && (b' =? b) && (j =? prim n h v)) ks
    | 2 => (* M preparations for the proposal of this view; the commit itself is the first of this height or a repetition *)
           let props := filter (fun r => let '(_, j, h', t', v', _) := r in (h' =? h) && (t' =? 0) && (v' =? v) && (j =? prim n h v)) ks in
           match props with
           | (_, _, _, _, _, pb) :: _ =>
               quorum n <=? distinct_senders (filter (fun r => let '(_, _, h', t', v', b') := r in
                                               (h' =? h) && ((t' =? 0) || (t' =? 1)) && (v' =? v) && (b' =? pb)) ks)
           | [] => false
           end
    | 3 => match committed_view c i h with Some _ => false | None => true end
    | _ => true
    end in
  lockok && viewok && own_ok.

Definition guard_accept (n : N) (c : cst) (i h v : N) : bool :=
  let ks := known_sends c i in
  quorum n <=? distinct_senders (filter (fun r => let '(_, _, h', t', v', _) := r in (h' =? h) && (t' =? 2) && (v' =? v)) ks).

Definition cstep (n : N) (c : cst) (e : event) : cst :=
  match e with
  | ESend i h t v b =>
      let k := idx c in
      (* the message is known to its sender; a recovery message carries everything its sender knows *)
      let c1 := mkC (idx c) ((k, i, h, t, v, b) :: sends c) (put (know c) i (insert_u k (get [] (know c) i)))
                    (snaps c) (accepted c) (okg c) in
      let g := guard_send n c1 i h t v b in
      mkC (k + 1) (sends c1) (know c1)
          (if t =? 5 then put (snaps c1) k (get [] (know c1) i) else snaps c1) (accepted c1) (okg c && g)
  | EDeliver i k =>
      let extra := get [] (snaps c) k in
      mkC (idx c + 1) (sends c) (put (know c) i (insert_u k (union_u extra (get [] (know c) i)))) (snaps c) (accepted c) (okg c)
  | EAccept i h v b =>
      mkC (idx c + 1) (sends c) (know c) (snaps c) ((h, i, b) :: accepted c) (okg c && guard_accept n c i h v)
  end.

Definition agree (acc : list (N * N * N)) : bool :=
  forallb (fun a => forallb (fun a' => let '(h, _, b) := a in let '(h', _, b') := a' in negb (h =? h') || (b =? b')) acc) acc.

(* the model's table: validator i, view v -> a signature of i over "the header of view v" *)
Definition table_of (views : list Z) : table :=
  map (fun iv => let '(i, v) := iv in if (v <? 0)%Z then None else Some (Z.to_N v, mkSg i (Z.to_N v)))
      (combine (seq 0 (length views)) views).

Fixpoint increasing (l : list Z) (lo : Z) : bool :=
  match l with [] => true | x :: t => (lo <? x)%Z && increasing t x end.

(* verifyRequest, then the missing-transaction wait, then verifyBlock (consensus.go) *)
Definition proposal_expect (prev_ok ver_ok sr_ok cnt_ok ts_ok size_ok fee_ok : bool) (txs : list N) : bool * bool * bool :=
  (* (PrepareResponse, ChangeView, transactions requested) *)
  if negb (prev_ok && ver_ok && sr_ok && cnt_ok) then (false, true, false)
  (* a repeated hash: dBFT's hasAllTransactions (len(hashes) = len(transactions)) never holds, the backup stays silent
     until its timer fires; verifyBlock's duplicate check is not reached *)
  else if existsb (N.eqb 3) txs then (false, false, existsb (N.eqb 1) txs || existsb (N.eqb 2) txs)
  else if existsb (N.eqb 1) txs then (false, false, true)
  else if ts_ok && size_ok && fee_ok && forallb (N.eqb 0) txs then (true, false, existsb (N.eqb 2) txs)
  else (false, true, existsb (N.eqb 2) txs).

Definition check_case (c : case) : N :=
  match c with
  | CWitness n cur views signers own_ok other_ok =>
      let m := N.to_nat (quorum n) in
      let w := assemble true m cur (table_of views) in
      let expected := map (fun s => Z.of_nat (signer s)) w in
      let mech := list_eqb Z.eqb expected signers in
      (* specification: M signatures, each valid for some validator, in validator order, both ledgers accept *)
      let spec := own_ok && other_ok && Nat.eqb (length signers) m && increasing signers (-1)
                  && seq_match (verify_hd cur) (seq 0 (length views)) w in
      if mech && spec then 0 else if spec then 1 else 2
  | CCross items =>
      (* Consensus/WitnessProofs.v any_current_view_quorum_witness_valid: every M-subset of the current-view commits in
         validator order passes the check, so acceptance does not depend on whose copy arrives; fewer or foreign do not *)
      if forallb (fun it => let '(m, ok) := it in
                    if (m =? 0) || (m =? 2) then ok else if m =? 1 then ok else negb ok) items
      then 0 else 2
  | CFull total cap blocks proposed =>
      (* Consensus/Packing.v: the primary proposes min(cap, what is left); the backups accept it, so it is the block *)
      let fix chunks (fuel : nat) (left : N) : list N :=
        match fuel with O => [] | S f => if left =? 0 then [] else N.min cap left :: chunks f (left - N.min cap left) end in
      let want := chunks (S (N.to_nat total)) total in
      let spec := negb (cap =? 0) && list_eqb N.eqb blocks want in
      let mech := list_eqb N.eqb proposed want in
      if mech && spec then 0 else if spec then 1 else 2
  | CRecovery n w items rounds decided same accepted after_ok =>
      (* mechanism (Consensus/Recovery.v restore): preparations and commits are stamped with the view of the message *)
      let mech := forallb (fun it => let '(k, v, rv, _, _, _) := it in (k =? 3) || (v =? rv)) items in
      (* specification: what is rebuilt is what was sent, with its view and a verifiable witness; the height is decided
         by every live validator within the bound, the same block everywhere, accepted by the ledgers; blocks keep coming *)
      let spec := forallb (fun it => let '(_, v, _, ov, eq, sg) := it in (Z.of_N v =? ov)%Z && eq && sg) items
                  && decided && same && accepted && after_ok && (rounds <=? 6) in
      if mech && spec then 0 else if spec then 1 else 2
  | CProposal a b c0 d e f g txs responded cv requested =>
      let '(r, v, q) := proposal_expect a b c0 d e f g txs in
      (* specification: a PrepareResponse exactly for an acceptable proposal *)
      let spec := Bool.eqb responded r in
      let mech := spec && Bool.eqb cv v && (negb q || requested) in
      if mech && spec then 0 else if spec then 1 else 2
  | CRun n evs =>
      if (n =? 4) || (n =? 7) then
        let final := fold_left (cstep n) evs (mkC 0 [] [] [] [] true) in
        let m := okg final in
        let s := agree (accepted final) in
        if m && s then 0 else if s then 1 else 2
      else 3
  end.
