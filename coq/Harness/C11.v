(* Correspondence cases for C11.  One case = one whole history of one store in one trie mode, as the harness
   observed it on the real mpt.Trie / stateroot.Module: per block the reference-count changes (hash ids interned
   to small numbers), what the independent walker counted in the new trie, and the full dump of the DataMPT keys
   (id, active flag, counter-or-stamp) after every event.
   Verdict: 2 when a dump differs from the SPECIFICATION (table recomputed from the walker's counts alone:
   exact counts / inactive-with-stamp / collected), else 1 when it differs from the MECHANISM model
   (TrieRC.Model: addRef/removeRef deltas folded by Flush/updateRefCount, gc), else 0. *)
From NG Require Import Common.Tactics Common.HarnessLib TrieRC.Model.
Open Scope Z_scope.

Inductive hev :=
| HBlock (deltas : list (N * Z))          (* net addRef/removeRef per node of this block *)
         (inits : list (N * Z))           (* cached stored counters seen in the refcount map before Flush (hook), may be [] *)
         (collapse : bool)                (* Trie.Collapse called after the flush *)
         (occs : list (N * Z))            (* walker: occurrences of every node of the new trie *)
         (dump : list (N * (bool * Z)))   (* node table after the block *)
| HDrop  (deltas : list (N * Z)) (dump : list (N * (bool * Z)))   (* computed, then dropped; table afterwards *)
| HGC    (G : N) (dump : list (N * (bool * Z))).

Definition dumpt := list (N * (bool * Z)).

Inductive case :=
| CHist (m : N) (evs : list hev)       (* m: 0 ModeAll, 1 ModeLatest, 2 ModeGC *)
(* sub-command c11gc: raw DataMPT dumps of the PERSISTENT store before and after every GC half of a Run tick on a real
   chain with GarbageCollectionPeriod gcp: persisted height, persisted height before the last flush, the value
   MaxTraceableBlocks has at the current height by the model (configuration before Echidna, Policy's value afterwards),
   dump before, dump after *)
| CGcRuns (gcp : Z) (runs : list (Z * Z * Z * dumpt * dumpt)).

Definition mode_of (m : N) : option mode :=
  match m with 0%N => Some MAll | 1%N => Some MLatest | 2%N => Some MGC | _ => None end.

Fixpoint rep (n : nat) (o : refop) (acc : list refop) : list refop :=
  match n with O => acc | S k => o :: rep k o acc end.
Definition ops_of (deltas : list (N * Z)) : list refop :=
  fold_right (fun '((h, d) : N * Z) acc =>
                if 0 <? d then rep (Z.to_nat d) (AddRef h h) acc
                else rep (Z.to_nat (- d)) (RemRef h h) acc) [] deltas.

Definition ent_eqb (e : entry) (x : bool * Z) : bool :=
  Bool.eqb (e_active e) (fst x) && (e_val e =? snd x).
(* same content: every dumped key is in the model table with the same flag and value, and the sizes agree
   (model keys are unique by construction, dumped keys come from a Go map) *)
Definition tbl_eqb (tbl : table) (dump : list (N * (bool * Z))) : bool :=
  (length tbl =? length dump)%nat &&
  forallb (fun '((h, x) : N * (bool * Z)) => match lookup tbl h with Some e => ent_eqb e x | None => false end) dump.

(* ---- specification table, from the walker's counts only ---- *)
Definition stbl := list (N * (bool * Z)).
Definition occ_of (occs : list (N * Z)) (h : N) : Z := match lookup occs h with Some c => c | None => 0 end.
Definition spec_block (m : mode) (idx : Z) (prev : stbl) (occs : list (N * Z)) : stbl :=
  let live := map (fun '((h, c) : N * Z) => (h, (true, if rcm m then c else 0))) (filter (fun '((h, c) : N * Z) => 0 <? c) occs) in
  match m with
  | MLatest => live
  | MGC =>
      live ++ map (fun '((h, (a, v)) : N * (bool * Z)) => (h, (false, if a then idx else v)))
                  (filter (fun '((h, _) : N * (bool * Z)) => occ_of occs h <=? 0) prev)
  | MAll => live ++ filter (fun '((h, _) : N * (bool * Z)) => occ_of occs h <=? 0) prev
  end.
Definition spec_gc (G : Z) (prev : stbl) : stbl := filter (fun '((h, (a, v)) : N * (bool * Z)) => a || (G <? v)) prev.
Definition stbl_eqb (s : stbl) (dump : list (N * (bool * Z))) : bool :=
  (length s =? length dump)%nat &&
  forallb (fun '((h, x) : N * (bool * Z)) => match lookup s h with
                          | Some y => Bool.eqb (fst y) (fst x) && (snd y =? snd x)
                          | None => false
                          end) dump.

(* cached counters seen by the hook are either "unknown" or the stored counter *)
Definition inits_ok (m : mode) (tbl : table) (inits : list (N * Z)) : bool :=
  forallb (fun '((h, i) : N * Z) => (i =? 0) || negb (rcm m) ||
                          match read_store m tbl h with Some e => e_val e =? i | None => false end) inits.

(* returns (model_ok, spec_ok) *)
Fixpoint go (m : mode) (s : option st) (sp : stbl) (n : Z) (evs : list hev) (mok sok : bool) : bool * bool :=
  match evs with
  | [] => (mok, sok)
  | HBlock deltas inits collapse occs dump :: r =>
      let idx := n + 1 in
      let sp' := spec_block m idx sp occs in
      let sok' := sok && stbl_eqb sp' dump in
      match s with
      | None => go m None sp' idx r false sok'
      | Some st0 =>
          let iok := inits_ok m (s_tbl st0) inits in
          match step true m st0 (EBlock None (ops_of deltas)) with
          | None => go m None sp' idx r false sok'
          | Some st1 =>
              let st2 := if collapse then match step true m st1 ECollapse with Some x => x | None => st1 end else st1 in
              go m (Some st2) sp' idx r (mok && iok && tbl_eqb (s_tbl st1) dump) sok'
          end
      end
  | HDrop deltas dump :: r =>
      let sok' := sok && stbl_eqb sp dump in
      match s with
      | None => go m None sp n r false sok'
      | Some st0 =>
          match step true m st0 (EDrop None (ops_of deltas)) with
          | None => go m None sp n r false sok'
          | Some st1 => go m (Some st1) sp n r (mok && tbl_eqb (s_tbl st1) dump) sok'
          end
      end
  | HGC G dump :: r =>
      let sp' := spec_gc (Z.of_N G) sp in
      let sok' := sok && stbl_eqb sp' dump in
      match s with
      | None => go m None sp' n r false sok'
      | Some st0 =>
          match step true m st0 (EGC (N.to_nat G)) with
          | None => go m None sp' n r false sok'
          | Some st1 => go m (Some st1) sp' n r (mok && tbl_eqb (s_tbl st1) dump) sok'
          end
      end
  end.

(* tryRunGC: the target is (persisted - MaxTraceableBlocks) rounded down to the period; the collection runs when the
   target exceeds the period and the persisted height crossed a period boundary since the previous tick *)
Definition gc_target (gcp mtb p old : Z) : option Z :=
  let tgt := (p - mtb) / gcp * gcp in if (gcp <? tgt) && negb (p / gcp =? old / gcp) then Some tgt else None.
Definition dump_keep (G : Z) (x : bool * Z) : bool := fst x || (G <? snd x).
Definition same_entry (x y : bool * Z) : bool := Bool.eqb (fst x) (fst y) && (snd x =? snd y).
Definition dump_sub (a b : dumpt) : bool :=       (* every entry of a is in b, unchanged *)
  forallb (fun '((h, x) : N * (bool * Z)) => match lookup b h with Some y => same_entry x y | None => false end) a.
Definition gc_run_model (gcp : Z) (r : Z * Z * Z * dumpt * dumpt) : bool :=
  let '(p, old, mtb, before, after) := r in
  let expect := match gc_target gcp mtb p old with
                | Some G => filter (fun '((h, x) : N * (bool * Z)) => dump_keep G x) before
                | None => before
                end in
  dump_sub expect after && dump_sub after expect.
(* specification: nothing that a state inside the traceable window of the PERSISTED chain can need is removed (active
   entries and entries that left after height persisted - MaxTraceableBlocks stay; the window length is never 0), and
   nothing is added or altered *)
Definition gc_run_spec (gcp : Z) (r : Z * Z * Z * dumpt * dumpt) : bool :=
  let '(p, old, mtb, before, after) := r in
  (0 <? mtb) &&
  dump_sub (filter (fun '((h, x) : N * (bool * Z)) => dump_keep (p - mtb) x) before) after && dump_sub after before.

Definition check_case (c : case) : N :=
  match c with
  | CGcRuns gcp runs =>
      if gcp <=? 0 then 3%N
      else if negb (forallb (gc_run_spec gcp) runs) then 2%N
      else if forallb (gc_run_model gcp) runs then 0%N else 1%N
  | CHist mn evs =>
      match mode_of mn with
      | None => 3%N
      | Some m =>
          let '(mok, sok) := go m (Some init) [] 0 evs true true in
          if negb sok then 2%N else if mok then 0%N else 1%N
      end
  end.
