(* Removal of a pooled transaction (removeInternal / removeFromMapWithFeesAndAttrs) keeps the invariant. *)
From NG Require Import Common.Tactics Mempool.Model Mempool.Spec Mempool.Lemmas.
From Coq Require Import Sorting.Sorted.
Open Scope N_scope.

Definition getl (h : N) (c : list (N * list N)) : list N :=
  match mget N.eqb h c with Some l => l | None => [] end.

Lemma conf_of_getl : forall h s, conf_of h s = getl h (confs s).
Proof. reflexivity. Qed.

(* ---------- remove_first ---------- *)
Lemma in_remove_first : forall me l x, NoDup l -> (In x (remove_first me l) <-> In x l /\ x <> me).
Proof.
  intros me; induction l as [|y l IH]; intros x ND; simpl.
  - tauto.
  - inv ND. destruct (y =? me) eqn:E.
    + apply N.eqb_eq in E; subst. split.
      * intros H; split; auto. intros ->; auto.
      * intros [[<-|H] Hne]; [contradiction|auto].
    + apply N.eqb_neq in E. simpl. rewrite IH by auto. split.
      * intros [<-|[H Hne]]; auto.
      * intros [[<-|H] Hne]; auto.
Qed.
Lemma nodup_remove_first : forall me l, NoDup l -> NoDup (remove_first me l).
Proof.
  intros me; induction l as [|y l IH]; intros ND; simpl; auto.
  inv ND. destruct (y =? me); auto. constructor; auto.
  rewrite in_remove_first by auto. tauto.
Qed.
Lemma remove_first_nonempty : forall me l, In me l -> (length l =? 1)%nat = false -> remove_first me l <> [].
Proof.
  intros me [|y [|z l]] Hin Hl; simpl in *; try discriminate; try contradiction.
  destruct (y =? me); discriminate.
Qed.

(* ---------- removeConflictsOf ---------- *)
Lemma rce_one : forall me c h,
  In me (getl h c) -> mget N.eqb h c <> Some [] ->
  let c' := remove_conflict_entry me c h in
  getl h c' = remove_first me (getl h c)
  /\ (forall h', h' <> h -> mget N.eqb h' c' = mget N.eqb h' c)
  /\ (forall h', (forall k, mget N.eqb k c <> Some []) -> mget N.eqb h' c' <> Some []).
Proof.
  intros me c h Hin Hne; unfold remove_conflict_entry, getl in *.
  destruct (mget N.eqb h c) as [l|] eqn:G; [|contradiction].
  destruct (length l =? 1)%nat eqn:L; cbv zeta.
  - destruct l as [|y [|z l]]; simpl in L; try discriminate. destruct Hin as [->|[]].
    rewrite nget_del_eq. simpl. rewrite N.eqb_refl. repeat split; auto.
    + intros h' Hh; apply nget_del_neq; auto.
    + intros h' Hall. destruct (N.eq_dec h' h) as [->|Hh]; [rewrite nget_del_eq; discriminate|].
      rewrite nget_del_neq; auto.
  - rewrite nget_set_eq. repeat split; auto.
    + intros h' Hh; apply nget_set_neq; auto.
    + intros h' Hall. destruct (N.eq_dec h' h) as [->|Hh].
      * rewrite nget_set_eq. intros E; inv E. eapply remove_first_nonempty; eauto.
      * rewrite nget_set_neq; auto.
Qed.

Lemma rce_fold : forall me hs c,
  NoDup hs -> (forall h, In h hs -> In me (getl h c)) -> (forall k, mget N.eqb k c <> Some []) ->
  let c' := fold_left (remove_conflict_entry me) hs c in
  (forall h, In h hs -> getl h c' = remove_first me (getl h c))
  /\ (forall h, ~ In h hs -> mget N.eqb h c' = mget N.eqb h c)
  /\ (forall k, mget N.eqb k c' <> Some []).
Proof.
  intros me; induction hs as [|h0 hs IH]; intros c ND Hin Hne; simpl.
  - repeat split; auto. intros h [].
  - inv ND.
    destruct (rce_one me c h0) as (A & B & C); auto; [apply Hin; simpl; auto|].
    specialize (IH (remove_conflict_entry me c h0) H2).
    destruct IH as (A' & B' & C').
    + intros h Hh. unfold getl. rewrite B by (intros ->; contradiction). apply Hin; simpl; auto.
    + intros k; apply C; auto.
    + repeat split; auto.
      * intros h [<-|Hh].
        -- unfold getl at 1. rewrite B' by auto. apply A.
        -- rewrite A' by auto. unfold getl. rewrite B by (intros ->; contradiction). auto.
      * intros h Hh. rewrite B' by tauto. apply B. intros ->; apply Hh; auto.
Qed.

(* ---------- the central lemma ---------- *)
Lemma nodup_mid : forall (l1 : list tx) e l2,
  NoDup (map tid (l1 ++ e :: l2)) ->
  NoDup (map tid (l1 ++ l2)) /\ (forall x, In x (l1 ++ l2) -> tid x <> tid e).
Proof.
  intros l1 e l2 H. rewrite map_app in H; simpl in H.
  split.
  - rewrite map_app. eapply NoDup_remove_1; eauto.
  - intros x Hx Heq. apply NoDup_remove_2 in H. apply H. rewrite <- map_app, <- Heq. apply in_map; auto.
Qed.

Lemma in_mid : forall (l1 : list tx) e l2 x, In x (l1 ++ e :: l2) <-> x = e \/ In x (l1 ++ l2).
Proof. intros; rewrite !in_app_iff; simpl. intuition. Qed.

Section Remove.
  Variable U : tx -> Prop.
  Variable bal : payer -> N.
  Hypothesis GU : good_universe U.
  Hypothesis BOK : bal_ok bal.

  Lemma remove_from_map_inv : forall pend s l1 e l2,
    InvP U bal pend s -> vtxs s = l1 ++ e :: l2 ->
    InvP U bal pend (remove_from_map e (set_vtxs s (l1 ++ l2))).
  Proof.
    intros pend s l1 e l2 I Hv.
    pose proof (inv_nodup _ _ _ _ I) as ND. rewrite Hv in ND.
    destruct (nodup_mid _ _ _ ND) as [ND' Hne].
    assert (Hin : forall x, In x (vtxs s) <-> x = e \/ In x (l1 ++ l2)) by (intros; rewrite Hv; apply in_mid).
    assert (He : In e (vtxs s)) by (apply Hin; auto).
    constructor; unfold remove_from_map, set_vtxs; cbn [vtxs vmap fees confs oresp cap fpbmin].
    - (* nodup *) auto.
    - (* map *)
      intros h x. destruct (N.eq_dec h (tid e)) as [->|Hh].
      + rewrite nget_del_eq. split; [discriminate|]. intros [Hx Ht]. exfalso; eapply Hne; eauto.
      + rewrite nget_del_neq by auto. rewrite (inv_map _ _ _ _ I), Hin. split.
        * intros [[->|Hx] Ht]; [congruence|auto].
        * intros [Hx Ht]; auto.
    - (* cap *)
      pose proof (inv_cap _ _ _ _ I) as C. rewrite Hv in C. rewrite app_length in *; simpl in *. lia.
    - (* sorted *)
      pose proof (inv_sorted _ _ _ _ I) as S. rewrite Hv in S. eapply sorted_remove_mid; eauto.
    - (* fees *)
      intros p. pose proof (inv_fees _ _ _ _ I (payer_of e)) as Fe.
      destruct (mget payer_eqb (payer_of e) (fees s)) as [[b sm]|] eqn:G; [|exfalso; eapply Fe; eauto].
      destruct Fe as (Hb & Hsm & Hle). cbn [fst snd].
      assert (Hsplit : sum_fees (payer_of e) (vtxs s) = fee e + sum_fees (payer_of e) (l1 ++ l2)).
      { rewrite Hv, !sum_fees_app, sum_fees_cons, payer_eqb_refl. lia. }
      destruct (payer_eqb_eq p (payer_of e)) as [_ Hpe].
      destruct (payer_eqb p (payer_of e)) eqn:E.
      + apply payer_eqb_eq in E; subst p. rewrite pget_set_eq.
        rewrite wsub_small by (pose proof (BOK (payer_of e)); pose proof two255_lt_W; lia).
        repeat split; auto; lia.
      + assert (Hp : p <> payer_of e) by (intros ->; rewrite payer_eqb_refl in E; discriminate).
        rewrite pget_set_neq by auto.
        pose proof (inv_fees _ _ _ _ I p) as Fp.
        destruct (mget payer_eqb p (fees s)) as [[b' sm']|].
        * destruct Fp as (? & ? & ?). repeat split; auto.
          subst sm'. rewrite Hv, !sum_fees_app, sum_fees_cons.
          rewrite payer_eqb_neq by auto. lia.
        * intros x Hx; apply Fp; apply Hin; auto.
    - (* confs *)
      intros h. rewrite conf_of_getl; cbn [vtxs vmap fees confs oresp cap fpbmin].
      destruct (rce_fold (tid e) (confl e) (confs s)) as (A & B & C).
      + apply (gu_confl_nodup _ GU); apply (inv_univ _ _ _ _ I); auto.
      + intros k Hk. rewrite <- conf_of_getl. apply (inv_confs _ _ _ _ I k). exists e; auto.
      + intros k; apply (inv_confs _ _ _ _ I k).
      + destruct (inv_confs _ _ _ _ I h) as (N1 & N2 & N3).
        destruct (in_dec N.eq_dec h (confl e)) as [Hh|Hh].
        * rewrite A by auto. rewrite <- conf_of_getl. split; [apply nodup_remove_first; auto|]. split; auto.
          intros x. rewrite in_remove_first by auto. rewrite N2. split.
          -- intros [(x0 & Hx0 & Ht & Hc) Hxe]. exists x0; repeat split; auto.
             apply Hin in Hx0 as [->|?]; auto. congruence.
          -- intros (x0 & Hx0 & Ht & Hc). split; [exists x0; repeat split; auto; apply Hin; auto|].
             subst x. apply Hne; auto.
        * unfold getl. rewrite B by auto. fold (getl h (confs s)). rewrite <- conf_of_getl.
          split; auto. split; auto.
          intros x. rewrite N2. split.
          -- intros (x0 & Hx0 & Ht & Hc). exists x0; repeat split; auto.
             apply Hin in Hx0 as [->|?]; auto. contradiction.
          -- intros (x0 & Hx0 & Ht & Hc). exists x0; repeat split; auto. apply Hin; auto.
    - (* noconf *)
      intros a b Ha Hb. apply (inv_noconf _ _ _ _ I); apply Hin; auto.
    - (* oracle *)
      intros id h.
      assert (Hgen : mget N.eqb id (oresp s) = Some h <->
                     (exists x, In x (vtxs s) /\ tid x = h /\ oracle x = Some id) \/ pend = Some (id, h))
        by apply (inv_oracle _ _ _ _ I).
      destruct (oracle e) as [ide|] eqn:Oe.
      + destruct (N.eq_dec id ide) as [->|Hid].
        * rewrite nget_del_eq. split; [discriminate|].
          intros [(x & Hx & Ht & Ho)|Hp].
          -- exfalso.
             assert (E1 : mget N.eqb ide (oresp s) = Some (tid x))
               by (apply (inv_oracle _ _ _ _ I); left; exists x; repeat split; auto; apply Hin; auto).
             assert (E2 : mget N.eqb ide (oresp s) = Some (tid e))
               by (apply (inv_oracle _ _ _ _ I); left; exists e; repeat split; auto).
             rewrite E1 in E2; inv E2. eapply Hne; eauto.
          -- exfalso. eapply (inv_pend _ _ _ _ I); eauto.
        * rewrite nget_del_neq by auto. rewrite Hgen. split.
          -- intros [(x & Hx & Ht & Ho)|Hp]; auto. left; exists x; repeat split; auto.
             apply Hin in Hx as [->|?]; auto. congruence.
          -- intros [(x & Hx & Ht & Ho)|Hp]; auto. left; exists x; repeat split; auto. apply Hin; auto.
      + rewrite Hgen. split.
        * intros [(x & Hx & Ht & Ho)|Hp]; auto. left; exists x; repeat split; auto.
          apply Hin in Hx as [->|?]; auto. congruence.
        * intros [(x & Hx & Ht & Ho)|Hp]; auto. left; exists x; repeat split; auto. apply Hin; auto.
    - (* pend *)
      intros id h x Hp Hx. eapply (inv_pend _ _ _ _ I); eauto. apply Hin; auto.
    - (* univ *)
      intros x Hx. apply (inv_univ _ _ _ _ I). apply Hin; auto.
  Qed.
End Remove.

Lemma filter_id : forall {A} (f : A -> bool) l, (forall x, In x l -> f x = true) -> filter f l = l.
Proof.
  intros A f; induction l as [|y l IH]; intros H; simpl; auto.
  rewrite H by (simpl; auto). f_equal; apply IH; intros; apply H; simpl; auto.
Qed.

Definition without (h : N) (l : list tx) : list tx := filter (fun x => negb (tid x =? h)) l.

Lemma in_without : forall h l x, In x (without h l) <-> In x l /\ tid x <> h.
Proof.
  intros; unfold without. rewrite filter_In, negb_true_iff, N.eqb_neq. tauto.
Qed.

Lemma without_mid : forall h l1 e l2,
  tid e = h -> (forall x, In x (l1 ++ l2) -> tid x <> h) -> without h (l1 ++ e :: l2) = l1 ++ l2.
Proof.
  intros h l1 e l2 He Hne. unfold without. rewrite filter_app; simpl.
  rewrite He, N.eqb_refl; simpl. rewrite <- filter_app. apply filter_id.
  intros x Hx. apply negb_true_iff, N.eqb_neq; auto.
Qed.

Section RemoveInternal.
  Variable U : tx -> Prop.
  Variable bal : payer -> N.
  Hypothesis GU : good_universe U.
  Hypothesis BOK : bal_ok bal.

  Lemma remove_internal_inv : forall pend s h,
    InvP U bal pend s ->
    exists s', remove_internal h s = Some s'
      /\ InvP U bal pend s'
      /\ vtxs s' = without h (vtxs s)
      /\ cap s' = cap s /\ fpbmin s' = fpbmin s
      /\ (mget N.eqb h (vmap s) = None -> s' = s)
      /\ (mget N.eqb h (vmap s) <> None -> S (length (vtxs s')) = length (vtxs s)).
  Proof.
    intros pend s h I. unfold remove_internal.
    destruct (mget N.eqb h (vmap s)) as [e0|] eqn:G.
    - apply (inv_map _ _ _ _ I) in G as [Hin0 Ht0].
      destruct (find_index (fun e => tid e =? h) (vtxs s)) as [i|] eqn:F.
      + apply find_index_some in F as (e & Hn & He). apply N.eqb_eq in He.
        rewrite Hn. pose proof (nth_error_split' _ _ _ Hn) as Hv.
        set (l1 := firstn i (vtxs s)) in *. set (l2 := skipn (S i) (vtxs s)) in *.
        pose proof (inv_nodup _ _ _ _ I) as ND. rewrite Hv in ND.
        destruct (nodup_mid _ _ _ ND) as [_ Hne].
        eexists; split; [reflexivity|]. split; [apply remove_from_map_inv; auto|].
        unfold remove_from_map, set_vtxs; cbn [vtxs cap fpbmin].
        split; [|split; [auto|split; [auto|split; [intros; discriminate|]]]].
        * rewrite Hv. symmetry; apply without_mid; auto. intros x Hx; rewrite <- He; auto.
        * intros _. rewrite Hv. rewrite !app_length; simpl. lia.
      + exfalso. pose proof (find_index_none _ _ F e0 Hin0) as F'. simpl in F'. rewrite Ht0, N.eqb_refl in F'. discriminate.
    - refine (ex_intro _ s (conj eq_refl (conj I (conj _ (conj eq_refl (conj eq_refl (conj (fun _ => eq_refl) _))))))).
      + symmetry; apply filter_id. intros x Hx. apply negb_true_iff, N.eqb_neq. intros Ht.
        assert (E : mget N.eqb h (vmap s) = Some x) by (apply (inv_map _ _ _ _ I); auto). congruence.
      + intros H; contradiction.
  Qed.

  (* removing a list of hashes *)
  Lemma remove_all_inv : forall hs pend s,
    InvP U bal pend s ->
    exists s', remove_all hs s = Some s'
      /\ InvP U bal pend s'
      /\ (forall x, In x (vtxs s') <-> In x (vtxs s) /\ ~ In (tid x) hs)
      /\ cap s' = cap s /\ fpbmin s' = fpbmin s
      /\ (length (vtxs s') <= length (vtxs s))%nat
      /\ (length (vtxs s') = length (vtxs s) -> s' = s).
  Proof.
    induction hs as [|h hs IH]; intros pend s I; simpl.
    - refine (ex_intro _ s (conj eq_refl (conj I (conj _ (conj eq_refl (conj eq_refl (conj (le_n _) (fun _ => eq_refl)))))))).
      intros; tauto.
    - destruct (remove_internal_inv pend s h I) as (s1 & E1 & I1 & V1 & C1 & P1 & N1 & L1).
      rewrite E1. destruct (IH pend s1 I1) as (s2 & E2 & I2 & V2 & C2 & P2 & Le2 & Eq2).
      exists s2. split; auto. split; auto.
      assert (Hlen1 : (length (vtxs s1) <= length (vtxs s))%nat).
      { destruct (mget N.eqb h (vmap s)) eqn:G; [rewrite <- L1 by discriminate; lia | rewrite N1 by auto; lia]. }
      split; [intros x; split|split; [congruence|split; [congruence|split; [lia|]]]].
      + intros H; split.
        * apply V2 in H. destruct H as [H _]. rewrite V1 in H. apply in_without in H; tauto.
        * apply V2 in H. destruct H as [H H']. rewrite V1 in H. apply in_without in H.
          intros [E|Hc]; [apply (proj2 H); auto | tauto].
      + intros [Hx Hn]. apply V2. split; [|tauto]. rewrite V1. apply in_without. split; auto.
      + intros Hl. destruct (mget N.eqb h (vmap s)) eqn:G.
        * rewrite <- L1 in Hl by discriminate. lia.
        * rewrite N1 in * by auto. apply Eq2; auto.
  Qed.
End RemoveInternal.
