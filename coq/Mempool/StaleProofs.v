(* RemoveStale rebuilds a state satisfying the invariant for the new Feer answers. *)
From NG Require Import Common.Tactics Mempool.Model Mempool.Spec Mempool.Lemmas Mempool.RemoveProofs Mempool.AddProofs.
From Coq Require Import Sorting.Sorted.
Open Scope N_scope.

Section Stale.
  Variable U : tx -> Prop.
  Variable bal : payer -> N.          (* the new Feer *)
  Hypothesis GU : good_universe U.
  Hypothesis BOK : bal_ok bal.

  (* loop invariant: [keep] = kept so far, [todo] = not yet visited *)
  Record SInv (capacity : nat) (keep todo : list tx) (vm : list (N * tx)) (f : list (payer * (N * N)))
         (c : list (N * list N)) (o : list (N * N)) : Prop := {
    si_nodup : NoDup (map tid (keep ++ todo));
    si_sorted : sorted (keep ++ todo);
    si_cap : (length (keep ++ todo) <= capacity)%nat;
    si_noconf : forall a b, In a (keep ++ todo) -> In b (keep ++ todo) -> ~ In (tid a) (confl b);
    si_univ : forall e, In e (keep ++ todo) -> U e;
    si_map : forall h e, mget N.eqb h vm = Some e <-> In e (keep ++ todo) /\ tid e = h;
    si_fees : forall p,
        match mget payer_eqb p f with
        | Some (b, sm) => b = bal p /\ sm = sum_fees p keep /\ sm <= b
        | None => forall e, In e keep -> payer_of e <> p
        end;
    si_confs : forall h,
        NoDup (getl h c)
        /\ (forall x, In x (getl h c) <-> exists e, In e keep /\ tid e = x /\ In h (confl e))
        /\ mget N.eqb h c <> Some [];
    si_oracle : forall id h,
        mget N.eqb id o = Some h <-> exists e, In e (keep ++ todo) /\ tid e = h /\ oracle e = Some id
  }.

  Lemma sinv_cache : forall capacity keep todo vm f c o p,
    SInv capacity keep todo vm f c o -> mget payer_eqb p f = None ->
    SInv capacity keep todo vm (mset payer_eqb p (bal p, 0) f) c o.
  Proof.
    intros capacity keep todo vm f c o p S G. destruct S. constructor; auto.
    intros q. destruct (payer_eqb q p) eqn:E.
    - apply payer_eqb_eq in E; subst q. rewrite pget_set_eq.
      specialize (si_fees0 p). rewrite G in si_fees0. rewrite sum_fees_none by auto. repeat split; auto; lia.
    - rewrite pget_set_neq; [apply si_fees0|]. intros ->; rewrite payer_eqb_refl in E; discriminate.
  Qed.

  Lemma sinv_drop : forall capacity keep t todo vm f c o,
    SInv capacity keep (t :: todo) vm f c o ->
    SInv capacity keep todo (mdel N.eqb (tid t) vm) f c
         (match oracle t with Some id => mdel N.eqb id o | None => o end).
  Proof.
    intros capacity keep t todo vm f c o S. destruct S.
    destruct (nodup_mid _ _ _ si_nodup0) as [ND Hne].
    assert (Hin : forall x, In x (keep ++ t :: todo) <-> x = t \/ In x (keep ++ todo)) by (intros; apply in_mid).
    constructor; auto.
    - eapply sorted_remove_mid; eauto.
    - rewrite app_length in *; simpl in *; lia.
    - intros a b Ha Hb. apply si_noconf0; apply Hin; auto.
    - intros e He. apply si_univ0; apply Hin; auto.
    - intros h e. destruct (N.eq_dec h (tid t)) as [->|Hh].
      + rewrite nget_del_eq. split; [discriminate|]. intros [He Ht]. exfalso; eapply Hne; eauto.
      + rewrite nget_del_neq by auto. rewrite si_map0, Hin. split.
        * intros [[->|He] Ht]; [congruence|auto].
        * intros [He Ht]; auto.
    - intros id h.
      destruct (oracle t) as [idt|] eqn:Ot.
      + destruct (N.eq_dec id idt) as [->|Hid].
        * rewrite nget_del_eq. split; [discriminate|]. intros (e & He & Ht & Ho). exfalso.
          assert (E1 : mget N.eqb idt o = Some (tid e)) by (apply si_oracle0; exists e; repeat split; auto; apply Hin; auto).
          assert (E2 : mget N.eqb idt o = Some (tid t)) by (apply si_oracle0; exists t; repeat split; auto; apply Hin; auto).
          rewrite E1 in E2; inv E2. eapply Hne; eauto.
        * rewrite nget_del_neq by auto. rewrite si_oracle0. split.
          -- intros (e & He & Ht & Ho). exists e; repeat split; auto. apply Hin in He as [->|?]; auto. congruence.
          -- intros (e & He & Ht & Ho). exists e; repeat split; auto. apply Hin; auto.
      + rewrite si_oracle0. split.
        * intros (e & He & Ht & Ho). exists e; repeat split; auto. apply Hin in He as [->|?]; auto. congruence.
        * intros (e & He & Ht & Ho). exists e; repeat split; auto. apply Hin; auto.
  Qed.

  Lemma sinv_keep : forall capacity keep t todo vm f c o b sm,
    SInv capacity keep (t :: todo) vm f c o ->
    mget payer_eqb (payer_of t) f = Some (b, sm) -> fee t + sm <= b ->
    SInv capacity (keep ++ [t]) todo vm (mset payer_eqb (payer_of t) (b, fee t + sm) f)
         (fold_left (add_conf (tid t)) (confl t) c) o.
  Proof.
    intros capacity keep t todo vm f c o b sm S G Hle. destruct S.
    assert (Happ : (keep ++ [t]) ++ todo = keep ++ t :: todo) by (rewrite <- app_assoc; reflexivity).
    destruct (nodup_mid _ _ _ si_nodup0) as [ND Hne].
    assert (Ut : U t) by (apply si_univ0; apply in_mid; auto).
    constructor; rewrite ?Happ; auto.
    - (* fees *)
      intros q. set (p := payer_of t) in *.
      pose proof (si_fees0 p) as Fp. rewrite G in Fp. destruct Fp as (Hb & Hsm & _).
      destruct (payer_eqb q p) eqn:E.
      + apply payer_eqb_eq in E; subst q. rewrite pget_set_eq.
        rewrite sum_fees_app; simpl. fold p. rewrite payer_eqb_refl. repeat split; auto; lia.
      + assert (q <> p) by (intros ->; rewrite payer_eqb_refl in E; discriminate).
        rewrite pget_set_neq by auto. pose proof (si_fees0 q) as Fq.
        destruct (mget payer_eqb q f) as [[b' sm']|].
        * rewrite sum_fees_app; simpl. fold p. rewrite payer_eqb_neq by auto.
          destruct Fq as (? & ? & ?). repeat split; auto; lia.
        * intros e He. apply in_app_iff in He as [He|[<-|[]]]; auto.
    - (* confs *)
      intros h. destruct (add_conf_fold (tid t) (confl t) c) as [A B]; [apply (gu_confl_nodup _ GU); auto|].
      destruct (si_confs0 h) as (N1 & N2 & N3).
      destruct (in_dec N.eq_dec h (confl t)) as [Hh|Hh].
      + unfold getl at 1 2. rewrite A by auto.
        split; [|split; [|intros E; inv E; destruct (getl h c); discriminate]].
        * apply NoDup_app_iff'. split; auto. split; [constructor; auto; constructor|].
          intros x Hx [<-|[]]. apply N2 in Hx as (e & He & Ht & _).
          eapply Hne; eauto. apply in_app_iff; auto.
        * intros x. rewrite !in_app_iff, N2; simpl. split.
          -- intros [(e & He & Ht & Hc)|[<-|[]]]; [exists e|exists t]; repeat split; auto; apply in_app_iff; simpl; auto.
          -- intros (e & He & Ht & Hc). apply in_app_iff in He as [He|[<-|[]]]; [left; exists e; auto|right; auto].
      + unfold getl at 1 2. rewrite B by auto. fold (getl h c). split; auto. split.
        * intros x. rewrite N2. split.
          -- intros (e & He & Ht & Hc). exists e; repeat split; auto; apply in_app_iff; auto.
          -- intros (e & He & Ht & Hc). apply in_app_iff in He as [He|[<-|[]]]; [exists e; auto|contradiction].
        * unfold getl in N3. auto.
  Qed.

  Lemma stale_step_inv : forall capacity isok changed fpb keep t todo vm f c o,
    SInv capacity keep (t :: todo) vm f c o ->
    match stale_step bal isok changed fpb (keep, vm, f, c, o) t with
    | (keep', vm', f', c', o') => SInv capacity keep' todo vm' f' c' o'
    end.
  Proof.
    intros capacity isok changed fpb keep t todo vm f c o S. unfold stale_step.
    assert (Ut : U t) by (apply (si_univ _ _ _ _ _ _ _ S); apply in_mid; auto).
    pose proof (BOK (payer_of t)) as Bp. pose proof two255_lt_W as TW. pose proof (gu_fee64 _ GU t Ut) as F64.
    destruct (isok t && (negb changed || (fpb <=? fee_per_byte t))).
    - unfold try_add_senders_fee, get_payer_fee.
      destruct (mget payer_eqb (payer_of t) f) as [[b sm]|] eqn:G.
      + pose proof (si_fees _ _ _ _ _ _ _ S (payer_of t)) as Fp. rewrite G in Fp. destruct Fp as (Hb & Hsm & Hle).
        unfold check_balance; cbn [fst snd].
        destruct (b <? fee t) eqn:B1; cbn [fst snd]; [apply sinv_drop; auto|].
        rewrite wadd_small by lia.
        destruct (b <? fee t + sm) eqn:B2; cbn [fst snd]; [apply sinv_drop; auto|].
        apply N.ltb_ge in B2. change (fold_left _ (confl t) c) with (fold_left (add_conf (tid t)) (confl t) c).
        apply sinv_keep; auto.
      + pose proof (sinv_cache _ _ _ _ _ _ _ _ S G) as S1.
        unfold check_balance; cbn [fst snd].
        destruct (bal (payer_of t) <? fee t) eqn:B1; cbn [fst snd]; [apply sinv_drop; auto|].
        rewrite wadd_small by lia.
        destruct (bal (payer_of t) <? fee t + 0) eqn:B2; cbn [fst snd]; [apply sinv_drop; auto|].
        apply N.ltb_ge in B2. change (fold_left _ (confl t) c) with (fold_left (add_conf (tid t)) (confl t) c).
        apply sinv_keep; auto. apply pget_set_eq.
    - cbn [fst snd]. apply sinv_drop; auto.
  Qed.

  Lemma stale_fold_inv : forall capacity isok changed fpb todo keep vm f c o,
    SInv capacity keep todo vm f c o ->
    match fold_left (stale_step bal isok changed fpb) todo (keep, vm, f, c, o) with
    | (keep', vm', f', c', o') => SInv capacity keep' [] vm' f' c' o'
    end.
  Proof.
    intros capacity isok changed fpb; induction todo as [|t todo IH]; intros keep vm f c o S; cbn [fold_left]; auto.
    pose proof (stale_step_inv capacity isok changed fpb keep t todo vm f c o S) as S1.
    destruct (stale_step bal isok changed fpb (keep, vm, f, c, o) t) as [[[[k v] f'] c'] o'].
    apply IH; auto.
  Qed.

  Lemma remove_stale_inv : forall bal0 newfpb isok s,
    Inv U bal0 s -> Inv U bal (remove_stale bal newfpb isok s).
  Proof.
    intros bal0 newfpb isok s I. unfold remove_stale.
    assert (S0 : SInv (cap s) [] (vtxs s) (vmap s) [] [] (oresp s)).
    { destruct I. constructor; simpl; auto.
      - intros h. split; [constructor|]. split; [|discriminate].
        intros x; split; [intros []|intros (e & [] & _)].
      - intros id h. rewrite inv_oracle. split; [intros [H|H]; [auto|discriminate]|auto]. }
    pose proof (stale_fold_inv (cap s) isok (fpbmin s <? newfpb) (if fpbmin s <? newfpb then newfpb else fpbmin s)
                               (vtxs s) [] (vmap s) [] [] (oresp s) S0) as S1.
    destruct (fold_left _ (vtxs s) _) as [[[[k v] f'] c'] o'].
    destruct S1. rewrite app_nil_r in *.
    constructor; cbn [vtxs vmap fees confs oresp cap fpbmin]; auto.
    - intros id h. rewrite si_oracle0. split; [auto|intros [H|H]; [auto|discriminate]].
    - discriminate.
  Qed.

  Definition keep_of (acc : list tx * list (N * tx) * list (payer * (N * N)) * list (N * list N) * list (N * N)) : list tx :=
    fst (fst (fst (fst acc))).

  Lemma stale_step_keep : forall isok changed fpb acc t,
    (keep_of (stale_step bal isok changed fpb acc t) = keep_of acc ++ [t] /\ isok t = true)
    \/ keep_of (stale_step bal isok changed fpb acc t) = keep_of acc.
  Proof.
    intros isok changed fpb [[[[k v] f] c] o] t. unfold stale_step, keep_of.
    destruct (isok t) eqn:Ok; cbn [andb].
    - destruct (negb changed || (fpb <=? fee_per_byte t)).
      + destruct (fst (try_add_senders_fee bal f t true)); cbn [fst]; auto.
      + cbn [fst]; auto.
    - cbn [fst]; auto.
  Qed.

  Lemma remove_stale_sub : forall newfpb isok s x,
    In x (vtxs (remove_stale bal newfpb isok s)) -> In x (vtxs s) /\ isok x = true.
  Proof.
    intros newfpb isok s x. unfold remove_stale.
    set (changed := fpbmin s <? newfpb). set (fpb := if changed then newfpb else fpbmin s).
    assert (G : forall todo acc,
               (forall y, In y (keep_of acc) -> In y (vtxs s) /\ isok y = true) -> (forall y, In y todo -> In y (vtxs s)) ->
               forall y, In y (keep_of (fold_left (stale_step bal isok changed fpb) todo acc)) ->
                         In y (vtxs s) /\ isok y = true).
    { induction todo as [|t todo IH]; intros acc Hk Ht y; cbn [fold_left]; auto.
      apply IH; [|intros; apply Ht; simpl; auto].
      intros z Hz. destruct (stale_step_keep isok changed fpb acc t) as [[E Ok]|E]; rewrite E in Hz; auto.
      apply in_app_iff in Hz as [Hz|[<-|[]]]; auto. split; auto. apply Ht; simpl; auto. }
    intros Hx. specialize (G (vtxs s) ([], vmap s, [], [], oresp s)).
    unfold keep_of in G.
    destruct (fold_left _ (vtxs s) _) as [[[[k v] f'] c'] o']. cbn [vtxs fst] in *.
    apply G; auto. intros ? [].
  Qed.
End Stale.
