(* The two accepted behaviours of the repaired pool about the stored fee per byte ([follow_fpb], repair F57):
   [repaired false] = [fixed_cfg] stores the Feer's fee per byte only when it rose; [repaired true] stores it at
   every RemoveStale, so a decrease is followed and a later increase is compared with the current value.
   Nothing else depends on the switch, the invariant does not mention the stored value, and what ONE RemoveStale
   keeps is the same under both; they differ in what a LATER RemoveStale considers an increase.
   Every sequence-level theorem of Main.v / Resend.v is proved here for both. *)
From NG Require Import Common.Tactics Mempool.Model Mempool.Spec Mempool.Lemmas Mempool.AddMain Mempool.Main Mempool.Resend.
Open Scope N_scope.

Lemma inv_set_fpbmin : forall U bal pend s f, InvP U bal pend s -> InvP U bal pend (set_fpbmin s f).
Proof. intros U bal pend [v m fe c o k fp] f I. destruct I. constructor; auto. Qed.

(* Add, Verify and Remove do not look at the switch *)
Lemma add_follow_irrelevant : forall a b f f' bal s t, add (mkCfg a b f) bal s t = add (mkCfg a b f') bal s t.
Proof. reflexivity. Qed.
Lemma verify_follow_irrelevant : forall a b f f' bal s t, verify (mkCfg a b f) bal s t = verify (mkCfg a b f') bal s t.
Proof. reflexivity. Qed.

Lemma step_repaired : forall follow st o,
  step (repaired follow) st o =
  match o with
  | OStale isok bal' newfpb =>
      (ROk, mkState (stale_variant (repaired follow) newfpb (remove_stale bal' newfpb isok (st_pool st))) bal')
  | _ => step fixed_cfg st o
  end.
Proof. intros follow st [t|h|t|isok bal' newfpb]; reflexivity. Qed.

Section Both.
  Variable U : tx -> Prop.
  Hypothesis GU : good_universe U.

  Lemma step_ok_both : forall follow st o,
    st_ok U st -> op_ok U o ->
    fst (step (repaired follow) st o) <> RPanic /\ st_ok U (snd (step (repaired follow) st o)).
  Proof.
    intros follow st o S Ho. rewrite step_repaired.
    destruct o as [t|h|t|isok bal' newfpb]; try (apply (step_ok U GU); auto).
    pose proof (step_ok U GU st (OStale isok bal' newfpb) S Ho) as [_ [B I]]. cbn [step snd st_bal st_pool] in B, I.
    cbn [fst snd]. split; [discriminate|]. split; cbn [st_bal st_pool]; auto.
    unfold stale_variant in *. cbn [follow_fpb fixed_cfg repaired] in *.
    destruct follow; auto. apply inv_set_fpbmin; auto.
  Qed.

  Lemma run_ok_both : forall follow ops st, st_ok U st -> Forall (op_ok U) ops -> st_ok U (run (repaired follow) st ops).
  Proof.
    intros follow; induction ops as [|o ops IH]; intros st S F; simpl; auto.
    inv F. apply IH; auto. apply step_ok_both; auto.
  Qed.

  (* the invariant after every sequence, under either behaviour *)
  Theorem inv_reachable_both : forall follow capacity bal0 ops,
    bal_ok bal0 -> Forall (op_ok U) ops ->
    let st := run (repaired follow) (mkState (new_pool capacity) bal0) ops in
    Inv U (st_bal st) (st_pool st).
  Proof.
    intros follow capacity bal0 ops B F. apply run_ok_both; auto. split; simpl; auto. apply inv_init.
  Qed.

  Theorem no_panic_both : forall follow capacity bal0 ops,
    bal_ok bal0 -> Forall (op_ok U) ops ->
    ~ In RPanic (results (repaired follow) (mkState (new_pool capacity) bal0) ops).
  Proof.
    intros follow capacity bal0 ops B F.
    assert (G : forall ops st, st_ok U st -> Forall (op_ok U) ops -> ~ In RPanic (results (repaired follow) st ops)).
    { clear - GU. induction ops as [|o ops IH]; intros st S F; unfold results; simpl; auto.
      inv F. destruct (step_ok_both follow st o S H1) as [Hr Hs].
      destruct (step (repaired follow) st o) as [r st'] eqn:E; simpl in *.
      rewrite results_acc. simpl. intros [Hc|Hin]; [congruence|]. eapply IH; eauto. }
    apply G; auto. split; simpl; auto. apply inv_init.
  Qed.

  (* ... with block heights, stamps and resend thresholds *)
  Theorem resend_preserves_inv_both : forall follow capacity bal0 ops,
    bal_ok bal0 -> Forall (fun ro => Forall (op_ok U) (plain ro)) ops ->
    let rs := rrun (repaired follow) (mkR (mkState (new_pool capacity) bal0) [] 0) ops in
    Inv U (st_bal (r_st rs)) (st_pool (r_st rs)).
  Proof.
    intros follow capacity bal0 ops B F. cbv zeta. rewrite rrun_refines. apply inv_reachable_both; auto.
    clear -F. induction ops as [|o ops IH]; cbn [flat_map]; [constructor|].
    inv F. apply Forall_app; split; auto.
  Qed.
End Both.

(* one RemoveStale keeps the same transactions under both behaviours; only the stored value differs *)
Lemma stale_variant_same_pool : forall c newfpb p,
  vtxs (stale_variant c newfpb p) = vtxs p /\ vmap (stale_variant c newfpb p) = vmap p
  /\ fees (stale_variant c newfpb p) = fees p /\ confs (stale_variant c newfpb p) = confs p
  /\ oresp (stale_variant c newfpb p) = oresp p /\ cap (stale_variant c newfpb p) = cap p.
Proof. intros c newfpb p. unfold stale_variant. destruct (follow_fpb c); repeat split; reflexivity. Qed.

(* where they differ: the fee per byte is raised to 2, lowered to 0, a transaction paying 1 per byte is pooled, the
   fee per byte is raised to 2 again. "Increases only" still remembers 2: no increase, the transaction stays.
   "Follows decreases" compares with 0: an increase, the transaction is dropped. *)
Definition fv_tx : tx := mkTx 0 [2] 0 100 100 false [] None.            (* 1 per byte *)
Definition fv_bal (p : payer) : N := if payer_eqb p (2, 0) then 1000 else 0.
Definition fv_ops : list op :=
  [OStale (fun _ => true) fv_bal 2; OStale (fun _ => true) fv_bal 0; OAdd fv_tx; OStale (fun _ => true) fv_bal 2].
Example follow_fpb_differs :
  map tid (vtxs (st_pool (run (repaired false) (mkState (new_pool 3) fv_bal) fv_ops))) = [0]
  /\ map tid (vtxs (st_pool (run (repaired true) (mkState (new_pool 3) fv_bal) fv_ops))) = [].
Proof. vm_compute. split; reflexivity. Qed.
