(* The resend decision inside RemoveStale changes nothing in the pool: the run with heights, stamps and a resend
   threshold refines the plain run, so every C08 theorem carries over; the items handed to the resend callback
   are exactly the kept items whose age is threshold * 2^k. *)
From NG Require Import Common.Tactics Mempool.Model Mempool.Spec Mempool.Lemmas Mempool.Main.
Open Scope N_scope.

Definition drop_rs {A B C D E F} (x : A * B * C * D * E * F) : A * B * C * D * E := fst x.

Lemma stale_step_rs_proj : forall bal isok changed fpb height thr stamps acc t,
  drop_rs (stale_step_rs bal isok changed fpb height thr stamps acc t)
  = stale_step bal isok changed fpb (drop_rs acc) t.
Proof.
  intros bal isok changed fpb height thr stamps [[[[[keep vm] f] c] o] rs] t. unfold stale_step_rs, stale_step, drop_rs.
  cbn [fst]. destruct (fst (if isok t && (negb changed || (fpb <=? fee_per_byte t)) then try_add_senders_fee bal f t true else (false, f))); reflexivity.
Qed.

Lemma stale_fold_rs_proj : forall bal isok changed fpb height thr stamps l acc,
  drop_rs (fold_left (stale_step_rs bal isok changed fpb height thr stamps) l acc)
  = fold_left (stale_step bal isok changed fpb) l (drop_rs acc).
Proof.
  intros bal isok changed fpb height thr stamps; induction l as [|t l IH]; intros acc; cbn [fold_left]; auto.
  rewrite IH, stale_step_rs_proj. reflexivity.
Qed.

Theorem remove_stale_rs_pool : forall bal newfpb isok height thr stamps s,
  fst (remove_stale_rs bal newfpb isok height thr stamps s) = remove_stale bal newfpb isok s.
Proof.
  intros. unfold remove_stale_rs, remove_stale.
  pose proof (stale_fold_rs_proj bal isok (fpbmin s <? newfpb) (if fpbmin s <? newfpb then newfpb else fpbmin s)
                height thr stamps (vtxs s) ([], vmap s, [], [], oresp s, [])) as H.
  unfold drop_rs in H. cbn [fst] in H.
  destruct (fold_left (stale_step_rs _ _ _ _ _ _ _) (vtxs s) _) as [[[[[keep vm] f] c] o] rs]. cbn [fst] in *.
  rewrite <- H. reflexivity.
Qed.

(* what is resent: the kept items that are due, in pool order *)
Definition due (height thr : N) (stamps : list (N * N)) (t : tx) : bool := resend_due thr (height - stamp_of stamps t).

Definition keep6 {A B C D E F} (x : A * B * C * D * E * F) : A := fst (fst (fst (fst (fst x)))).
Definition rs6 {A B C D E F} (x : A * B * C * D * E * F) : F := snd x.

Lemma stale_step_rs_resent : forall bal isok changed fpb height thr stamps acc t,
  exists k, keep6 (stale_step_rs bal isok changed fpb height thr stamps acc t) = keep6 acc ++ k
            /\ rs6 (stale_step_rs bal isok changed fpb height thr stamps acc t) = rs6 acc ++ filter (due height thr stamps) k.
Proof.
  intros bal isok changed fpb height thr stamps [[[[[keep vm] f] c] o] rs] t. unfold stale_step_rs, keep6, rs6.
  destruct (fst (if isok t && (negb changed || (fpb <=? fee_per_byte t)) then try_add_senders_fee bal f t true else (false, f))); cbn [fst snd].
  - exists [t]. split; auto. cbn [filter]. unfold due. destruct (resend_due thr (height - stamp_of stamps t)); [reflexivity|rewrite app_nil_r; reflexivity].
  - exists []. rewrite !app_nil_r. auto.
Qed.

Lemma stale_fold_rs_resent : forall bal isok changed fpb height thr stamps l acc,
  exists k, keep6 (fold_left (stale_step_rs bal isok changed fpb height thr stamps) l acc) = keep6 acc ++ k
            /\ rs6 (fold_left (stale_step_rs bal isok changed fpb height thr stamps) l acc) = rs6 acc ++ filter (due height thr stamps) k.
Proof.
  intros bal isok changed fpb height thr stamps; induction l as [|t l IH]; intros acc; cbn [fold_left].
  - exists []. rewrite !app_nil_r; auto.
  - destruct (stale_step_rs_resent bal isok changed fpb height thr stamps acc t) as (k1 & A1 & B1).
    destruct (IH (stale_step_rs bal isok changed fpb height thr stamps acc t)) as (k2 & A2 & B2).
    exists (k1 ++ k2). rewrite A2, B2, A1, B1, filter_app, <- !app_assoc. auto.
Qed.

Theorem resent_exact : forall bal newfpb isok height thr stamps s,
  snd (remove_stale_rs bal newfpb isok height thr stamps s)
  = filter (due height thr stamps) (vtxs (fst (remove_stale_rs bal newfpb isok height thr stamps s))).
Proof.
  intros. unfold remove_stale_rs.
  destruct (stale_fold_rs_resent bal isok (fpbmin s <? newfpb) (if fpbmin s <? newfpb then newfpb else fpbmin s)
                height thr stamps (vtxs s) ([], vmap s, [], [], oresp s, [])) as (k & A & B).
  destruct (fold_left (stale_step_rs _ _ _ _ _ _ _) (vtxs s) _) as [[[[[keep vm] f] c] o] rs].
  unfold keep6, rs6 in *. cbn [fst snd app] in *. subst. reflexivity.
Qed.

(* the run with heights / stamps / threshold refines the plain run *)
Definition plain (ro : rop) : list op := match ro with RO o _ => [o] | RSetResend _ => [] end.

Lemma rstep_refines : forall c rs ro,
  r_st (snd (rstep c rs ro)) = fold_left (fun st o => snd (step c st o)) (plain ro) (r_st rs)
  /\ match ro with RO o _ => fst (fst (rstep c rs ro)) = fst (step c (r_st rs) o) | RSetResend _ => True end.
Proof.
  intros c rs [o h|t]; cbn [plain fold_left]; [|split; reflexivity].
  destruct o as [t|hh|t|isok bal' newfpb]; cbn [rstep].
  - destruct (step c (r_st rs) (OAdd t)) as [r st']; split; reflexivity.
  - destruct (step c (r_st rs) (ORemove hh)) as [r st']; split; reflexivity.
  - destruct (step c (r_st rs) (OVerify t)) as [r st']; split; reflexivity.
  - pose proof (remove_stale_rs_pool bal' newfpb isok h (r_thr rs) (r_stamps rs) (st_pool (r_st rs))) as P.
    destruct (remove_stale_rs _ _ _ _ _ _ _) as [p resent]. cbn [fst] in P. subst p. split; reflexivity.
Qed.

Theorem rrun_refines : forall c ops rs, r_st (rrun c rs ops) = run c (r_st rs) (flat_map plain ops).
Proof.
  intros c; induction ops as [|o ops IH]; intros rs; [reflexivity|].
  unfold rrun, run in *. cbn [fold_left flat_map]. rewrite fold_left_app, IH.
  destruct (rstep_refines c rs o) as [H _]. rewrite H. reflexivity.
Qed.

(* hence the invariant, whatever is or is not resent *)
Theorem resend_preserves_inv : forall U, good_universe U -> forall capacity bal0 ops,
  bal_ok bal0 -> Forall (fun ro => Forall (op_ok U) (plain ro)) ops ->
  let rs := rrun fixed_cfg (mkR (mkState (new_pool capacity) bal0) [] 0) ops in
  Inv U (st_bal (r_st rs)) (st_pool (r_st rs)).
Proof.
  intros U GU capacity bal0 ops B F. cbv zeta. rewrite rrun_refines. apply inv_reachable; auto.
  clear -F. induction ops as [|o ops IH]; cbn [flat_map]; [constructor|].
  inv F. apply Forall_app; split; auto.
Qed.
