(* Add keeps the invariant, never panics, evicts only the minimum, and a failed Add changes nothing. *)
From NG Require Import Common.Tactics Mempool.Model Mempool.Spec Mempool.Lemmas Mempool.RemoveProofs.
From Coq Require Import Sorting.Sorted.
Open Scope N_scope.

Definition vm_ok (vm : list (N * tx)) : Prop := forall h e, mget N.eqb h vm = Some e -> tid e = h.

Lemma cc_step1_spec : forall author vm hs acc,
  vm_ok vm -> (forall h, In h hs -> mget N.eqb h vm <> None) ->
  exists f es, cc_step1 author vm hs acc = Some (f, snd acc ++ es)
    /\ map tid es = hs /\ (forall e, In e es -> mget N.eqb (tid e) vm = Some e).
Proof.
  intros author vm; induction hs as [|h hs IH]; intros acc OK Hall; simpl.
  - exists (fst acc), []. rewrite app_nil_r. destruct acc; repeat split; auto. intros ? [].
  - destruct (mget N.eqb h vm) as [e|] eqn:G; [|exfalso; apply (Hall h); simpl; auto].
    destruct (IH ((if has_signer author e then fst acc + netfee e else fst acc), snd acc ++ [e]) OK) as (f & es & E & M & A).
    { intros; apply Hall; simpl; auto. }
    exists f, (e :: es). rewrite E; simpl. rewrite <- app_assoc; simpl. repeat split; auto.
    + rewrite M, (OK _ _ G); auto.
    + intros x [<-|Hx]; auto. rewrite (OK _ _ G); auto.
Qed.

Lemma cc_step2_spec : forall t vm hs acc f rm,
  vm_ok vm -> cc_step2 t vm hs acc = Some (f, rm) ->
  exists es, rm = snd acc ++ es
    /\ (forall e, In e es -> mget N.eqb (tid e) vm = Some e /\ In (tid e) hs)
    /\ (forall h e, In h hs -> mget N.eqb h vm = Some e -> In e es)
    /\ (NoDup hs -> NoDup (map tid es)).
Proof.
  intros t vm; induction hs as [|h hs IH]; intros acc f rm OK H; simpl in H.
  - inv H. exists []. rewrite app_nil_r. split; [auto|split; [intros ? []|split; [intros ? ? []|constructor]]].
  - destruct (mget N.eqb h vm) as [e|] eqn:G.
    + destruct (existsb (fun a => has_signer a t) (signers e)); [|discriminate].
      apply IH in H as (es & -> & A & B & C); auto. cbn [snd].
      exists (e :: es). rewrite <- app_assoc; simpl. repeat split; auto.
      * destruct H as [<-|H]; [rewrite (OK _ _ G); auto | apply A; auto].
      * destruct H as [<-|H]; [rewrite (OK _ _ G); simpl; auto | right; apply A; auto].
      * intros h' e' [<-|Hh] G'; [rewrite G in G'; inv G'; simpl; auto | right; eapply B; eauto].
      * intros ND; inv ND. simpl. constructor; auto.
        rewrite (OK _ _ G). intros Hc. apply in_map_iff in Hc as (x & Hx & Hxe).
        apply A in Hxe as [_ Hxe]. rewrite Hx in Hxe. contradiction.
    + apply IH in H as (es & -> & A & B & C); auto.
      exists es. repeat split; auto.
      * apply A; auto.
      * right; apply A; auto.
      * intros h' e' [<-|Hh] G'; [congruence | eapply B; eauto].
      * intros ND; inv ND; auto.
Qed.

Lemma cc_step3_fixed : forall p rm sum,
  sum_fees p rm <= sum -> sum < W -> cc_step3 fixed_cfg p rm sum = sum - sum_fees p rm.
Proof.
  intros p; induction rm as [|e rm IH]; intros sum Hle HW; unfold cc_step3 in *; simpl in *; [lia|].
  change (same_payer fixed_cfg p (payer_of e)) with (payer_eqb (payer_of e) p).
  destruct (payer_eqb (payer_of e) p).
  - rewrite wsub_small by lia. rewrite IH by lia. lia.
  - rewrite IH by lia. lia.
Qed.

Lemma payer_of_get_payer : forall t, fst (get_payer t) = payer_of t.
Proof. reflexivity. Qed.

Lemma nodup_insert_mid : forall {A} (a b : list A) x, NoDup (a ++ b) -> ~ In x (a ++ b) -> NoDup (a ++ x :: b).
Proof.
  intros A; induction a as [|y a IH]; intros b x ND Hn; simpl in *.
  - constructor; auto.
  - inv ND. constructor.
    + rewrite in_app_iff in *; simpl. intros [?|[->|?]]; tauto.
    + apply IH; auto.
Qed.

Definition add_conf (me : N) (c : list (N * list N)) (h : N) : list (N * list N) :=
  mset N.eqb h ((match mget N.eqb h c with Some l => l | None => [] end) ++ [me]) c.

Lemma add_conf_fold : forall me hs c,
  NoDup hs ->
  let c' := fold_left (add_conf me) hs c in
  (forall h, In h hs -> mget N.eqb h c' = Some (getl h c ++ [me]))
  /\ (forall h, ~ In h hs -> mget N.eqb h c' = mget N.eqb h c).
Proof.
  intros me; induction hs as [|h0 hs IH]; intros c ND; simpl.
  - split; [intros ? []|auto].
  - inv ND. destruct (IH (add_conf me c h0) H2) as [A B]. split.
    + intros h [<-|Hh].
      * rewrite B by auto. unfold add_conf. rewrite nget_set_eq. reflexivity.
      * rewrite A by auto. unfold getl, add_conf. rewrite nget_set_neq by (intros ->; contradiction). reflexivity.
    + intros h Hh. rewrite B by tauto. unfold add_conf. apply nget_set_neq. intros ->; apply Hh; auto.
Qed.

Section Add.
  Variable U : tx -> Prop.
  Variable bal : payer -> N.
  Hypothesis GU : good_universe U.
  Hypothesis BOK : bal_ok bal.

  (* the balance cache may be filled for a payer without pooled transactions *)
  Lemma cache_write_inv : forall pend s p,
    InvP U bal pend s -> mget payer_eqb p (fees s) = None ->
    InvP U bal pend (set_fees s (mset payer_eqb p (bal p, 0) (fees s))).
  Proof.
    intros pend s p I G. destruct I. constructor; unfold set_fees; cbn [vtxs vmap fees confs oresp cap fpbmin]; auto.
    intros q. destruct (payer_eqb q p) eqn:E.
    - apply payer_eqb_eq in E; subst q. rewrite pget_set_eq.
      specialize (inv_fees p). rewrite G in inv_fees.
      rewrite sum_fees_none by auto. repeat split; auto. lia.
    - assert (q <> p) by (intros ->; rewrite payer_eqb_refl in E; discriminate).
      rewrite pget_set_neq by auto. apply inv_fees.
  Qed.

  Definition conflicting (t x : tx) : Prop := In (tid t) (confl x) \/ In (tid x) (confl t).

  Lemma check_conflicts_spec : forall s t,
    Inv U bal s -> U t ->
    match check_conflicts fixed_cfg bal s t with
    | CCPanic => False
    | CCErr _ => True
    | CCOk rm s1 =>
        (forall e, In e rm -> In e (vtxs s))
        /\ NoDup (map tid rm)
        /\ (forall e, In e (vtxs s) -> conflicting t e -> In e rm)
        /\ (forall e, In e rm -> conflicting t e)
        /\ fee t + sum_fees (payer_of t) (vtxs s) <= bal (payer_of t) + sum_fees (payer_of t) rm
        /\ Inv U bal s1
        /\ vtxs s1 = vtxs s /\ vmap s1 = vmap s /\ confs s1 = confs s /\ oresp s1 = oresp s
        /\ cap s1 = cap s /\ fpbmin s1 = fpbmin s
        /\ (forall p, fee_view bal (fees s1) p = fee_view bal (fees s) p)
    end.
  Proof.
    intros s t I Ut. unfold check_conflicts.
    rewrite (surjective_pairing (get_payer t)). rewrite payer_of_get_payer.
    set (p := payer_of t). set (author := if snd (get_payer t) then snd p else fst p).
    assert (OK : vm_ok (vmap s)) by (intros h e G; apply (inv_map _ _ _ _ I) in G; tauto).
    (* the payer's entry *)
    assert (Hact : fst (fst (get_payer_fee bal p (fees s))) = bal p
                   /\ snd (fst (get_payer_fee bal p (fees s))) = sum_fees p (vtxs s)
                   /\ sum_fees p (vtxs s) <= bal p).
    { unfold get_payer_fee. pose proof (inv_fees _ _ _ _ I p) as F.
      destruct (mget payer_eqb p (fees s)) as [[b sm]|]; simpl.
      - destruct F as (? & ? & ?); subst; auto.
      - rewrite sum_fees_none by auto. repeat split; auto. lia. }
    destruct (get_payer_fee bal p (fees s)) as [actual ok] eqn:GPF. cbn [fst snd] in Hact.
    destruct Hact as (Hb & Hsm & Hle).
    (* step 1 *)
    change (match mget N.eqb (tid t) (confs s) with Some l => l | None => [] end) with (conf_of (tid t) s).
    destruct (inv_confs _ _ _ _ I (tid t)) as (C1 & C2 & C3).
    destruct (cc_step1_spec author (vmap s) (conf_of (tid t) s) (0, []) OK) as (f1 & es1 & E1 & M1 & A1).
    { intros h Hh. apply C2 in Hh as (e & He & Ht & _).
      assert (G : mget N.eqb h (vmap s) = Some e) by (apply (inv_map _ _ _ _ I); auto). congruence. }
    rewrite E1. cbn [snd app].
    destruct (cc_step2 t (vmap s) (confl t) (f1, es1)) as [[cfee rm]|] eqn:E2; auto.
    apply cc_step2_spec in E2 as (es2 & -> & A2 & B2 & D2); auto. cbn [snd] in *.
    destruct (negb (cfee =? 0) && (netfee t <=? cfee)); auto.
    (* facts about the removal list *)
    assert (P1 : forall e, In e es1 -> In e (vtxs s) /\ In (tid t) (confl e)).
    { intros e He. pose proof (A1 e He) as G. apply (inv_map _ _ _ _ I) in G as [G _]. split; auto.
      assert (Hc : In (tid e) (conf_of (tid t) s)) by (rewrite <- M1; apply in_map; auto).
      apply C2 in Hc as (e' & He' & Ht' & Hc').
      assert (G' : mget N.eqb (tid e) (vmap s) = Some e') by (apply (inv_map _ _ _ _ I); auto).
      rewrite (A1 e He) in G'; inv G'; auto. }
    assert (P2 : forall e, In e es2 -> In e (vtxs s) /\ In (tid e) (confl t)).
    { intros e He. destruct (A2 e He) as [G Hc]. apply (inv_map _ _ _ _ I) in G as [G _]. auto. }
    assert (R1 : forall e, In e (es1 ++ es2) -> In e (vtxs s)).
    { intros e He; apply in_app_iff in He as [He|He]; [apply P1|apply P2]; auto. }
    assert (R2 : NoDup (map tid (es1 ++ es2))).
    { rewrite map_app. apply NoDup_app_iff'.
      split; [rewrite M1; auto|]. split; [apply D2; apply (gu_confl_nodup _ GU); auto|].
      intros h H1 H2. apply in_map_iff in H1 as (e1 & <- & He1). apply in_map_iff in H2 as (e2 & Ht & He2).
      assert (e2 = e1).
      { pose proof (A1 e1 He1) as G1. destruct (A2 e2 He2) as [G2 _]. rewrite Ht in G2. congruence. }
      subst e2. destruct (P1 e1 He1) as [Hin Hc1]. destruct (P2 e1 He2) as [_ Hc2].
      eapply (gu_nomutual _ GU e1 t); eauto. apply (inv_univ _ _ _ _ I); auto. }
    assert (R3 : forall e, In e (vtxs s) -> conflicting t e -> In e (es1 ++ es2)).
    { intros e He [Hc|Hc]; apply in_app_iff.
      - left. assert (Hin : In (tid e) (conf_of (tid t) s)) by (apply C2; exists e; auto).
        rewrite <- M1 in Hin. apply in_map_iff in Hin as (e1 & Ht & He1).
        pose proof (A1 e1 He1) as G1. rewrite Ht in G1.
        assert (G : mget N.eqb (tid e) (vmap s) = Some e) by (apply (inv_map _ _ _ _ I); auto).
        rewrite G in G1; inv G1; auto.
      - right. eapply B2; eauto. apply (inv_map _ _ _ _ I); auto. }
    assert (R4 : forall e, In e (es1 ++ es2) -> conflicting t e).
    { intros e He; apply in_app_iff in He as [He|He]; [left; apply P1|right; apply P2]; auto. }
    assert (Hsum : sum_fees p (es1 ++ es2) <= sum_fees p (vtxs s)) by (apply sum_fees_incl; auto).
    (* step 3 and the balance check *)
    rewrite Hb, Hsm.
    pose proof (BOK p) as Bp. pose proof two255_lt_W as TW. pose proof (gu_fee64 _ GU t Ut) as F64.
    rewrite cc_step3_fixed by lia.
    unfold check_balance; cbn [fst snd].
    destruct (bal p <? fee t) eqn:B1; auto.
    rewrite wadd_small by lia.
    destruct (bal p <? fee t + (sum_fees p (vtxs s) - sum_fees p (es1 ++ es2))) eqn:B2'; auto.
    apply N.ltb_ge in B2'.
    split; auto. split; auto. split; auto. split; auto. split; [lia|].
    unfold get_payer_fee in GPF.
    destruct (mget payer_eqb p (fees s)) as [x|] eqn:G; inv GPF.
    - split; [exact I|]. repeat split; auto.
    - split; [apply cache_write_inv; auto|]. unfold set_fees; cbn [vtxs vmap fees confs oresp cap fpbmin].
      repeat split; auto.
      intros q; unfold fee_view. destruct (payer_eqb q p) eqn:E.
      + apply payer_eqb_eq in E; subst q. rewrite pget_set_eq, G; auto.
      + rewrite pget_set_neq; auto. intros ->; rewrite payer_eqb_refl in E; discriminate.
  Qed.

  (* ---------- the oracle stage ---------- *)
  Definition pend_of (t : tx) : option (N * N) :=
    match oracle t with Some id => Some (id, tid t) | None => None end.

  Lemma set_pending_inv : forall s id h,
    Inv U bal s -> mget N.eqb id (oresp s) = None ->
    InvP U bal (Some (id, h)) (set_oresp s (mset N.eqb id h (oresp s))).
  Proof.
    intros s id h I G. pose proof (inv_oracle _ _ _ _ I) as O.
    destruct I. constructor; unfold set_oresp; cbn [vtxs vmap fees confs oresp cap fpbmin]; auto.
    - intros id' h'. destruct (N.eq_dec id' id) as [->|Hid].
      + rewrite nget_set_eq. split.
        * intros E; inv E; auto.
        * intros [(e & He & Ht & Ho)|E]; [|inv E; auto].
          exfalso. assert (X : mget N.eqb id (oresp s) = Some h') by (apply O; left; exists e; auto). congruence.
      + rewrite nget_set_neq by auto. rewrite O. split.
        * intros [H|H]; [auto|discriminate].
        * intros [H|H]; [auto|inv H; contradiction].
    - intros id' h' e E He Ho. inv E.
      assert (X : mget N.eqb id' (oresp s) = Some (tid e)) by (apply O; left; exists e; auto). congruence.
  Qed.

  Lemma oracle_stage_spec : forall s t,
    Inv U bal s ->
    match oracle_stage s t with
    | OSPanic => False
    | OSErr => True
    | OSOk s2 =>
        InvP U bal (pend_of t) s2
        /\ (forall x, In x (vtxs s2) -> In x (vtxs s))
        /\ (forall x, In x (vtxs s) -> ~ In x (vtxs s2) -> exists id, oracle t = Some id /\ oracle x = Some id)
        /\ (length (vtxs s2) <= length (vtxs s))%nat
        /\ cap s2 = cap s /\ fpbmin s2 = fpbmin s
        /\ (length (vtxs s2) = length (vtxs s) ->
            vtxs s2 = vtxs s /\ vmap s2 = vmap s /\ fees s2 = fees s /\ confs s2 = confs s
            /\ match oracle t with
               | None => oresp s2 = oresp s
               | Some id => mget N.eqb id (oresp s) = None /\ oresp s2 = mset N.eqb id (tid t) (oresp s)
               end)
    end.
  Proof.
    intros s t I. unfold oracle_stage, pend_of.
    destruct (oracle t) as [id|] eqn:Ot.
    - destruct (mget N.eqb id (oresp s)) as [h|] eqn:G.
      + pose proof G as G0. apply (inv_oracle _ _ _ _ I) in G as [(e & He & Ht & Ho)|]; [|discriminate].
        assert (Gm : mget N.eqb h (vmap s) = Some e) by (apply (inv_map _ _ _ _ I); auto).
        rewrite Gm. destruct (netfee t <=? netfee e); auto.
        destruct (remove_internal_inv U bal GU BOK None s h I) as (s' & E & I' & V & C & P & _ & L).
        rewrite E.
        assert (Gn : mget N.eqb id (oresp s') = None).
        { destruct (mget N.eqb id (oresp s')) as [h'|] eqn:G'; auto. exfalso.
          apply (inv_oracle _ _ _ _ I') in G' as [(e' & He' & Ht' & Ho')|]; [|discriminate].
          rewrite V in He'. apply in_without in He' as [He' Hne].
          assert (X : mget N.eqb id (oresp s) = Some (tid e')) by (apply (inv_oracle _ _ _ _ I); left; exists e'; auto).
          rewrite G0 in X; inv X. congruence. }
        split; [apply set_pending_inv; auto|]. unfold set_oresp; cbn [vtxs vmap fees confs oresp cap fpbmin].
        split; [intros x Hx; rewrite V in Hx; apply in_without in Hx; tauto|].
        split.
        { intros x Hx Hn. exists id; split; auto.
          destruct (N.eq_dec (tid x) h) as [Hh|Hh].
          - assert (Gx : mget N.eqb h (vmap s) = Some x) by (apply (inv_map _ _ _ _ I); auto).
            rewrite Gm in Gx; inv Gx; auto.
          - exfalso; apply Hn. rewrite V. apply in_without; auto. }
        rewrite <- L by congruence. repeat split; auto; lia.
      + split; [apply set_pending_inv; auto|]. unfold set_oresp; cbn [vtxs vmap fees confs oresp cap fpbmin].
        split; auto. split; [intros; contradiction|]. repeat split; auto.
    - split; [exact I|]. split; auto. split; [intros; contradiction|]. repeat split; auto.
  Qed.

  (* ---------- insertion and bookkeeping ---------- *)
  Lemma finish_add_inv : forall s4 t l1 l2,
    InvP U bal (pend_of t) s4 -> U t -> vtxs s4 = l1 ++ l2 ->
    (forall x, In x (vtxs s4) -> tid x <> tid t) ->
    (forall x, In x (vtxs s4) -> ~ conflicting t x) ->
    (length (vtxs s4) < cap s4)%nat ->
    fee t + sum_fees (payer_of t) (vtxs s4) <= bal (payer_of t) ->
    sorted (l1 ++ t :: l2) ->
    Inv U bal (finish_add bal (set_vtxs s4 (l1 ++ t :: l2)) t).
  Proof.
    intros s4 t l1 l2 I Ut Hv Hnew Hnc Hcap Hbal Hsort.
    assert (Hin : forall x, In x (l1 ++ t :: l2) <-> x = t \/ In x (vtxs s4)) by (intros; rewrite Hv; apply in_mid).
    pose proof (BOK (payer_of t)) as Bp. pose proof two255_lt_W as TW. pose proof (gu_fee64 _ GU t Ut) as F64.
    constructor; unfold finish_add, set_vtxs; cbn [vtxs vmap fees confs oresp cap fpbmin].
    - (* nodup *)
      rewrite map_app; simpl. apply nodup_insert_mid.
      + rewrite <- map_app, <- Hv. apply (inv_nodup _ _ _ _ I).
      + rewrite <- map_app, <- Hv. intros Hc. apply in_map_iff in Hc as (x & Hx & Hxin). eapply Hnew; eauto.
    - (* map *)
      intros h e. destruct (N.eq_dec h (tid t)) as [->|Hh].
      + rewrite nget_set_eq. split.
        * intros E; inv E. split; auto. apply Hin; auto.
        * intros [He Ht]. apply Hin in He as [->|He]; auto. exfalso; eapply Hnew; eauto.
      + rewrite nget_set_neq by auto. rewrite (inv_map _ _ _ _ I), Hin. split.
        * intros [? ?]; auto.
        * intros [[->|?] ?]; [congruence|auto].
    - (* cap *)
      rewrite Hv in Hcap. rewrite app_length in *; simpl. lia.
    - (* sorted *) auto.
    - (* fees *)
      intros q. unfold try_add_senders_fee. set (p := payer_of t) in *.
      assert (Hsum : forall q, sum_fees q (l1 ++ t :: l2) = (if payer_eqb p q then fee t else 0) + sum_fees q (vtxs s4)).
      { intros q'. rewrite Hv, !sum_fees_app, sum_fees_cons. fold p. lia. }
      pose proof (inv_fees _ _ _ _ I p) as Fp. unfold get_payer_fee.
      destruct (mget payer_eqb p (fees s4)) as [[b sm]|] eqn:G; cbn [fst snd].
      + destruct Fp as (Hb & Hsm & Hle).
        destruct (payer_eqb q p) eqn:E.
        * apply payer_eqb_eq in E; subst q. rewrite pget_set_eq, Hsum, payer_eqb_refl.
          rewrite wadd_small by lia. repeat split; auto; lia.
        * assert (q <> p) by (intros ->; rewrite payer_eqb_refl in E; discriminate).
          rewrite pget_set_neq by auto. pose proof (inv_fees _ _ _ _ I q) as Fq.
          destruct (mget payer_eqb q (fees s4)) as [[b' sm']|].
          -- rewrite Hsum, payer_eqb_neq by auto. simpl. auto.
          -- intros x Hx. apply Hin in Hx as [->|Hx]; auto.
      + assert (S0 : sum_fees p (vtxs s4) = 0) by (apply sum_fees_none; auto).
        destruct (payer_eqb q p) eqn:E.
        * apply payer_eqb_eq in E; subst q. rewrite pget_set_eq, Hsum, payer_eqb_refl.
          rewrite wadd_small by lia. repeat split; auto; lia.
        * assert (q <> p) by (intros ->; rewrite payer_eqb_refl in E; discriminate).
          rewrite !pget_set_neq by auto. pose proof (inv_fees _ _ _ _ I q) as Fq.
          destruct (mget payer_eqb q (fees s4)) as [[b' sm']|].
          -- rewrite Hsum, payer_eqb_neq by auto. simpl. auto.
          -- intros x Hx. apply Hin in Hx as [->|Hx]; auto.
    - (* confs *)
      intros h. unfold conf_of; cbn [confs].
      change (fold_left _ (confl t) (confs s4)) with (fold_left (add_conf (tid t)) (confl t) (confs s4)).
      destruct (add_conf_fold (tid t) (confl t) (confs s4)) as [A B]; [apply (gu_confl_nodup _ GU); auto|].
      destruct (inv_confs _ _ _ _ I h) as (N1 & N2 & N3). rewrite conf_of_getl in *.
      destruct (in_dec N.eq_dec h (confl t)) as [Hh|Hh].
      + rewrite A by auto. split; [|split; [|intros E; inv E; destruct (getl h (confs s4)); discriminate]].
        * apply NoDup_app_iff'. split; auto. split; [constructor; auto; constructor|].
          intros x Hx [<-|[]]. apply N2 in Hx as (e & He & Ht & _). eapply Hnew; eauto.
        * intros x. rewrite in_app_iff, N2; simpl. split.
          -- intros [(e & He & Ht & Hc)|[<-|[]]]; [exists e|exists t]; repeat split; auto; apply Hin; auto.
          -- intros (e & He & Ht & Hc). apply Hin in He as [->|He]; [right; auto|left; exists e; auto].
      + rewrite B by auto. fold (getl h (confs s4)). split; auto. split; auto.
        intros x. rewrite N2. split.
        * intros (e & He & Ht & Hc). exists e; repeat split; auto; apply Hin; auto.
        * intros (e & He & Ht & Hc). apply Hin in He as [->|He]; [contradiction|exists e; auto].
    - (* noconf *)
      intros a b Ha Hb Hc. apply Hin in Ha as [->|Ha]; apply Hin in Hb as [->|Hb].
      + exact (gu_nomutual _ GU t t Ut Ut Hc Hc).
      + apply (Hnc b Hb). left; auto.
      + apply (Hnc a Ha). right; auto.
      + exact (inv_noconf _ _ _ _ I a b Ha Hb Hc).
    - (* oracle *)
      intros id h. rewrite (inv_oracle _ _ _ _ I). unfold pend_of. split.
      + intros [(e & He & Ht & Ho)|Hp].
        * left; exists e; repeat split; auto; apply Hin; auto.
        * left; exists t. destruct (oracle t); inv Hp. repeat split; auto. apply Hin; auto.
      + intros [(e & He & Ht & Ho)|Hp]; [|discriminate].
        apply Hin in He as [->|He]; [right; rewrite Ho, Ht; auto|left; exists e; auto].
    - discriminate.
    - intros x Hx. apply Hin in Hx as [->|Hx]; auto. apply (inv_univ _ _ _ _ I); auto.
  Qed.

  Lemma clear_pending_inv : forall s id h,
    InvP U bal (Some (id, h)) s -> Inv U bal (set_oresp s (mdel N.eqb id (oresp s))).
  Proof.
    intros s id h I. pose proof (inv_oracle _ _ _ _ I) as O. pose proof (inv_pend _ _ _ _ I) as P.
    destruct I. constructor; unfold set_oresp; cbn [vtxs vmap fees confs oresp cap fpbmin]; auto.
    - intros id' h'. destruct (N.eq_dec id' id) as [->|Hid].
      + rewrite nget_del_eq. split; [discriminate|]. intros [(e & He & Ht & Ho)|E]; [|discriminate].
        exfalso. eapply P; eauto.
      + rewrite nget_del_neq by auto. rewrite O. split.
        * intros [H|H]; [auto|inv H; contradiction].
        * intros [H|H]; [auto|discriminate].
    - discriminate.
  Qed.

  Lemma remove_from_map_set_vtxs : forall u s X Y,
    remove_from_map u (set_vtxs s X) = set_vtxs (remove_from_map u (set_vtxs s Y)) X.
  Proof. reflexivity. Qed.
End Add.

Lemma firstn_removelast : forall {A} (l : list A) n, (n < length l)%nat -> firstn n (removelast l) = firstn n l.
Proof.
  intros A; induction l as [|x [|y l'] IH]; intros n H.
  - simpl in H; lia.
  - simpl in H. assert (n = O) by lia; subst; reflexivity.
  - destruct n as [|n']; [reflexivity|].
    change (removelast (x :: y :: l')) with (x :: removelast (y :: l')).
    cbn [firstn]. f_equal. apply IH. simpl in *; lia.
Qed.
Lemma skipn_removelast_incl : forall {A} (l : list A) n b, In b (skipn n (removelast l)) -> In b (skipn n l).
Proof.
  intros A; induction l as [|x [|y l'] IH]; intros n b H.
  - exact H.
  - simpl in H. destruct n; simpl in H; contradiction.
  - change (removelast (x :: y :: l')) with (x :: removelast (y :: l')) in H.
    destruct n as [|n'].
    + cbn [skipn] in *. destruct H as [<-|H]; [left; auto|right]. apply (IH O). exact H.
    + cbn [skipn] in *. apply IH; auto.
Qed.
Lemma removelast_split : forall {A} (l : list A) d, l <> [] -> l = removelast l ++ [last l d].
Proof. intros; apply app_removelast_last; auto. Qed.
