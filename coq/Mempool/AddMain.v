(* Add: assembled statement (invariant, no panic, failed addition = identity, eviction of the minimum). *)
From NG Require Import Common.Tactics Mempool.Model Mempool.Spec Mempool.Lemmas Mempool.RemoveProofs Mempool.AddProofs.
From Coq Require Import Sorting.Sorted.
Open Scope N_scope.

Lemma pool_eqv_refl : forall bal s, pool_eqv bal s s.
Proof. intros; constructor; auto. Qed.

(* what a successful Add may remove *)
Definition removal_justified (s : pool) (t x : tx) (s' : pool) : Prop :=
  conflicting t x
  \/ (exists id, oracle t = Some id /\ oracle x = Some id)
  \/ (length (vtxs s) = cap s /\ x = last (vtxs s) x
      /\ (forall y, In y (vtxs s) -> ge_prio y x) /\ (0 < cmp t x)%Z
      /\ (forall y, In y (vtxs s) -> y <> x -> In y (vtxs s'))).

Section AddMain.
  Variable U : tx -> Prop.
  Variable bal : payer -> N.
  Hypothesis GU : good_universe U.
  Hypothesis BOK : bal_ok bal.

  Definition add_post (s : pool) (t : tx) (r : res) (s' : pool) : Prop :=
    r <> RPanic /\ (forall b, r <> RBool b)
    /\ Inv U bal s' /\ cap s' = cap s /\ fpbmin s' = fpbmin s
    /\ (forall e, r = RErr e -> pool_eqv bal s s')
    /\ (r = ROk -> In t (vtxs s')
                  /\ (forall x, In x (vtxs s') -> x = t \/ In x (vtxs s))
                  /\ (forall x, In x (vtxs s) -> ~ In x (vtxs s') -> removal_justified s t x s')).

  Lemma add_post_err : forall s t e s',
    Inv U bal s' -> cap s' = cap s -> fpbmin s' = fpbmin s -> pool_eqv bal s s' -> add_post s t (RErr e) s'.
  Proof.
    intros. unfold add_post. split; [discriminate|]. split; [discriminate|].
    split; auto. split; auto. split; auto. split; auto. discriminate.
  Qed.

  Lemma add_spec : forall s t,
    Inv U bal s -> U t -> add_post s t (fst (add fixed_cfg bal s t)) (snd (add fixed_cfg bal s t)).
  Proof.
    intros s t I Ut. unfold add.
    destruct (mget N.eqb (tid t) (vmap s)) as [e0|] eqn:Hnew.
    { cbn [fst snd]. apply add_post_err; auto using pool_eqv_refl. }
    pose proof (check_conflicts_spec U bal GU BOK s t I Ut) as CC.
    destruct (check_conflicts fixed_cfg bal s t) as [|e|rm s1]; [contradiction| |].
    { cbn [fst snd]. apply add_post_err; auto using pool_eqv_refl. }
    destruct CC as (R1 & R2 & R3 & R4 & R5 & I1 & V1 & M1 & C1 & O1 & K1 & P1 & F1).
    assert (EQ1 : pool_eqv bal s s1) by (constructor; congruence).
    pose proof (oracle_stage_spec U bal GU BOK s1 t I1) as OS.
    destruct (oracle_stage s1 t) as [| |s2]; [contradiction| |].
    { cbn [fst snd]. apply add_post_err; auto. }
    destruct OS as (I2 & Sub2 & Gone2 & Len2 & K2 & P2 & Same2).
    destruct (remove_all_inv U bal GU BOK (map tid rm) (pend_of t) s2 I2) as (s3 & E3 & I3 & V3 & K3 & P3 & Len3 & Same3).
    rewrite E3.
    (* facts about the survivors *)
    assert (Fin : forall x, In x (vtxs s3) -> In x (vtxs s)).
    { intros x Hx. apply V3 in Hx as [Hx _]. rewrite <- V1; auto. }
    assert (Fnew : forall x, In x (vtxs s3) -> tid x <> tid t).
    { intros x Hx Ht. assert (G : mget N.eqb (tid t) (vmap s) = Some x) by (apply (inv_map _ _ _ _ I); auto). congruence. }
    assert (Fnc : forall x, In x (vtxs s3) -> ~ conflicting t x).
    { intros x Hx Hc. pose proof (Fin x Hx) as Hxs. apply V3 in Hx as [_ Hn]. apply Hn. apply in_map; auto. }
    set (p := payer_of t) in *.
    assert (Fsum : fee t + sum_fees p (vtxs s3) <= bal p).
    { assert (sum_fees p (vtxs s3 ++ rm) <= sum_fees p (vtxs s)).
      { apply sum_fees_incl.
        - rewrite map_app. apply NoDup_app_iff'. split; [apply (inv_nodup _ _ _ _ I3)|]. split; auto.
          intros h H1 H2. apply in_map_iff in H1 as (x & <- & Hx). apply V3 in Hx as [_ Hn]. contradiction.
        - intros e He. apply in_app_iff in He as [He|He]; auto. }
      rewrite sum_fees_app in H. lia. }
    (* whatever left the pool before the capacity check is justified *)
    assert (Fgone : forall x s', In x (vtxs s) -> ~ In x (vtxs s3) -> removal_justified s t x s').
    { intros x s' Hx Hn.
      destruct (in_dec N.eq_dec (tid x) (map tid rm)) as [Hr|Hr].
      - left. apply in_map_iff in Hr as (e & Ht & He). pose proof (R1 e He) as Hes.
        assert (G1 : mget N.eqb (tid x) (vmap s) = Some x) by (apply (inv_map _ _ _ _ I); auto).
        assert (G2 : mget N.eqb (tid x) (vmap s) = Some e) by (apply (inv_map _ _ _ _ I); auto).
        rewrite G1 in G2; inv G2. auto.
      - right; left. apply Gone2; [rewrite V1; auto|]. intros Hx2. apply Hn. apply V3; auto. }
    pose proof (inv_sorted _ _ _ _ I3) as S3.
    destruct (insert_pos_spec t (vtxs s3) S3) as (Hn & Hfirst & Hskip).
    set (l := vtxs s3) in *. set (n := insert_pos t l) in *.
    assert (Kcap : cap s3 = cap s) by congruence.
    destruct (length l =? cap s3)%nat eqn:Ecap.
    - apply Nat.eqb_eq in Ecap.
      (* nothing has been removed *)
      assert (Lall : length l = length (vtxs s2) /\ length (vtxs s2) = length (vtxs s1)).
      { pose proof (inv_cap _ _ _ _ I) as Cs. rewrite <- V1 in Cs. subst l. lia. }
      destruct Lall as [L32 L21]. specialize (Same3 L32). specialize (Same2 L21).
      destruct Same2 as (V2 & M2 & F2 & C2 & O2). subst s3.
      assert (Vl : l = vtxs s) by (subst l; congruence).
      destruct (n =? length l)%nat eqn:En.
      + (* ErrOOM *)
        cbn [fst snd fix_oom fixed_cfg repaired].
        unfold pend_of in *. destruct (oracle t) as [id|] eqn:Ot.
        * destruct O2 as [On O2]. apply add_post_err.
          -- eapply clear_pending_inv; eauto.
          -- unfold set_oresp; cbn [cap]. congruence.
          -- unfold set_oresp; cbn [fpbmin]. congruence.
          -- constructor; unfold set_oresp; cbn [vtxs vmap fees confs oresp cap fpbmin]; try congruence;
               try (intros q; rewrite ?M2, ?M1, ?F2, ?C2, ?C1; solve [auto]).
             intros id'. rewrite O2. destruct (N.eq_dec id' id) as [->|Hid].
             ++ rewrite nget_del_eq. congruence.
             ++ rewrite nget_del_neq, nget_set_neq by auto. congruence.
        * apply add_post_err; try congruence; [exact I3|].
          constructor; try congruence;
            try (intros q; rewrite ?M2, ?M1, ?F2, ?C2, ?C1, ?O2, ?O1; solve [auto]).
      + (* eviction of the last entry *)
        apply Nat.eqb_neq in En. cbn [fst snd].
        assert (Hl : l <> []) by (intros E; rewrite E in *; simpl in *; lia).
        set (u := last l t) in *. set (rl := removelast l) in *.
        assert (Hsplit : l = rl ++ [u]) by (apply removelast_split; auto).
        assert (Lrl : S (length rl) = length l) by (rewrite Hsplit; rewrite app_length; simpl; lia).
        rewrite (remove_from_map_set_vtxs u s2 (insert_at n t rl) (rl ++ [])).
        assert (I4 : InvP U bal (pend_of t) (remove_from_map u (set_vtxs s2 (rl ++ [])))).
        { apply remove_from_map_inv; auto. }
        set (s4 := remove_from_map u (set_vtxs s2 (rl ++ []))) in *.
        assert (V4 : vtxs s4 = firstn n rl ++ skipn n rl).
        { unfold s4, remove_from_map, set_vtxs; cbn [vtxs]. rewrite app_nil_r, firstn_skipn; auto. }
        assert (Hrl : forall x, In x rl -> In x l) by (intros x Hx; rewrite Hsplit; apply in_app_iff; auto).
        assert (V4' : forall x, In x (vtxs s4) <-> In x rl) by (intros x; rewrite V4, firstn_skipn; tauto).
        assert (Sl : sorted l) by exact S3.
        rewrite Hsplit in Sl. apply sorted_app in Sl as (Srl & _ & Sru).
        assert (I5 : Inv U bal (finish_add bal (set_vtxs s4 (insert_at n t rl)) t)).
        { unfold insert_at. apply finish_add_inv; auto.
          - intros x Hx. apply Fnew. apply Hrl, V4'; auto.
          - intros x Hx. apply Fnc. apply Hrl, V4'; auto.
          - rewrite V4, firstn_skipn. unfold s4, remove_from_map, set_vtxs; cbn [cap]. lia.
          - rewrite V4, firstn_skipn.
            assert (sum_fees p rl <= sum_fees p l) by (rewrite Hsplit; rewrite sum_fees_app; lia).
            fold p. lia.
          - apply sorted_insert.
            + rewrite firstn_skipn; auto.
            + intros a Ha. apply Hfirst. rewrite <- (firstn_removelast l n) by lia. auto.
            + intros b Hb. apply skipn_removelast_incl in Hb. apply Hskip in Hb. unfold ge_prio; lia. }
        unfold add_post. split; [discriminate|]. split; [discriminate|]. split; [exact I5|].
        unfold finish_add, s4, remove_from_map, set_vtxs; cbn [vtxs vmap fees confs oresp cap fpbmin].
        split; [congruence|]. split; [congruence|]. split; [discriminate|].
        intros _. unfold insert_at.
        assert (Hin' : forall x, In x (firstn n rl ++ t :: skipn n rl) <-> x = t \/ In x rl).
        { intros x. rewrite in_mid, firstn_skipn. tauto. }
        split; [apply Hin'; auto|]. split.
        { intros x Hx. apply Hin' in Hx as [?|Hx]; [auto|right; rewrite <- Vl; auto]. }
        intros x Hx Hnx. right; right.
        assert (Hxu : x = u).
        { rewrite <- Vl, Hsplit in Hx. apply in_app_iff in Hx as [Hx|[Hx|[]]]; auto.
          exfalso; apply Hnx; apply Hin'; auto. }
        subst x.
        assert (Hlast : u = last (vtxs s) u).
        { rewrite <- Vl. rewrite Hsplit. rewrite last_last; auto. }
        split; [rewrite <- Vl; congruence|]. split; [auto|]. split.
        { intros y Hy. rewrite <- Vl, Hsplit in Hy. apply in_app_iff in Hy as [Hy|[<-|[]]].
          - apply Sru; simpl; auto.
          - unfold ge_prio; rewrite cmp_refl; lia. }
        split.
        { apply Hskip. rewrite Hsplit. rewrite skipn_app. apply in_app_iff. right.
          replace (n - length rl)%nat with O by lia. simpl; auto. }
        intros y Hy Hyu. apply Hin'. right.
        rewrite <- Vl, Hsplit in Hy. apply in_app_iff in Hy as [Hy|[Hy|[]]]; auto. congruence.
    - (* room left *)
      apply Nat.eqb_neq in Ecap. cbn [fst snd].
      assert (I5 : Inv U bal (finish_add bal (set_vtxs s3 (insert_at n t l)) t)).
      { unfold insert_at. apply finish_add_inv; auto.
        - fold l. rewrite firstn_skipn; auto.
        - fold l. pose proof (inv_cap _ _ _ _ I3). fold l in H. lia.
        - apply sorted_insert.
          + rewrite firstn_skipn; auto.
          + auto.
          + intros b Hb. apply Hskip in Hb. unfold ge_prio; lia. }
      unfold add_post. split; [discriminate|]. split; [discriminate|]. split; [exact I5|].
      unfold finish_add, set_vtxs; cbn [vtxs vmap fees confs oresp cap fpbmin].
      split; [congruence|]. split; [congruence|]. split; [discriminate|].
      intros _. unfold insert_at.
      assert (Hin' : forall x, In x (firstn n l ++ t :: skipn n l) <-> x = t \/ In x l).
      { intros x. rewrite in_mid, firstn_skipn. tauto. }
      split; [apply Hin'; auto|]. split.
      { intros x Hx. apply Hin' in Hx as [?|Hx]; auto. }
      intros x Hx Hnx. apply Fgone; auto. intros Hx3. apply Hnx. apply Hin'; auto.
  Qed.
End AddMain.
