(* Sequence-level statements about the memory pool model (repaired code): the invariant holds after
   every operation sequence, no operation panics, and what the invariant means in the words of the property. *)
From NG Require Import Common.Tactics Mempool.Model Mempool.Spec Mempool.Lemmas Mempool.RemoveProofs
  Mempool.AddProofs Mempool.AddMain Mempool.StaleProofs.
From Coq Require Import Sorting.Sorted.
Open Scope N_scope.

Section Main.
  Variable U : tx -> Prop.
  Hypothesis GU : good_universe U.

  Lemma inv_init : forall bal capacity, Inv U bal (new_pool capacity).
  Proof.
    intros bal capacity. constructor; simpl; auto; try (intros; contradiction); try discriminate.
    - constructor.
    - intros h e; split; [discriminate|intros [[] _]].
    - lia.
    - constructor.
    - intros h. split; [constructor|]. split; [|discriminate]. intros x; split; [intros []|intros (e & [] & _)].
    - intros id h; split; [discriminate|intros [(e & [] & _)|H]; discriminate].
  Qed.

  Lemma remove_spec : forall bal s h,
    bal_ok bal -> Inv U bal s ->
    fst (remove h s) = ROk /\ Inv U bal (snd (remove h s))
    /\ vtxs (snd (remove h s)) = without h (vtxs s) /\ cap (snd (remove h s)) = cap s.
  Proof.
    intros bal s h BOK I. unfold remove.
    destruct (remove_internal_inv U bal GU BOK None s h I) as (s' & E & I' & V & C & _).
    rewrite E; simpl; auto.
  Qed.

  Lemma verify_spec : forall bal s t,
    bal_ok bal -> Inv U bal s -> U t ->
    fst (verify fixed_cfg bal s t) <> RPanic /\ Inv U bal (snd (verify fixed_cfg bal s t))
    /\ pool_eqv bal s (snd (verify fixed_cfg bal s t)).
  Proof.
    intros bal s t BOK I Ut. unfold verify.
    pose proof (check_conflicts_spec U bal GU BOK s t I Ut) as CC.
    destruct (check_conflicts fixed_cfg bal s t) as [|e|rm s1]; [contradiction| |]; simpl.
    - split; [discriminate|]. split; auto using pool_eqv_refl.
    - destruct CC as (_ & _ & _ & _ & _ & I1 & V1 & M1 & C1 & O1 & K1 & P1 & F1).
      split; [discriminate|]. split; auto. constructor; congruence.
  Qed.

  Definition st_ok (st : state) : Prop := bal_ok (st_bal st) /\ Inv U (st_bal st) (st_pool st).

  Lemma step_ok : forall st o,
    st_ok st -> op_ok U o -> fst (step fixed_cfg st o) <> RPanic /\ st_ok (snd (step fixed_cfg st o)).
  Proof.
    intros [s bal] o [BOK I] Ho; simpl in *. destruct o as [t|h|t|isok bal' newfpb]; simpl in *.
    - pose proof (add_spec U bal GU BOK s t I Ho) as A. destruct (add fixed_cfg bal s t) as [r s']; simpl in *.
      destruct A as (A1 & _ & A3 & _). split; auto. split; auto.
    - pose proof (remove_spec bal s h BOK I) as R. destruct (remove h s) as [r s']; simpl in *.
      destruct R as (-> & R2 & _). split; [discriminate|]. split; auto.
    - pose proof (verify_spec bal s t BOK I Ho) as V. destruct (verify fixed_cfg bal s t) as [r s']; simpl in *.
      destruct V as (V1 & V2 & _). split; auto. split; auto.
    - split; [discriminate|]. split; auto. simpl. eapply remove_stale_inv; eauto.
  Qed.

  Lemma run_ok : forall ops st, st_ok st -> Forall (op_ok U) ops -> st_ok (run fixed_cfg st ops).
  Proof.
    induction ops as [|o ops IH]; intros st S F; simpl; auto.
    inv F. apply IH; auto. apply step_ok; auto.
  Qed.

  Theorem inv_reachable : forall capacity bal0 ops,
    bal_ok bal0 -> Forall (op_ok U) ops ->
    let st := run fixed_cfg (mkState (new_pool capacity) bal0) ops in
    Inv U (st_bal st) (st_pool st).
  Proof.
    intros capacity bal0 ops B F. apply run_ok; auto. split; simpl; auto. apply inv_init.
  Qed.

  Lemma results_acc : forall c ops st acc,
    snd (fold_left (fun '(st, acc) o => let '(r, st') := step c st o in (st', acc ++ [r])) ops (st, acc))
    = acc ++ results c st ops.
  Proof.
    intros c; induction ops as [|o ops IH]; intros st acc; unfold results; simpl.
    - rewrite app_nil_r; auto.
    - destruct (step c st o) as [r st'] eqn:E. rewrite IH. rewrite (IH st' [r]). unfold results.
      rewrite <- app_assoc. reflexivity.
  Qed.

  Theorem no_panic : forall capacity bal0 ops,
    bal_ok bal0 -> Forall (op_ok U) ops ->
    ~ In RPanic (results fixed_cfg (mkState (new_pool capacity) bal0) ops).
  Proof.
    intros capacity bal0 ops B F.
    assert (G : forall ops st, st_ok st -> Forall (op_ok U) ops -> ~ In RPanic (results fixed_cfg st ops)).
    { clear - GU. induction ops as [|o ops IH]; intros st S F; unfold results; simpl; auto.
      inv F. destruct (step_ok st o S H1) as [Hr Hs].
      destruct (step fixed_cfg st o) as [r st'] eqn:E; simpl in *.
      rewrite results_acc. simpl. intros [Hc|Hin]; [congruence|]. eapply IH; eauto. }
    apply G; auto. split; simpl; auto. apply inv_init.
  Qed.

  (* ---------- the invariant in the words of the property ---------- *)
  Theorem inv_meaning : forall bal s,
    Inv U bal s ->
    NoDup (map tid (vtxs s))                                                    (* each transaction listed at most once *)
    /\ (forall h, mget N.eqb h (vmap s) <> None <-> In h (map tid (vtxs s)))    (* the hash index agrees with the list *)
    /\ (length (vtxs s) <= cap s)%nat                                           (* capacity *)
    /\ sorted (vtxs s)                                                          (* priority order *)
    /\ (forall p, sum_fees p (vtxs s) <= bal p)                                 (* every payer can pay for all its pooled transactions *)
    /\ (forall a b, In a (vtxs s) -> In b (vtxs s) -> ~ In (tid a) (confl b))   (* no two pooled transactions conflict *)
    /\ (forall a b id, In a (vtxs s) -> In b (vtxs s) -> oracle a = Some id -> oracle b = Some id -> a = b).
                                                                                (* at most one response per oracle request *)
  Proof.
    intros bal s I. split; [apply (inv_nodup _ _ _ _ I)|]. split; [|split; [apply (inv_cap _ _ _ _ I)|split; [apply (inv_sorted _ _ _ _ I)|split; [|split; [apply (inv_noconf _ _ _ _ I)|]]]]].
    - intros h. split.
      + intros Hn. destruct (mget N.eqb h (vmap s)) as [e|] eqn:G; [|congruence].
        apply (inv_map _ _ _ _ I) in G as [He <-]. apply in_map; auto.
      + intros Hin. apply in_map_iff in Hin as (e & <- & He).
        assert (G : mget N.eqb (tid e) (vmap s) = Some e) by (apply (inv_map _ _ _ _ I); auto). congruence.
    - intros p. pose proof (inv_fees _ _ _ _ I p) as F.
      destruct (mget payer_eqb p (fees s)) as [[b sm]|].
      + destruct F as (-> & -> & ?); auto.
      + rewrite sum_fees_none by auto. lia.
    - intros a b id Ha Hb Oa Ob.
      assert (Ga : mget N.eqb id (oresp s) = Some (tid a)) by (apply (inv_oracle _ _ _ _ I); left; exists a; auto).
      assert (Gb : mget N.eqb id (oresp s) = Some (tid b)) by (apply (inv_oracle _ _ _ _ I); left; exists b; auto).
      rewrite Ga in Gb; inv Gb.
      assert (Ma : mget N.eqb (tid a) (vmap s) = Some a) by (apply (inv_map _ _ _ _ I); auto).
      assert (Mb : mget N.eqb (tid a) (vmap s) = Some b) by (apply (inv_map _ _ _ _ I); auto).
      congruence.
  Qed.

  (* ---------- Add ---------- *)
  Theorem evicts_minimum : forall bal s t s',
    bal_ok bal -> Inv U bal s -> U t -> add fixed_cfg bal s t = (ROk, s') ->
    In t (vtxs s')
    /\ (forall x, In x (vtxs s') -> x = t \/ In x (vtxs s))
    /\ (forall x, In x (vtxs s) -> ~ In x (vtxs s') -> removal_justified s t x s').
  Proof.
    intros bal s t s' BOK I Ut E. pose proof (add_spec U bal GU BOK s t I Ut) as A. rewrite E in A; simpl in A.
    destruct A as (_ & _ & _ & _ & _ & _ & A). apply A; auto.
  Qed.

  Theorem failed_add_identity : forall bal s t e s',
    bal_ok bal -> Inv U bal s -> U t -> add fixed_cfg bal s t = (RErr e, s') -> pool_eqv bal s s'.
  Proof.
    intros bal s t e s' BOK I Ut E. pose proof (add_spec U bal GU BOK s t I Ut) as A. rewrite E in A; simpl in A.
    destruct A as (_ & _ & _ & _ & _ & A & _). eapply A; eauto.
  Qed.

  Theorem add_total : forall bal s t,
    bal_ok bal -> Inv U bal s -> U t ->
    exists s', (add fixed_cfg bal s t = (ROk, s') \/ exists e, add fixed_cfg bal s t = (RErr e, s')) /\ Inv U bal s'.
  Proof.
    intros bal s t BOK I Ut. pose proof (add_spec U bal GU BOK s t I Ut) as A.
    destruct (add fixed_cfg bal s t) as [r s'] eqn:E; simpl in A. exists s'.
    destruct A as (A1 & A2 & A3 & _). split; auto.
    destruct r; [left; auto|right; eauto|exfalso; eapply A2; eauto|congruence].
  Qed.
End Main.
