(* Model of pkg/core/mempool/mem_pool.go (definitions only; everything here computes).

   The model follows the mechanism of the Go code: the sorted slice [vtxs] (verifiedTxes, most
   prioritised first), the hash map [vmap] (verifiedMap), the per-payer table [fees]
   (balance cached from the Feer, fee sum), the reverse index [confs] (conflicts: hash named in a
   Conflicts attribute -> hashes of the pooled transactions naming it), the oracle index [oresp]
   (oracleResp: request id -> hash of the pooled response), [cap] (capacity) and [fpbmin]
   (feePerByte).  Go maps are association lists read with [mget]; a nil-pointer dereference or an
   out-of-range index of the Go code is the outcome [RPanic] (proved unreachable under the invariant).

   Abstractions (recorded in notes/C08.md): transaction hashes are abstract ids (N); accounts are N
   (0 = the zero Uint160, [notary] = the native Notary contract); int64 fee arithmetic is unbounded
   (fees are non-negative and far below 2^63 on any chain); the uint256 arithmetic of feeSum wraps
   modulo 2^256 as in the code; blockStamp / resend logic, the data payload, events and locking are
   not modelled.

   [cfg] selects the repaired code ([fixed_cfg] and [repaired true], what the theorems are about) or the code as
   it was before the repairs F4 / F5 (used for the refutation witnesses and to recognise the old mechanism
   in the correspondence). *)
From NG Require Import Common.Tactics.
Open Scope N_scope.

(* ---------- Go maps as association lists ---------- *)
Section AList.
  Context {K V : Type} (eqb : K -> K -> bool).
  Fixpoint mget (k : K) (m : list (K * V)) : option V :=
    match m with
    | [] => None
    | (k', v) :: r => if eqb k k' then Some v else mget k r
    end.
  Definition mdel (k : K) (m : list (K * V)) : list (K * V) :=
    filter (fun p => negb (eqb k (fst p))) m.
  Definition mset (k : K) (v : V) (m : list (K * V)) : list (K * V) := (k, v) :: mdel k m.
End AList.

(* ---------- transactions ---------- *)
Record tx := mkTx {
  tid : N;                 (* hash *)
  signers : list N;        (* accounts, sender first *)
  sysfee : N;
  netfee : N;
  size : N;
  high : bool;             (* HighPriority attribute *)
  confl : list N;          (* hashes named by Conflicts attributes *)
  oracle : option N        (* id of the OracleResponse attribute *)
}.

Definition notary : N := 1.
Definition payer := (N * N)%type.
Definition payer_eqb (p q : payer) : bool := (fst p =? fst q) && (snd p =? snd q).

(* getPayer: (payer, isSponsored); Signers[1] of a Notary-sent transaction is the depositor *)
Definition get_payer (t : tx) : payer * bool :=
  match signers t with
  | s :: d :: _ => if s =? notary then ((s, d), true) else ((s, 0), false)
  | s :: _ => ((s, 0), false)
  | [] => ((0, 0), false)
  end.
Definition payer_of (t : tx) : payer := fst (get_payer t).

Definition fee (t : tx) : N := sysfee t + netfee t.
Definition fee_per_byte (t : tx) : N := netfee t / size t.
Definition has_signer (a : N) (t : tx) : bool := existsb (N.eqb a) (signers t).

(* item.Compare: > 0 means a is more prioritised than b *)
Definition cmp (a b : tx) : Z :=
  if high a && negb (high b) then 1%Z
  else if negb (high a) && high b then (-1)%Z
  else
    let d := (Z.of_N (fee_per_byte a) - Z.of_N (fee_per_byte b))%Z in
    if (d =? 0)%Z then (Z.of_N (netfee a) - Z.of_N (netfee b))%Z else d.

(* ---------- uint256 ---------- *)
Definition W : N := 2 ^ 256.
Definition wadd (a b : N) : N := (a + b) mod W.
Definition wsub (a b : N) : N := (a + (W - b mod W)) mod W.

(* ---------- pool ---------- *)
Record pool := mkPool {
  vtxs : list tx;
  vmap : list (N * tx);
  fees : list (payer * (N * N));      (* payer -> (balance, feeSum) *)
  confs : list (N * list N);
  oresp : list (N * N);
  cap : nat;
  fpbmin : N
}.

Definition new_pool (capacity : nat) : pool := mkPool [] [] [] [] [] capacity 0.

Definition set_vtxs (s : pool) (l : list tx) : pool :=
  mkPool l (vmap s) (fees s) (confs s) (oresp s) (cap s) (fpbmin s).
Definition set_fees (s : pool) (f : list (payer * (N * N))) : pool :=
  mkPool (vtxs s) (vmap s) f (confs s) (oresp s) (cap s) (fpbmin s).
Definition set_oresp (s : pool) (o : list (N * N)) : pool :=
  mkPool (vtxs s) (vmap s) (fees s) (confs s) o (cap s) (fpbmin s).

(* [follow_fpb]: repair F57 - loadPolicy stores the Feer's fee per byte at every RemoveStale (it follows decreases
   too), so that a later increase is compared with the current value; before it only increases were stored. Both
   are accepted behaviours of the repaired code ([repaired false] = [fixed_cfg], [repaired true]). *)
Record cfg := mkCfg { fix_oom : bool; fix_payer : bool; follow_fpb : bool }.
Definition repaired (follow : bool) : cfg := mkCfg true true follow.
Definition fixed_cfg := repaired false.

Inductive err := EDup | EInsufficient | EConflict | EConflictsAttr | EOracle | EOOM.
Inductive res := ROk | RErr (e : err) | RBool (b : bool) | RPanic.

(* getPayerFee *)
Definition get_payer_fee (bal : payer -> N) (p : payer) (f : list (payer * (N * N))) : (N * N) * bool :=
  match mget payer_eqb p f with
  | Some x => (x, true)
  | None => ((bal p, 0), false)
  end.

(* checkBalance *)
Definition check_balance (t : tx) (bf : N * N) : err + N :=
  let f := fee t in
  if fst bf <? f then inl EInsufficient
  else
    let s := wadd f (snd bf) in
    if fst bf <? s then inl EConflict else inr s.

(* tryAddSendersFee *)
Definition try_add_senders_fee (bal : payer -> N) (f : list (payer * (N * N))) (t : tx) (need_check : bool)
  : bool * list (payer * (N * N)) :=
  let p := payer_of t in
  let '(pf, ok) := get_payer_fee bal p f in
  let f1 := if ok then f else mset payer_eqb p pf f in
  if need_check then
    match check_balance t pf with
    | inl _ => (false, f1)
    | inr s => (true, mset payer_eqb p (fst pf, s) f1)
    end
  else (true, mset payer_eqb p (fst pf, wadd (snd pf) (fee t)) f1).

(* removeConflictsOf, one Conflicts attribute *)
Fixpoint remove_first (x : N) (l : list N) : list N :=
  match l with
  | [] => []
  | y :: r => if y =? x then r else y :: remove_first x r
  end.
Definition remove_conflict_entry (me : N) (c : list (N * list N)) (h : N) : list (N * list N) :=
  match mget N.eqb h c with
  | Some l => if (length l =? 1)%nat then mdel N.eqb h c else mset N.eqb h (remove_first me l) c
  | None => c
  end.

(* removeFromMapWithFeesAndAttrs *)
Definition remove_from_map (itm : tx) (s : pool) : pool :=
  let p := payer_of itm in
  let bf := match mget payer_eqb p (fees s) with Some x => x | None => (0, 0) end in
  mkPool (vtxs s)
         (mdel N.eqb (tid itm) (vmap s))
         (mset payer_eqb p (fst bf, wsub (snd bf) (fee itm)) (fees s))
         (fold_left (remove_conflict_entry (tid itm)) (confl itm) (confs s))
         (match oracle itm with Some id => mdel N.eqb id (oresp s) | None => oresp s end)
         (cap s) (fpbmin s).

Fixpoint find_index {A} (f : A -> bool) (l : list A) : option nat :=
  match l with
  | [] => None
  | x :: r => if f x then Some O else option_map S (find_index f r)
  end.

(* removeInternal; None = index out of range *)
Definition remove_internal (h : N) (s : pool) : option pool :=
  match mget N.eqb h (vmap s) with
  | None => Some s
  | Some _ =>
      let num := match find_index (fun e => tid e =? h) (vtxs s) with
                 | Some i => i
                 | None => pred (length (vtxs s))      (* the loop variable after an unsuccessful scan *)
                 end in
      match nth_error (vtxs s) num with
      | None => None
      | Some itm => Some (remove_from_map itm (set_vtxs s (firstn num (vtxs s) ++ skipn (S num) (vtxs s))))
      end
  end.

Fixpoint remove_all (hs : list N) (s : pool) : option pool :=
  match hs with
  | [] => Some s
  | h :: r => match remove_internal h s with Some s' => remove_all r s' | None => None end
  end.

(* ---------- checkTxConflicts ---------- *)
Inductive cc_result :=
| CCPanic
| CCErr (e : err)
| CCOk (rm : list tx) (s : pool).

(* step 1: pooled transactions naming the newcomer; None = nil dereference *)
Fixpoint cc_step1 (author : N) (vm : list (N * tx)) (hs : list N) (acc : N * list tx) : option (N * list tx) :=
  match hs with
  | [] => Some acc
  | h :: r =>
      match mget N.eqb h vm with
      | None => None
      | Some e =>
          cc_step1 author vm r
            ((if has_signer author e then fst acc + netfee e else fst acc), snd acc ++ [e])
      end
  end.

(* step 2: pooled transactions named by the newcomer; None = not signed by a common signer *)
Fixpoint cc_step2 (t : tx) (vm : list (N * tx)) (hs : list N) (acc : N * list tx) : option (N * list tx) :=
  match hs with
  | [] => Some acc
  | h :: r =>
      match mget N.eqb h vm with
      | None => cc_step2 t vm r acc
      | Some e =>
          if existsb (fun a => has_signer a t) (signers e)
          then cc_step2 t vm r (fst acc + netfee e, snd acc ++ [e])
          else None
      end
  end.

(* step 3: the payer comparison; before repair F5 the second conjunct compared a value with itself *)
Definition same_payer (c : cfg) (p cp : payer) : bool :=
  (fst cp =? fst p) && (if fix_payer c then snd cp =? snd p else snd cp =? snd cp).

Definition cc_step3 (c : cfg) (p : payer) (rm : list tx) (sum : N) : N :=
  fold_left (fun acc e => if same_payer c p (payer_of e) then wsub acc (fee e) else acc) rm sum.

Definition check_conflicts (c : cfg) (bal : payer -> N) (s : pool) (t : tx) : cc_result :=
  let '(p, sponsored) := get_payer t in
  let author := if sponsored then snd p else fst p in
  let '(actual, ok) := get_payer_fee bal p (fees s) in
  let hs := match mget N.eqb (tid t) (confs s) with Some l => l | None => [] end in
  match cc_step1 author (vmap s) hs (0, []) with
  | None => CCPanic
  | Some acc1 =>
      match cc_step2 t (vmap s) (confl t) acc1 with
      | None => CCErr EConflictsAttr
      | Some (cfee, rm) =>
          if negb (cfee =? 0) && (netfee t <=? cfee) then CCErr EConflictsAttr
          else
            match check_balance t (fst actual, cc_step3 c p rm (snd actual)) with
            | inl e => CCErr e
            | inr _ => CCOk rm (if ok then s else set_fees s (mset payer_eqb p actual (fees s)))
            end
      end
  end.

(* ---------- sorted insertion ---------- *)
(* sort.Search(n, f): binary search for the least index with f true *)
Fixpoint bsearch (fuel : nat) (f : nat -> bool) (i j : nat) : nat :=
  match fuel with
  | O => i
  | S k =>
      if (i <? j)%nat then
        let h := ((i + j) / 2)%nat in
        if f h then bsearch k f i h else bsearch k f (S h) j
      else i
  end.
Definition sort_search (n : nat) (f : nat -> bool) : nat := bsearch n f 0 n.

Definition insert_pos (t : tx) (l : list tx) : nat :=
  match l with
  | [] => O
  | _ =>
      if (cmp t (last l t) =? 0)%Z then length l
      else sort_search (length l) (fun i => (0 <? cmp t (nth i l t))%Z)
  end.

Definition insert_at (n : nat) (t : tx) (l : list tx) : list tx := firstn n l ++ t :: skipn n l.

(* ---------- the oracle-response stage of Add ---------- *)
Inductive os_result := OSPanic | OSErr | OSOk (s : pool).

Definition oracle_stage (s : pool) (t : tx) : os_result :=
  match oracle t with
  | None => OSOk s
  | Some id =>
      match mget N.eqb id (oresp s) with
      | None => OSOk (set_oresp s (mset N.eqb id (tid t) (oresp s)))
      | Some h =>
          match mget N.eqb h (vmap s) with
          | None => OSPanic                                  (* mp.verifiedMap[h].NetworkFee on nil *)
          | Some e =>
              if netfee t <=? netfee e then OSErr
              else
                match remove_internal h s with
                | None => OSPanic
                | Some s' => OSOk (set_oresp s' (mset N.eqb id (tid t) (oresp s')))
                end
          end
      end
  end.

(* bookkeeping after the slice has been updated *)
Definition finish_add (bal : payer -> N) (s : pool) (t : tx) : pool :=
  mkPool (vtxs s)
         (mset N.eqb (tid t) t (vmap s))
         (snd (try_add_senders_fee bal (fees s) t false))
         (fold_left (fun c h => mset N.eqb h ((match mget N.eqb h c with Some l => l | None => [] end) ++ [tid t]) c)
                    (confl t) (confs s))
         (oresp s) (cap s) (fpbmin s).

(* ---------- Add ---------- *)
Definition add (c : cfg) (bal : payer -> N) (s : pool) (t : tx) : res * pool :=
  match mget N.eqb (tid t) (vmap s) with
  | Some _ => (RErr EDup, s)
  | None =>
      match check_conflicts c bal s t with
      | CCPanic => (RPanic, s)
      | CCErr e => (RErr e, s)
      | CCOk rm s1 =>
          match oracle_stage s1 t with
          | OSPanic => (RPanic, s1)
          | OSErr => (RErr EOracle, s1)
          | OSOk s2 =>
              match remove_all (map tid rm) s2 with
              | None => (RPanic, s2)
              | Some s3 =>
                  let l := vtxs s3 in
                  let n := insert_pos t l in
                  if (length l =? cap s3)%nat then
                    if (n =? length l)%nat then
                      (RErr EOOM,
                       if fix_oom c
                       then match oracle t with Some id => set_oresp s3 (mdel N.eqb id (oresp s3)) | None => s3 end
                       else s3)
                    else
                      let unlucky := last l t in
                      (ROk, finish_add bal (remove_from_map unlucky (set_vtxs s3 (insert_at n t (removelast l)))) t)
                  else (ROk, finish_add bal (set_vtxs s3 (insert_at n t l)) t)
              end
          end
      end
  end.

(* ---------- Remove ---------- *)
Definition remove (h : N) (s : pool) : res * pool :=
  match remove_internal h s with
  | Some s' => (ROk, s')
  | None => (RPanic, s)
  end.

(* ---------- Verify ---------- *)
Definition verify (c : cfg) (bal : payer -> N) (s : pool) (t : tx) : res * pool :=
  match check_conflicts c bal s t with
  | CCPanic => (RPanic, s)
  | CCErr _ => (RBool false, s)
  | CCOk _ s1 => (RBool true, s1)
  end.

(* HasConflicts *)
Definition has_conflicts (s : pool) (t : tx) : bool :=
  match mget N.eqb (tid t) (vmap s) with
  | Some _ => true
  | None =>
      match mget N.eqb (tid t) (confs s) with
      | Some _ => true
      | None => existsb (fun h => match mget N.eqb h (vmap s) with Some _ => true | None => false end) (confl t)
      end
  end.

(* ---------- RemoveStale ---------- *)
Definition stale_step (bal : payer -> N) (isok : tx -> bool) (changed : bool) (fpb : N)
           (acc : list tx * list (N * tx) * list (payer * (N * N)) * list (N * list N) * list (N * N)) (t : tx) :=
  let '(keep, vm, f, c, o) := acc in
  let pass :=
    if isok t && (negb changed || (fpb <=? fee_per_byte t))
    then try_add_senders_fee bal f t true
    else (false, f) in
  if fst pass then
    (keep ++ [t], vm, snd pass,
     fold_left (fun c h => mset N.eqb h ((match mget N.eqb h c with Some l => l | None => [] end) ++ [tid t]) c) (confl t) c,
     o)
  else
    (keep, mdel N.eqb (tid t) vm, snd pass, c,
     match oracle t with Some id => mdel N.eqb id o | None => o end).

Definition remove_stale (bal : payer -> N) (newfpb : N) (isok : tx -> bool) (s : pool) : pool :=
  let changed := fpbmin s <? newfpb in
  let fpb := if changed then newfpb else fpbmin s in
  let '(keep, vm, f, c, o) :=
    fold_left (stale_step bal isok changed fpb) (vtxs s) ([], vmap s, [], [], oresp s) in
  mkPool keep vm f c o (cap s) fpb.

(* loadPolicy after repair F57: the stored fee per byte is the Feer's, whether it rose or fell. What is kept and
   what is dropped by THIS RemoveStale is the same either way (the filter applies when the value rose). *)
Definition set_fpbmin (s : pool) (f : N) : pool :=
  mkPool (vtxs s) (vmap s) (fees s) (confs s) (oresp s) (cap s) f.
Definition stale_variant (c : cfg) (newfpb : N) (p : pool) : pool :=
  if follow_fpb c then set_fpbmin p newfpb else p.

(* ---------- operation sequences ---------- *)
Inductive op :=
| OAdd (t : tx)
| ORemove (h : N)
| OVerify (t : tx)
| OStale (isok : tx -> bool) (bal' : payer -> N) (newfpb : N).   (* a block: the Feer's answers change here only *)

Record state := mkState { st_pool : pool; st_bal : payer -> N }.

Definition step (c : cfg) (st : state) (o : op) : res * state :=
  match o with
  | OAdd t => let '(r, s) := add c (st_bal st) (st_pool st) t in (r, mkState s (st_bal st))
  | ORemove h => let '(r, s) := remove h (st_pool st) in (r, mkState s (st_bal st))
  | OVerify t => let '(r, s) := verify c (st_bal st) (st_pool st) t in (r, mkState s (st_bal st))
  | OStale isok bal' newfpb => (ROk, mkState (stale_variant c newfpb (remove_stale bal' newfpb isok (st_pool st))) bal')
  end.

Definition run (c : cfg) (st : state) (ops : list op) : state :=
  fold_left (fun st o => snd (step c st o)) ops st.

Definition results (c : cfg) (st : state) (ops : list op) : list res :=
  snd (fold_left (fun '(st, acc) o => let '(r, st') := step c st o in (st', acc ++ [r])) ops (st, [])).

(* ---------- resending (SetResendThreshold, the resend decision inside RemoveStale) ----------
   Every item carries the block height at which it was added (item.blockStamp = Feer.BlockHeight() in Add);
   here a table hash -> stamp beside the pool, overwritten by every successful Add (hashes are unique in the
   pool). With a resend threshold set, RemoveStale, while it rebuilds the side tables for a kept item, also
   decides whether the item is handed to the resend callback: height - stamp = threshold * 2^k. The decision
   must not influence what is recorded for the item. *)
Definition pow2 (q : N) : bool := negb (q =? 0) && (N.land q (q - 1) =? 0).      (* bits.OnesCount32(q) == 1 *)
Definition resend_due (threshold diff : N) : bool :=
  negb (threshold =? 0) && (diff mod threshold =? 0) && pow2 (diff / threshold).

Definition stamp_of (stamps : list (N * N)) (t : tx) : N :=
  match mget N.eqb (tid t) stamps with Some h => h | None => 0 end.

(* the loop body of RemoveStale with the resend decision; the last component collects the items to resend *)
Definition stale_step_rs (bal : payer -> N) (isok : tx -> bool) (changed : bool) (fpb : N)
           (height threshold : N) (stamps : list (N * N))
           (acc : list tx * list (N * tx) * list (payer * (N * N)) * list (N * list N) * list (N * N) * list tx) (t : tx) :=
  let '(keep, vm, f, c, o, rs) := acc in
  let pass :=
    if isok t && (negb changed || (fpb <=? fee_per_byte t))
    then try_add_senders_fee bal f t true
    else (false, f) in
  if fst pass then
    (keep ++ [t], vm, snd pass,
     fold_left (fun c h => mset N.eqb h ((match mget N.eqb h c with Some l => l | None => [] end) ++ [tid t]) c) (confl t) c,
     o,
     if resend_due threshold (height - stamp_of stamps t) then rs ++ [t] else rs)
  else
    (keep, mdel N.eqb (tid t) vm, snd pass, c,
     match oracle t with Some id => mdel N.eqb id o | None => o end, rs).

Definition remove_stale_rs (bal : payer -> N) (newfpb : N) (isok : tx -> bool) (height threshold : N)
           (stamps : list (N * N)) (s : pool) : pool * list tx :=
  let changed := fpbmin s <? newfpb in
  let fpb := if changed then newfpb else fpbmin s in
  let '(keep, vm, f, c, o, rs) :=
    fold_left (stale_step_rs bal isok changed fpb height threshold stamps) (vtxs s) ([], vmap s, [], [], oresp s, []) in
  (mkPool keep vm f c o (cap s) fpb, rs).

(* operations with the chain height they run at, and the threshold *)
Inductive rop :=
| RO (o : op) (height : N)          (* Feer.BlockHeight() during the operation *)
| RSetResend (threshold : N).

Record rstate := mkR { r_st : state; r_stamps : list (N * N); r_thr : N }.

Definition rstep (c : cfg) (rs : rstate) (ro : rop) : (res * list tx) * rstate :=
  match ro with
  | RSetResend t => ((ROk, []), mkR (r_st rs) (r_stamps rs) t)
  | RO (OStale isok bal' newfpb) h =>
      let '(p, resent) := remove_stale_rs bal' newfpb isok h (r_thr rs) (r_stamps rs) (st_pool (r_st rs)) in
      ((ROk, resent), mkR (mkState (stale_variant c newfpb p) bal') (r_stamps rs) (r_thr rs))
  | RO (OAdd t) h =>
      let '(r, st') := step c (r_st rs) (OAdd t) in
      ((r, []), mkR st' (match r with ROk => mset N.eqb (tid t) h (r_stamps rs) | _ => r_stamps rs end) (r_thr rs))
  | RO o h =>
      let '(r, st') := step c (r_st rs) o in ((r, []), mkR st' (r_stamps rs) (r_thr rs))
  end.

Definition rrun (c : cfg) (rs : rstate) (ops : list rop) : rstate := fold_left (fun rs o => snd (rstep c rs o)) ops rs.
