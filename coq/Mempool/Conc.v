(* The pool under concurrent callers: operations as LOCK REGIONS.

   The real pool is called from many goroutines (P2P relay, RPC, block processing). Every public operation
   takes the pool's RWMutex, so an execution of concurrent calls is an interleaving of lock regions: a
   thread is a list of regions (functions of the shared state and of the thread's own local variables), a
   schedule picks which thread runs its next region. The sequence-level theorems (Main.v) speak about one
   operation after another; here: if every operation is ONE region, every schedule is such a sequence, in
   the order the regions were entered - so the result of any concurrent execution is the result of some
   sequential order of the same operations (linearizability), and the invariant holds whenever the lock is
   free. An operation split in two regions (check under one acquisition, act under the next) loses this:
   [check_then_act_refuted]. *)
From NG Require Import Common.Tactics Mempool.Model Mempool.Spec Mempool.Lemmas Mempool.Main Mempool.Variant.
From Coq Require Import Sorting.Permutation.
Open Scope N_scope.

Section Regions.
  Context {S L : Type}.

  Definition region := S -> L -> S * L.
  Definition tstate := (L * list region)%type.        (* local variables, remaining regions *)
  Definition conf := (S * list tstate)%type.          (* shared state, threads *)

  Definition run_region (s : S) (t : tstate) : S * tstate :=
    match snd t with
    | [] => (s, t)
    | f :: r => let '(s', l') := f s (fst t) in (s', (l', r))
    end.

  Fixpoint upd {A} (i : nat) (x : A) (l : list A) : list A :=
    match l, i with
    | [], _ => []
    | _ :: r, O => x :: r
    | y :: r, Datatypes.S k => y :: upd k x r
    end.

  (* thread i enters and leaves its next region (nothing happens if it has none) *)
  Definition sched_step (c : conf) (i : nat) : conf :=
    match nth_error (snd c) i with
    | None => c
    | Some t => let '(s', t') := run_region (fst c) t in (s', upd i t' (snd c))
    end.
  Definition exec (sched : list nat) (c : conf) : conf := fold_left sched_step sched c.

  Definition pending (c : conf) (i : nat) : bool :=
    match nth_error (snd c) i with Some (_, _ :: _) => true | _ => false end.
  Definition finished (c : conf) : Prop := forall i, pending c i = false.
  Definition atomic_threads (c : conf) : Prop := Forall (fun t : tstate => (length (snd t) <= 1)%nat) (snd c).

  (* the steps of a schedule that did something *)
  Fixpoint effective (sched : list nat) (c : conf) : list nat :=
    match sched with
    | [] => []
    | i :: r => if pending c i then i :: effective r (sched_step c i) else effective r (sched_step c i)
    end.

  Lemma upd_same : forall {A} (l : list A) i x, nth_error l i = Some x -> upd i x l = l.
  Proof.
    induction l as [|y l IH]; intros [|i] x H; simpl in *; try discriminate; auto.
    - inv H; auto.
    - f_equal; auto.
  Qed.
  Lemma nth_upd_eq : forall {A} (l : list A) i x, (i < length l)%nat -> nth_error (upd i x l) i = Some x.
  Proof. induction l as [|y l IH]; intros [|i] x H; simpl in *; try lia; auto. apply IH; lia. Qed.
  Lemma nth_upd_neq : forall {A} (l : list A) i j x, i <> j -> nth_error (upd i x l) j = nth_error l j.
  Proof. induction l as [|y l IH]; intros [|i] [|j] x H; simpl in *; try congruence; auto. Qed.
  Lemma upd_length : forall {A} (l : list A) i x, length (upd i x l) = length l.
  Proof. induction l as [|y l IH]; intros [|i] x; simpl; auto. Qed.

  Lemma Forall_upd : forall {A} (P : A -> Prop) l i x, Forall P l -> P x -> Forall P (upd i x l).
  Proof.
    induction l as [|y l IH]; intros [|i] x F Px; simpl; auto; inv F; constructor; auto.
  Qed.

  Lemma step_idle : forall c i, pending c i = false -> sched_step c i = c.
  Proof.
    intros [s ths] i P. unfold pending, sched_step in *; simpl in *.
    destruct (nth_error ths i) as [[l rs]|] eqn:E; auto.
    destruct rs; [|discriminate]. unfold run_region; simpl. rewrite (upd_same ths i (l, [])); auto.
  Qed.

  Lemma exec_effective : forall sched c, exec sched c = exec (effective sched c) c.
  Proof.
    induction sched as [|i r IH]; intros c; simpl; auto.
    destruct (pending c i) eqn:P; simpl.
    - apply IH.
    - rewrite (step_idle c i P) in *. apply IH.
  Qed.

  Lemma pending_other : forall c i j, i <> j -> pending (sched_step c i) j = pending c j.
  Proof.
    intros [s ths] i j N. unfold pending, sched_step; simpl.
    destruct (nth_error ths i) as [t|] eqn:E; simpl; auto.
    destruct (run_region s t) as [s' t']; simpl. rewrite nth_upd_neq; auto.
  Qed.

  Lemma atomic_step : forall c i, atomic_threads c ->
    atomic_threads (sched_step c i) /\ pending (sched_step c i) i = false.
  Proof.
    intros [s ths] i A. unfold atomic_threads, sched_step, pending in *; simpl in *.
    destruct (nth_error ths i) as [[l rs]|] eqn:E; simpl.
    - assert (Hl : (i < length ths)%nat) by (apply nth_error_Some; congruence).
      assert (Hr : (length rs <= 1)%nat).
      { rewrite Forall_forall in A. apply (A (l, rs)). eapply nth_error_In; eauto. }
      unfold run_region; simpl. destruct rs as [|f rs]; simpl.
      + rewrite (upd_same ths i (l, [])); auto. rewrite E. auto.
      + destruct (f s l) as [s' l'] eqn:F; simpl. rewrite nth_upd_eq; auto.
        destruct rs; [|simpl in Hr; lia]. split; auto.
        apply Forall_upd; auto.
    - rewrite E. auto.
  Qed.

  Lemma effective_pending : forall sched c i, In i (effective sched c) -> atomic_threads c -> pending c i = true.
  Proof.
    induction sched as [|j r IH]; intros c i H A; simpl in *; [contradiction|].
    destruct (Nat.eq_dec j i) as [->|N].
    - destruct (pending c i) eqn:P; auto.
      rewrite (step_idle c i P) in H. apply IH in H; auto. congruence.
    - assert (H' : In i (effective r (sched_step c j))).
      { destruct (pending c j); simpl in H; [destruct H as [H|H]; [contradiction|]|]; auto. }
      apply IH in H'; [|apply atomic_step; auto]. rewrite pending_other in H'; auto.
  Qed.

  Lemma effective_nodup : forall sched c, atomic_threads c -> NoDup (effective sched c).
  Proof.
    induction sched as [|j r IH]; intros c A; simpl; [constructor|].
    destruct (atomic_step c j A) as [A' P'].
    destruct (pending c j) eqn:P; auto.
    constructor; auto. intros H. apply effective_pending in H; auto. congruence.
  Qed.

  Lemma effective_complete : forall sched c i,
    finished (exec sched c) -> pending c i = true -> In i (effective sched c).
  Proof.
    induction sched as [|j r IH]; intros c i F P; simpl in *.
    - rewrite (F i) in P; discriminate.
    - destruct (Nat.eq_dec j i) as [->|N].
      + rewrite P; simpl; auto.
      + assert (P' : pending (sched_step c j) i = true) by (rewrite pending_other; auto).
        specialize (IH _ _ F P'). destruct (pending c j); simpl; auto.
  Qed.

  (* Every thread one region: whatever the schedule, the execution is the threads' operations one after
     another, each exactly once, in the order [effective sched c] - the order in which the lock was taken. *)
  Theorem atomic_schedule_is_sequential : forall sched c,
    atomic_threads c ->
    let order := effective sched c in
    exec sched c = exec order c
    /\ NoDup order
    /\ (forall i, In i order -> pending c i = true)
    /\ (finished (exec sched c) -> forall i, pending c i = true -> In i order).
  Proof.
    intros sched c A order. split; [apply exec_effective|]. split; [apply effective_nodup; auto|].
    split; [intros i H; eapply effective_pending; eauto|].
    intros F i P. apply effective_complete; auto.
  Qed.
End Regions.

(* ---------- the pool's operations as threads ---------- *)
Definition op_thread (c : cfg) (o : op) : @tstate state (option res) :=
  (None, [fun st _ => let '(r, st') := step c st o in (st', Some r)]).
Definition pool_conf (c : cfg) (st : state) (ops : list op) : @conf state (option res) :=
  (st, map (op_thread c) ops).
Definition dummy_op : op := ORemove 0.
Definition results_of (c : @conf state (option res)) : list (option res) := map fst (snd c).

Lemma pool_conf_atomic : forall c st ops, atomic_threads (pool_conf c st ops).
Proof. intros. unfold atomic_threads, pool_conf; simpl. apply Forall_forall. intros t H. apply in_map_iff in H as (o & <- & _). simpl; lia. Qed.

Lemma pool_conf_pending : forall c st ops i, pending (pool_conf c st ops) i = true <-> (i < length ops)%nat.
Proof.
  intros c st ops i. unfold pending, pool_conf; simpl. rewrite nth_error_map.
  destruct (nth_error ops i) eqn:E; simpl.
  - split; auto. intros _. apply nth_error_Some. congruence.
  - split; [discriminate|]. intros H. apply nth_error_None in E. lia.
Qed.

(* running the threads [order] (each still in its initial state) = the sequential run of those operations *)
Lemma exec_order_is_run : forall c ops order st ths,
  NoDup order ->
  (forall i, In i order -> nth_error ths i = Some (op_thread c (nth i ops dummy_op))) ->
  fst (exec order (st, ths)) = run c st (map (fun i => nth i ops dummy_op) order).
Proof.
  intros c ops; induction order as [|i r IH]; intros st ths ND H; simpl; auto.
  inv ND. unfold sched_step; simpl. rewrite (H i) by (simpl; auto). unfold run_region, op_thread; simpl.
  destruct (step c st (nth i ops dummy_op)) as [rr st'] eqn:E; simpl.
  rewrite IH; auto.
  intros j Hj. rewrite nth_upd_neq; [apply H; simpl; auto|]. intros ->; contradiction.
Qed.

(* Linearizability: with every operation one lock region, the shared state after ANY complete schedule of
   concurrently issued operations is the state after running the same operations one by one in some order
   (the order in which they took the lock) - in particular every sequence-level theorem applies to it. *)
Theorem concurrent_ops_linearizable : forall c st ops sched,
  finished (exec sched (pool_conf c st ops)) ->
  exists order,
    Permutation order (seq 0 (length ops))
    /\ exec sched (pool_conf c st ops) = exec order (pool_conf c st ops)
    /\ fst (exec sched (pool_conf c st ops)) = run c st (map (fun i => nth i ops dummy_op) order).
Proof.
  intros c st ops sched F.
  destruct (atomic_schedule_is_sequential sched (pool_conf c st ops) (pool_conf_atomic c st ops)) as (E & ND & P & C).
  set (order := effective sched (pool_conf c st ops)) in *.
  exists order. split; [|split; auto].
  - apply NoDup_Permutation; auto; [apply seq_NoDup|].
    intros i. rewrite in_seq. split.
    + intros H. apply P in H. apply pool_conf_pending in H. lia.
    + intros H. apply C; auto. apply pool_conf_pending. lia.
  - rewrite E. unfold pool_conf. apply exec_order_is_run; auto.
    intros i H. apply P in H. apply pool_conf_pending in H.
    rewrite nth_error_map. rewrite (nth_error_nth' ops dummy_op H). reflexivity.
Qed.

(* ... and the invariant holds whenever the lock is free: after every prefix of every schedule (for both accepted
   behaviours of the repaired code, Variant.v) *)
Theorem concurrent_ops_inv : forall U, good_universe U -> forall follow st ops sched,
  bal_ok (st_bal st) -> Inv U (st_bal st) (st_pool st) -> Forall (op_ok U) ops ->
  let st' := fst (exec sched (pool_conf (repaired follow) st ops)) in
  bal_ok (st_bal st') /\ Inv U (st_bal st') (st_pool st').
Proof.
  intros U GU follow st ops sched B I F.
  assert (G : forall sched (c : @conf state (option res)),
             st_ok U (fst c) ->
             Forall (fun t => snd t = [] \/ exists o, op_ok U o /\ snd t = snd (op_thread (repaired follow) o)) (snd c) ->
             st_ok U (fst (exec sched c))).
  { induction sched0 as [|i r IH]; intros [s ths] S T; simpl in *; auto.
    apply IH.
    - unfold sched_step; simpl. destruct (nth_error ths i) as [[l rs]|] eqn:E; simpl; auto.
      rewrite Forall_forall in T. destruct (T (l, rs) (nth_error_In _ _ E)) as [X|(o & Ho & X)]; simpl in X; subst rs; simpl; auto.
      unfold run_region; simpl. pose proof (step_ok_both U GU follow s o S Ho) as [_ S'].
      destruct (step (repaired follow) s o) as [rr s']; simpl in *; auto.
    - unfold sched_step; simpl. destruct (nth_error ths i) as [[l rs]|] eqn:E; simpl; auto.
      destruct (run_region s (l, rs)) as [s' t'] eqn:R; simpl.
      assert (Ht : snd t' = [] \/ exists o, op_ok U o /\ snd t' = snd (op_thread (repaired follow) o)).
      { unfold run_region in R; simpl in R. destruct rs as [|f rs]; [inv R; auto|].
        rewrite Forall_forall in T. destruct (T (l, f :: rs) (nth_error_In _ _ E)) as [X|(o & Ho & X)]; simpl in X; [discriminate|].
        inv X. destruct (step (repaired follow) s o) as [rr s'']. inv R. auto. }
      apply Forall_upd; auto. }
  apply (G sched (pool_conf (repaired follow) st ops)); [split; auto|].
  unfold pool_conf; simpl. apply Forall_forall. intros t H. apply in_map_iff in H as (o & <- & Ho).
  right. exists o. split; auto. rewrite Forall_forall in F; auto.
Qed.

(* ---------- check-then-act in two regions ---------- *)
(* Add without its duplicate check (everything after [containsKey]) *)
Definition add_act (c : cfg) (bal : payer -> N) (s : pool) (t : tx) : res * pool :=
  match check_conflicts c bal s t with
  | CCPanic => (RPanic, s)
  | CCErr e => (RErr e, s)
  | CCOk rm s1 =>
      match oracle_stage s1 t with
      | OSPanic => (RPanic, s1)
      | OSErr => (RErr EOracle, s1)
      | OSOk s2 =>
          match remove_all (map tid rm) s2 with
          | None => (RPanic, s2)
          | Some s3 =>
              let l := vtxs s3 in
              let n := insert_pos t l in
              if (length l =? cap s3)%nat then
                if (n =? length l)%nat then
                  (RErr EOOM,
                   if fix_oom c
                   then match oracle t with Some id => set_oresp s3 (mdel N.eqb id (oresp s3)) | None => s3 end
                   else s3)
                else
                  let unlucky := last l t in
                  (ROk, finish_add bal (remove_from_map unlucky (set_vtxs s3 (insert_at n t (removelast l)))) t)
              else (ROk, finish_add bal (set_vtxs s3 (insert_at n t l)) t)
          end
      end
  end.

Lemma add_is_check_then_act : forall c bal s t,
  add c bal s t = match mget N.eqb (tid t) (vmap s) with Some _ => (RErr EDup, s) | None => add_act c bal s t end.
Proof. reflexivity. Qed.

(* the same Add as two lock regions: the duplicate check under one acquisition of the lock (a read-locked
   fast path), the rest under the next, without looking again. Local variables: (seen as pooled?, result) *)
Definition split_add_thread (c : cfg) (t : tx) : @tstate state (bool * option res) :=
  ((false, None),
   [ (fun (st : state) (_ : bool * option res) =>
        (st, (match mget N.eqb (tid t) (vmap (st_pool st)) with Some _ => true | None => false end, @None res)));
     (fun (st : state) (l : bool * option res) => if fst l then (st, (true, Some (RErr EDup)))
                  else let '(r, p) := add_act c (st_bal st) (st_pool st) t in (mkState p (st_bal st), (false, Some r))) ]).

Definition cta_tx : tx := mkTx 0 [2] 0 100 100 false [] None.
Definition cta_bal (p : payer) : N := if payer_eqb p (2, 0) then 1000 else 0.
Definition cta_conf : @conf state (bool * option res) :=
  (mkState (new_pool 3) cta_bal, [split_add_thread fixed_cfg cta_tx; split_add_thread fixed_cfg cta_tx]).
Definition cta_ids (c : @conf state (bool * option res)) : list N := map tid (vtxs (st_pool (fst c))).
Definition cta_results (c : @conf state (bool * option res)) : list (option res) := map (fun t => snd (fst t)) (snd c).

(* two goroutines add the same transaction; both pass the check before either acts: it is listed twice (and
   its fee is booked twice), both calls report success. One after the other - in either order - one of them
   is refused as a duplicate. No sequential order of the two calls explains the concurrent outcome. *)
Theorem check_then_act_refuted :
  cta_ids (exec [0; 1; 0; 1]%nat cta_conf) = [0; 0]
  /\ cta_results (exec [0; 1; 0; 1]%nat cta_conf) = [Some ROk; Some ROk]
  /\ ~ NoDup (cta_ids (exec [0; 1; 0; 1]%nat cta_conf))
  /\ cta_ids (exec [0; 0; 1; 1]%nat cta_conf) = [0] /\ cta_results (exec [0; 0; 1; 1]%nat cta_conf) = [Some ROk; Some (RErr EDup)]
  /\ cta_ids (exec [1; 1; 0; 0]%nat cta_conf) = [0] /\ cta_results (exec [1; 1; 0; 0]%nat cta_conf) = [Some (RErr EDup); Some ROk].
Proof.
  assert (E : cta_ids (exec [0; 1; 0; 1]%nat cta_conf) = [0; 0]) by (vm_compute; reflexivity).
  split; [exact E|]. split; [vm_compute; reflexivity|]. split.
  - rewrite E. intros H. inv H. apply H2; simpl; auto.
  - vm_compute. repeat split; reflexivity.
Qed.

(* the operation itself, as one region, is what Add is *)
Lemma split_add_sequential_is_add : forall c t st,
  let c0 : @conf state (bool * option res) := (st, [split_add_thread c t]) in
  fst (exec [0; 0]%nat c0) = snd (step c st (OAdd t))
  /\ cta_results (exec [0; 0]%nat c0) = [Some (fst (step c st (OAdd t)))].
Proof.
  intros c t [p bal]. unfold exec, sched_step, run_region, cta_results; simpl.
  rewrite add_is_check_then_act.
  destruct (mget N.eqb (tid t) (vmap p)); simpl; auto.
  destruct (add_act c bal p t); simpl; auto.
Qed.

(* Verify is NOT a read-only region: it caches the payer's balance in the fee table. An implementation that
   runs it under the read lock lets two such writes (or a write and a read of the table) overlap. *)
Lemma verify_writes_fee_table :
  fees (new_pool 3) = [] /\ fees (snd (verify fixed_cfg cta_bal (new_pool 3) cta_tx)) = [((2, 0), (1000, 0))].
Proof. vm_compute. split; reflexivity. Qed.
