(* General facts used by the mempool proofs: association lists, uint256 arithmetic without wrap,
   the priority order, binary search, sorted insertion, fee sums. *)
From NG Require Import Common.Tactics Mempool.Model Mempool.Spec.
From Coq Require Import Sorting.Sorted Permutation.
Open Scope N_scope.

(* ---------- association lists ---------- *)
Section AListFacts.
  Context {K V : Type} (eqb : K -> K -> bool).
  Hypothesis eqb_eq : forall a b, eqb a b = true <-> a = b.

  Lemma eqb_refl' : forall a, eqb a a = true.
  Proof. intros; apply eqb_eq; reflexivity. Qed.
  Lemma eqb_neq' : forall a b, a <> b -> eqb a b = false.
  Proof. intros a b H; destruct (eqb a b) eqn:E; auto. apply eqb_eq in E; contradiction. Qed.

  Lemma mget_mdel_eq : forall k (m : list (K * V)), mget eqb k (mdel eqb k m) = None.
  Proof.
    intros k m; induction m as [|[k' v] m IH]; simpl; auto.
    destruct (eqb k k') eqn:E; simpl; auto. rewrite E; auto.
  Qed.
  Lemma mget_mdel_neq : forall k k' (m : list (K * V)), k <> k' -> mget eqb k (mdel eqb k' m) = mget eqb k m.
  Proof.
    intros k k' m H; induction m as [|[k2 v] m IH]; simpl; auto.
    destruct (eqb k' k2) eqn:E; simpl.
    - apply eqb_eq in E; subst. rewrite (eqb_neq' k k2); auto.
    - rewrite IH; auto.
  Qed.
  Lemma mget_mset_eq : forall k v (m : list (K * V)), mget eqb k (mset eqb k v m) = Some v.
  Proof. intros; unfold mset; simpl. rewrite eqb_refl'; auto. Qed.
  Lemma mget_mset_neq : forall k k' v (m : list (K * V)), k <> k' -> mget eqb k (mset eqb k' v m) = mget eqb k m.
  Proof. intros; unfold mset; simpl. rewrite eqb_neq'; auto. apply mget_mdel_neq; auto. Qed.
  Lemma mdel_absent : forall k (m : list (K * V)), mget eqb k m = None -> mdel eqb k m = m.
  Proof.
    intros k m; induction m as [|[k' v] m IH]; simpl; auto.
    destruct (eqb k k') eqn:E; try discriminate. intros H; simpl. rewrite IH; auto.
  Qed.
End AListFacts.

Lemma payer_eqb_eq : forall a b : payer, payer_eqb a b = true <-> a = b.
Proof.
  intros [a1 a2] [b1 b2]; unfold payer_eqb; simpl. rewrite andb_true_iff, !N.eqb_eq.
  split; [intros [-> ->]; auto | intros E; inv E; auto].
Qed.

Definition nget_del_eq {V} := @mget_mdel_eq N V N.eqb.
Definition nget_del_neq {V} := @mget_mdel_neq N V N.eqb N.eqb_eq.
Definition nget_set_eq {V} := @mget_mset_eq N V N.eqb N.eqb_eq.
Definition nget_set_neq {V} := @mget_mset_neq N V N.eqb N.eqb_eq.
Definition pget_del_eq {V} := @mget_mdel_eq payer V payer_eqb.
Definition pget_del_neq {V} := @mget_mdel_neq payer V payer_eqb payer_eqb_eq.
Definition pget_set_eq {V} := @mget_mset_eq payer V payer_eqb payer_eqb_eq.
Definition pget_set_neq {V} := @mget_mset_neq payer V payer_eqb payer_eqb_eq.

Lemma payer_eqb_refl : forall p, payer_eqb p p = true.
Proof. intros; apply payer_eqb_eq; auto. Qed.
Lemma payer_eqb_neq : forall p q, p <> q -> payer_eqb p q = false.
Proof. intros p q H; destruct (payer_eqb p q) eqn:E; auto. apply payer_eqb_eq in E; contradiction. Qed.

(* ---------- uint256 without wrap ---------- *)
Lemma W_pos : 0 < W. Proof. reflexivity. Qed.
Lemma wadd_small : forall a b, a + b < W -> wadd a b = a + b.
Proof. intros; unfold wadd. apply N.mod_small; auto. Qed.
Lemma wsub_small : forall a b, b <= a -> a < W -> wsub a b = a - b.
Proof.
  intros a b H1 H2; unfold wsub.
  assert (Hb : b mod W = b) by (apply N.mod_small; lia). rewrite Hb.
  replace (a + (W - b)) with ((a - b) + 1 * W) by lia.
  rewrite N.mod_add by (pose proof W_pos; lia). apply N.mod_small; lia.
Qed.
Lemma two255_lt_W : 2 ^ 255 + 2 ^ 64 < W. Proof. reflexivity. Qed.
Global Opaque W.

(* ---------- the priority order ---------- *)
Lemma cmp_refl : forall a, cmp a a = 0%Z.
Proof. intros a; unfold cmp. destruct (high a); simpl; rewrite Z.sub_diag; simpl; lia. Qed.

Lemma cmp_antisym : forall a b, cmp b a = (- cmp a b)%Z.
Proof.
  intros a b; unfold cmp.
  destruct (high a), (high b); simpl; try reflexivity;
    repeat case_if; lia.
Qed.

Lemma cmp_trans_ge : forall a b c, (0 <= cmp a b)%Z -> (0 <= cmp b c)%Z -> (0 <= cmp a c)%Z.
Proof.
  intros a b c; unfold cmp.
  destruct (high a), (high b), (high c); simpl; try lia;
    repeat case_if; lia.
Qed.

Lemma cmp_trans_gt_ge : forall a b c, (0 < cmp a b)%Z -> (0 <= cmp b c)%Z -> (0 < cmp a c)%Z.
Proof.
  intros a b c; unfold cmp.
  destruct (high a), (high b), (high c); simpl; try lia;
    repeat case_if; lia.
Qed.

Lemma cmp_trans_ge_gt : forall a b c, (0 <= cmp a b)%Z -> (0 < cmp b c)%Z -> (0 < cmp a c)%Z.
Proof.
  intros a b c; unfold cmp.
  destruct (high a), (high b), (high c); simpl; try lia;
    repeat case_if; lia.
Qed.

(* ---------- sortedness ---------- *)
Lemma sorted_app : forall l1 l2,
  sorted (l1 ++ l2) <-> sorted l1 /\ sorted l2 /\ (forall a b, In a l1 -> In b l2 -> ge_prio a b).
Proof.
  unfold sorted; induction l1 as [|x l1 IH]; intros l2; simpl.
  - split; [intros H; repeat split; auto; [constructor | intros ? ? []] | intros (_ & H & _); auto].
  - split.
    + intros H; inv H. apply IH in H2 as (S1 & S2 & S3). rewrite Forall_app in H3. destruct H3 as [F1 F2].
      repeat split; auto; [constructor; auto|].
      intros a b [->|Ha] Hb; [rewrite Forall_forall in F2; auto | auto].
    + intros (S1 & S2 & S3). inv S1. constructor.
      * apply IH; repeat split; auto.
      * rewrite Forall_app; split; auto. rewrite Forall_forall; intros b Hb; apply S3; auto.
Qed.

Lemma sorted_cons_inv : forall x l, sorted (x :: l) -> sorted l /\ forall b, In b l -> ge_prio x b.
Proof. intros x l H; inv H; split; auto. rewrite Forall_forall in H3; auto. Qed.

Lemma sorted_remove_mid : forall l1 x l2, sorted (l1 ++ x :: l2) -> sorted (l1 ++ l2).
Proof.
  intros l1 x l2 H. apply sorted_app in H as (S1 & S2 & S3). apply sorted_cons_inv in S2 as [S2 _].
  apply sorted_app; repeat split; auto. intros a b Ha Hb; apply S3; simpl; auto.
Qed.

Lemma sorted_insert : forall l1 t l2,
  sorted (l1 ++ l2) -> (forall a, In a l1 -> ge_prio a t) -> (forall b, In b l2 -> ge_prio t b) -> sorted (l1 ++ t :: l2).
Proof.
  intros l1 t l2 H H1 H2. apply sorted_app in H as (S1 & S2 & S3).
  apply sorted_app; repeat split; auto.
  - constructor; auto. rewrite Forall_forall; auto.
  - intros a b Ha [->|Hb]; auto.
Qed.

(* ---------- binary search ---------- *)
Lemma bsearch_spec : forall n fuel f i j,
  (i <= j)%nat -> (j <= n)%nat -> (j - i <= fuel)%nat ->
  (forall x, (x < i)%nat -> f x = false) ->
  (forall x, (j <= x < n)%nat -> f x = true) ->
  (forall x y, (x <= y < n)%nat -> f x = true -> f y = true) ->
  let r := bsearch fuel f i j in
  (i <= r <= j)%nat /\ (forall x, (x < r)%nat -> f x = false) /\ (forall x, (r <= x < n)%nat -> f x = true).
Proof.
  intros n; induction fuel as [|k IH]; intros f i j Hij Hjn Hf Hlo Hhi Hmono; cbn [bsearch]; cbv zeta.
  - assert (i = j) by lia; subst. repeat split; auto.
  - destruct (i <? j)%nat eqn:E.
    + apply Nat.ltb_lt in E.
      assert (Hh : (i <= (i + j) / 2 < j)%nat).
      { split; [apply Nat.div_le_lower_bound; lia | apply Nat.div_lt_upper_bound; lia]. }
      destruct (f ((i + j) / 2)%nat) eqn:Fh.
      * specialize (IH f i ((i + j) / 2)%nat).
        destruct IH as (A & B & C); try lia; auto.
        { intros x Hx; apply (Hmono ((i + j) / 2)%nat); auto; lia. }
        repeat split; auto; lia.
      * specialize (IH f (S ((i + j) / 2)) j).
        destruct IH as (A & B & C); try lia; auto.
        { intros x Hx. destruct (f x) eqn:Fx; auto.
          rewrite (Hmono x ((i + j) / 2)%nat) in Fh; auto; lia. }
        repeat split; auto; lia.
    + apply Nat.ltb_ge in E. assert (i = j) by lia; subst. repeat split; auto; lia.
Qed.

(* ---------- list helpers ---------- *)
Lemma find_index_some : forall {A} (f : A -> bool) l i,
  find_index f l = Some i -> exists x, nth_error l i = Some x /\ f x = true.
Proof.
  intros A f; induction l as [|y l IH]; intros i H; simpl in *; try discriminate.
  destruct (f y) eqn:E.
  - inv H; exists y; auto.
  - destruct (find_index f l) eqn:F; simpl in H; try discriminate. inv H. apply IH; auto.
Qed.
Lemma find_index_none : forall {A} (f : A -> bool) l, find_index f l = None -> forall x, In x l -> f x = false.
Proof.
  intros A f; induction l as [|y l IH]; intros H x Hx; simpl in *; [contradiction|].
  destruct (f y) eqn:E; try discriminate.
  destruct (find_index f l) eqn:F; simpl in H; try discriminate.
  destruct Hx as [->|Hx]; auto.
Qed.
Lemma nth_error_split' : forall {A} (l : list A) n x,
  nth_error l n = Some x -> l = firstn n l ++ x :: skipn (S n) l.
Proof.
  intros A; induction l as [|y l IH]; intros [|n] x H; simpl in *; try discriminate.
  - inv H; auto.
  - f_equal; apply IH; auto.
Qed.

(* ---------- fee sums ---------- *)
Lemma sum_fees_app : forall p l1 l2, sum_fees p (l1 ++ l2) = sum_fees p l1 + sum_fees p l2.
Proof.
  intros p; induction l1 as [|x l1 IH]; intros l2; simpl; auto.
  rewrite IH. destruct (payer_eqb (payer_of x) p); lia.
Qed.
Lemma sum_fees_cons : forall p x l,
  sum_fees p (x :: l) = (if payer_eqb (payer_of x) p then fee x else 0) + sum_fees p l.
Proof. intros; simpl. destruct (payer_eqb (payer_of x) p); lia. Qed.
Lemma sum_fees_none : forall p l, (forall e, In e l -> payer_of e <> p) -> sum_fees p l = 0.
Proof.
  intros p; induction l as [|x l IH]; intros H; simpl; auto.
  rewrite payer_eqb_neq by (apply H; simpl; auto). apply IH; intros; apply H; simpl; auto.
Qed.

(* a duplicate-free (by id) family of pooled transactions weighs no more than the pool *)
Lemma sum_fees_incl : forall p l' l,
  NoDup (map tid l') -> (forall e, In e l' -> In e l) -> sum_fees p l' <= sum_fees p l.
Proof.
  intros p; induction l' as [|x l' IH]; intros l ND Hin; simpl; [lia|].
  inv ND.
  destruct (in_split x l) as (l1 & l2 & ->); [apply Hin; simpl; auto|].
  assert (Hle : sum_fees p l' <= sum_fees p (l1 ++ l2)).
  { apply IH; auto. intros e He.
    assert (In e (l1 ++ x :: l2)) by (apply Hin; simpl; auto).
    rewrite in_app_iff in *; simpl in *. destruct H as [?|[<-|?]]; auto.
    exfalso; apply H1; apply in_map; auto. }
  rewrite sum_fees_app in *; simpl. destruct (payer_eqb (payer_of x) p); lia.
Qed.

(* ---------- insertion position ---------- *)
Lemma sorted_nth : forall l d x y, sorted l -> (x <= y < length l)%nat -> ge_prio (nth x l d) (nth y l d).
Proof.
  induction l as [|a l IH]; intros d x y S H; simpl in H; [lia|].
  apply sorted_cons_inv in S as [S Ha].
  destruct x, y; simpl; try lia.
  - unfold ge_prio; rewrite cmp_refl; lia.
  - apply Ha. apply nth_In; lia.
  - apply IH; auto; lia.
Qed.

Lemma in_firstn_nth : forall {A} (l : list A) n d a, In a (firstn n l) -> exists i, (i < n)%nat /\ (i < length l)%nat /\ nth i l d = a.
Proof.
  intros A; induction l as [|y l IH]; intros [|n] d a H; simpl in *; try contradiction.
  destruct H as [<-|H]; [exists O; repeat split; auto; lia|].
  destruct (IH n d a H) as (i & ? & ? & ?). exists (S i); repeat split; auto; lia.
Qed.
Lemma in_skipn_nth : forall {A} (l : list A) n d a, In a (skipn n l) -> exists i, (n <= i < length l)%nat /\ nth i l d = a.
Proof.
  intros A; induction l as [|y l IH]; intros [|n] d a H; simpl in *; try contradiction.
  - destruct H as [<-|H]; [exists O; split; auto; lia|].
    apply (In_nth _ _ d) in H as (i & ? & ?). exists (S i); split; auto; lia.
  - destruct (IH n d a H) as (i & ? & ?). exists (S i); split; auto; lia.
Qed.

Lemma last_nth : forall {A} (l : list A) d, last l d = nth (pred (length l)) l d.
Proof.
  intros A; induction l as [|x [|y l] IH]; intros d; auto.
  change (last (x :: y :: l) d) with (last (y :: l) d). rewrite IH. reflexivity.
Qed.

Lemma insert_pos_spec : forall t l,
  sorted l ->
  let n := insert_pos t l in
  (n <= length l)%nat
  /\ (forall a, In a (firstn n l) -> ge_prio a t)
  /\ (forall b, In b (skipn n l) -> (0 < cmp t b)%Z).
Proof.
  intros t l S; unfold insert_pos.
  destruct l as [|x l']; [simpl; repeat split; auto; intros ? []|].
  set (l := x :: l') in *.
  destruct (cmp t (last l t) =? 0)%Z eqn:E.
  - apply Z.eqb_eq in E. rewrite firstn_all, skipn_all. repeat split; auto; [|intros ? []].
    intros a Ha. apply (In_nth _ _ t) in Ha as (i & Hi & <-).
    assert (L : last l t = nth (pred (length l)) l t) by (apply last_nth).
    pose proof (sorted_nth l t i (pred (length l)) S) as G.
    unfold ge_prio in *. rewrite <- L in G.
    apply (cmp_trans_ge _ (last l t)); [apply G; lia|]. rewrite cmp_antisym; lia.
  - unfold sort_search.
    destruct (bsearch_spec (length l) (length l) (fun i => (0 <? cmp t (nth i l t))%Z) 0 (length l))
      as (A & B & C); try lia.
    + intros i1 i2 Hxy Hx. apply Z.ltb_lt in Hx. apply Z.ltb_lt.
      eapply cmp_trans_gt_ge; eauto. apply sorted_nth; auto.
    + repeat split; try lia.
      * intros a Ha. apply (in_firstn_nth _ _ t) in Ha as (i & Hi & Hl & <-).
        specialize (B i Hi). apply Z.ltb_ge in B. unfold ge_prio. rewrite cmp_antisym; lia.
      * intros b Hb. apply (in_skipn_nth _ _ t) in Hb as (i & Hi & <-).
        specialize (C i Hi). apply Z.ltb_lt in C; auto.
Qed.

Lemma NoDup_app_iff' : forall {A} (l1 l2 : list A),
  NoDup (l1 ++ l2) <-> NoDup l1 /\ NoDup l2 /\ (forall x, In x l1 -> In x l2 -> False).
Proof.
  intros A; induction l1 as [|a l1 IH]; intros l2; simpl.
  - split; [intros H; split; [constructor|split; [auto|intros ? []]] | tauto].
  - split.
    + intros H; inv H. apply IH in H3 as (N1 & N2 & N3). rewrite in_app_iff in H2.
      repeat split; auto; [constructor; auto|]. intros x [<-|Hx] Hx2; eauto.
    + intros (N1 & N2 & N3). inv N1. constructor.
      * rewrite in_app_iff; intros [?|?]; eauto.
      * apply IH; repeat split; eauto.
Qed.
