(* The code before the repairs F4 and F5 ([fix_oom] / [fix_payer] off) does not have the property:
   concrete witnesses, checked by computation. The same sequences are in corpus/C08/c08.json and are
   replayed on the implementation by ./check. *)
From NG Require Import Common.Tactics Mempool.Model Mempool.Spec.
Open Scope N_scope.

Definition legacy_oom : cfg := mkCfg false true false.
Definition legacy_payer : cfg := mkCfg true false false.

(* F4: capacity 1, an ordinary transaction, then two responses to oracle request 7 *)
Definition f4_a  : tx := mkTx 0 [2] 0 1000 100 false [] None.
Definition f4_o1 : tx := mkTx 1 [2] 0 10 100 false [] (Some 7).
Definition f4_o2 : tx := mkTx 2 [2] 0 5000 100 false [] (Some 7).
Definition f4_bal : payer -> N := fun _ => 1000000.
Definition f4_st0 : state := mkState (new_pool 1) f4_bal.

Lemma f4_refuted :
  let st := run legacy_oom f4_st0 [OAdd f4_a] in
  let '(r, s') := add legacy_oom (st_bal st) (st_pool st) f4_o1 in
  r = RErr EOOM
  /\ mget N.eqb 7 (oresp (st_pool st)) = None /\ mget N.eqb 7 (oresp s') = Some 1   (* the failed Add changed the pool *)
  /\ results legacy_oom f4_st0 [OAdd f4_a; OAdd f4_o1; OAdd f4_o2] = [ROk; RErr EOOM; RPanic].
Proof. vm_compute. repeat split; reflexivity. Qed.

Lemma f4_repaired :
  results fixed_cfg f4_st0 [OAdd f4_a; OAdd f4_o1; OAdd f4_o2] = [ROk; RErr EOOM; ROk].
Proof. vm_compute. reflexivity. Qed.

(* F5: depositors 5 (deposit 12) and 6 (deposit 100); T3 of depositor 5 names T2 of depositor 6 *)
Definition f5_t1 : tx := mkTx 0 [notary; 5] 0 10 100 false [] None.
Definition f5_t2 : tx := mkTx 1 [notary; 6] 0 8 100 false [] None.
Definition f5_t3 : tx := mkTx 2 [notary; 5] 0 9 100 false [1] None.
Definition f5_bal : payer -> N :=
  fun p => if payer_eqb p (notary, 5) then 12 else if payer_eqb p (notary, 6) then 100 else 0.
Definition f5_st0 : state := mkState (new_pool 10) f5_bal.
Definition f5_ops : list op := [OAdd f5_t1; OAdd f5_t2; OAdd f5_t3].

Lemma f5_refuted :
  let st := run legacy_payer f5_st0 f5_ops in
  results legacy_payer f5_st0 f5_ops = [ROk; ROk; ROk]
  /\ sum_fees (notary, 5) (vtxs (st_pool st)) = 19 /\ st_bal st (notary, 5) = 12.   (* pooled fees exceed the deposit *)
Proof. vm_compute. repeat split; reflexivity. Qed.

Lemma f5_repaired : results fixed_cfg f5_st0 f5_ops = [ROk; ROk; RErr EConflict].
Proof. vm_compute. reflexivity. Qed.

(* Who pays: a transaction is Notary-sponsored only when its SENDER is the Notary contract ([get_payer]). Booking
   a main transaction that merely carries Notary among its further signers under (sender, Signers[1]) puts it in a
   fee group of its own, while the Feer answers with the sender's GAS balance for both groups: each group passes
   its balance check, together they exceed the balance. *)
Definition payer_by_cosigner (t : tx) : payer :=
  match signers t with
  | s :: d :: _ => if has_signer notary t then (s, d) else (s, 0)
  | s :: _ => (s, 0)
  | [] => (0, 0)
  end.
Definition sum_fees_by (pf : tx -> payer) (p : payer) (l : list tx) : N :=
  fold_right (fun e acc => if payer_eqb (pf e) p then fee e + acc else acc) 0 l.
(* Blockchain.GetUtilityTokenBalance: the deposit for (Notary, depositor), otherwise the GAS balance of the primary *)
Definition feer_view (bal : payer -> N) (p : payer) : N :=
  if (fst p =? notary) && negb (snd p =? 0) then bal p else bal (fst p, 0).

Definition pc_t1 : tx := mkTx 0 [2] 0 60 100 false [] None.
Definition pc_t2 : tx := mkTx 1 [2; notary] 0 60 100 false [] None.     (* main transaction co-signed by Notary *)
Definition pc_bal : payer -> N := fun p => if payer_eqb p (2, 0) then 100 else 0.

Lemma payer_by_cosigner_refuted :
  (forall p, In p [(2, 0); (2, notary)] -> sum_fees_by payer_by_cosigner p [pc_t1; pc_t2] <= feer_view pc_bal p)
  /\ payer_of pc_t2 = (2, 0)
  /\ sum_fees (2, 0) [pc_t1; pc_t2] = 120 /\ pc_bal (2, 0) = 100.
Proof.
  split; [|vm_compute; repeat split; reflexivity].
  intros p [<-|[<-|[]]]; vm_compute; discriminate.
Qed.
