(* Concrete, non-trivial instances of the hypotheses of the C08 theorems (non-vacuity). *)
From NG Require Import Common.Tactics Mempool.Model Mempool.Spec Mempool.Lemmas Mempool.AddMain Mempool.Main.
Open Scope N_scope.

(* a decidable sufficient condition for [good_universe] of a finite list *)
Definition memb (x : N) (l : list N) : bool := existsb (N.eqb x) l.
Fixpoint nodupb (l : list N) : bool :=
  match l with [] => true | x :: r => negb (memb x r) && nodupb r end.

Lemma memb_in : forall x l, memb x l = true <-> In x l.
Proof.
  intros x l; unfold memb. rewrite existsb_exists. split.
  - intros (y & Hy & E). apply N.eqb_eq in E; subst; auto.
  - intros H; exists x; split; auto. apply N.eqb_refl.
Qed.
Lemma nodupb_nodup : forall l, nodupb l = true -> NoDup l.
Proof.
  induction l as [|x l IH]; simpl; [constructor|].
  rewrite andb_true_iff, negb_true_iff. intros [H1 H2]. constructor; auto.
  rewrite <- memb_in. congruence.
Qed.

Definition good_list (l : list tx) : bool :=
  nodupb (map tid l)
  && forallb (fun a => forallb (fun b => negb (memb (tid b) (confl a) && memb (tid a) (confl b))) l) l
  && forallb (fun a => nodupb (confl a)) l
  && forallb (fun a => fee a <? 2 ^ 64) l.

Lemma nodup_map_inj : forall (l : list tx) a b, NoDup (map tid l) -> In a l -> In b l -> tid a = tid b -> a = b.
Proof.
  induction l as [|x l IH]; intros a b ND Ha Hb E; [contradiction|].
  inv ND. destruct Ha as [<-|Ha], Hb as [<-|Hb]; auto.
  - exfalso; apply H1. rewrite E. apply in_map; auto.
  - exfalso; apply H1. rewrite <- E. apply in_map; auto.
Qed.

Lemma good_list_universe : forall l, good_list l = true -> good_universe (fun t => In t l).
Proof.
  intros l H. unfold good_list in H. rewrite !andb_true_iff in H. destruct H as [[[H1 H2] H3] H4].
  rewrite forallb_forall in H2, H3, H4. constructor.
  - intros a b Ha Hb. apply (nodup_map_inj l); auto. apply nodupb_nodup; auto.
  - intros a b Ha Hb Hc Hc'. specialize (H2 a Ha). rewrite forallb_forall in H2. specialize (H2 b Hb).
    apply memb_in in Hc, Hc'. rewrite Hc, Hc' in H2. discriminate.
  - intros a Ha. apply nodupb_nodup; auto.
  - intros a Ha. apply N.ltb_lt; auto.
Qed.

(* ---------- a concrete universe and history ---------- *)
Definition e0 : tx := mkTx 0 [2] 0 1000 100 false [] None.
Definition e1 : tx := mkTx 1 [2] 0 10 100 false [] (Some 7).
Definition e2 : tx := mkTx 2 [2] 0 5000 100 false [] (Some 7).
Definition e3 : tx := mkTx 3 [notary; 5] 0 10 100 false [] None.
Definition e4 : tx := mkTx 4 [notary; 6] 0 8 100 false [] None.
Definition e5 : tx := mkTx 5 [notary; 5] 0 9 100 false [4] None.
Definition e6 : tx := mkTx 6 [3; 2] 100 1200 100 true [0] None.
Definition ex_txs : list tx := [e0; e1; e2; e3; e4; e5; e6].
Definition ex_U : tx -> Prop := fun t => In t ex_txs.

Definition ex_bal : payer -> N :=
  fun p => if payer_eqb p (2, 0) then 10000 else if payer_eqb p (3, 0) then 2000
           else if payer_eqb p (notary, 5) then 12 else if payer_eqb p (notary, 6) then 100 else 0.
Definition ex_bal2 : payer -> N :=
  fun p => if payer_eqb p (2, 0) then 5500 else if payer_eqb p (3, 0) then 2000 else 0.

Definition ex_ops : list op :=
  [OAdd e0; OAdd e3; OAdd e4; OAdd e5; OAdd e1; OVerify e2; OAdd e2; OAdd e6; ORemove 3;
   OStale (fun t => negb (tid t =? 4)) ex_bal2 0; OAdd e0].

Lemma ex_universe : good_universe ex_U.
Proof. apply good_list_universe. vm_compute. reflexivity. Qed.

Lemma ex_bal_ok : bal_ok ex_bal /\ bal_ok ex_bal2.
Proof.
  split; intros p; unfold ex_bal, ex_bal2; repeat case_if; reflexivity.
Qed.

Lemma ex_ops_ok : Forall (op_ok ex_U) ex_ops.
Proof.
  unfold ex_ops.
  repeat (apply Forall_cons; [first [exact (proj2 ex_bal_ok) | simpl; unfold ex_U, ex_txs; simpl; auto 10]|]).
  apply Forall_nil.
Qed.

(* what this history does: an over-committing sponsored transaction refused, an eviction, an oracle
   response replaced, a replacement through Conflicts, a block that drops a transaction, a refusal
   because a pooled transaction with a higher fee names the newcomer *)
Lemma ex_history :
  results fixed_cfg (mkState (new_pool 3) ex_bal) ex_ops
  = [ROk; ROk; ROk; RErr EConflict; ROk; RBool true; ROk; ROk; ROk; ROk; RErr EConflictsAttr]
  /\ map tid (vtxs (st_pool (run fixed_cfg (mkState (new_pool 3) ex_bal) ex_ops))) = [6; 2].
Proof. vm_compute. split; reflexivity. Qed.

Definition ex_state_full : state := run fixed_cfg (mkState (new_pool 3) ex_bal) [OAdd e0; OAdd e3; OAdd e4].

Lemma ex_state_full_ok : bal_ok (st_bal ex_state_full) /\ Inv ex_U (st_bal ex_state_full) (st_pool ex_state_full).
Proof.
  apply (run_ok ex_U ex_universe).
  - split; [exact (proj1 ex_bal_ok)|apply inv_init].
  - repeat (apply Forall_cons; [simpl; unfold ex_U, ex_txs; simpl; auto 10|]). apply Forall_nil.
Qed.

(* a full pool: e1 evicts the lowest entry e4; the over-committing e5 is refused and nothing changes *)
Lemma ex_evict :
  fst (add fixed_cfg ex_bal (st_pool ex_state_full) e1) = ROk
  /\ map tid (vtxs (st_pool ex_state_full)) = [0; 3; 4]
  /\ map tid (vtxs (snd (add fixed_cfg ex_bal (st_pool ex_state_full) e1))) = [0; 3; 1].
Proof. vm_compute. repeat split; reflexivity. Qed.

Lemma ex_failed :
  fst (add fixed_cfg ex_bal (st_pool ex_state_full) e5) = RErr EConflict
  /\ fst (add fixed_cfg ex_bal (st_pool (run fixed_cfg ex_state_full [OAdd e1])) (mkTx 9 [2] 0 1 100 false [] (Some 8))) = RErr EOOM.
Proof. vm_compute. split; reflexivity. Qed.
