(* Equivalent pool states (same slice, same map contents, same fee view) answer every operation
   identically and stay equivalent: [pool_eqv] is an observational congruence, so "a failed Add leaves
   the pool unchanged" (C08_failed_add_identity) means unchanged for every later operation. *)
From NG Require Import Common.Tactics Mempool.Model Mempool.Spec Mempool.Lemmas Mempool.RemoveProofs
  Mempool.AddProofs Mempool.AddMain Mempool.StaleProofs Mempool.Main.
Open Scope N_scope.

Definition ext_eq {K V} (eqb : K -> K -> bool) (m1 m2 : list (K * V)) : Prop := forall k, mget eqb k m1 = mget eqb k m2.

Lemma nmdel_ext : forall {V} k (m1 m2 : list (N * V)), ext_eq N.eqb m1 m2 -> ext_eq N.eqb (mdel N.eqb k m1) (mdel N.eqb k m2).
Proof.
  intros V k m1 m2 H h. destruct (N.eq_dec h k) as [->|Hh]; [rewrite !nget_del_eq; auto | rewrite !nget_del_neq; auto].
Qed.
Lemma nmset_ext : forall {V} k (v : V) m1 m2, ext_eq N.eqb m1 m2 -> ext_eq N.eqb (mset N.eqb k v m1) (mset N.eqb k v m2).
Proof.
  intros V k v m1 m2 H h. destruct (N.eq_dec h k) as [->|Hh]; [rewrite !nget_set_eq; auto | rewrite !nget_set_neq; auto].
Qed.

Lemma rce_ext : forall me c1 c2 k, ext_eq N.eqb c1 c2 ->
  ext_eq N.eqb (remove_conflict_entry me c1 k) (remove_conflict_entry me c2 k).
Proof.
  intros me c1 c2 k H. unfold remove_conflict_entry. rewrite (H k).
  destruct (mget N.eqb k c2) as [l|]; auto. destruct (length l =? 1)%nat; [apply nmdel_ext | apply nmset_ext]; auto.
Qed.
Lemma rce_fold_ext : forall me hs c1 c2, ext_eq N.eqb c1 c2 ->
  ext_eq N.eqb (fold_left (remove_conflict_entry me) hs c1) (fold_left (remove_conflict_entry me) hs c2).
Proof. intros me; induction hs as [|h hs IH]; intros c1 c2 H; simpl; auto. apply IH, rce_ext; auto. Qed.

Lemma add_conf_ext : forall me hs c1 c2, ext_eq N.eqb c1 c2 ->
  ext_eq N.eqb (fold_left (add_conf me) hs c1) (fold_left (add_conf me) hs c2).
Proof.
  intros me; induction hs as [|h hs IH]; intros c1 c2 H; simpl; auto.
  apply IH. unfold add_conf. rewrite (H h). apply nmset_ext; auto.
Qed.

Lemma view_set : forall bal f p v q,
  fee_view bal (mset payer_eqb p v f) q = if payer_eqb q p then v else fee_view bal f q.
Proof.
  intros; unfold fee_view. destruct (payer_eqb q p) eqn:E.
  - apply payer_eqb_eq in E; subst. rewrite pget_set_eq; auto.
  - rewrite pget_set_neq; auto. intros ->; rewrite payer_eqb_refl in E; discriminate.
Qed.

Lemma raw_is_view : forall bal f p, mget payer_eqb p f <> None ->
  match mget payer_eqb p f with Some x => x | None => (0, 0) end = fee_view bal f p.
Proof. intros bal f p H; unfold fee_view. destruct (mget payer_eqb p f); congruence. Qed.

Section Equiv.
  Variable U : tx -> Prop.
  Variable bal : payer -> N.
  Hypothesis GU : good_universe U.
  Hypothesis BOK : bal_ok bal.

  Lemma remove_from_map_eqv : forall e a b,
    pool_eqv bal a b -> mget payer_eqb (payer_of e) (fees a) <> None -> mget payer_eqb (payer_of e) (fees b) <> None ->
    pool_eqv bal (remove_from_map e a) (remove_from_map e b).
  Proof.
    intros e a b E Pa Pb. destruct E. unfold remove_from_map.
    rewrite (raw_is_view bal _ _ Pa), (raw_is_view bal _ _ Pb), (eqv_fees (payer_of e)).
    constructor; cbn [vtxs vmap fees confs oresp cap fpbmin]; auto.
    - apply nmdel_ext; auto.
    - intros q. rewrite !view_set. destruct (payer_eqb q (payer_of e)); auto.
    - apply rce_fold_ext; auto.
    - destruct (oracle e); auto. apply nmdel_ext; auto.
  Qed.

  Lemma set_vtxs_eqv : forall a b l, pool_eqv bal a b -> pool_eqv bal (set_vtxs a l) (set_vtxs b l).
  Proof. intros a b l E; destruct E; constructor; auto. Qed.

  Lemma remove_internal_eqv : forall pend h a b,
    InvP U bal pend a -> InvP U bal pend b -> pool_eqv bal a b ->
    exists a' b', remove_internal h a = Some a' /\ remove_internal h b = Some b' /\ pool_eqv bal a' b'.
  Proof.
    intros pend h a b Ia Ib E.
    destruct (remove_internal_inv U bal GU BOK pend a h Ia) as (a' & Ea & _).
    destruct (remove_internal_inv U bal GU BOK pend b h Ib) as (b' & Eb & _).
    exists a', b'. split; auto. split; auto.
    unfold remove_internal in *. rewrite <- (eqv_vmap _ _ _ E h), <- (eqv_vtxs _ _ _ E) in Eb.
    destruct (mget N.eqb h (vmap a)); [|inv Ea; inv Eb; auto].
    destruct (nth_error (vtxs a) _) as [itm|] eqn:Hn; [|discriminate]. inv Ea; inv Eb.
    apply nth_error_In in Hn.
    apply remove_from_map_eqv; [apply set_vtxs_eqv; auto| |]; unfold set_vtxs; cbn [fees].
    - pose proof (inv_fees _ _ _ _ Ia (payer_of itm)) as F. destruct (mget payer_eqb (payer_of itm) (fees a)); [discriminate|].
      exfalso; eapply F; eauto.
    - pose proof (inv_fees _ _ _ _ Ib (payer_of itm)) as F. rewrite <- (eqv_vtxs _ _ _ E) in F.
      destruct (mget payer_eqb (payer_of itm) (fees b)); [discriminate|]. exfalso; eapply F; eauto.
  Qed.

  Lemma remove_all_eqv : forall hs pend a b,
    InvP U bal pend a -> InvP U bal pend b -> pool_eqv bal a b ->
    exists a' b', remove_all hs a = Some a' /\ remove_all hs b = Some b' /\ pool_eqv bal a' b'.
  Proof.
    induction hs as [|h hs IH]; intros pend a b Ia Ib E; simpl; [eauto|].
    destruct (remove_internal_eqv pend h a b Ia Ib E) as (a1 & b1 & Ea & Eb & E1). rewrite Ea, Eb.
    assert (Ia1 : InvP U bal pend a1).
    { destruct (remove_internal_inv U bal GU BOK pend a h Ia) as (x & Hx & Ix & _).
      rewrite Ea in Hx. injection Hx as Hx. rewrite Hx. exact Ix. }
    assert (Ib1 : InvP U bal pend b1).
    { destruct (remove_internal_inv U bal GU BOK pend b h Ib) as (x & Hx & Ix & _).
      rewrite Eb in Hx. injection Hx as Hx. rewrite Hx. exact Ix. }
    eapply IH; eauto.
  Qed.

  Lemma cc_step1_ext : forall author v1 v2 hs acc, ext_eq N.eqb v1 v2 -> cc_step1 author v1 hs acc = cc_step1 author v2 hs acc.
  Proof.
    intros author v1 v2; induction hs as [|h hs IH]; intros acc H; simpl; auto.
    rewrite (H h). destruct (mget N.eqb h v2); auto.
  Qed.
  Lemma cc_step2_ext : forall t v1 v2 hs acc, ext_eq N.eqb v1 v2 -> cc_step2 t v1 hs acc = cc_step2 t v2 hs acc.
  Proof.
    intros t v1 v2; induction hs as [|h hs IH]; intros acc H; simpl; auto.
    rewrite (H h). destruct (mget N.eqb h v2); auto. destruct (existsb _ _); auto.
  Qed.

  Lemma get_payer_fee_view : forall f p, fst (get_payer_fee bal p f) = fee_view bal f p.
  Proof. intros; unfold get_payer_fee, fee_view. destruct (mget payer_eqb p f); auto. Qed.

  Lemma cache_eqv : forall a p, pool_eqv bal a (set_fees a (mset payer_eqb p (fee_view bal (fees a) p) (fees a))).
  Proof.
    intros a p. constructor; unfold set_fees; cbn [vtxs vmap fees confs oresp cap fpbmin]; auto.
    intros q. rewrite view_set. destruct (payer_eqb q p) eqn:E; auto. apply payer_eqb_eq in E; subst; auto.
  Qed.

  Lemma pool_eqv_sym : forall a b, pool_eqv bal a b -> pool_eqv bal b a.
  Proof. intros a b E; destruct E; constructor; auto. Qed.
  Lemma pool_eqv_trans : forall a b c, pool_eqv bal a b -> pool_eqv bal b c -> pool_eqv bal a c.
  Proof. intros a b c E1 E2; destruct E1, E2; constructor; intros; congruence. Qed.

  Lemma check_conflicts_eqv : forall a b t,
    pool_eqv bal a b ->
    match check_conflicts fixed_cfg bal a t, check_conflicts fixed_cfg bal b t with
    | CCPanic, CCPanic => True
    | CCErr e1, CCErr e2 => e1 = e2
    | CCOk rm1 a1, CCOk rm2 b1 => rm1 = rm2 /\ pool_eqv bal a1 b1
    | _, _ => False
    end.
  Proof.
    intros a b t E. unfold check_conflicts.
    rewrite (surjective_pairing (get_payer t)).
    rewrite (surjective_pairing (get_payer_fee bal (fst (get_payer t)) (fees a))).
    rewrite (surjective_pairing (get_payer_fee bal (fst (get_payer t)) (fees b))).
    rewrite !get_payer_fee_view, (eqv_fees _ _ _ E), (eqv_confs _ _ _ E (tid t)).
    rewrite (cc_step1_ext _ (vmap a) (vmap b)) by (exact (eqv_vmap _ _ _ E)).
    destruct (cc_step1 _ (vmap b) _ _) as [acc1|]; auto.
    rewrite (cc_step2_ext _ (vmap a) (vmap b)) by (exact (eqv_vmap _ _ _ E)).
    destruct (cc_step2 t (vmap b) (confl t) acc1) as [[cfee rm]|]; auto.
    destruct (negb (cfee =? 0) && (netfee t <=? cfee)); auto.
    destruct (check_balance t _); auto. split; auto.
    rewrite <- (eqv_fees _ _ _ E).
    destruct (snd (get_payer_fee bal (fst (get_payer t)) (fees a))), (snd (get_payer_fee bal (fst (get_payer t)) (fees b))); auto.
    - eapply pool_eqv_trans; [exact E|]. rewrite (eqv_fees _ _ _ E). apply cache_eqv.
    - eapply pool_eqv_trans; [|exact E]. apply pool_eqv_sym, cache_eqv.
    - eapply pool_eqv_trans; [apply pool_eqv_sym, cache_eqv|]. eapply pool_eqv_trans; [exact E|].
      rewrite (eqv_fees _ _ _ E). apply cache_eqv.
  Qed.

  Lemma set_oresp_eqv : forall a b o1 o2, pool_eqv bal a b -> ext_eq N.eqb o1 o2 -> pool_eqv bal (set_oresp a o1) (set_oresp b o2).
  Proof. intros a b o1 o2 E H; destruct E; constructor; auto. Qed.

  Lemma oracle_stage_eqv : forall a b t,
    Inv U bal a -> Inv U bal b -> pool_eqv bal a b ->
    match oracle_stage a t, oracle_stage b t with
    | OSPanic, OSPanic => True
    | OSErr, OSErr => True
    | OSOk a1, OSOk b1 => pool_eqv bal a1 b1
    | _, _ => False
    end.
  Proof.
    intros a b t Ia Ib E. unfold oracle_stage.
    destruct (oracle t) as [id|]; auto.
    rewrite (eqv_oresp _ _ _ E id).
    destruct (mget N.eqb id (oresp b)) as [h|] eqn:G.
    - rewrite (eqv_vmap _ _ _ E h). destruct (mget N.eqb h (vmap b)) as [e|]; auto.
      destruct (netfee t <=? netfee e); auto.
      destruct (remove_internal_eqv None h a b Ia Ib E) as (a1 & b1 & Ea & Eb & E1). rewrite Ea, Eb.
      apply set_oresp_eqv; auto. apply nmset_ext. exact (eqv_oresp _ _ _ E1).
    - apply set_oresp_eqv; auto. apply nmset_ext. exact (eqv_oresp _ _ _ E).
  Qed.

  Lemma finish_add_eqv : forall a b t, pool_eqv bal a b -> pool_eqv bal (finish_add bal a t) (finish_add bal b t).
  Proof.
    intros a b t E. destruct E. unfold finish_add. constructor; cbn [vtxs vmap fees confs oresp cap fpbmin]; auto.
    - apply nmset_ext; auto.
    - intros q. unfold try_add_senders_fee.
      rewrite (surjective_pairing (get_payer_fee bal (payer_of t) (fees a))).
      rewrite (surjective_pairing (get_payer_fee bal (payer_of t) (fees b))).
      rewrite !get_payer_fee_view, eqv_fees. cbn [snd].
      rewrite !view_set. destruct (payer_eqb q (payer_of t)) eqn:Eq; auto.
      destruct (snd (get_payer_fee bal (payer_of t) (fees a))), (snd (get_payer_fee bal (payer_of t) (fees b)));
        rewrite ?view_set, ?Eq; auto.
    - change (fold_left _ (confl t) (confs a)) with (fold_left (add_conf (tid t)) (confl t) (confs a)).
      change (fold_left _ (confl t) (confs b)) with (fold_left (add_conf (tid t)) (confl t) (confs b)).
      apply add_conf_ext; auto.
  Qed.

  Lemma add_eqv : forall a b t,
    Inv U bal a -> Inv U bal b -> U t -> pool_eqv bal a b ->
    fst (add fixed_cfg bal a t) = fst (add fixed_cfg bal b t)
    /\ pool_eqv bal (snd (add fixed_cfg bal a t)) (snd (add fixed_cfg bal b t)).
  Proof.
    intros a b t Ia Ib Ut E. unfold add.
    rewrite (eqv_vmap _ _ _ E (tid t)). destruct (mget N.eqb (tid t) (vmap b)); [simpl; auto|].
    pose proof (check_conflicts_eqv a b t E) as CE.
    pose proof (check_conflicts_spec U bal GU BOK a t Ia Ut) as Sa.
    pose proof (check_conflicts_spec U bal GU BOK b t Ib Ut) as Sb.
    destruct (check_conflicts fixed_cfg bal a t) as [|e1|rm1 a1], (check_conflicts fixed_cfg bal b t) as [|e2|rm2 b1];
      try contradiction; [subst; simpl; auto|].
    destruct CE as [<- E1].
    destruct Sa as (_ & _ & _ & _ & _ & Ia1 & _). destruct Sb as (_ & _ & _ & _ & _ & Ib1 & _).
    pose proof (oracle_stage_eqv a1 b1 t Ia1 Ib1 E1) as OE.
    pose proof (oracle_stage_spec U bal GU BOK a1 t Ia1) as Oa.
    pose proof (oracle_stage_spec U bal GU BOK b1 t Ib1) as Ob.
    destruct (oracle_stage a1 t) as [| |a2], (oracle_stage b1 t) as [| |b2]; try contradiction; [simpl; auto|].
    destruct Oa as (Ia2 & _). destruct Ob as (Ib2 & _).
    destruct (remove_all_eqv (map tid rm1) (pend_of t) a2 b2 Ia2 Ib2 OE) as (a3 & b3 & Ea & Eb & E3).
    rewrite Ea, Eb.
    assert (Ia3 : InvP U bal (pend_of t) a3).
    { destruct (remove_all_inv U bal GU BOK (map tid rm1) _ a2 Ia2) as (x & Hx & Ix & _).
      rewrite Ea in Hx. injection Hx as Hx. rewrite Hx. exact Ix. }
    assert (Ib3 : InvP U bal (pend_of t) b3).
    { destruct (remove_all_inv U bal GU BOK (map tid rm1) _ b2 Ib2) as (x & Hx & Ix & _).
      rewrite Eb in Hx. injection Hx as Hx. rewrite Hx. exact Ix. }
    rewrite <- (eqv_vtxs _ _ _ E3), <- (eqv_cap _ _ _ E3).
    destruct (length (vtxs a3) =? cap a3)%nat eqn:Ecap.
    - destruct (insert_pos t (vtxs a3) =? length (vtxs a3))%nat eqn:En.
      + cbn [fst snd fix_oom fixed_cfg repaired]. split; auto.
        destruct (oracle t); auto. apply set_oresp_eqv; auto. apply nmdel_ext. exact (eqv_oresp _ _ _ E3).
      + cbn [fst snd]. split; auto. apply finish_add_eqv.
        assert (Hl : vtxs a3 <> []).
        { intros Hn. rewrite Hn in En. simpl in En. discriminate. }
        assert (Hin : In (last (vtxs a3) t) (vtxs a3)).
        { rewrite (removelast_split (vtxs a3) t Hl) at 2. apply in_app_iff; simpl; auto. }
        apply remove_from_map_eqv; [apply set_vtxs_eqv; auto| |]; unfold set_vtxs; cbn [fees].
        * pose proof (inv_fees _ _ _ _ Ia3 (payer_of (last (vtxs a3) t))) as F.
          destruct (mget payer_eqb _ (fees a3)); [discriminate|]. exfalso; eapply F; eauto.
        * pose proof (inv_fees _ _ _ _ Ib3 (payer_of (last (vtxs a3) t))) as F. rewrite <- (eqv_vtxs _ _ _ E3) in F.
          destruct (mget payer_eqb _ (fees b3)); [discriminate|]. exfalso; eapply F; eauto.
    - cbn [fst snd]. split; auto. apply finish_add_eqv, set_vtxs_eqv; auto.
  Qed.

  Lemma verify_eqv : forall a b t,
    pool_eqv bal a b ->
    fst (verify fixed_cfg bal a t) = fst (verify fixed_cfg bal b t)
    /\ pool_eqv bal (snd (verify fixed_cfg bal a t)) (snd (verify fixed_cfg bal b t)).
  Proof.
    intros a b t E. unfold verify. pose proof (check_conflicts_eqv a b t E) as CE.
    destruct (check_conflicts fixed_cfg bal a t), (check_conflicts fixed_cfg bal b t); try contradiction; simpl; auto.
    destruct CE; auto.
  Qed.

  Lemma remove_eqv : forall a b h,
    Inv U bal a -> Inv U bal b -> pool_eqv bal a b ->
    fst (remove h a) = fst (remove h b) /\ pool_eqv bal (snd (remove h a)) (snd (remove h b)).
  Proof.
    intros a b h Ia Ib E. unfold remove.
    destruct (remove_internal_eqv None h a b Ia Ib E) as (a1 & b1 & Ea & Eb & E1). rewrite Ea, Eb. simpl; auto.
  Qed.
End Equiv.

(* RemoveStale reads only the slice, the hash map and the oracle index of the old state *)
Lemma stale_fold_eqv : forall bal isok changed fpb l keep v1 v2 f c o1 o2,
  ext_eq N.eqb v1 v2 -> ext_eq N.eqb o1 o2 ->
  match fold_left (stale_step bal isok changed fpb) l (keep, v1, f, c, o1),
        fold_left (stale_step bal isok changed fpb) l (keep, v2, f, c, o2) with
  | (k1, w1, f1, c1, p1), (k2, w2, f2, c2, p2) => k1 = k2 /\ ext_eq N.eqb w1 w2 /\ f1 = f2 /\ c1 = c2 /\ ext_eq N.eqb p1 p2
  end.
Proof.
  intros bal isok changed fpb; induction l as [|t l IH]; intros keep v1 v2 f c o1 o2 Hv Ho; cbn [fold_left]; auto.
  unfold stale_step at 2 4.
  destruct (fst (if isok t && (negb changed || (fpb <=? fee_per_byte t)) then try_add_senders_fee bal f t true else (false, f))).
  - apply IH; auto.
  - apply IH; [apply nmdel_ext; auto|]. destruct (oracle t); auto. apply nmdel_ext; auto.
Qed.

Lemma remove_stale_eqv : forall bal0 bal newfpb isok a b,
  pool_eqv bal0 a b -> pool_eqv bal (remove_stale bal newfpb isok a) (remove_stale bal newfpb isok b).
Proof.
  intros bal0 bal newfpb isok a b E. unfold remove_stale.
  rewrite <- (eqv_vtxs _ _ _ E), <- (eqv_fpb _ _ _ E), <- (eqv_cap _ _ _ E).
  pose proof (stale_fold_eqv bal isok (fpbmin a <? newfpb) (if fpbmin a <? newfpb then newfpb else fpbmin a)
                (vtxs a) [] (vmap a) (vmap b) [] [] (oresp a) (oresp b) (eqv_vmap _ _ _ E) (eqv_oresp _ _ _ E)) as H.
  destruct (fold_left _ (vtxs a) ([], vmap a, [], [], oresp a)) as [[[[k1 w1] f1] c1] p1].
  destruct (fold_left _ (vtxs a) ([], vmap b, [], [], oresp b)) as [[[[k2 w2] f2] c2] p2].
  destruct H as (-> & Hw & -> & -> & Hp). constructor; cbn [vtxs vmap fees confs oresp cap fpbmin]; auto.
Qed.

(* every operation respects the equivalence *)
Theorem step_respects_eqv : forall U, good_universe U -> forall bal a b o,
  bal_ok bal -> Inv U bal a -> Inv U bal b -> pool_eqv bal a b -> op_ok U o ->
  let ra := step fixed_cfg (mkState a bal) o in
  let rb := step fixed_cfg (mkState b bal) o in
  fst ra = fst rb /\ st_bal (snd ra) = st_bal (snd rb)
  /\ pool_eqv (st_bal (snd ra)) (st_pool (snd ra)) (st_pool (snd rb)).
Proof.
  intros U GU bal a b o BOK Ia Ib E Ho. destruct o as [t|h|t|isok bal' newfpb]; simpl in *.
  - destruct (add_eqv U bal GU BOK a b t Ia Ib Ho E) as [R S].
    destruct (add fixed_cfg bal a t), (add fixed_cfg bal b t); simpl in *; auto.
  - destruct (remove_eqv U bal GU BOK a b h Ia Ib E) as [R S].
    destruct (remove h a), (remove h b); simpl in *; auto.
  - destruct (verify_eqv bal a b t E) as [R S].
    destruct (verify fixed_cfg bal a t), (verify fixed_cfg bal b t); simpl in *; auto.
  - split; auto. split; auto. eapply remove_stale_eqv; eauto.
Qed.
