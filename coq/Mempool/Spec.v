(* Specification-level definitions for the memory pool: the invariant of property C08 on the model
   state, the hypotheses on the transactions offered to the pool, and state equivalence
   (Go maps are compared by content; a cached balance with fee sum 0 is not state). Definitions only. *)
From NG Require Import Common.Tactics Mempool.Model.
From Coq Require Import Sorting.Sorted.
Open Scope N_scope.

(* Σ fees of the transactions of [l] paid by [p] *)
Definition sum_fees (p : payer) (l : list tx) : N :=
  fold_right (fun e acc => if payer_eqb (payer_of e) p then fee e + acc else acc) 0 l.

Definition ge_prio (a b : tx) : Prop := (0 <= cmp a b)%Z.
Definition sorted (l : list tx) : Prop := StronglySorted ge_prio l.

Definition conf_of (h : N) (s : pool) : list N :=
  match mget N.eqb h (confs s) with Some l => l | None => [] end.

(* ---------- what is assumed about the transactions ever offered to the pool ---------- *)
Record good_universe (U : tx -> Prop) : Prop := {
  gu_ids : forall a b, U a -> U b -> tid a = tid b -> a = b;
      (* hashes identify transactions (collision resistance) *)
  gu_nomutual : forall a b, U a -> U b -> In (tid b) (confl a) -> ~ In (tid a) (confl b);
      (* no two transactions name each other, none names itself (pre-image resistance) *)
  gu_confl_nodup : forall a, U a -> NoDup (confl a);
      (* verifyTxAttributes rejects a duplicate Conflicts attribute *)
  gu_fee64 : forall a, U a -> fee a < 2 ^ 64
      (* SystemFee + NetworkFee fits the uint64 conversion (Transaction.isValid) *)
}.

Definition bal_ok (bal : payer -> N) : Prop := forall p, bal p < 2 ^ 255.

(* ---------- the invariant ---------- *)
(* [pend] = Some (id, h): inside Add, after oracleResp[id] := h has been recorded for the newcomer
   that is not yet in the slice. The invariant of the property is [Inv] := [InvP None]. *)
Record InvP (U : tx -> Prop) (bal : payer -> N) (pend : option (N * N)) (s : pool) : Prop := {
  inv_nodup : NoDup (map tid (vtxs s));
  inv_map : forall h e, mget N.eqb h (vmap s) = Some e <-> In e (vtxs s) /\ tid e = h;
  inv_cap : (length (vtxs s) <= cap s)%nat;
  inv_sorted : sorted (vtxs s);
  inv_fees : forall p,
      match mget payer_eqb p (fees s) with
      | Some (b, sm) => b = bal p /\ sm = sum_fees p (vtxs s) /\ sm <= b
      | None => forall e, In e (vtxs s) -> payer_of e <> p
      end;
  inv_confs : forall h,
      NoDup (conf_of h s)
      /\ (forall x, In x (conf_of h s) <-> exists e, In e (vtxs s) /\ tid e = x /\ In h (confl e))
      /\ mget N.eqb h (confs s) <> Some [];
  inv_noconf : forall a b, In a (vtxs s) -> In b (vtxs s) -> ~ In (tid a) (confl b);
  inv_oracle : forall id h,
      mget N.eqb id (oresp s) = Some h <->
      (exists e, In e (vtxs s) /\ tid e = h /\ oracle e = Some id) \/ pend = Some (id, h);
  inv_pend : forall id h e, pend = Some (id, h) -> In e (vtxs s) -> oracle e <> Some id;
  inv_univ : forall e, In e (vtxs s) -> U e
}.

Definition Inv U bal s := InvP U bal None s.

(* every transaction of an operation sequence belongs to the universe, every Feer has sane balances *)
Definition op_ok (U : tx -> Prop) (o : op) : Prop :=
  match o with
  | OAdd t => U t
  | ORemove _ => True
  | OVerify t => U t
  | OStale _ bal' _ => bal_ok bal'
  end.

(* ---------- state equivalence ---------- *)
Definition fee_view (bal : payer -> N) (f : list (payer * (N * N))) (p : payer) : N * N :=
  match mget payer_eqb p f with Some x => x | None => (bal p, 0) end.

Record pool_eqv (bal : payer -> N) (a b : pool) : Prop := {
  eqv_vtxs : vtxs a = vtxs b;
  eqv_vmap : forall h, mget N.eqb h (vmap a) = mget N.eqb h (vmap b);
  eqv_fees : forall p, fee_view bal (fees a) p = fee_view bal (fees b) p;
  eqv_confs : forall h, mget N.eqb h (confs a) = mget N.eqb h (confs b);
  eqv_oresp : forall id, mget N.eqb id (oresp a) = mget N.eqb id (oresp b);
  eqv_cap : cap a = cap b;
  eqv_fpb : fpbmin a = fpbmin b
}.
