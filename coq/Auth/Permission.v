(* C16 — manifest permissions: pkg/smartcontract/manifest Permission.IsAllowed, Manifest.CanCall, and the place where
   they are consulted (pkg/core/interop/contract/call.go callInternal).  Hashes and group keys are abstracted to
   numbers (only equality is used by the code).  Definitions only.

   The model follows the REPAIRED IsAllowed (fixes/F6-group-permission-methods.diff): the switch over the descriptor
   kind only decides whether the callee matches; the method list is consulted for every kind.  The unrepaired
   mechanism, in which the group case returns at once, is kept as [is_allowed_unfixed] for the refutation lemma. *)
From NG Require Import Common.Tactics.
From Coq Require Import String.
Open Scope N_scope.

Inductive desc :=
| DWild                (* PermissionWildcard *)
| DHash (h : N)        (* PermissionHash *)
| DGroup (g : N).      (* PermissionGroup *)

(* WildStrings: Value == nil is the wildcard, otherwise the explicit list (possibly empty) *)
Inductive methods :=
| MWild
| MList (l : list string).

Record permission := mk_perm { p_desc : desc; p_methods : methods }.

(* what IsAllowed looks at in the callee: its hash and the group keys of its manifest *)
Record callee := mk_callee { c_hash : N; c_groups : list N }.

Definition methods_contain (ms : methods) (m : string) : bool :=
  match ms with
  | MWild => true                              (* p.Methods.IsWildcard() *)
  | MList l => existsb (String.eqb m) l        (* p.Methods.Contains(method) *)
  end.

(* Permission.IsAllowed, repaired: same case split as the code, each case either refuses or falls through to the
   method check *)
Definition is_allowed (p : permission) (c : callee) (m : string) : bool :=
  let fallthrough := methods_contain (p_methods p) m in
  match p_desc p with
  | DWild => fallthrough
  | DHash h => if negb (h =? c_hash c) then false else fallthrough
  | DGroup g => if negb (existsb (N.eqb g) (c_groups c)) then false else fallthrough
  end.

(* the mechanism before the repair (finding F6): the group case returns the group test *)
Definition is_allowed_unfixed (p : permission) (c : callee) (m : string) : bool :=
  let fallthrough := methods_contain (p_methods p) m in
  match p_desc p with
  | DWild => fallthrough
  | DHash h => if negb (h =? c_hash c) then false else fallthrough
  | DGroup g => existsb (N.eqb g) (c_groups c)
  end.

(* Manifest.CanCall: slices.ContainsFunc over the permissions *)
Definition can_call (perms : list permission) (c : callee) (m : string) : bool :=
  existsb (fun p => is_allowed p c m) perms.

Definition can_call_unfixed (perms : list permission) (c : callee) (m : string) : bool :=
  existsb (fun p => is_allowed_unfixed p c m) perms.

(* callInternal: a safe method needs no permission; otherwise, when the calling context is a deployed contract, its
   manifest must allow the call (entry scripts and dynamic scripts have no manifest and are not restricted) *)
Definition call_permitted (callee_method_safe caller_deployed : bool) (caller_perms : list permission)
                          (c : callee) (m : string) : bool :=
  if callee_method_safe then true
  else if caller_deployed then can_call caller_perms c m
  else true.

(* ---- which manifest the gate consults when the executing contract changed itself ----
   callInternal: from hard-fork Domovoi on, the manifest the executing context was LOADED with (ctx.GetManifest());
   before it, the contract's CURRENT state in ContractManagement, and when the lookup fails (the contract destroyed
   itself earlier in the invocation) the check is not made at all — that lookup-gated form is consensus history. *)
Definition manifest_for (domovoi : bool) (loaded : list permission) (current : option (list permission))
  : option (list permission) :=
  if domovoi then Some loaded else current.

Definition call_gate (domovoi callee_method_safe caller_deployed : bool)
                     (loaded : list permission) (current : option (list permission))
                     (c : callee) (m : string) : bool :=
  if callee_method_safe then true
  else if caller_deployed then
    match manifest_for domovoi loaded current with
    | Some ps => can_call ps c m
    | None => true
    end
  else true.

(* ---- method overloads: the callee method is resolved by name AND argument count (ABI.GetMethod(name, len(args)));
   the Safe bit that decides flag masking and whether the permission check runs must be that of the very overload
   the executor runs ---- *)
Record abi_method := mk_md { md_name : string; md_arity : N; md_safe : bool }.

Fixpoint find_method (abi : list abi_method) (name : string) (n : N) : option abi_method :=
  match abi with
  | [] => None
  | md :: t => if String.eqb (md_name md) name && (md_arity md =? n) then Some md else find_method t name n
  end.

(* the defective lookup: first ABI entry with the name *)
Fixpoint find_method_by_name (abi : list abi_method) (name : string) : option abi_method :=
  match abi with
  | [] => None
  | md :: t => if String.eqb (md_name md) name then Some md else find_method_by_name t name
  end.

(* what a call of name/n from a deployed caller with [perms], asking for flags f from a frame with all flags, gets:
   (permitted?, flags of the callee) ; None = method not found *)
Definition overload_call (abi : list abi_method) (name : string) (n : N) (perms : list permission) (c : callee) (f : N)
  : option (bool * N) :=
  match find_method abi name n with
  | Some md => Some (call_permitted (md_safe md) true perms c name,
                     N.land 15 (if md_safe md then N.ldiff f 10 else f))
  | None => None
  end.

Definition overload_call_by_name (abi : list abi_method) (name : string) (n : N) (perms : list permission) (c : callee) (f : N)
  : option (bool * N) :=
  match find_method abi name n, find_method_by_name abi name with
  | Some _, Some md => Some (call_permitted (md_safe md) true perms c name,
                             N.land 15 (if md_safe md then N.ldiff f 10 else f))
  | _, _ => None
  end.

(* ---- specification: the declarative reading of the property text ---- *)
Definition desc_matches (d : desc) (c : callee) : Prop :=
  match d with
  | DWild => True
  | DHash h => h = c_hash c
  | DGroup g => In g (c_groups c)
  end.

Definition methods_match (ms : methods) (m : string) : Prop :=
  match ms with
  | MWild => True
  | MList l => In m l
  end.

Definition may_call (perms : list permission) (c : callee) (m : string) : Prop :=
  exists p, In p perms /\ desc_matches (p_desc p) c /\ methods_match (p_methods p) m.

(* boolean evaluation of the specification, for the harness *)
Definition may_callb (perms : list permission) (c : callee) (m : string) : bool :=
  existsb (fun p =>
    (match p_desc p with DWild => true | DHash h => h =? c_hash c | DGroup g => existsb (N.eqb g) (c_groups c) end) &&
    (match p_methods p with MWild => true | MList l => existsb (String.eqb m) l end)) perms.
