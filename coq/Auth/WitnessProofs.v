(* C15 — proofs: the witness check equals the declarative specification for every signer list, call context and
   condition tree of any nesting. *)
From NG Require Import Common.Tactics Auth.Witness.
Open Scope N_scope.

(* ---- induction over condition trees (nested lists) ---- *)
Section cond_induction.
  Variable P : cond -> Prop.
  Hypothesis Hbool : forall b, P (CBool b).
  Hypothesis Hnot : forall c, P c -> P (CNot c).
  Hypothesis Hand : forall l, Forall P l -> P (CAnd l).
  Hypothesis Hor : forall l, Forall P l -> P (COr l).
  Hypothesis Hsh : forall h, P (CScriptHash h).
  Hypothesis Hg : forall g, P (CGroup g).
  Hypothesis Hcbe : P CCalledByEntry.
  Hypothesis Hcbc : forall h, P (CCalledByContract h).
  Hypothesis Hcbg : forall g, P (CCalledByGroup g).
  Fixpoint cond_ind2 (c : cond) : P c :=
    match c with
    | CBool b => Hbool b
    | CNot c' => Hnot c' (cond_ind2 c')
    | CAnd l => Hand l ((fix go (l : list cond) : Forall P l :=
                  match l with [] => Forall_nil P | x :: t => Forall_cons x (cond_ind2 x) (go t) end) l)
    | COr l => Hor l ((fix go (l : list cond) : Forall P l :=
                  match l with [] => Forall_nil P | x :: t => Forall_cons x (cond_ind2 x) (go t) end) l)
    | CScriptHash h => Hsh h
    | CGroup g => Hg g
    | CCalledByEntry => Hcbe
    | CCalledByContract h => Hcbc h
    | CCalledByGroup g => Hcbg g
    end.
End cond_induction.

(* ---- the list loops ---- *)
Lemma cmatch_and x l : cmatch x (CAnd l) = match_all x l.
Proof. induction l as [|c t IH]; [reflexivity|]. simpl in *. destruct (cmatch x c) as [[|]|]; auto. Qed.

Lemma cmatch_or x l : cmatch x (COr l) = match_any x l.
Proof. induction l as [|c t IH]; [reflexivity|]. simpl in *. destruct (cmatch x c) as [[|]|]; auto. Qed.

Lemma holds_and x l : holds x (CAnd l) <-> Forall (holds x) l.
Proof.
  induction l as [|c t IH]; simpl in *.
  - split; auto.
  - rewrite IH. split; [intros [H1 H2]; constructor; auto | intros H; inv H; auto].
Qed.

Lemma holds_or x l : holds x (COr l) <-> Exists (holds x) l.
Proof.
  induction l as [|c t IH]; simpl in *.
  - split; [tauto | intros H; inv H].
  - rewrite IH. split; [intros [H|H]; [left|right]; auto | intros H; inv H; auto].
Qed.

Lemma holdsb_and x l : holdsb x (CAnd l) = forallb (holdsb x) l.
Proof. induction l as [|c t IH]; [reflexivity|]. simpl in *. rewrite IH. reflexivity. Qed.

Lemma holdsb_or x l : holdsb x (COr l) = existsb (holdsb x) l.
Proof. induction l as [|c t IH]; [reflexivity|]. simpl in *. rewrite IH. reflexivity. Qed.

(* ---- groups ---- *)
Lemma mem_In g l : mem g l = true <-> In g l.
Proof.
  unfold mem. rewrite existsb_exists. split.
  - intros [y [H1 H2]]. apply N.eqb_eq in H2. subst. exact H1.
  - intros H. exists g. split; auto. apply N.eqb_refl.
Qed.

Lemma has_groupb_iff x h g : has_groupb x h g = true <-> has_group x h g.
Proof.
  unfold has_groupb, has_group. destruct (assoc h (contracts x)) as [gs|].
  - rewrite mem_In. split; [intros H; exists gs; auto | intros [gs' [E H]]; inv E; auto].
  - split; [discriminate | intros [gs' [E _]]; discriminate].
Qed.

Lemma script_has_group_ok x h g b : script_has_group x h g = Ok b -> b = has_groupb x h g.
Proof.
  unfold script_has_group, contract_groups, has_groupb. destruct (read_states x); [|discriminate].
  intros H; inv H. destruct (assoc h (contracts x)); reflexivity.
Qed.

Lemma script_has_group_err x h g : script_has_group x h g = Err -> read_states x = false.
Proof. unfold script_has_group, contract_groups. destruct (read_states x); [discriminate | reflexivity]. Qed.

(* ---- the specification is decidable and [holdsb] decides it ---- *)
Theorem holdsb_iff x : forall c, holdsb x c = true <-> holds x c.
Proof.
  induction c as [b | c IH | l IH | l IH | h | g | | h | g] using cond_ind2.
  - simpl. tauto.
  - simpl. rewrite <- IH. destruct (holdsb x c); simpl; split; intros H; try congruence; try discriminate;
      try (exfalso; apply H; reflexivity).
  - rewrite holdsb_and, holds_and, forallb_forall, Forall_forall. rewrite Forall_forall in IH.
    split; intros H c Hc; apply IH; auto.
  - rewrite holdsb_or, holds_or, existsb_exists, Exists_exists. rewrite Forall_forall in IH.
    split; intros [c [Hc H]]; exists c; split; auto; apply IH; auto.
  - simpl. apply N.eqb_eq.
  - simpl. apply has_groupb_iff.
  - simpl. tauto.
  - simpl. apply N.eqb_eq.
  - simpl. apply has_groupb_iff.
Qed.

(* whenever Match returns without error, it returns the truth value of the specification *)
Theorem cmatch_holdsb x : forall c b, cmatch x c = Ok b -> b = holdsb x c.
Proof.
  induction c as [b0 | c IH | l IH | l IH | h | g | | h | g] using cond_ind2; intros b H.
  - simpl in *. congruence.
  - simpl in *. destruct (cmatch x c) as [b'|]; [|discriminate]. inv H. rewrite (IH b' eq_refl). reflexivity.
  - rewrite cmatch_and in H. rewrite holdsb_and. revert b H.
    induction IH as [|c t Hc Ht IHt]; intros b H; simpl in *; [congruence|].
    destruct (cmatch x c) as [[|]|] eqn:E; try discriminate.
    + rewrite <- (Hc true eq_refl). simpl. auto.
    + rewrite <- (Hc false eq_refl). simpl. congruence.
  - rewrite cmatch_or in H. rewrite holdsb_or. revert b H.
    induction IH as [|c t Hc Ht IHt]; intros b H; simpl in *; [congruence|].
    destruct (cmatch x c) as [[|]|] eqn:E; try discriminate.
    + rewrite <- (Hc true eq_refl). simpl. congruence.
    + rewrite <- (Hc false eq_refl). simpl. auto.
  - simpl in *. congruence.
  - simpl in *. apply script_has_group_ok; auto.
  - simpl in *. congruence.
  - simpl in *. congruence.
  - simpl in *. apply script_has_group_ok; auto.
Qed.

Theorem cmatch_spec x c b : cmatch x c = Ok b -> (b = true <-> holds x c).
Proof. intros H. rewrite (cmatch_holdsb x c b H). apply holdsb_iff. Qed.

(* an error can only come from a group lookup without ReadStates *)
Theorem cmatch_err x : forall c, cmatch x c = Err -> read_states x = false.
Proof.
  induction c as [b0 | c IH | l IH | l IH | h | g | | h | g] using cond_ind2; intros H; simpl in H; try discriminate.
  - destruct (cmatch x c); [discriminate | auto].
  - change (cmatch x (CAnd l) = Err) in H. rewrite cmatch_and in H.
    induction IH as [|c t Hc Ht IHt]; simpl in *; [discriminate|].
    destruct (cmatch x c) as [[|]|]; auto; try discriminate.
  - change (cmatch x (COr l) = Err) in H. rewrite cmatch_or in H.
    induction IH as [|c t Hc Ht IHt]; simpl in *; [discriminate|].
    destruct (cmatch x c) as [[|]|]; auto; try discriminate.
  - eapply script_has_group_err; eauto.
  - eapply script_has_group_err; eauto.
Qed.

(* ---- Not flips, and only flips ---- *)
Theorem not_flips x c :
  (forall b, cmatch x c = Ok b -> cmatch x (CNot c) = Ok (negb b)) /\
  (cmatch x c = Err -> cmatch x (CNot c) = Err) /\
  cmatch x (CNot (CNot c)) = cmatch x c.
Proof.
  simpl. destruct (cmatch x c) as [b|].
  - split; [|split].
    + intros b' H. inv H. reflexivity.
    + discriminate.
    + rewrite negb_involutive. reflexivity.
  - split; [|split]; auto. discriminate.
Qed.

(* ---- rules: the first matching rule decides, whatever follows it ---- *)
Theorem first_rule_wins x pre r post :
  Forall (fun r' => cmatch x (r_cond r') = Ok false) pre ->
  cmatch x (r_cond r) = Ok true ->
  eval_rules x (pre ++ r :: post) = Ok (is_allow (r_action r)).
Proof.
  induction 1 as [|r' t H Ht IH]; intros Hr; simpl.
  - rewrite Hr. reflexivity.
  - rewrite H. auto.
Qed.

Lemma eval_rules_specb x rules b : eval_rules x rules = Ok b -> b = first_ruleb x rules.
Proof.
  induction rules as [|r t IH]; simpl; intros H; [congruence|].
  destruct (cmatch x (r_cond r)) as [[|]|] eqn:E; try discriminate.
  - rewrite <- (cmatch_holdsb _ _ _ E). congruence.
  - rewrite <- (cmatch_holdsb _ _ _ E). auto.
Qed.

Lemma first_ruleb_iff x rules : first_ruleb x rules = true <-> first_matching_rule x rules Allow.
Proof.
  induction rules as [|r t IH]; simpl.
  - split; [discriminate|]. intros [pre [r [post [E _]]]]. destruct pre; discriminate.
  - destruct (holdsb x (r_cond r)) eqn:E.
    + apply holdsb_iff in E. split.
      * intros H. exists [], r, t. repeat split; auto. destruct (r_action r); simpl in H; congruence.
      * intros [pre [r' [post [El [Hpre [Hr Ha]]]]]]. destruct pre as [|p pre'].
        -- simpl in El. inv El. rewrite Ha. reflexivity.
        -- simpl in El. inv El. inv Hpre. contradiction.
    + assert (~ holds x (r_cond r)) as Hn.
      { intros H. apply holdsb_iff in H. congruence. }
      rewrite IH. split.
      * intros [pre [r' [post [El [Hpre [Hr Ha]]]]]]. exists (r :: pre), r', post. subst. repeat split; auto.
      * intros [pre [r' [post [El [Hpre [Hr Ha]]]]]]. destruct pre as [|p pre'].
        -- simpl in El. inv El. contradiction.
        -- simpl in El. inv El. inv Hpre. exists pre', r', post. repeat split; auto.
Qed.

(* ---- one signer ---- *)
Lemma existsb_groups_iff x h l :
  existsb (fun g => has_groupb x h g) l = true <-> exists g, In g l /\ has_group x h g.
Proof.
  rewrite existsb_exists. split; intros [g [H1 H2]]; exists g; split; auto; apply has_groupb_iff; auto.
Qed.

Lemma signer_allowsb_iff x s : signer_allowsb x s = true <-> signer_allows x s.
Proof.
  unfold signer_allowsb, signer_allows. rewrite !orb_true_iff, !andb_true_iff.
  rewrite N.eqb_eq, mem_In, existsb_groups_iff, first_ruleb_iff. tauto.
Qed.

Lemma check_signer_specb x s b : check_signer x s = Ok b -> b = signer_allowsb x s.
Proof.
  unfold check_signer, signer_allowsb.
  destruct (s_scopes s =? SGlobal); simpl; [congruence|].
  destruct (scope_has (s_scopes s) SCalledByEntry && by_entry x); simpl; [congruence|].
  destruct (scope_has (s_scopes s) SCustomContracts && mem (current x) (s_contracts s)); simpl; [congruence|].
  destruct (scope_has (s_scopes s) SCustomGroups) eqn:G; simpl.
  - unfold contract_groups. destruct (read_states x); [|discriminate].
    assert (existsb (fun g => mem g match assoc (current x) (contracts x) with Some gs => gs | None => [] end) (s_groups s)
            = existsb (fun g => has_groupb x (current x) g) (s_groups s)) as E.
    { induction (s_groups s) as [|g t IHg]; simpl; auto. rewrite IHg. f_equal.
      unfold has_groupb. destruct (assoc _ _); reflexivity. }
    rewrite E. clear E. destruct (existsb _ (s_groups s)); simpl; [congruence|].
    destruct (scope_has (s_scopes s) SRules); simpl; [apply eval_rules_specb | congruence].
  - destruct (scope_has (s_scopes s) SRules); simpl; [apply eval_rules_specb | congruence].
Qed.

(* ---- the signer list ---- *)
Lemma check_scope_list_specb x signers h b : check_scope_list x signers h = Ok b -> b = first_signerb x signers h.
Proof.
  induction signers as [|s t IH]; simpl; [congruence|].
  destruct (s_account s =? h); auto. apply check_signer_specb.
Qed.

Lemma first_signerb_iff x signers h :
  first_signerb x signers h = true <-> exists s, first_signer signers h s /\ signer_allows x s.
Proof.
  induction signers as [|s t IH]; simpl.
  - split; [discriminate|]. intros [s [[pre [post [E _]]] _]]. destruct pre; discriminate.
  - destruct (s_account s =? h) eqn:E.
    + apply N.eqb_eq in E. rewrite signer_allowsb_iff. split.
      * intros H. exists s. split; auto. exists [], t. repeat split; auto.
      * intros [s' [[pre [post [El [Ha Hpre]]]] Hal]]. destruct pre as [|p pre'].
        -- simpl in El. inv El. exact Hal.
        -- simpl in El. inv El. inv Hpre. contradiction.
    + apply N.eqb_neq in E. rewrite IH. split.
      * intros [s' [[pre [post [El [Ha Hpre]]]] Hal]]. exists s'. split; auto.
        exists (s :: pre), post. subst. repeat split; auto.
      * intros [s' [[pre [post [El [Ha Hpre]]]] Hal]]. destruct pre as [|p pre'].
        -- simpl in El. inv El. contradiction.
        -- simpl in El. inv El. inv Hpre. exists s'. split; auto. exists pre', post. repeat split; auto.
Qed.

Theorem witness_specb_iff x signers h : witness_specb x signers h = true <-> witness_spec x signers h.
Proof.
  unfold witness_specb, witness_spec. rewrite orb_true_iff, andb_true_iff, negb_true_iff, N.eqb_neq, N.eqb_eq.
  rewrite first_signerb_iff. tauto.
Qed.

(* ---- the main theorem ---- *)
Theorem check_hashed_witness_specb x signers h b :
  check_hashed_witness x signers h = Ok b -> b = witness_specb x signers h.
Proof.
  unfold check_hashed_witness, witness_specb.
  destruct (negb (calling x =? 0) && (h =? calling x)); simpl; [congruence|].
  unfold check_scope. destruct signers as [|s t]; [discriminate|]. apply check_scope_list_specb.
Qed.

Theorem witness_iff_spec x signers h b :
  check_hashed_witness x signers h = Ok b -> (b = true <-> witness_spec x signers h).
Proof. intros H. rewrite (check_hashed_witness_specb _ _ _ _ H). apply witness_specb_iff. Qed.

(* errors (the system call faults, so nothing is granted): only an empty signer list, or a group lookup in a
   context without ReadStates *)
Lemma eval_rules_err x rules : eval_rules x rules = Err -> read_states x = false.
Proof.
  induction rules as [|r t IH]; simpl; [discriminate|].
  destruct (cmatch x (r_cond r)) as [[|]|] eqn:E; auto; [discriminate|]. intros _. eapply cmatch_err; eauto.
Qed.

Lemma check_signer_err x s : check_signer x s = Err -> read_states x = false.
Proof.
  unfold check_signer.
  destruct (s_scopes s =? SGlobal); [discriminate|].
  destruct (scope_has (s_scopes s) SCalledByEntry && by_entry x); [discriminate|].
  destruct (scope_has (s_scopes s) SCustomContracts && mem (current x) (s_contracts s)); [discriminate|].
  destruct (scope_has (s_scopes s) SCustomGroups).
  - unfold contract_groups. destruct (read_states x) eqn:R; auto.
    destruct (existsb _ _); [discriminate|]. destruct (scope_has (s_scopes s) SRules); [|discriminate].
    intros H. apply eval_rules_err in H. congruence.
  - destruct (scope_has (s_scopes s) SRules); [apply eval_rules_err | discriminate].
Qed.

Theorem witness_error_only x signers h :
  check_hashed_witness x signers h = Err -> signers = [] \/ read_states x = false.
Proof.
  unfold check_hashed_witness. destruct (negb (calling x =? 0) && (h =? calling x)); [discriminate|].
  unfold check_scope. destruct signers as [|s t]; auto. intros H. right.
  revert H. generalize (s :: t). induction l as [|s' t' IH]; simpl; [discriminate|].
  destruct (s_account s' =? h); auto. apply check_signer_err.
Qed.

Theorem witness_total_with_readstates x signers h :
  read_states x = true -> signers <> [] -> exists b, check_hashed_witness x signers h = Ok b.
Proof.
  intros Hr Hs. destruct (check_hashed_witness x signers h) as [b|] eqn:E; [eauto|].
  apply witness_error_only in E. destruct E; congruence.
Qed.

(* an account without a signer entry never passes, unless the caller IS the account *)
Theorem unsigned_never x signers h :
  (forall s, In s signers -> s_account s <> h) ->
  check_hashed_witness x signers h = Ok true -> calling x <> 0 /\ h = calling x.
Proof.
  intros Hno H. apply witness_iff_spec in H. destruct H as [H _]. specialize (H eq_refl).
  destruct H as [H | [s [[pre [post [E [Ha _]]]] _]]]; auto.
  exfalso. apply (Hno s); auto. subst. apply in_or_app. right. left. reflexivity.
Qed.

Theorem unsigned_result x signers h :
  (forall s, In s signers -> s_account s <> h) -> signers <> [] ->
  check_hashed_witness x signers h = Ok (negb (calling x =? 0) && (h =? calling x)).
Proof.
  intros Hno Hs. unfold check_hashed_witness.
  destruct (negb (calling x =? 0) && (h =? calling x)); auto.
  unfold check_scope. destruct signers as [|s t]; [congruence|]. clear Hs.
  revert Hno. generalize (s :: t). induction l as [|s' t' IH]; simpl; auto.
  intros Hno. destruct (s_account s' =? h) eqn:E.
  - apply N.eqb_eq in E. exfalso. apply (Hno s'); auto.
  - apply IH. intros s0 H0. apply Hno. auto.
Qed.

(* only the first entry for the account counts *)
Theorem first_signer_decides x pre s post h :
  Forall (fun s' => s_account s' <> h) pre -> s_account s = h ->
  check_scope_list x (pre ++ s :: post) h = check_signer x s.
Proof.
  induction 1 as [|s' t H Ht IH]; intros Hs; simpl.
  - rewrite (proj2 (N.eqb_eq _ _) Hs). reflexivity.
  - rewrite (proj2 (N.eqb_neq _ _) H). auto.
Qed.

(* ---- which contract state the group tests look at ----
   getContractGroups reads the contract's CURRENT state from ContractManagement at the moment of the check (for every
   hard-fork), so a contract that left a group by update, or destroyed itself, earlier in the same invocation no
   longer has it.  [with_table x t] is the context x with contract table t. *)
Definition with_table (x : wctx) (t : list (N * list N)) : wctx :=
  mk_wctx (calling x) (current x) (by_entry x) (read_states x) t.

Section table_dependence.
  Variable x : wctx.
  Variables t1 t2 : list (N * list N).
  Hypothesis Hcur : assoc (current x) t1 = assoc (current x) t2.
  Hypothesis Hcal : assoc (calling x) t1 = assoc (calling x) t2.

  Lemma groups_same h : h = current x \/ h = calling x ->
    contract_groups (with_table x t1) h = contract_groups (with_table x t2) h.
  Proof. unfold contract_groups, with_table. simpl. intros [-> | ->]; [rewrite Hcur | rewrite Hcal]; reflexivity. Qed.

  Lemma cmatch_same : forall c, cmatch (with_table x t1) c = cmatch (with_table x t2) c.
  Proof.
    induction c as [b | c IH | l IH | l IH | h | g | | h | g] using cond_ind2; try reflexivity.
    - simpl. rewrite IH. reflexivity.
    - rewrite !cmatch_and. induction IH as [|c t Hc Ht IHt]; simpl; auto. rewrite Hc, IHt. reflexivity.
    - rewrite !cmatch_or. induction IH as [|c t Hc Ht IHt]; simpl; auto. rewrite Hc, IHt. reflexivity.
    - simpl. unfold script_has_group. rewrite (groups_same (current x)); auto.
    - simpl. unfold script_has_group. rewrite (groups_same (calling x)); auto.
  Qed.

  Lemma eval_rules_same rules : eval_rules (with_table x t1) rules = eval_rules (with_table x t2) rules.
  Proof. induction rules as [|r t IH]; simpl; auto. rewrite cmatch_same, IH. reflexivity. Qed.

  (* the answer depends on the contract table only through the CURRENT groups of the executing and the calling contract *)
  Theorem witness_reads_only_current_and_calling signers h :
    check_hashed_witness (with_table x t1) signers h = check_hashed_witness (with_table x t2) signers h.
  Proof.
    unfold check_hashed_witness. simpl. destruct (negb (calling x =? 0) && (h =? calling x)); auto.
    unfold check_scope. destruct signers as [|s0 t0]; auto. generalize (s0 :: t0). intros l.
    induction l as [|s t IH]; simpl; auto. destruct (s_account s =? h); auto.
    unfold check_signer. simpl. rewrite (groups_same (current x)); auto. rewrite eval_rules_same. reflexivity.
  Qed.
End table_dependence.

(* evaluating the group tests against a STALE table (the groups the contract had when its context was loaded) is not
   sound: a contract that has left the group, or no longer exists, would still be witnessed *)
Definition stale_groups_statement : Prop :=
  forall x stale signers h,
    check_hashed_witness (with_table x stale) signers h = Ok true -> witness_spec x signers h.

Theorem stale_groups_refuted : ~ stale_groups_statement.
Proof.
  intros H.
  specialize (H (mk_wctx 9 2 true true []) [(2, [1])] [mk_signer 5 SCustomGroups [] [1] []] 5 eq_refl).
  apply witness_specb_iff in H. vm_compute in H. discriminate.
Qed.

(* ---- independence of other executions ----
   A node runs several executions concurrently, each with its own interop context.  The model's check is a function
   of (signers, the execution's OWN context).  To say what that excludes, [eval_rules_at] evaluates the rule list with
   the match context consulted for the i-th rule supplied by [ctx_at]: a fresh per-check context is the constant
   function; a match context kept in a shared mutable place may have been rebound by another execution between two
   rules. *)
Fixpoint eval_rules_at (ctx_at : nat -> wctx) (i : nat) (rules : list rule) : res :=
  match rules with
  | [] => Ok false
  | r :: t =>
      match cmatch (ctx_at i) (r_cond r) with
      | Err => Err
      | Ok true => Ok (is_allow (r_action r))
      | Ok false => eval_rules_at ctx_at (S i) t
      end
  end.

Theorem independent_of_other_executions x ctx_at rules i :
  (forall j, ctx_at j = x) -> eval_rules_at ctx_at i rules = eval_rules x rules.
Proof.
  intros H. revert i. induction rules as [|r t IH]; intros i; simpl; auto.
  rewrite H. destruct (cmatch x (r_cond r)) as [[|]|]; auto.
Qed.

(* whatever another execution y does (it only ever evaluates over ITS context), the pair of answers is the pair of
   sequential answers, in either order *)
Corollary two_executions_sequential x y sx sy hx hy cx cy :
  (forall j, cx j = x) -> (forall j, cy j = y) ->
  (eval_rules_at cx 0 sx, eval_rules_at cy 0 sy, check_hashed_witness x hx hy) =
  (eval_rules x sx, eval_rules y sy, check_hashed_witness x hx hy).
Proof. intros Hx Hy. rewrite (independent_of_other_executions x), (independent_of_other_executions y); auto. Qed.

(* a shared mutable match context does not have the property: rebinding it to another execution's context between
   two rules changes the answer *)
Definition shared_match_context_statement : Prop :=
  forall ctx_at x rules, ctx_at 0%nat = x -> eval_rules_at ctx_at 0 rules = eval_rules x rules.

Theorem shared_match_context_refuted : ~ shared_match_context_statement.
Proof.
  intros H.
  pose (x := mk_wctx 9 1 true true [(1, [1])]).
  pose (y := mk_wctx 9 1 true true [(1, [2])]).
  specialize (H (fun i => match i with O => x | _ => y end) x
                [mk_rule Deny (CGroup 2); mk_rule Allow (CGroup 1)] eq_refl).
  vm_compute in H. discriminate.
Qed.
