(* Record types of the tables that `nghx gen-auth-tables` prints from the Go source into coq/gen/Interops.v and
   coq/gen/NativeMethods.v (C16).  Definitions only. *)
From Coq Require Export List NArith String.
Export ListNotations.
Open Scope N_scope.

(* one entry of pkg/core/interops.go systemInterops *)
Record interop_entry := mk_interop {
  io_name : string;        (* interopnames.* *)
  io_id : N;               (* interopnames.ToID(name) *)
  io_price : N;            (* Price (multiplied by the base execution fee at run time) *)
  io_flags : N;            (* RequiredFlags as the callflag byte: 1 ReadStates, 2 WriteStates, 4 AllowCall, 8 AllowNotify *)
  io_active_from : N       (* ActiveFrom as the config.Hardfork number, 0 = always *)
}.

(* one method of one native contract for one hard-fork: interop.HFSpecificMethodAndPrice *)
Record native_entry := mk_native {
  nm_contract : string;    (* ContractMD.Name *)
  nm_name : string;        (* MD.Name *)
  nm_arity : N;            (* len(MD.Params (the declared argument list)) *)
  nm_flags : N;            (* RequiredFlags *)
  nm_safe : bool;          (* MD.Safe, as published in the native contract's manifest *)
  nm_void : bool           (* MD.ReturnType = Void *)
}.
